package main

// C13 — on partial failure the count names a prefix that really moved.
//
// The scripted peer serves the file itself and answers chosen request offsets with a failure
// status (every chunk index in turn, and PRNG index sets), in order and with held requests
// answered in a PRNG permutation, for every transfer API and concurrency option.
//
// Plans of 5-8 chunks for 1-3 workers put the failing STATUS in front of a worker that has served chunks before; the
// start offset rotates (zero, small, beyond the length of the call's buffer).
//
// The status codes include values beyond 255 whose low byte is that of SSH_FX_OK / SSH_FX_EOF and draws from all of
// uint32. Beside the scripted peer a real request server runs over handlers whose ReadAt / WriteAt fail at a byte offset
// with (0, err) and (n > 0, err) for every kind of error value (c13_fault.go).
//
// Direct oracles on (n, err), the bytes delivered / stored and the File offset:
//   err != nil; first n bytes moved intact and contiguously; err is the status of the LOWEST
//   failing offset (each failing offset gets its own message); io.EOF only at the true end of
//   file; a short count never comes with a nil error; ReadFrom: count == bytes consumed from the
//   source (measured by the source itself) and File offset == end of the intact prefix.
// Nothing is asserted about chunks beyond the first failing offset on the concurrent paths.

import (
	"bytes"
	"encoding/json"
	"errors"
	"fmt"
	"hash/fnv"
	"io"
	"math/rand"
	"os"
	"path/filepath"
	"runtime"
	"sort"
	"strings"
	"sync"

	"github.com/pkg/sftp"

	"verifharness/lib"
	"verifharness/wire"
)

func init() {
	register("c13", func(c *lib.Ctx) { xfInChild(c, "c13", checkC13) })
}

const xfKeyF6 = "readfrom-seq/short-last-chunk-write-error-masked"

// xfWant is the outcome the property prescribes.
type xfWant struct {
	N      int64   // bytes moved intact (prefix length)
	EOF    bool    // error must be io.EOF
	Fail   *xfFail // error must be this status
	FailAt int64
	SrcErr bool // error must be the source's own error
	Nil    bool // no error at all (no failing offset reached)
	// SrvEOF: the server itself answered the READ at FailAt with the status SSH_FX_EOF: that is where the file ends as
	// far as this transfer can know (EOF / Nil say what the call returns then)
	SrvEOF bool
}

func (w xfWant) errText() string {
	switch {
	case w.Nil:
		return "<nil>"
	case w.EOF:
		return "io.EOF"
	case w.SrcErr:
		return "the source's error"
	case w.Fail != nil:
		return fmt.Sprintf("status %d %q (request offset %d)", w.Fail.Code, w.Fail.Msg, w.FailAt)
	}
	return "?"
}

func xfErrIs(err error, f xfFail) bool {
	switch f.Code {
	case wire.EOF: // (a WRITE answered with the status SSH_FX_EOF: the package's error for that code is io.EOF)
		return err == io.EOF
	case wire.PermissionDenied:
		return err == os.ErrPermission
	case wire.NoSuchFile:
		return err == os.ErrNotExist
	}
	code, msg, _, ok := sftp.VerifStatusFields(err)
	return ok && code == f.Code && msg == f.Msg
}

func (w xfWant) errOK(err error) bool {
	switch {
	case w.Nil:
		return err == nil
	case w.EOF:
		return err == io.EOF
	case w.SrcErr:
		return errors.As(err, new(xfSrcErr))
	case w.Fail != nil:
		return xfErrIs(err, *w.Fail)
	}
	return false
}

// xfC13Want states the prescribed outcome: requests are looked at in ascending offset order and the
// first one that is not answered completely decides (n, err).
func xfC13Want(cs xfCase) xfWant {
	mp, S, o, L := cs.Cfg.MP, int64(cs.FileLen), cs.Off, cs.Len
	F := cs.failMap()
	fail := func(at int64, n int64) xfWant { f := F[at]; return xfWant{N: n, Fail: &f, FailAt: at} }
	switch cs.API {
	case "ReadAt", "Read":
		total := int64(0)
		for _, c := range xfPlan(mp, o, L) {
			got := 0
			for got < c.Len {
				ro := c.Off + int64(got)
				if f, bad := F[ro]; bad {
					if f.Code == wire.EOF {
						return xfWant{N: total, EOF: true, SrvEOF: true, FailAt: ro}
					}
					return fail(ro, total)
				}
				if ro >= S {
					return xfWant{N: total, EOF: true}
				}
				k := c.Len - got
				if int64(k) > S-ro {
					k = int(S - ro)
				}
				if cs.ShortCap > 0 && k > cs.ShortCap {
					k = cs.ShortCap
				}
				got += k
				total += int64(k)
			}
		}
		return xfWant{N: total, Nil: true}
	case "WriteTo":
		if cs.StatFail != nil && cs.Cfg.CR {
			return xfWant{N: 0, Fail: cs.StatFail, FailAt: -1}
		}
		cur := o
		for {
			// one packet-sized chunk at cur, refilled while the server answers short
			got := int64(0)
			for got < int64(mp) {
				ro := cur + got
				if f, bad := F[ro]; bad {
					if f.Code == wire.EOF {
						return xfWant{N: ro - o, Nil: true, SrvEOF: true, FailAt: ro}
					}
					return fail(ro, ro-o)
				}
				if ro >= S {
					// (the concurrent path probes end of file at the next multiple of the packet size instead of
					// at S; the generator keeps failures away from both probes unless they coincide)
					return xfWant{N: ro - o, Nil: true}
				}
				k := int64(mp) - got
				if k > S-ro {
					k = S - ro
				}
				if cs.ShortCap > 0 && k > int64(cs.ShortCap) {
					k = int64(cs.ShortCap)
				}
				got += k
			}
			cur += int64(mp)
		}
	default:
		if cs.SrcFailAfter > 0 {
			return xfWant{N: int64(cs.SrcFailAfter - 1), SrcErr: true}
		}
		plan := xfPlan(mp, o, L)
		for _, c := range plan {
			if _, bad := F[c.Off]; bad {
				return fail(c.Off, c.Off-o)
			}
		}
		return xfWant{N: int64(L), Nil: true}
	}
}

func xfC13Check(cs xfCase, out xfOutcome, fail xfFailer) (f6 bool) {
	S, o, L := cs.FileLen, cs.Off, cs.Len
	initial := xfFilePat(S)
	switch {
	case out.SetupErr != nil:
		fail("setup", "could not set the case up: "+out.SetupErr.Error(), nil, nil)
		return
	case out.Hang:
		fail("hang", "the call (or Seek/Close after it) did not return within 20 s", "return", "hang")
		return
	case out.Panic != nil:
		fail("panic", "the call panicked", "no panic", fmt.Sprint(out.Panic))
		return
	}
	w := xfC13Want(cs)
	isRF := cs.API == "ReadFrom" || cs.API == "ReadFromWithConcurrency"
	implicit := cs.API != "ReadAt" && cs.API != "WriteAt"
	got := fmt.Sprintf("(%d, %v)", out.N, out.Err)

	// the error
	if !w.errOK(out.Err) {
		switch {
		case out.Err == nil && isRF && cs.Path() == "sequential" && w.Fail != nil && L%cs.Cfg.MP != 0 &&
			w.FailAt == o+int64(L-L%cs.Cfg.MP):
			// known defect F6: the final short chunk's WRITE failed and ReadFrom returned nil
			f6 = true
			fail("F6", "sequential ReadFrom whose final short chunk's WRITE fails returns a nil error (io.ErrUnexpectedEOF from io.ReadFull masks the write error)",
				fmt.Sprintf("(%d, %s)", out.Consumed, w.errText()), got)
		case out.Err == nil:
			fail("nil-error", "a transfer with a failing chunk returned a nil error", "err = "+w.errText(), got)
		case w.Nil:
			fail("spurious-error", "no request below the end of the transfer was failed, yet an error was returned", "<nil>", got)
		default:
			fail("wrong-error", "the error is not the one belonging to the lowest failing offset", w.errText(), got)
		}
	}
	// io.EOF only at the true end of file
	if out.Err == io.EOF && cs.IsRead() && !(w.Fail != nil && w.FailAt < 0 && w.Fail.Code == wire.EOF) { // (a size query answered SSH_FX_EOF: that status is the call's error)
		if end := o + out.N; !(end == int64(S) || (o >= int64(S) && out.N == 0) || (w.SrvEOF && end == w.FailAt)) {
			fail("eof-not-at-end", "io.EOF reported although offset+n is not the end of the file", fmt.Sprintf("off+n == %d", S), fmt.Sprintf("off+n == %d", end))
		}
	}
	// the count
	if maxN := int64(L); out.N < 0 || (cs.API != "WriteTo" && out.N > maxN) {
		fail("count-outside-buffer", "the count lies outside [0, len] of the call's own buffer / source", fmt.Sprintf("0..%d", maxN), got)
	}
	switch {
	case isRF:
		if out.N != out.Consumed {
			fail("count-vs-consumed", "ReadFrom's count is not the number of bytes consumed from the source", out.Consumed, out.N)
		}
	default:
		if out.N != w.N {
			fail("count", "the count is not the length of the prefix below the lowest failing offset", fmt.Sprintf("(%d, %s)", w.N, w.errText()), got)
		}
		full := int64(L)
		if cs.API == "WriteTo" {
			full = int64(len(xfSlice(initial, o, S)))
			if w.SrvEOF {
				full = w.N // the server said: the file ends here
			}
		}
		if out.N < full && out.Err == nil {
			fail("short-count-nil-error", "a short count came with a nil error", "error", got)
		}
	}
	// the bytes
	prefixEnd := o + w.N // end of the intact prefix the property promises
	switch cs.API {
	case "ReadAt", "Read", "WriteTo":
		want := xfSlice(initial, o, int(out.N))
		if out.N < 0 || out.N > int64(len(initial))+1 || !bytes.Equal(out.Data, want) {
			fail("data", fmt.Sprintf("the first n bytes delivered are not the file's bytes [off, off+n) (first difference at %d)", xfFirstDiff(out.Data, want)), xfShort(want), xfShort(out.Data))
		}
		if !bytes.Equal(out.FileAfter, initial) {
			fail("file-changed", "a read changed the served file", xfShort(initial), xfShort(out.FileAfter))
		}
	default:
		data := xfPat(cs.Seed, L)
		n := w.N
		if !isRF {
			n = out.N // what the call claims
			if n > int64(L) || n < 0 {
				n = 0
			}
		}
		wantPrefix := xfOverwrite(initial, o, data[:n])
		upto := int(o + n)
		if n == 0 {
			upto = len(initial)
			if int(o) < upto {
				upto = int(o)
			}
		}
		if len(out.FileAfter) < upto || !bytes.Equal(out.FileAfter[:upto], wantPrefix[:upto]) {
			fail("prefix-content", fmt.Sprintf("bytes below off+n are not all in the served file (first difference at byte %d of %d)", xfFirstDiff(out.FileAfter, wantPrefix[:upto]), upto),
				xfShort(wantPrefix[:upto]), xfShort(out.FileAfter))
		}
		if cs.Path() != "concurrent" {
			// sequential loops stop at the first failing chunk: nothing beyond the prefix was written
			exact := xfOverwrite(initial, o, data[:w.N])
			if !bytes.Equal(out.FileAfter, exact) {
				fail("wrote-beyond-failure", "a sequential write path changed the file beyond the first failing chunk", xfShort(exact), xfShort(out.FileAfter))
			}
		}
	}
	// the offset
	wantOff := int64(0)
	if implicit {
		wantOff = prefixEnd
		if w.Nil && cs.API == "WriteTo" && cs.Path() == "concurrent" && out.OffAfter != wantOff {
			mp := int64(cs.Cfg.MP)
			if out.OffAfter == o+(w.N+mp-1)/mp*mp {
				wantOff = out.OffAfter // F12, asserted by C12
			}
		}
	}
	if out.OffErr != nil || out.OffAfter != wantOff {
		what := "File offset after the call is not the end of the intact prefix"
		if !implicit {
			what = "ReadAt/WriteAt moved the File offset"
		}
		fail("offset", what, wantOff, fmt.Sprintf("%d (%v)", out.OffAfter, out.OffErr))
	}
	if out.CloseErr != nil {
		fail("close", "Close after the transfer failed", nil, out.CloseErr.Error())
	}
	if out.Closes != 1 {
		fail("close-count", "not exactly one CLOSE request reached the peer", 1, out.Closes)
	}
	// the wire: everything below the decisive offset was asked for, nothing outside the plan
	if cs.StatFail == nil && cs.SrcFailAfter == 0 {
		e := xfExpectWire(cs)
		limit := int64(1) << 62
		if w.Fail != nil || w.SrvEOF {
			limit = w.FailAt
		}
		var req []xfChunk
		late := map[xfChunk]int{}
		for _, c := range e.Required {
			if c.Off <= limit {
				req = append(req, c)
			} else {
				late[c]++
			}
		}
		opt := func(c xfChunk) bool {
			if cs.Path() != "concurrent" {
				return false
			}
			return late[c] > 0 || (e.Optional != nil && e.Optional(c))
		}
		for _, q := range out.Log {
			if q.Malformed != "" || q.Stale {
				fail("wire-malformed", fmt.Sprintf("request type %d malformed (%s) or on a stale handle", q.Typ, q.Malformed), nil, nil)
				break
			}
		}
		if d := xfWireCheck(xfDataReqs(out.Log, e.Typ), req, opt); d != "" {
			fail("wire-plan", "requests on the wire: every chunk up to the first failing offset must be asked for once, none outside the plan (sequential paths: none beyond it): "+d,
				xfPlanText(req), xfPlanText(xfDataReqs(out.Log, e.Typ)))
		}
	}
	return
}

// xfFailCodes rotate so that the status-to-error mapping of every interesting code is exercised.
// All codes of the protocol that say "not OK" (1..8) and codes it does not define (9, 255, 2^32-1); FAILURE is the most
// frequent. SSH_FX_EOF is one of them: as the answer to a READ it is the server's way of saying where the file ends, as
// the answer to a WRITE it is a failure like any other.
//
// The code of a status is a uint32 and a client has to pass on whatever it does not know: the codes whose LOW BYTE (low
// 16 bits) is that of SSH_FX_OK or SSH_FX_EOF - 256, 257, 512, 513, 0x10000, 0x10001, 0xFFFFFF00, 0xFFFFFF01 - are
// failures like any other (never success, never end of file). Each job adds draws from the whole uint32 range
// (xfJobCodes).
var xfFailCodes = []uint32{wire.Failure, wire.PermissionDenied, wire.EOF, wire.OpUnsupported, wire.Failure, wire.BadMessage, wire.NoSuchFile, wire.ConnectionLost,
	wire.NoConnection, 9, wire.EOF, 255, 4294967295,
	256, 257, 512, 513, 0x10000, 0x10001, 0xFFFFFF00, 0xFFFFFF01}

// xfJobCodes is the code table of one job: xfFailCodes and n codes drawn from all of uint32 (the nine the protocol
// defines left out: they are in the table already and SSH_FX_OK is no failure).
func xfJobCodes(rng *rand.Rand, n int) []uint32 {
	out := append([]uint32(nil), xfFailCodes...)
	for ; n > 0; n-- {
		c := rng.Uint32()
		if c < 9 {
			c += 9
		}
		out = append(out, c)
	}
	return out
}

// xfCodeClass names a status code for the histogram.
func xfCodeClass(c uint32) string {
	switch {
	case c <= 9 || c == 255 || c == 4294967295:
		return fmt.Sprint(c)
	case c&0xff == 0:
		return ">255,low-byte-0(OK)"
	case c&0xff == 1:
		return ">255,low-byte-1(EOF)"
	case c > 255:
		return ">255,other"
	}
	return "10..254"
}

// xfHasEOFCode: some request of the case is answered with the status SSH_FX_EOF.
func xfHasEOFCode(cs xfCase) bool {
	for _, f := range cs.Fail {
		if f.Code == wire.EOF {
			return true
		}
	}
	return cs.StatFail != nil && cs.StatFail.Code == wire.EOF
}

func xfMkFail(codes []uint32, offs []int64, k int) map[string]xfFail {
	m := map[string]xfFail{}
	for i, o := range offs {
		code := codes[(k+5*i)%len(codes)] // (every element its own code: which one decides depends on the offsets)
		m[fmt.Sprint(o)] = xfFail{Code: code, Msg: fmt.Sprintf("fail@%d", o)}
	}
	return m
}

func checkC13(c *lib.Ctx) {
	r := c.R
	res := &xfRes{r: r}
	thorough := c.Tier == "thorough"
	r.Rule = "scripted peer serving the file itself; for every client option set (quick: every (mp,conc) pair twice with rotating booleans; thorough: full product) x API {ReadAt, Read, WriteTo, WriteAt, Write, ReadFrom(Len/Size/Stat/LimitedReader/opaque), ReadFromWithConcurrency(0,1,3)} x chunk counts {1,2,3,conc+2,... and one of 5..8 for 1-3 workers (thorough: 1..8): failing indices >= MaxConcurrentRequestsPerFile reach a worker that has already served a successful chunk} x start offset rotating through {0, 1, mp+1, 2mp, len+1, 3len+mp+7, 4099} (the count must lie in [0, len] of the call's own buffer) x tail {aligned, 1, mp-1} x read geometry {ends at EOF, file longer, crosses EOF}: fail EVERY chunk index in turn (status codes rotating through ALL codes that are not OK: 4,3,1(SSH_FX_EOF),8,5,2,7,6 and the undefined 9,255,2^32-1, one message per offset; SSH_FX_EOF as the answer to a READ is the server's end of file: the read returns (prefix, io.EOF), WriteTo (prefix, nil); as the answer to a WRITE it is a failure whose error is io.EOF) and PRNG index sets of 2-4 chunks (every element its own code), each in order and with held requests answered in a PRNG permutation (window up to workers+1); plus a failing size query for WriteTo, a failing source for ReadFrom, short DATA replies with a failing refill request on the sequential read paths; plus, on every concurrent path, PAIRS of events of different kinds in one transfer of 3-5 chunks: chunk i {short DATA because the file ends inside it, SSH_FX_EOF because it ends at its start (ReadAt/Read), failure code a} and chunk j > i {failure code b != a} for the chunk pairs (0,1),(n-2,n-1),(0,n-1),(mid,mid+1) (thorough: all pairs, 3 rotations), each answered in BOTH orders by the peer (reply_order: a request is held until the ones listed before it are answered, 250 us pause after each; the histogram pair|... says how often the stated order was achieved); non-trivial = more than one chunk; distinct by (options, api, sizes, failing set, window, reply order)"
	r.Rule += "; the status codes rotate through 21 fixed values - the ones above and 256, 257, 512, 513, 0x10000, 0x10001, 0xFFFFFF00, 0xFFFFFF01 (beyond 255, low byte / low 16 bits those of SSH_FX_OK and SSH_FX_EOF: failures like any other, reported with the code as given, never nil, never io.EOF) - plus 2 codes per job drawn from the whole uint32 range (histogram status-code=<class>|api|path); plus HANDLER-SIDE failures on a real request server {allocator off, on} (thorough: also max-tx 65536) x one covering option set (thorough two) x every API variant x 3 (thorough 12; reads x3) geometries (c13_fault.go, xfer_fault.go): the handler's ReadAt / WriteAt fails at a byte offset At in {chunk start, +1, chunk end-1, 0, size-1, size, end of the transfer} returning (0, err) or (the bytes below At, err) with err rotating through 29 error values (io.EOF = the file ends at At), through handles opened read-only (Fileread, served by fileget), read-write (OpenFile, fileputget) and write-only (Filewrite, fileput); every other case has a SECOND fault further out (requests starting at or beyond At2 = the next chunk or the one after fail with another value that the client can tell apart), a third of the faults cover 1, 2 or mp bytes only (a bad sector: requests beyond it are served); only transfers that reach the fault; oracles: a non-nil error that is what the server makes of the LOWER fault's value (status code and message; codes 1/2/3 = io.EOF / os.ErrNotExist / os.ErrPermission), io.EOF only for the handler value io.EOF and then exactly the transfer of a file of At bytes, chunks-wholly-below-At <= n <= bytes below At for reads (writes: n = the chunks wholly below At, all of them stored; ReadFrom: n = bytes consumed), delivered bytes = the file's, stored prefix = the data, sequential write paths send nothing beyond the failing chunk, offset = start + n (ReadAt/WriteAt: unchanged; ReadFrom: end of the intact prefix), Close releases the handle; keys <api>/<path>/handler-fault/<op>/<site>"
	model := xfProbeModel(c)
	xfProbeDefects(&model)
	if model.Seq {
		r.Note("model comparison through xfer.readat / xfer.seq with failspec (model switches wtm=%d rfm=%d taken from the implementation's behaviour on the two known-defect inputs)", model.WTM, model.RFM)
	} else {
		r.Note("xfer.seq not available: outcomes are judged by the direct oracle only (expected (n, err) computed by the harness from the property text)")
	}
	root, err := lib.MkScratch("vh-c13-")
	if err != nil {
		r.Fail(lib.Failure{Kind: "tie", Key: "tmpdir", What: err.Error()})
		return
	}
	defer os.RemoveAll(root)
	mc := &xfSeqCompare{}
	var f6mu sync.Mutex
	f6seen := 0

	runCase := func(cs xfCase, hold *xfPeerHold) {
		if lib.Stop(xfClass(cs.Srv) + "/" + cs.API) {
			return
		}
		out := xfExec(cs, nil, root, hold)
		path := cs.Path()
		res.Case(cs.Text(), cs.Len > cs.Cfg.MP || cs.FileLen > cs.Cfg.MP)
		api := cs.API
		if cs.API == "ReadFrom" {
			api += "(" + cs.Src + ")"
		} else if cs.API == "ReadFromWithConcurrency" {
			api += fmt.Sprintf("(%d)", cs.RFC)
		}
		kind := "one-chunk"
		switch {
		case cs.StatFail != nil:
			kind = "size-query"
		case cs.SrcFailAfter > 0:
			kind = "source"
		case len(cs.Fail) > 1:
			kind = "chunk-set"
		case len(cs.Fail) == 0:
			kind = "none"
		}
		w := xfC13Want(cs)
		ek := "nil"
		switch {
		case w.EOF:
			ek = "eof"
		case w.SrcErr:
			ek = "source-error"
		case w.Fail != nil:
			ek = "status-" + xfCodeClass(w.Fail.Code)
		}
		order := "in-order"
		if cs.Window > 1 {
			order = "permuted"
		}
		pos := "n/a"
		if w.Fail != nil && w.FailAt >= 0 {
			switch {
			case w.N == 0:
				pos = "first-chunk"
			case cs.API != "WriteTo" && w.FailAt+int64(cs.Cfg.MP) >= cs.Off+int64(cs.Len):
				pos = "last-chunk"
			case cs.API == "WriteTo" && w.FailAt+int64(cs.Cfg.MP) >= int64(cs.FileLen):
				pos = "last-chunk"
			default:
				pos = "middle-chunk"
			}
		}
		res.Hist("api="+api+"|path="+path, "api="+cs.API+"|fail="+kind, "api="+cs.API+"|order="+order, "want-err="+ek+"|path="+path,
			"failing="+pos+"|path="+path, fmt.Sprintf("opt=mp%d|c%d", cs.Cfg.MP, cs.Cfg.Conc),
			fmt.Sprintf("opt=cr%d|cw%d|fstat%d", xfB(cs.Cfg.CR), xfB(cs.Cfg.CW), xfB(cs.Cfg.Fstat)))
		if cs.ShortCap > 0 {
			res.Hist("peer=short-data-replies|path=" + path)
		}
		if h := xfPairHist(cs, out.Ordered); h != "" {
			res.Hist(h)
		}
		for _, f := range cs.Fail {
			res.Hist(fmt.Sprintf("status-code=%s|api=%s|path=%s", xfCodeClass(f.Code), cs.API, path))
		}
		if w.Fail != nil && w.FailAt >= cs.Off && path == "concurrent" {
			idx, workers := int((w.FailAt-cs.Off)/int64(cs.Cfg.MP)), cs.EffConc()
			nch := (cs.Len + cs.Cfg.MP - 1) / cs.Cfg.MP
			if cs.API == "WriteTo" {
				nch = (cs.FileLen - int(cs.Off) + cs.Cfg.MP - 1) / cs.Cfg.MP
			}
			b := "failing-index<workers"
			if idx >= workers {
				b = "failing-index>=workers(the worker has served a chunk before)"
			}
			res.Hist(fmt.Sprintf("worker-reuse|%s|workers=%d|chunks=%s|order=%s", b, min(workers, 4), map[bool]string{true: "5-8", false: "other"}[nch >= 5 && nch <= 8], order))
			if idx >= workers {
				res.Hist("worker-reuse|api=" + cs.API + "|" + b)
			}
		}
		if !cs.IsRead() && len(cs.Fail) > 0 {
			so := "0"
			switch {
			case cs.Off > int64(cs.Len):
				so = "beyond-len-of-the-buffer"
			case cs.Off > 0:
				so = "non-zero"
			}
			res.Hist("failing-write|api=" + cs.API + "|start-offset=" + so)
		}
		fail := func(site, what string, exp, act any) {
			k := "oracle"
			key := cs.API + "/" + path + "/" + site
			switch site {
			case "setup":
				k = "tie"
			case "F6":
				key = xfKeyF6
			}
			res.Fail(lib.Failure{Kind: k, Key: key, What: what, Input: cs, Expected: exp, Actual: act})
		}
		if xfC13Check(cs, out, fail) {
			f6mu.Lock()
			f6seen++
			f6mu.Unlock()
			res.Hist("known=F6-observed")
		}
		if out.SetupErr == nil && !out.Hang && out.Panic == nil && cs.SrcFailAfter == 0 && cs.ShortCap == 0 {
			if xfHasEOFCode(cs) {
				// the model's server failures are `srv <code>` for every code: it does not know that the package reads the
				// code SSH_FX_EOF as io.EOF (end of file for a READ). Judged by the direct oracle only.
				res.Hist("model=not-compared|a request is answered with the status SSH_FX_EOF")
			} else {
				mc.addCase(model, cs, out, 32768)
			}
		}
	}

	// runFault runs one transfer against the request server whose handler fails (c13_fault.go).
	runFault := func(cs xfCase, real *xfReal, dir string) (hung bool) {
		out := xfExec(cs, real, dir, nil)
		path := cs.Path()
		res.Case(cs.Text(), cs.Len > cs.Cfg.MP || cs.FileLen > cs.Cfg.MP)
		ft := cs.HFault
		kind, _ := xfHErrByName(ft.Err)
		val := "failure"
		if kind.EOF && cs.IsRead() {
			val = "end-of-file"
		}
		pos := "n/a"
		if lo, total := ft.At-cs.Off, int64(cs.Len); ft.At >= cs.Off {
			if cs.API == "WriteTo" {
				total = int64(cs.FileLen) - cs.Off
			}
			switch mp := int64(cs.Cfg.MP); {
			case lo < mp:
				pos = "first-chunk"
			case lo/mp*mp+mp >= total:
				pos = "last-chunk"
			default:
				pos = "middle-chunk"
			}
		}
		res.Hist("handler-fault|api="+cs.API+"|path="+path, "handler-fault|op="+ft.Op+"|err="+ft.Err,
			fmt.Sprintf("handler-fault|op=%s|value=%s|n>0-with-error=%v|second-fault-further-out=%v|bad-bytes-only=%v|path=%s", ft.Op, val, ft.Partial, ft.Err2 != "", ft.Span > 0, path),
			"handler-fault|open-served-by="+out.HandlerOp.Via+"|op="+ft.Op+"|path="+path, "handler-fault|failing="+pos+"|path="+path,
			"handler-fault|srv="+cs.Srv.String(), fmt.Sprintf("opt=mp%d|c%d", cs.Cfg.MP, cs.Cfg.Conc))
		fail := func(site, what string, exp, act any) {
			k := "oracle"
			if site == "setup" {
				k = "tie"
			}
			res.Fail(lib.Failure{Kind: k, Key: cs.API + "/" + path + "/" + site, What: what, Input: cs, Expected: exp, Actual: act})
		}
		xfC13FaultCheck(cs, out, fail)
		return out.Hang
	}

	if c.Replay != "" {
		inputs, err := xfReplayInputs(c.Replay)
		if err != nil {
			r.Fail(lib.Failure{Kind: "tie", Key: "replay", What: err.Error()})
			return
		}
		for _, raw := range inputs {
			var cs xfCase
			if err := json.Unmarshal(raw, &cs); err != nil || cs.API == "" {
				continue
			}
			if cs.HFault != nil && cs.Srv.Kind == "rs" {
				real, err := xfStartPair(cs.Srv, cs.Cfg, root)
				if err != nil {
					r.Fail(lib.Failure{Kind: "tie", Key: "setup/pair", What: err.Error()})
					return
				}
				runFault(cs, real, root)
				real.Shutdown()
				continue
			}
			cs.Srv = xfSrvSpec{Kind: "peer"}
			runCase(cs, nil)
		}
		mc.compare(c, "c13")
		return
	}

	var jobs []xfJob
	rot := int(c.Seed % 8)
	if thorough {
		for _, cfg := range xfAllCfgs() {
			jobs = append(jobs, xfJob{Cfg: cfg, Seed: c.Rand.Int63(), Idx: len(jobs)})
		}
	} else {
		for rr := 0; rr < 2; rr++ {
			for _, cfg := range xfCoverCfgs(rot + rr*3 + 1) {
				if rr == 1 { // the second pass flips the two concurrency switches so both paths are seen per (mp, conc)
					cfg.CR, cfg.CW = !cfg.CR, !cfg.CW
				}
				jobs = append(jobs, xfJob{Cfg: cfg, Seed: c.Rand.Int63(), Idx: len(jobs)})
			}
		}
	}
	variants := []xfAPIVariant{{API: "ReadAt"}, {API: "Read"}, {API: "WriteTo"}, {API: "WriteAt"}, {API: "Write"}}
	for _, k := range xfSrcKinds[:5] {
		variants = append(variants, xfAPIVariant{API: "ReadFrom", Src: k})
	}
	if thorough {
		variants = append(variants, xfAPIVariant{API: "ReadFrom", Src: "size-neg"}, xfAPIVariant{API: "ReadFrom", Src: "opaque1"})
	}
	for _, n := range []int{0, 1, 3} {
		variants = append(variants, xfAPIVariant{API: "ReadFromWithConcurrency", Src: "opaque", RFC: n})
	}
	// handler-side failures on the request server (c13_fault.go)
	for si, sp := range []xfSrvSpec{{Kind: "rs"}, {Kind: "rs", Alloc: true}, {Kind: "rs", MaxTx: 65536}, {Kind: "rs", Alloc: true, MaxTx: 65536}} {
		if !thorough && si >= 2 {
			break
		}
		cfgs := xfCoverCfgs(si*3 + rot + 2)
		if thorough {
			cfgs = append(cfgs, xfCoverCfgs(si*3+rot+5)...)
		}
		for _, cfg := range cfgs {
			jobs = append(jobs, xfJob{Fault: true, Spec: sp, Cfg: cfg, Seed: c.Rand.Int63(), Idx: len(jobs)})
		}
	}
	var sampleMu sync.Mutex
	sampled := map[string]bool{}
	spec := xfSrvSpec{Kind: "peer"}

	xfParallel(len(jobs), runtime.GOMAXPROCS(0), func(w, ji int) {
		job := jobs[ji]
		cfg := job.Cfg
		mp := cfg.MP
		rng := rand.New(rand.NewSource(job.Seed))
		if job.Fault {
			dir := filepath.Join(root, fmt.Sprintf("j%d", job.Idx))
			if err := os.Mkdir(dir, 0o755); err != nil {
				res.Fail(lib.Failure{Kind: "tie", Key: "tmpdir", What: err.Error()})
				return
			}
			defer os.RemoveAll(dir)
			real, err := xfStartPair(job.Spec, cfg, dir)
			if err != nil {
				res.Fail(lib.Failure{Kind: "tie", Key: "setup/pair", What: err.Error(), Input: job})
				return
			}
			defer func() { real.Shutdown() }()
			per := 3
			if thorough {
				per = 12
			}
			hangs := 0
			for _, cs := range xfC13FaultCases(rng, job.Spec, cfg, variants, job.Idx, per) {
				if lib.Stop(xfClass(cs.Srv)+"/"+cs.API) || hangs >= 2 {
					return
				}
				if runFault(cs, real, dir) {
					// (the client of a hung call is not used again)
					hangs++
					real.Shutdown()
					if real, err = xfStartPair(job.Spec, cfg, dir); err != nil {
						res.Fail(lib.Failure{Kind: "tie", Key: "setup/pair", What: err.Error(), Input: job})
						return
					}
				}
			}
			return
		}
		codes := xfJobCodes(rng, 2) // (23 codes: the stride 5 of xfMkFail and the strides of the pairs walk through all of them)
		hold := &xfPeerHold{slot: w}
		defer hold.Close()
		var counts []int
		switch {
		case mp > 1000 && thorough:
			counts = []int{1, 2, 3, 5}
		case mp > 1000:
			counts = []int{1, 3}
		case thorough:
			// (up to 8 chunks also for 1-3 workers: the failing chunk then reaches a worker that has served others before)
			for n := 1; n <= 8; n++ {
				counts = append(counts, n)
			}
			if cfg.Conc == 64 {
				counts = append(counts, 66, 70)
			}
		default:
			counts = []int{1, 2, 3}
			if n := cfg.Conc + 2; n > 3 {
				if n > 6 {
					n = 6
				}
				counts = append(counts, n)
			}
			if cfg.Conc <= 3 {
				// a plan of 5-8 chunks for 1-3 workers: every failing index >= the number of workers is answered to a
				// worker that has already served a successful chunk (the length rotates with job and seed)
				if n := 5 + (job.Idx+rot)%4; n != counts[len(counts)-1] {
					counts = append(counts, n)
				}
			}
		}
		tails := map[int]bool{0: true, 1 % mp: true, mp - 1: true}
		var tl []int
		for t := range tails {
			tl = append(tl, t)
		}
		sort.Ints(tl)
		k := job.Idx
		for vi, v := range variants {
			// two events of different kinds in one transfer, answered in both orders (c13_pairs.go)
			for rep := 0; rep < map[bool]int{false: 1, true: 3}[thorough]; rep++ {
				for _, cs := range xfC13PairCases(rng, codes, cfg, v, job.Idx*7+vi*3+rot+rep*5, thorough) {
					runCase(cs, hold)
				}
			}
			for _, nch := range counts {
				for _, tail := range tl {
					if !thorough && mp > 1000 && tail == 1 {
						continue
					}
					if nch >= 66 && tail != 1%mp {
						continue
					}
					k++
					last := tail
					if last == 0 {
						last = mp
					}
					L := (nch-1)*mp + last
					// start offsets rotate deterministically: zero, inside the first packets, beyond the length of the
					// call's own buffer (a count computed from absolute offsets shows there), and unaligned far ones
					startOffs := []int64{0, 1, int64(mp) + 1, 0, int64(2 * mp), int64(L) + 1, 0, int64(3*L + mp + 7), 4099}
					o := startOffs[k%len(startOffs)]
					base := xfCase{Srv: spec, Cfg: cfg, API: v.API, Src: v.Src, RFC: v.RFC, RW: rng.Intn(2) == 0, Off: o, Len: L, Seed: rng.Intn(251), Window: 1}
					plan := xfPlan(mp, o, L)
					var cand []int64 // offsets that may be failed
					for _, c := range plan {
						cand = append(cand, c.Off)
					}
					switch v.API {
					case "ReadAt", "Read":
						switch rng.Intn(4) {
						case 0:
							base.FileLen = int(o) + L + mp + 1
						case 1:
							if L > 1 {
								base.FileLen = int(o) + L - 1 // the last chunk crosses end of file
								break
							}
							fallthrough
						default:
							base.FileLen = int(o) + L
						}
					case "WriteTo":
						base.FileLen = int(o) + L
						base.Len = 0
						if tail == 0 {
							cand = append(cand, o+int64(L)) // the end-of-file probe itself, when aligned
						}
					default:
						base.FileLen = []int{0, int(o) + L, int(o) + L/2, int(o) + L + 3}[rng.Intn(4)]
					}
					// fail sets: each single offset, then PRNG sets
					var sets [][]int64
					for _, co := range cand {
						sets = append(sets, []int64{co})
					}
					nsets := 2
					if thorough {
						nsets = 4
					}
					for s := 0; s < nsets && len(cand) > 1; s++ {
						n := 2 + rng.Intn(3)
						if n > len(cand) {
							n = len(cand)
						}
						perm := rng.Perm(len(cand))[:n]
						var set []int64
						for _, i := range perm {
							set = append(set, cand[i])
						}
						sets = append(sets, set) // first element gets the rotating code; it need not be the lowest
					}
					if len(sets) > 14 && !thorough {
						sets = append(sets[:6], sets[len(sets)-8:]...)
					}
					for si, set := range sets {
						cs := base
						if v.API == "WriteTo" {
							// keep decisive failures at or below end of file (see xfC13Want): drop sets whose lowest offset lies beyond it
							min := set[0]
							for _, x := range set {
								if x < min {
									min = x
								}
							}
							if min > int64(cs.FileLen) {
								continue
							}
						}
						cs.Fail = xfMkFail(codes, set, k+si)
						runCase(cs, hold)
						if cs.Path() == "concurrent" {
							cp := cs
							cp.PermSeed = rng.Int63() >> 11 // (below 2^53: survives a JSON round trip through float64)
							cp.Window = xfPickWindow(rng, cp)
							runCase(cp, hold)
						}
						tag := cs.API + "/" + cs.Path()
						sampleMu.Lock()
						if !sampled[tag] && len(set) > 1 && mp < 100 && len(sampled) < 12 {
							sampled[tag] = true
							res.Sample(cs)
						}
						sampleMu.Unlock()
					}
					// extras
					switch {
					case v.API == "WriteTo" && cfg.CR:
						cs := base
						cs.StatFail = &xfFail{Code: codes[k%len(codes)], Msg: "size query refused"}
						runCase(cs, hold)
					case (v.API == "ReadFrom" || v.API == "ReadFromWithConcurrency") && v.Src == "opaque":
						cs := base
						cs.SrcFailAfter = 1 + rng.Intn(L+1)
						runCase(cs, hold)
					case (v.API == "ReadAt" || v.API == "Read" || v.API == "WriteTo") && base.Path() != "concurrent" && (!cfg.CR || base.Path() == "single") && mp > 1:
						// short DATA replies and a failure at one of the refill offsets
						cs := base
						cs.ShortCap = 1 + rng.Intn(mp-1)
						if mp > 1000 {
							cs.ShortCap = 5000 + rng.Intn(9000)
						}
						end := int64(cs.FileLen)
						if v.API != "WriteTo" && o+int64(L) < end {
							end = o + int64(L)
						}
						var offs []int64
						if v.API == "WriteTo" {
							end = int64(cs.FileLen)
						}
						for _, ch := range plan {
							for x := ch.Off; x < ch.Off+int64(ch.Len) && x < end; x += int64(cs.ShortCap) {
								offs = append(offs, x)
							}
						}
						if len(offs) > 0 {
							cs.Fail = xfMkFail(codes, []int64{offs[rng.Intn(len(offs))]}, k)
						}
						runCase(cs, hold)
					}
				}
			}
		}
	})
	if f6seen > 0 {
		r.Note("known defect F6 (key %s) observed on %d inputs", xfKeyF6, f6seen)
	}
	mc.compare(c, "c13")
}

// ---------- model comparison through xfer.readat / xfer.seq ----------

type xfSeqLine struct {
	line   string
	calls  string // implementation's per-call text
	file   string // implementation's "<len>:<hash>" of the served file afterwards ("" = not comparable)
	maskN  bool   // the count of the last call is schedule-dependent: compare everything but n
	input  any
	readat bool // the model answers one token string that must equal `calls` (xfer.readat, xfer.plan)
}

type xfSeqCompare struct {
	oneIn int // > 1: only every oneIn-th line (by hash) is kept
	mu    sync.Mutex
	seen  map[string]bool
	items []xfSeqLine
}

func (m *xfSeqCompare) add(it xfSeqLine) {
	if m.oneIn > 1 {
		// deterministic thinning (by the text of the line) where a tier produces millions of lines
		h := fnv.New32a()
		h.Write([]byte(it.line))
		if h.Sum32()%uint32(m.oneIn) != 0 {
			return
		}
	}
	m.mu.Lock()
	defer m.mu.Unlock()
	if m.seen == nil {
		m.seen = map[string]bool{}
	}
	k := it.line + "\x00" + it.calls + "\x00" + it.file
	if m.seen[k] {
		return
	}
	m.seen[k] = true
	m.items = append(m.items, it)
}

func xfFailSpec(cs xfCase) string {
	var parts []string
	pre := "w"
	if cs.IsRead() {
		pre = "r"
	}
	F := cs.failMap()
	var offs []int64
	for o := range F {
		offs = append(offs, o)
	}
	sort.Slice(offs, func(i, j int) bool { return offs[i] < offs[j] })
	for _, o := range offs {
		parts = append(parts, fmt.Sprintf("%s%d=%d", pre, o, F[o].Code))
	}
	if cs.StatFail != nil {
		parts = append(parts, fmt.Sprintf("s=%d", cs.StatFail.Code))
	}
	if len(parts) == 0 {
		return "-"
	}
	return strings.Join(parts, ",")
}

// xfSeqCall renders one transfer call in the driver's call syntax ("" when it has none).
func xfSeqCall(cs xfCase) string {
	switch cs.API {
	case "ReadAt":
		return fmt.Sprintf("ra:%d:%d", cs.Len, cs.Off)
	case "Read":
		return fmt.Sprintf("r:%d", cs.Len)
	case "WriteTo":
		return "wt"
	case "WriteAt":
		return fmt.Sprintf("wa:%d:%d:%d", cs.Len, cs.Seed, cs.Off)
	case "Write":
		return fmt.Sprintf("w:%d:%d", cs.Len, cs.Seed)
	case "ReadFrom":
		switch cs.Src {
		case "len", "size", "stat", "limited":
			return fmt.Sprintf("rf:%d:%d:1", cs.Len, cs.Seed)
		case "opaque", "opaque1":
			return fmt.Sprintf("rf:%d:%d:0", cs.Len, cs.Seed)
		}
		return ""
	case "ReadFromWithConcurrency":
		return fmt.Sprintf("rfc:%d:%d:%d", cs.Len, cs.Seed, cs.RFC)
	}
	return ""
}

func (m *xfSeqCompare) addCase(model xfModel, cs xfCase, out xfOutcome, maxTx int) {
	if cs.NoPerm {
		return
	}
	if cs.API == "ReadAt" && model.ReadAt {
		m.add(xfSeqLine{readat: true, input: cs,
			line:  fmt.Sprintf("xfer.readat %s %d %d %d %s", model.cfgToken(cs.Cfg, maxTx), cs.FileLen, cs.Off, cs.Len, xfFailSpec(cs)),
			calls: fmt.Sprintf("%d %s %d", out.N, xfErrClass(out.Err), xfHash(out.Data))})
		return
	}
	if !model.Seq {
		return
	}
	call := xfSeqCall(cs)
	if call == "" {
		return
	}
	implicit := cs.API != "ReadAt" && cs.API != "WriteAt"
	calls, impl := call, ""
	if implicit && cs.Off != 0 {
		calls = fmt.Sprintf("sk:%d:0;%s", cs.Off, call)
		impl = fmt.Sprintf("%d:%d:ok:7;", cs.Off, cs.Off)
	}
	impl += fmt.Sprintf("%d:%d:%s:%d", out.OffAfter, out.N, xfErrClass(out.Err), xfHash(out.Data))
	it := xfSeqLine{input: cs, line: fmt.Sprintf("xfer.seq %s %d %s %s", model.cfgToken(cs.Cfg, maxTx), cs.FileLen, calls, xfFailSpec(cs)),
		calls: impl, file: fmt.Sprintf("%d:%d", len(out.FileAfter), xfHash(out.FileAfter))}
	if len(cs.Fail) > 0 && cs.Path() == "concurrent" && !cs.IsRead() {
		// which chunks beyond the failing one were sent, and how much the source had handed out, depends on the schedule
		it.file = ""
		it.maskN = cs.API == "ReadFrom" || cs.API == "ReadFromWithConcurrency"
	}
	m.add(it)
}

func xfMaskN(calls string) string {
	i := strings.LastIndexByte(calls, ';')
	last := calls[i+1:]
	f := strings.Split(last, ":")
	if len(f) == 4 {
		f[1] = "*"
	}
	return calls[:i+1] + strings.Join(f, ":")
}

func xfBigLine(line string) bool {
	f := strings.Fields(line)
	if len(f) < 2 || strings.HasPrefix(f[0], "xfer.plan") {
		return false // (plans are arithmetic, cheap at any size)
	}
	mp := 0
	for _, ch := range f[1] {
		if ch < '0' || ch > '9' {
			break
		}
		mp = mp*10 + int(ch-'0')
	}
	return mp >= 1000
}

func xfBigBudget(c *lib.Ctx) int {
	if c.Tier == "thorough" {
		return 3000
	}
	return 150
}

func (m *xfSeqCompare) compare(c *lib.Ctx, prefix string) {
	bigBudget := xfBigBudget(c)
	if len(m.items) == 0 {
		return
	}
	sort.Slice(m.items, func(i, j int) bool {
		if m.items[i].line != m.items[j].line {
			return m.items[i].line < m.items[j].line
		}
		return m.items[i].calls < m.items[j].calls
	})
	// the model works on byte lists: lines for the 32 KiB packet size cost ~10 ms each, so only an evenly
	// spaced selection of them is evaluated (bigBudget per run)
	nbig := 0
	for _, it := range m.items {
		if xfBigLine(it.line) {
			nbig++
		}
	}
	if nbig > bigBudget {
		var keep []xfSeqLine
		seen, step := 0, float64(nbig)/float64(bigBudget)
		next := 0.0
		for _, it := range m.items {
			if xfBigLine(it.line) {
				if float64(seen) >= next {
					keep = append(keep, it)
					next += step
				}
				seen++
				continue
			}
			keep = append(keep, it)
		}
		c.R.Note("%s: %d of %d model lines with mp >= 1000 evaluated (evenly spaced selection; all %d small-packet lines evaluated)", prefix, bigBudget, nbig, len(m.items)-nbig)
		m.items = keep
	}
	var lines []string
	for _, it := range m.items {
		lines = append(lines, it.line)
	}
	outp, err := c.Model(lines)
	if err != nil {
		c.R.Fail(lib.Failure{Kind: "tie", Key: prefix + "/model-driver", What: err.Error()})
		return
	}
	for i, it := range m.items {
		mod := outp[i]
		op := strings.Fields(it.line)[0]
		var ok bool
		if it.readat {
			ok = mod == it.calls
		} else {
			mc, mf := mod, ""
			if j := strings.LastIndexByte(mod, ' '); j >= 0 {
				mc, mf = mod[:j], mod[j+1:]
			}
			ic := it.calls
			if it.maskN {
				mc, ic = xfMaskN(mc), xfMaskN(ic)
			}
			ok = mc == ic && (it.file == "" || mf == it.file)
		}
		if !ok {
			impl := it.calls
			if !it.readat {
				impl += " " + it.file
			}
			key := prefix + "/" + op
			if cs, isCase := it.input.(xfCase); isCase {
				key += "/" + cs.API + "/" + cs.Path()
			}
			c.R.Fail(lib.Failure{Kind: "correspondence", Key: key, What: "model and implementation differ (" + it.line + ")", Input: it.input, Expected: mod, Actual: impl})
		}
	}
}

// xfProbeDefects sets the model's two defect switches from what the implementation does on the two
// minimal known-defect inputs (the direct oracles of C12/C13 report the defects themselves).
func xfProbeDefects(m *xfModel) {
	cfg := xfCfg{MP: 4, Conc: 64, CR: true}
	out := xfExec(xfCase{Srv: xfSrvSpec{Kind: "peer"}, Cfg: cfg, API: "WriteTo", FileLen: 10, Window: 1}, nil, "", nil)
	if out.SetupErr == nil && out.OffAfter == 12 {
		m.WTM = 1
	}
	out = xfExec(xfCase{Srv: xfSrvSpec{Kind: "peer"}, Cfg: xfCfg{MP: 4, Conc: 64}, API: "ReadFrom", Src: "opaque", Len: 6, Seed: 1, Window: 1,
		Fail: map[string]xfFail{"4": {Code: 4, Msg: "x"}}}, nil, "", nil)
	if out.SetupErr == nil && out.Err == nil {
		m.RFM = 1
	}
}
