package main

import (
	"context"
	"encoding/hex"
	"encoding/json"
	"errors"
	"fmt"
	"io"
	"os"
	"path"
	"path/filepath"
	"sort"
	"strconv"
	"strings"
	"sync"
	"sync/atomic"
	"time"
	"verifharness/peers"

	"github.com/pkg/sftp"

	"verifharness/lib"
)

func init() { register("c16", checkC16) }

// ---------------------------------------------------------------------------------------------
// entries: names and attributes are functions of (style, index) so that a replay rebuilds them
// ---------------------------------------------------------------------------------------------

type c16Info struct {
	name string
	idx  int
	dir  bool
}

func (f c16Info) Name() string { return f.name }
func (f c16Info) Size() int64  { return int64(f.idx) }
func (f c16Info) Mode() os.FileMode {
	if f.dir {
		return os.ModeDir | 0o755
	}
	return 0o644
}
func (f c16Info) ModTime() time.Time { return time.Unix(1_000_000_000+int64(f.idx), 0) }
func (f c16Info) IsDir() bool        { return f.dir }
func (f c16Info) Sys() any           { return nil }

// c16InfoUG additionally implements sftp.FileInfoUidGid, c16InfoExt sftp.FileInfoExtendedData.
type c16InfoUG struct{ c16Info }

func (f c16InfoUG) Uid() uint32 { return uint32(1000 + f.idx) }
func (f c16InfoUG) Gid() uint32 { return uint32(2000 + 3*f.idx) }

type c16InfoExt struct{ c16InfoUG }

func (f c16InfoExt) Extended() []sftp.StatExtended { return c16Ext(f.idx) }

// c16Ext: no extended block / one pair / two pairs (with NUL and non-UTF-8 data), mixed inside one reply.
func c16Ext(i int) []sftp.StatExtended {
	switch i % 3 {
	case 0:
		return nil
	case 1:
		return []sftp.StatExtended{{ExtType: fmt.Sprintf("t%d@vh", i), ExtData: strings.Repeat("v", i%7)}}
	}
	return []sftp.StatExtended{{ExtType: fmt.Sprintf("t%d@vh", i), ExtData: strings.Repeat("v", i%7)},
		{ExtType: "second@vh", ExtData: fmt.Sprintf("%d\x00\xff", i)}}
}

// c16AttrKind: which optional attribute interfaces entry i implements under the style.
func c16AttrKind(style string, i int) string {
	switch style {
	case "ug", "lookup":
		return "ug"
	case "ext":
		return "ext"
	case "mix":
		return []string{"", "ug", "ext"}[i%3]
	}
	return ""
}

func c16MkInfo(style, name string, i int, dir bool) os.FileInfo {
	b := c16Info{name: name, idx: i, dir: dir}
	switch c16AttrKind(style, i) {
	case "ug":
		return c16InfoUG{b}
	case "ext":
		return c16InfoExt{c16InfoUG{b}}
	}
	return b
}

// c16AttrBad compares what the client returned for entry i with what the lister served ("" = equal).
func c16AttrBad(style string, i int, dir bool, fi os.FileInfo) string {
	want := c16Info{idx: i, dir: dir}
	if fi.Size() != want.Size() || fi.Mode() != want.Mode() || fi.ModTime().Unix() != want.ModTime().Unix() {
		return fmt.Sprintf("entry %d: size/mode/mtime %d/%v/%d, served %d/%v/%d", i, fi.Size(), fi.Mode(), fi.ModTime().Unix(), want.Size(), want.Mode(), want.ModTime().Unix())
	}
	st, ok := fi.Sys().(*sftp.FileStat)
	if !ok {
		return fmt.Sprintf("entry %d: Sys() is %T", i, fi.Sys())
	}
	var uid, gid uint32
	var ext []sftp.StatExtended
	switch c16AttrKind(style, i) {
	case "ug":
		uid, gid = c16InfoUG{want}.Uid(), c16InfoUG{want}.Gid()
	case "ext":
		uid, gid = c16InfoUG{want}.Uid(), c16InfoUG{want}.Gid()
		ext = c16Ext(i)
	}
	if st.UID != uid || st.GID != gid {
		return fmt.Sprintf("entry %d: uid/gid %d/%d, served %d/%d", i, st.UID, st.GID, uid, gid)
	}
	if len(st.Extended) != len(ext) {
		return fmt.Sprintf("entry %d: %d extended pairs, served %d", i, len(st.Extended), len(ext))
	}
	for k := range ext {
		if st.Extended[k] != ext[k] {
			return fmt.Sprintf("entry %d: extended pair %d is %q, served %q", i, k, st.Extended[k], ext[k])
		}
	}
	return ""
}

var c16OneByte = func() []string {
	var t []string
	for b := 1; b < 256; b++ {
		if b != '/' && b != '.' {
			t = append(t, string([]byte{byte(b)}))
		}
	}
	return t
}()

func c16Pad(prefix string, n int) string {
	if len(prefix) >= n {
		return prefix
	}
	return prefix + strings.Repeat("x", n-len(prefix))
}

// c16Name: the name of entry i under a name style; all names are legal directory entry names
// (non-empty, no '/', no NUL, not "." or ".."), pairwise distinct.
func c16Name(style string, i int) string {
	switch style {
	case "long": // ~120 bytes
		return c16Pad(fmt.Sprintf("e%05d_", i), 120)
	case "max": // NAME_MAX
		return c16Pad(fmt.Sprintf("e%05d_", i), 255)
	case "mixed":
		switch i % 6 {
		case 0:
			if i/6 < len(c16OneByte) {
				return c16OneByte[i/6] // length 1, every byte value but '/', '.', NUL
			}
		case 1:
			return c16Pad(fmt.Sprintf("e%d_", i), 255)
		case 2:
			return fmt.Sprintf("e%d a\nb\t ", i) // spaces, newline, tab, trailing space
		case 3:
			return fmt.Sprintf("e%d\xff\xfe\x80\xc3", i) // not UTF-8
		case 4:
			return c16Pad(fmt.Sprintf("e%d_", i), 120)
		case 5:
			switch i {
			case 5:
				return "..."
			case 11:
				return ". "
			case 17:
				return " .."
			case 23:
				return "..\n"
			case 29:
				return " ."
			}
			return fmt.Sprintf([]string{".e%d", "..e%d", "e%d.", "e%d..", "...%d", ". %d"}[(i/6)%6], i) // dot look-alikes
		}
	}
	return fmt.Sprintf("e%d", i)
}

// ---------------------------------------------------------------------------------------------
// request-server side: scripted lister + a small tree of directories keyed by Request.Filepath
// ---------------------------------------------------------------------------------------------

// c16Lister is the scripted ListerAt: a function of the offset only (like the Lean `scriptBeh`).
type c16Lister struct {
	ents        []os.FileInfo
	sizes       []int
	eofWithLast bool
	calls       *int64
	closes      *int64
}

func (l c16Lister) ListAt(ls []os.FileInfo, off int64) (int, error) {
	atomic.AddInt64(l.calls, 1)
	n := len(l.ents)
	if int(off) >= n {
		return 0, io.EOF
	}
	rest := n - int(off)
	k := min(len(ls), rest)
	cur := 0
	for _, s := range l.sizes {
		if int(off) < cur+s {
			k = min(cur+s-int(off), k)
			break
		}
		cur += s
	}
	copy(ls, l.ents[int(off):int(off)+k])
	if l.eofWithLast && int(off)+k == n {
		return k, io.EOF
	}
	return k, nil
}

func (l c16Lister) Close() error {
	if l.closes != nil {
		atomic.AddInt64(l.closes, 1)
	}
	return nil
}

// c16FS is the FileLister: the root directory is served by the scripted lister, but only when it is
// asked for under the path the start directory and the client's argument resolve to.
type c16FS struct {
	root  string
	rootL c16Lister
	kids  map[string][]os.FileInfo // Filepath of a sub-directory -> entries
	files map[string]bool          // Filepath of every non-directory
	mu    sync.Mutex
	wrong []string // Filepaths asked for that do not exist in the tree
}

func (h *c16FS) Filelist(r *sftp.Request) (sftp.ListerAt, error) {
	_, isKid := h.kids[r.Filepath]
	switch r.Method {
	case "List":
		if r.Filepath == h.root {
			return h.rootL, nil
		}
		if isKid {
			return c16Lister{ents: h.kids[r.Filepath], calls: new(int64)}, nil
		}
	case "Stat", "Lstat":
		if r.Filepath == h.root || isKid || h.files[r.Filepath] {
			one := c16Info{name: path.Base(r.Filepath), dir: !h.files[r.Filepath]}
			return c16Lister{ents: []os.FileInfo{one}, calls: new(int64)}, nil
		}
	}
	h.mu.Lock()
	h.wrong = append(h.wrong, r.Method+" "+r.Filepath)
	h.mu.Unlock()
	return nil, os.ErrNotExist
}

// c16FSLookup additionally implements sftp.NameLookupFileLister (long names with owner / group names).
type c16FSLookup struct{ *c16FS }

func (c16FSLookup) LookupUserName(uid string) string {
	return "user name of " + uid + " " + strings.Repeat("u", 40)
}
func (c16FSLookup) LookupGroupName(gid string) string { return "group\tof " + gid }

// ---------------------------------------------------------------------------------------------
// the case
// ---------------------------------------------------------------------------------------------

type c16Case struct {
	Batch       int    `json:"batch"` // MaxFilelist of the run (request server)
	N           int    `json:"n"`
	Sizes       []int  `json:"sizes"`
	EOFWithLast bool   `json:"eof_with_last"`
	DotMask     string `json:"dotmask"`
	Server      string `json:"server"` // rs | os

	DefaultBatch bool   `json:"default_batch,omitempty"` // sftp.MaxFilelist is left as the package sets it; Batch records its value
	Alloc        bool   `json:"alloc,omitempty"`         // WithRSAllocator / WithAllocator
	MaxTx        uint32 `json:"max_tx,omitempty"`        // WithRSMaxTxPacket / WithMaxTxPacket (0 = option not given)
	Rel          string `json:"rel,omitempty"`           // "" | name | dot | updown | nested | absopt | rootrel: start/working directory option and the form of the path argument
	API          string `json:"api,omitempty"`           // "" = ReadDir | ctx | cancel | walk | glob
	CancelAt     int    `json:"cancel_at,omitempty"`     // api cancel: the context is cancelled when the k-th NAME reply reaches the client
	Names        string `json:"names,omitempty"`         // "" = e<i> | long | max | mixed
	Attrs        string `json:"attrs,omitempty"`         // "" | ug | ext | mix | lookup
	Par          int    `json:"par,omitempty"`           // > 1: that many listings of the directory in parallel on the one client
}

func (cs c16Case) key() string {
	b, _ := json.Marshal(cs)
	return string(b)
}

func (cs c16Case) api() string {
	if cs.API == "" {
		return "readdir"
	}
	return cs.API
}

func (cs c16Case) isDot(i int) bool {
	return i < len(cs.DotMask) && (cs.DotMask[i] == 'd' || cs.DotMask[i] == 'D')
}

func (cs c16Case) isDir(i int) bool { return cs.api() == "walk" && i%3 == 0 && !cs.isDot(i) }

func (cs c16Case) name(i int) string {
	if i < len(cs.DotMask) {
		switch cs.DotMask[i] {
		case 'd':
			return "."
		case 'D':
			return ".."
		}
	}
	return c16Name(cs.Names, i)
}

// modelLine: the driver op that expresses the case, or "" when the model cannot (then only the model
// comparison is skipped; the direct oracle runs).
func (cs c16Case) modelLine() string {
	if cs.Server != "rs" || (cs.api() != "readdir" && cs.api() != "ctx") || cs.Par > 1 {
		return ""
	}
	e := "0"
	if cs.EOFWithLast {
		e = "1"
	}
	sz := "-"
	if len(cs.Sizes) > 0 {
		var p []string
		for _, s := range cs.Sizes {
			p = append(p, strconv.Itoa(s))
		}
		sz = strings.Join(p, ",")
	}
	if cs.Names == "" {
		m := cs.DotMask
		if m == "" {
			m = "-"
		}
		return fmt.Sprintf("c16.list %s %d %d %s/%s %s", c16Cfg, cs.Batch, cs.N, e, sz, m)
	}
	names := "-"
	if cs.N > 0 {
		var p []string
		for i := 0; i < cs.N; i++ {
			p = append(p, hex.EncodeToString([]byte(cs.name(i))))
		}
		names = strings.Join(p, ",")
	}
	return fmt.Sprintf("c16.listnames %s %d %s/%s %s", c16Cfg, cs.Batch, e, sz, names)
}

// c16Cfg / c16OSCfg are replaced at the start of checkC16 by the tokens regenerated from the source (gCurCfg).
var c16Cfg, c16OSCfg = "111111", "11111 128"

const c16Start = "/start/dir"

// c16RSPaths: the path argument handed to the client and the Filepath the handler must be asked for.
func c16RSPaths(rel string) (arg, want string, opt bool) {
	switch rel {
	case "name":
		return "d", c16Start + "/d", true
	case "dot":
		return "./d", c16Start + "/d", true
	case "updown":
		return "x/../d", c16Start + "/d", true
	case "nested":
		return "sub/d", c16Start + "/sub/d", true
	case "absopt":
		return "/d", "/d", true
	case "rootrel":
		return "d", "/d", false
	}
	return "/d", "/d", false
}

// ---------------------------------------------------------------------------------------------
// pair with a tap on the server -> client stream (counts NAME replies; used to cancel mid-listing)
// ---------------------------------------------------------------------------------------------

type c16Tap struct {
	r      io.Reader
	hdr    [5]byte
	have   int
	left   uint32
	names  int
	onName func(k int)
}

func (t *c16Tap) Read(p []byte) (int, error) {
	n, err := t.r.Read(p)
	for _, b := range p[:n] {
		if t.left > 0 {
			t.left--
			continue
		}
		t.hdr[t.have] = b
		t.have++
		if t.have == 5 {
			t.have = 0
			l := uint32(t.hdr[0])<<24 | uint32(t.hdr[1])<<16 | uint32(t.hdr[2])<<8 | uint32(t.hdr[3])
			if l > 0 {
				t.left = l - 1
			}
			if t.hdr[4] == 104 { // SSH_FXP_NAME
				t.names++
				if t.onName != nil {
					t.onName(t.names)
				}
			}
		}
	}
	return n, err
}

// c16PairT closes like vhPair, and additionally closes the client's end of the server -> client pipe once the
// client is down: a server blocked on writing a reply nobody reads any more (the client gave up on the stream)
// returns at once instead of after the 10 s grace.
type c16PairT struct {
	*vhPair
	s2cR *io.PipeReader
}

func (p c16PairT) Close() {
	fin := make(chan struct{})
	go func() {
		p.Client.Close()
		p.s2cR.Close()
		<-p.done
		close(fin)
	}()
	if _, ok := lib.WaitCleanup("c16/pair-close", 10*time.Second, fin); !ok { // clean-up wait: bounded by its own budget (lib/budget.go)
		p.s2cR.Close()
	}
}

func c16StartPair(cs c16Case, h sftp.Handlers, workDir string, onName func(int)) (c16PairT, error) {
	c2sR, c2sW := io.Pipe()
	s2cR, s2cW := io.Pipe()
	end := vhPipeEnd{Reader: c2sR, WriteCloser: s2cW, extra: func() { c2sR.Close() }}
	p := c16PairT{&vhPair{done: make(chan error, 1)}, s2cR}
	if cs.Server == "rs" {
		var so []sftp.RequestServerOption
		if cs.Alloc {
			so = append(so, sftp.WithRSAllocator())
		}
		if cs.MaxTx != 0 {
			so = append(so, sftp.WithRSMaxTxPacket(cs.MaxTx))
		}
		if _, _, opt := c16RSPaths(cs.Rel); opt {
			so = append(so, sftp.WithStartDirectory(c16Start))
		}
		rs := sftp.NewRequestServer(end, h, so...)
		p.RS = rs
		go func() { err := rs.Serve(); s2cW.Close(); p.done <- err }()
	} else {
		var so []sftp.ServerOption
		if cs.Alloc {
			so = append(so, sftp.WithAllocator())
		}
		if cs.MaxTx != 0 {
			so = append(so, sftp.WithMaxTxPacket(cs.MaxTx))
		}
		if workDir != "" {
			so = append(so, sftp.WithServerWorkingDirectory(workDir))
		}
		srv, err := peers.NewOSServer(end, so...)
		if err != nil {
			return p, err
		}
		p.OS = srv
		go func() { err := srv.Serve(); s2cW.Close(); p.done <- err }()
	}
	c, err := vhNewClient(&c16Tap{r: s2cR, onName: onName}, c2sW, nil)
	if err != nil {
		c2sW.Close()
		s2cR.Close()
		return p, err
	}
	p.Client = c
	return p, nil
}

// ---------------------------------------------------------------------------------------------
// one run of a consumer of listings
// ---------------------------------------------------------------------------------------------

type c16Listing struct {
	fis   []os.FileInfo // readdir, ctx, cancel
	paths []string      // walk: every path stepped on; glob: the matches
	err   error
	hang  bool
}

func c16ErrClass(l c16Listing) string {
	switch {
	case l.hang:
		return "hang"
	case l.err == nil:
		return "nil"
	case l.err == io.EOF:
		return "eof"
	case errors.Is(l.err, context.Canceled):
		return "canceled"
	}
	return "other"
}

// c16Consume lists directory `arg` through the API of the case; ctx is used by ctx / cancel only.
func c16Consume(cl *sftp.Client, api, arg string, ctx context.Context) c16Listing {
	ch := make(chan c16Listing, 1)
	go func() {
		var l c16Listing
		switch api {
		case "ctx", "cancel":
			l.fis, l.err = cl.ReadDirContext(ctx, arg)
		case "walk":
			w := cl.Walk(arg)
			for steps := 0; w.Step(); steps++ {
				if w.Err() != nil && l.err == nil {
					l.err = fmt.Errorf("walk %q: %w", w.Path(), w.Err())
				}
				l.paths = append(l.paths, w.Path())
				if steps > 1_000_000 {
					l.err = errors.New("walk made more than 1000000 steps")
					break
				}
			}
		case "glob":
			l.paths, l.err = cl.Glob(arg + "/*")
		default:
			l.fis, l.err = cl.ReadDir(arg)
		}
		ch <- l
	}()
	l, ok := lib.WaitHang("c16/"+api, 20*time.Second, ch) // out of the run's hang budget (lib/budget.go)
	if !ok {
		return c16Listing{hang: true}
	}
	return l
}

type c16Verdict struct {
	key, what        string
	expected, actual any
}

// c16Judge: the direct oracle.  The directory as served is a function of the case (names, dot mask,
// attributes); on the request server the order is the lister's, on the os-backed server the file system's.
func c16Judge(cs c16Case, l c16Listing, arg string, kids map[int]int, follow *c16Listing, minPrefix int) *c16Verdict {
	pre := cs.Server + "/"
	var want []int
	for i := 0; i < cs.N; i++ {
		if !cs.isDot(i) {
			want = append(want, i)
		}
	}
	ordered := cs.Server == "rs"
	ec := c16ErrClass(l)
	if ec == "hang" {
		return &c16Verdict{key: pre + "listing-does-not-terminate", what: "the listing (" + cs.api() + ") did not return within 20 s"}
	}
	byName := map[string]int{}
	for _, i := range want {
		byName[cs.name(i)] = i
	}
	switch cs.api() {
	case "walk", "glob":
		var exp []string
		if cs.api() == "walk" {
			exp = append(exp, arg)
		}
		for _, i := range want {
			p := path.Join(arg, cs.name(i))
			exp = append(exp, p)
			if cs.isDir(i) && cs.api() == "walk" {
				for j := 0; j < kids[i]; j++ {
					exp = append(exp, path.Join(p, fmt.Sprintf("c%d", j)))
				}
			}
		}
		got := append([]string(nil), l.paths...)
		if !ordered {
			sort.Strings(exp)
			sort.Strings(got)
		}
		if ec != "nil" || strings.Join(got, "\x00") != strings.Join(exp, "\x00") {
			return &c16Verdict{key: pre + "listing-not-exact/" + cs.api(), what: cs.api() + " over the directory did not visit every entry exactly once",
				expected: c16Q(exp), actual: map[string]any{"paths": c16Q(l.paths), "err": fmt.Sprint(l.err)}}
		}
		return nil
	}
	// ReadDir / ReadDirContext: the entries returned
	check := func(fis []os.FileInfo, full bool, minLen int) (bad string) {
		seen := map[int]bool{}
		var idx []int
		for j, fi := range fis {
			i, ok := byName[fi.Name()]
			if !ok {
				return fmt.Sprintf("position %d: name %q is not an entry of the directory (or is . / ..)", j, fi.Name())
			}
			if seen[i] {
				return fmt.Sprintf("position %d: entry %q returned twice", j, fi.Name())
			}
			seen[i] = true
			idx = append(idx, i)
			if a := c16AttrBad(cs.Attrs, i, cs.isDir(i), fi); a != "" && ordered {
				return a
			}
			if !ordered && (fi.Size() != int64(i) || fi.Mode() != 0o600) {
				return fmt.Sprintf("entry %q: size %d mode %v, on disk %d -rw-------", fi.Name(), fi.Size(), fi.Mode(), i)
			}
		}
		if ordered {
			for j, i := range idx {
				if j >= len(want) || want[j] != i {
					return fmt.Sprintf("position %d holds entry %d: not the served order", j, i)
				}
			}
		}
		if full && len(idx) != len(want) {
			return fmt.Sprintf("%d of %d entries returned", len(idx), len(want))
		}
		if len(idx) < minLen {
			return fmt.Sprintf("%d entries returned, at least %d had been received before the cancellation", len(idx), minLen)
		}
		return ""
	}
	act := func(l c16Listing) any {
		var names []string
		var sizes []int64
		for _, fi := range l.fis {
			names = append(names, fi.Name())
			sizes = append(sizes, fi.Size())
		}
		if len(names) > 40 {
			names = append(names[:40:40], fmt.Sprintf("… %d more", len(l.fis)-40))
			sizes = sizes[:40]
		}
		return map[string]any{"names": c16Q(names), "sizes": sizes, "returned": len(l.fis), "err": fmt.Sprint(l.err)}
	}
	if cs.api() == "cancel" {
		switch ec {
		case "nil": // the cancellation lost every race: a complete listing
			if bad := check(l.fis, true, 0); bad != "" {
				return &c16Verdict{key: pre + "listing-not-exact/cancel", what: "ReadDirContext returned nil but not the exact listing: " + bad, expected: want, actual: act(l)}
			}
		case "canceled":
			if bad := check(l.fis, false, minPrefix); bad != "" {
				return &c16Verdict{key: pre + "cancel/partial-listing-wrong", what: "ReadDirContext cancelled mid-listing did not return the entries listed so far, each once: " + bad, expected: want, actual: act(l)}
			}
		default:
			return &c16Verdict{key: pre + "cancel/wrong-error", what: "ReadDirContext cancelled mid-listing returned neither the context's error nor a complete listing", expected: "context canceled", actual: act(l)}
		}
		if follow != nil {
			if c16ErrClass(*follow) == "hang" {
				return &c16Verdict{key: pre + "cancel/client-unusable", what: "ReadDir on the same client after a cancelled ReadDirContext did not return within 20 s"}
			}
			if bad := check(follow.fis, true, 0); bad != "" || follow.err != nil {
				return &c16Verdict{key: pre + "cancel/client-unusable", what: "ReadDir on the same client after a cancelled ReadDirContext is not the exact listing: " + bad, expected: want, actual: act(*follow)}
			}
		}
		return nil
	}
	if bad := check(l.fis, true, 0); bad != "" || ec != "nil" {
		key := pre + "listing-not-exact"
		if cs.Server == "os" && cs.Names != "" {
			key += "/long-names"
		}
		if bad == "" {
			bad = "error " + fmt.Sprint(l.err)
		}
		return &c16Verdict{key: key, what: "ReadDir did not return every entry exactly once (minus . and ..) with its attributes: " + bad, expected: want, actual: act(l)}
	}
	return nil
}

func c16Q(l []string) []string {
	out := make([]string, len(l))
	for i, s := range l {
		out[i] = strconv.QuoteToASCII(s)
	}
	return out
}

// ---------------------------------------------------------------------------------------------
// request server run
// ---------------------------------------------------------------------------------------------

type c16RSOut struct {
	l       c16Listing
	rounds  int64 // ListAt calls on the root lister during the (first) listing
	closes  int64 // Close calls on the root lister after everything
	follow  *c16Listing
	minPre  int
	wrong   []string
	arg     string
	kids    map[int]int
	parBad  *c16Verdict
	started error
}

var c16mu sync.Mutex // sftp.MaxFilelist is a package variable

func c16RunRS(cs c16Case) c16RSOut {
	var out c16RSOut
	c16mu.Lock()
	defer c16mu.Unlock()
	if !cs.DefaultBatch {
		old := sftp.MaxFilelist
		sftp.MaxFilelist = int64(cs.Batch)
		defer func() { sftp.MaxFilelist = old }()
	}
	arg, root, _ := c16RSPaths(cs.Rel)
	out.arg = arg
	fsys := &c16FS{root: root, kids: map[string][]os.FileInfo{}, files: map[string]bool{}}
	out.kids = map[int]int{}
	var ents []os.FileInfo
	for i := 0; i < cs.N; i++ {
		name := cs.name(i)
		ents = append(ents, c16MkInfo(cs.Attrs, name, i, cs.isDir(i)))
		if cs.isDot(i) {
			continue
		}
		p := path.Join(root, name)
		if cs.isDir(i) {
			var sub []os.FileInfo
			for j := 0; j < (i/3)%4; j++ {
				cn := fmt.Sprintf("c%d", j)
				sub = append(sub, c16Info{name: cn, idx: j})
				fsys.files[path.Join(p, cn)] = true
			}
			if i%2 == 0 { // a legal lister may list . and .. in sub-directories too
				sub = append([]os.FileInfo{c16Info{name: ".", dir: true}}, append(sub, c16Info{name: "..", dir: true})...)
			}
			fsys.kids[p] = sub
			out.kids[i] = (i / 3) % 4
		} else {
			fsys.files[p] = true
		}
	}
	calls, closes := new(int64), new(int64)
	fsys.rootL = c16Lister{ents: ents, sizes: cs.Sizes, eofWithLast: cs.EOFWithLast, calls: calls, closes: closes}
	var fl sftp.FileLister = fsys
	if cs.Attrs == "lookup" {
		fl = c16FSLookup{fsys}
	}
	ctx, cancel := context.WithCancel(context.Background())
	defer cancel()
	var onName func(int)
	if cs.api() == "cancel" {
		onName = func(k int) {
			if k == cs.CancelAt {
				cancel()
			}
		}
		// entries (minus dots) carried by the first CancelAt-1 NAME replies: simulate the lister
		sim := c16Lister{ents: ents, sizes: cs.Sizes, eofWithLast: cs.EOFWithLast, calls: new(int64)}
		buf := make([]os.FileInfo, max(cs.Batch, 1))
		off := 0
		for k := 1; k < cs.CancelAt; k++ {
			n, _ := sim.ListAt(buf, int64(off))
			for i := off; i < off+n; i++ {
				if !cs.isDot(i) {
					out.minPre++
				}
			}
			off += n
		}
	}
	p, err := c16StartPair(cs, sftp.Handlers{FileList: fl}, "", onName)
	if err != nil {
		out.started = err
		return out
	}
	defer p.Close()
	if cs.Par > 1 {
		res := make([]c16Listing, cs.Par)
		var wg sync.WaitGroup
		for g := 0; g < cs.Par; g++ {
			wg.Add(1)
			go func(g int) { defer wg.Done(); res[g] = c16Consume(p.Client, cs.api(), arg, ctx) }(g)
		}
		wg.Wait()
		out.l = res[0]
		for g := 1; g < cs.Par; g++ {
			if v := c16Judge(cs, res[g], arg, out.kids, nil, 0); v != nil && out.parBad == nil {
				out.parBad = v
			}
		}
	} else {
		out.l = c16Consume(p.Client, cs.api(), arg, ctx)
	}
	out.rounds = atomic.LoadInt64(calls)
	if cs.api() == "cancel" && !out.l.hang {
		f := c16Consume(p.Client, "readdir", arg, context.Background())
		out.follow = &f
	}
	out.closes = atomic.LoadInt64(closes)
	fsys.mu.Lock()
	out.wrong = append([]string(nil), fsys.wrong...)
	fsys.mu.Unlock()
	return out
}

// ---------------------------------------------------------------------------------------------
// os-backed server run
// ---------------------------------------------------------------------------------------------

type c16OSDir struct {
	n     int
	names string
}

func c16MakeDir(root string, d c16OSDir) (string, error) {
	dir := filepath.Join(root, fmt.Sprintf("d%d%s", d.n, d.names))
	if err := os.Mkdir(dir, 0o755); err != nil {
		return "", err
	}
	for i := 0; i < d.n; i++ {
		if err := os.WriteFile(filepath.Join(dir, c16Name(d.names, i)), make([]byte, i), 0o600); err != nil {
			return "", err
		}
	}
	return dir, nil
}

// c16OpenFDs: descriptors of this process that refer to dir (the os-backed server runs in-process).
func c16OpenFDs(dir string) int {
	fds, _ := os.ReadDir("/proc/self/fd")
	n := 0
	for _, fd := range fds {
		if t, err := os.Readlink("/proc/self/fd/" + fd.Name()); err == nil && t == dir {
			n++
		}
	}
	return n
}

type c16OSOut struct {
	l       c16Listing
	follow  *c16Listing
	minPre  int
	arg     string
	fdsLeft int
	parBad  *c16Verdict
	started error
}

func c16RunOS(cs c16Case, root, dir string) c16OSOut {
	var out c16OSOut
	base := filepath.Base(dir)
	work := ""
	out.arg = dir
	switch cs.Rel {
	case "name":
		work, out.arg = root, base
	case "dot":
		work, out.arg = root, "./"+base
	case "updown":
		work, out.arg = root, "x/../"+base
	case "absopt":
		work = "/nonexistent-working-directory"
	}
	ctx, cancel := context.WithCancel(context.Background())
	defer cancel()
	var onName func(int)
	if cs.api() == "cancel" {
		onName = func(k int) {
			if k == cs.CancelAt {
				cancel()
			}
		}
		out.minPre = min((cs.CancelAt-1)*cs.Batch, cs.N)
	}
	p, err := c16StartPair(cs, sftp.Handlers{}, work, onName)
	if err != nil {
		out.started = err
		return out
	}
	defer p.Close()
	if cs.Par > 1 {
		res := make([]c16Listing, cs.Par)
		var wg sync.WaitGroup
		for g := 0; g < cs.Par; g++ {
			wg.Add(1)
			go func(g int) { defer wg.Done(); res[g] = c16Consume(p.Client, cs.api(), out.arg, ctx) }(g)
		}
		wg.Wait()
		out.l = res[0]
		for g := 1; g < cs.Par; g++ {
			if v := c16Judge(cs, res[g], out.arg, nil, nil, 0); v != nil && out.parBad == nil {
				out.parBad = v
			}
		}
	} else {
		out.l = c16Consume(p.Client, cs.api(), out.arg, ctx)
	}
	if cs.api() == "cancel" && !out.l.hang {
		f := c16Consume(p.Client, "readdir", out.arg, context.Background())
		out.follow = &f
	}
	if !out.l.hang {
		out.fdsLeft = c16OpenFDs(dir)
	}
	return out
}

// ---------------------------------------------------------------------------------------------
// generators
// ---------------------------------------------------------------------------------------------

var (
	c16Rels   = []string{"", "name", "dot", "updown", "nested", "absopt", "rootrel"}
	c16OSRels = []string{"", "name", "dot", "updown", "absopt"}
	c16APIs   = []string{"readdir", "ctx", "cancel", "walk", "glob"}
	c16NameSt = []string{"", "mixed", "long", "max"}
	c16AttrSt = []string{"", "ug", "ext", "mix", "lookup"}
	c16MaxTxs = []uint32{0, 32768, 65536, 1 << 20}
)

// c16Opt decorates base case number k with option values: rotations with pairwise co-prime periods
// (offsets from the seed), so that the cost stays that of the base space while every value and most
// pairs of values occur.
func c16Opt(cs c16Case, k int, off []int) c16Case {
	cs.Alloc = (k+off[0])%2 == 1
	cs.MaxTx = c16MaxTxs[(k/2+off[1])%len(c16MaxTxs)]
	cs.Rel = c16Rels[(k+off[2])%len(c16Rels)]
	cs.API = c16APIs[(k+off[3])%len(c16APIs)]
	if cs.API == "readdir" {
		cs.API = ""
	}
	cs.Names = c16NameSt[(k/5+off[4])%len(c16NameSt)]
	cs.Attrs = c16AttrSt[(k/3+off[5])%len(c16AttrSt)]
	if (k+off[6])%11 == 0 {
		cs.Par = 4
	}
	return c16Fix(cs, k)
}

// c16Fix derives the dependent fields (cancellation point) of a case.
func c16Fix(cs c16Case, k int) c16Case {
	if cs.api() == "cancel" {
		replies := 1
		if cs.Batch > 0 {
			replies = (cs.N + cs.Batch - 1) / cs.Batch
		}
		cs.CancelAt = 1 + k%max(replies, 1)
		cs.Par = 0
	} else {
		cs.CancelAt = 0
	}
	return cs
}

func c16RSBase(c *lib.Ctx, batches []int, defaultBatch bool) []c16Case {
	var cases []c16Case
	for _, batch := range batches {
		ns := []int{}
		for n := 0; n <= 2*batch+2; n++ {
			ns = append(ns, n)
		}
		if defaultBatch {
			ns = []int{0, 1, batch - 1, batch, batch + 1, 2*batch - 1, 2 * batch, 2*batch + 1, 2*batch + 2}
			if c.Tier == "thorough" {
				ns = append(ns, 2, batch/2, 3*batch-1, 3*batch, 3*batch+1)
			}
		}
		for _, n := range ns {
			if n < 0 {
				continue
			}
			for _, ewl := range []bool{false, true} {
				pats := [][]int{nil, {1}, {2, 1}, {1, 1, 1}, {batch}, {batch + 1, 1}}
				if defaultBatch {
					pats = [][]int{nil, {batch - 1, 1}, {batch + 1, 1}, {batch / 2}}
				}
				if c.Tier == "thorough" {
					for k := 0; k < 6; k++ {
						var p []int
						for j := 0; j < 1+c.Rand.Intn(4); j++ {
							p = append(p, 1+c.Rand.Intn(batch+1))
						}
						pats = append(pats, p)
					}
				}
				for _, sz := range pats {
					masks := []string{""}
					if n >= 2 {
						masks = append(masks, "dD", strings.Repeat("n", n-1)+"d")
						// . and .. at any position: one pair of positions per case in quick, every pair (n small) in thorough
						pd, pD := c.Rand.Intn(n), c.Rand.Intn(n)
						masks = append(masks, c16MaskAt(n, pd, pD))
						if defaultBatch { // around the batch boundary
							for _, q := range []int{batch - 1, batch, batch + 1} {
								if q < n {
									masks = append(masks, c16MaskAt(n, q, (q+1)%n))
								}
							}
						}
					}
					if n >= 4 && c.Tier == "thorough" {
						masks = append(masks, "ndnD", "D"+strings.Repeat("n", n-2)+"d")
						if n <= 12 && sz == nil {
							for a := 0; a < n; a++ {
								for b := 0; b < n; b++ {
									masks = append(masks, c16MaskAt(n, a, b))
								}
							}
						}
						// several dot entries
						var m []byte
						for i := 0; i < n; i++ {
							m = append(m, "nnndD"[c.Rand.Intn(5)])
						}
						masks = append(masks, string(m))
					}
					seen := map[string]bool{}
					for _, m := range masks {
						if seen[m] {
							continue
						}
						seen[m] = true
						cases = append(cases, c16Case{Batch: batch, N: n, Sizes: sz, EOFWithLast: ewl, DotMask: m, Server: "rs", DefaultBatch: defaultBatch})
					}
				}
			}
		}
	}
	return cases
}

// c16MaskAt: "." at position a, ".." at position b (b wins when equal).
func c16MaskAt(n, a, b int) string {
	m := []byte(strings.Repeat("n", n))
	m[a] = 'd'
	m[b] = 'D'
	return string(m)
}

func checkC16(c *lib.Ctx) {
	r := c.R
	c16Cfg = gCurCfg(c, "c16", c16Cfg)
	c16OSCfg = gCurCfg(c, "c16os", c16OSCfg)
	osBatch := 128
	if f := strings.Fields(c16OSCfg); len(f) == 2 {
		if v, err := strconv.Atoi(f[1]); err == nil && v > 0 {
			osBatch = v
		}
	}
	defBatch := int(sftp.MaxFilelist)
	r.Rule = "base space (enumerated completely): request server, every directory size 0..2*batch+2 x batch 1..5, and the DEFAULT MaxFilelist with sizes {0,1,B-1,B,B+1,2B-1,2B,2B+1,2B+2}, x scripted legal ListAt behaviours (EOF with the last entries or on the following call; short-batch cut patterns) x masks placing . and .. at fixed and at random positions (thorough: every pair of positions for n <= 12, several dot entries); os-backed server: real directories around the Readdir(128) batch boundary, of >= 1024 entries, with names of length 1 / 120 / 255 and names with spaces, newlines, non-UTF-8 bytes and dot look-alikes. " +
		"Option dimensions laid over the base space (quick: rotated with co-prime periods and seed-dependent offsets, cost flat; thorough: additionally the full product allocator x max-tx-packet x start/working-directory+relative-path form x API on a reduced base): allocator on/off; WithRSMaxTxPacket/WithMaxTxPacket {none, 32768, 65536, 1 MiB}; WithStartDirectory / WithServerWorkingDirectory with the path argument absolute, `d`, `./d`, `x/../d`, `sub/d`, and a relative path without the option; consumer API ReadDir, ReadDirContext (live context), ReadDirContext cancelled when the k-th NAME reply arrives (listed-so-far prefix + context error or a complete listing; then ReadDir on the same client must be exact; the handle must have been closed), Walk (tree with sub-directories, every path once), Glob(dir/*); entry names {e<i>, mixed, 120 bytes, 255 bytes}; served attributes {size/mode/mtime, +uid/gid, +extended pairs, mixed within one reply, NameLookupFileLister long names}; 4 parallel listings on one client. " +
		"non-trivial = listing that spans more than one batch or contains a dot entry or uses a non-default option; distinct by the whole case"
	r.Rule += c16KRule
	var cases []c16Case
	if c.Replay != "" {
		var k c16KCase
		if err := lib.ReadReplay(c.Replay, &k); err == nil && k.Family == c16KFamily {
			checkC16Kinds(c, &k)
			return
		}
		var one c16Case
		if err := lib.ReadReplay(c.Replay, &one); err != nil {
			r.Fail(lib.Failure{Kind: "tie", Key: "replay", What: err.Error()})
			return
		}
		if one.Server == "" {
			one.Server = "rs"
		}
		cases = []c16Case{one}
	} else {
		defer checkC16Kinds(c, nil) // family kinds (c16_kinds.go), after everything else
		off := make([]int, 8)
		for i := range off {
			off[i] = c.Rand.Intn(1000)
		}
		// 1. the base space as the model sees it (no options): keeps the model comparison complete
		base := c16RSBase(c, []int{1, 2, 3, 4, 5}, false)
		cases = append(cases, base...)
		// 2. the same base space with rotated options
		for k, cs := range base {
			cases = append(cases, c16Opt(cs, k, off))
		}
		// 3. the default MaxFilelist, plain and with rotated options
		def := c16RSBase(c, []int{defBatch}, true)
		for k, cs := range def {
			cases = append(cases, cs)
			o := c16Opt(cs, k, off)
			if o.Names == "max" || o.Names == "mixed" { // keep the default-batch lines short: long names there are `long`
				o.Names = "long"
			}
			cases = append(cases, o)
		}
		// 4. thorough: the full option product on a reduced base
		if c.Tier == "thorough" {
			var red []c16Case
			for _, cs := range base {
				if cs.Batch <= 3 && cs.N >= cs.Batch && len(cs.Sizes) <= 2 && (cs.DotMask == "" || cs.DotMask == "dD") {
					red = append(red, cs)
				}
			}
			for _, cs := range def {
				if len(cs.Sizes) == 0 && cs.DotMask == "" && (cs.N == defBatch || cs.N == 2*defBatch+1) {
					red = append(red, cs)
				}
			}
			k := 0
			for _, cs := range red {
				for _, al := range []bool{false, true} {
					for _, tx := range c16MaxTxs {
						for _, rel := range c16Rels {
							for _, api := range c16APIs {
								k++
								o := cs
								o.Alloc, o.MaxTx, o.Rel, o.API = al, tx, rel, api
								if api == "readdir" {
									o.API = ""
								}
								o.Names = c16NameSt[k%2] // e<i> | mixed
								if cs.DefaultBatch && o.Names != "" {
									o.Names = "long"
								}
								o.Attrs = c16AttrSt[k%len(c16AttrSt)]
								if k%13 == 0 {
									o.Par = 4
								}
								cases = append(cases, c16Fix(o, k))
							}
						}
					}
				}
			}
		}
		r.Exhaustive = true
	}

	// ------------------------------------------------------------------ request server
	var lines, impl []string
	skipped := 0
	for _, cs := range cases {
		if cs.Server != "rs" {
			continue
		}
		if c.Stop("c16/" + cs.api()) {
			continue
		}
		if cs.DefaultBatch {
			cs.Batch = defBatch
		}
		out := c16RunRS(cs)
		if out.started != nil {
			r.Fail(lib.Failure{Kind: "tie", Key: "rs-start", What: out.started.Error(), Input: cs})
			return
		}
		optioned := cs.Alloc || cs.MaxTx != 0 || cs.Rel != "" || cs.API != "" || cs.Names != "" || cs.Attrs != "" || cs.Par > 1 || cs.DefaultBatch
		r.Case(cs.key(), cs.N > cs.Batch || cs.DotMask != "" || optioned)
		if cs.DefaultBatch {
			r.Hist("rs-batch-default")
		} else {
			r.Hist(fmt.Sprintf("rs-batch%d", cs.Batch))
		}
		if cs.EOFWithLast {
			r.Hist("eof-with-last")
		} else {
			r.Hist("eof-on-next-call")
		}
		if cs.N > cs.Batch {
			r.Hist("multi-batch")
		}
		c16HistOpts(r, cs)
		if strings.ContainsAny(cs.DotMask, "dD") {
			r.Hist("rs-dot-entries")
			if p := strings.IndexAny(cs.DotMask, "dD"); p > 0 && p < cs.N-1 {
				r.Hist("rs-dot-entry-in-the-middle")
			}
		}
		var idx []int
		for _, fi := range out.l.fis {
			idx = append(idx, int(fi.Size()))
		}
		if len(r.Samples) < 5 && cs.N == 2*cs.Batch+1 && cs.DotMask != "" && optioned {
			r.Sample(map[string]any{"case": cs, "returned": idx, "paths": len(out.l.paths), "rounds": out.rounds, "err": c16ErrClass(out.l)})
		}
		ec := c16ErrClass(out.l)
		v := c16Judge(cs, out.l, out.arg, out.kids, out.follow, out.minPre)
		if v == nil {
			v = out.parBad
		}
		switch {
		case v != nil:
			act := v.actual
			if len(out.wrong) > 0 {
				act = map[string]any{"result": v.actual, "handler_asked_for_unknown_paths": out.wrong}
			}
			r.Fail(lib.Failure{Kind: "oracle", Key: v.key, What: v.what, Input: cs, Expected: v.expected, Actual: act})
		case len(out.wrong) > 0:
			r.Fail(lib.Failure{Kind: "oracle", Key: "rs/handler-asked-for-wrong-path", What: "the listing was exact but the handler was also asked for paths that the start directory and the argument do not resolve to", Input: cs, Actual: out.wrong})
		case cs.Par <= 1 && out.rounds > int64(cs.N)+1:
			r.Fail(lib.Failure{Kind: "oracle", Key: "rs/too-many-rounds", What: "more READDIR round trips than entries + 1", Input: cs, Expected: cs.N + 1, Actual: out.rounds})
		}
		if v == nil && ec != "hang" && len(out.wrong) == 0 {
			wantCloses := int64(0)
			switch cs.api() {
			case "readdir", "ctx", "glob", "walk":
				wantCloses = int64(max(cs.Par, 1))
			case "cancel":
				wantCloses = 2
			}
			if out.closes != wantCloses {
				key := "rs/handle-not-closed"
				if cs.api() == "cancel" {
					key = "rs/cancel/handle-not-closed"
				}
				r.Fail(lib.Failure{Kind: "oracle", Key: key, What: "the directory handle of a finished listing was not closed exactly once (Close calls seen by the lister)", Input: cs, Expected: wantCloses, Actual: out.closes})
			}
		}
		if cs.api() == "cancel" {
			r.Hist("cancel-result/" + ec)
		}
		line := cs.modelLine()
		if line == "" {
			skipped++
			r.Hist("model-comparison-skipped/" + c16SkipWhy(cs))
			continue
		}
		lines = append(lines, line)
		if ec == "hang" {
			impl = append(impl, "nofuel")
			continue
		}
		var is []string
		for _, fi := range out.l.fis {
			if cs.Names == "" {
				is = append(is, strconv.Itoa(int(fi.Size())))
			} else {
				is = append(is, fmt.Sprintf("%d:%s", fi.Size(), lib.Hex([]byte(fi.Name()))))
			}
		}
		s := "-"
		if len(is) > 0 {
			s = strings.Join(is, ",")
		}
		if ec == "canceled" {
			ec = "other"
		}
		impl = append(impl, fmt.Sprintf("ok %d %s %s", out.rounds, ec, s))
	}
	if skipped > 0 {
		r.Note("model comparison skipped for %d request-server cases the driver ops cannot express (cancelled context, Walk, Glob, parallel listings); their direct oracle ran", skipped)
	}
	c.Compare("c16", lines, impl)

	// ------------------------------------------------------------------ os-backed server
	type osJob struct {
		dir   c16OSDir
		cases []c16Case
	}
	var jobs []osJob
	if c.Replay != "" {
		for _, cs := range cases {
			if cs.Server == "os" {
				jobs = append(jobs, osJob{c16OSDir{cs.N, cs.Names}, []c16Case{cs}})
			}
		}
	} else {
		off := make([]int, 4)
		for i := range off {
			off[i] = c.Rand.Intn(1000)
		}
		var dirs []c16OSDir
		sizes := []int{0, 1, 2, osBatch - 1, osBatch, osBatch + 1, 2*osBatch - 1, 2 * osBatch, 2*osBatch + 1}
		if c.Tier == "thorough" {
			sizes = nil
			for n := 0; n <= 300; n++ {
				sizes = append(sizes, n)
			}
			sizes = append(sizes, 3*osBatch-1, 3*osBatch, 3*osBatch+1, 8*osBatch, 8*osBatch+1, 2000)
		}
		for _, n := range sizes {
			dirs = append(dirs, c16OSDir{n, ""})
		}
		dirs = append(dirs, c16OSDir{150, "max"}, c16OSDir{300, "long"}, c16OSDir{osBatch + 1, "max"},
			c16OSDir{8 * osBatch, "long"}, c16OSDir{8*osBatch + 1, "long"}, c16OSDir{1200, "long"},
			c16OSDir{1, "mixed"}, c16OSDir{40, "mixed"}, c16OSDir{osBatch, "mixed"}, c16OSDir{2*osBatch + 3, "mixed"}, c16OSDir{8*osBatch + 2, "mixed"})
		if c.Tier == "thorough" {
			dirs = append(dirs, c16OSDir{2048, "max"}, c16OSDir{1500, "mixed"}, c16OSDir{3000, "long"})
		}
		k := 0
		for _, d := range dirs {
			j := osJob{dir: d}
			mk := func(al bool, tx uint32, rel, api string, par int) c16Case {
				k++
				cs := c16Case{Batch: osBatch, N: d.n, Server: "os", Names: d.names, Alloc: al, MaxTx: tx, Rel: rel, API: api, Par: par}
				if api == "readdir" {
					cs.API = ""
				}
				return c16Fix(cs, k)
			}
			j.cases = append(j.cases, mk(false, 0, "", "", 0)) // the plain listing (model comparison)
			if c.Tier == "thorough" && (d.n <= 2 || d.n%osBatch <= 1 || d.n%osBatch == osBatch-1 || d.names != "") {
				for _, al := range []bool{false, true} {
					for _, tx := range c16MaxTxs {
						for _, rel := range c16OSRels {
							for _, api := range c16APIs {
								if d.n > 1500 && (api == "walk" || api == "glob") && rel != "" {
									continue
								}
								j.cases = append(j.cases, mk(al, tx, rel, api, 0))
							}
						}
					}
				}
				j.cases = append(j.cases, mk(true, 65536, "name", "", 4), mk(false, 0, "", "ctx", 4))
			} else {
				// rotated options, eight per directory: every max-tx value with the allocator on and off,
				// every path form and every API at least once
				d0 := len(jobs)
				for v := 0; v < 8; v++ {
					j.cases = append(j.cases, mk((v+off[0])%2 == 1, c16MaxTxs[(v/2+d0+off[1])%len(c16MaxTxs)], c16OSRels[(v+d0+off[2])%len(c16OSRels)],
						c16APIs[(3*v+d0+off[3])%len(c16APIs)], map[bool]int{true: 4, false: 0}[v == (d0+off[0])%8]))
				}
			}
			jobs = append(jobs, j)
		}
	}
	if len(jobs) == 0 {
		return
	}
	root, err := lib.MkScratch("vh-c16-")
	if err != nil {
		r.Fail(lib.Failure{Kind: "tie", Key: "tmpdir", What: err.Error()})
		return
	}
	defer os.RemoveAll(root)
	if rp, err := filepath.EvalSymlinks(root); err == nil {
		root = rp
	}
	var olines, oimpl []string
	oskipped := 0
	for _, j := range jobs {
		dir, err := c16MakeDir(root, j.dir)
		if err != nil {
			r.Fail(lib.Failure{Kind: "tie", Key: "os-mkdir", What: err.Error()})
			return
		}
		for _, cs := range j.cases {
			if c.Stop("c16/" + cs.api()) {
				continue
			}
			out := c16RunOS(cs, root, dir)
			if out.started != nil {
				r.Fail(lib.Failure{Kind: "tie", Key: "os-start", What: out.started.Error(), Input: cs})
				return
			}
			r.Case(cs.key(), cs.N > osBatch || cs.Names != "" || cs.Alloc || cs.MaxTx != 0 || cs.Rel != "" || cs.API != "" || cs.Par > 1)
			r.Hist("os-backed")
			switch {
			case cs.Names != "":
				r.Hist("os-backed-long-names")
				r.Hist("os-names/" + cs.Names)
			}
			if cs.N >= 1024 {
				r.Hist("os-backed->=1024-entries")
			}
			c16HistOpts(r, cs)
			ec := c16ErrClass(out.l)
			v := c16Judge(cs, out.l, out.arg, nil, out.follow, out.minPre)
			if v == nil {
				v = out.parBad
			}
			if v != nil {
				r.Fail(lib.Failure{Kind: "oracle", Key: v.key, What: v.what, Input: cs, Expected: v.expected, Actual: v.actual})
			} else if out.fdsLeft != 0 {
				key := "os/handle-not-closed"
				if cs.api() == "cancel" {
					key = "os/cancel/handle-not-closed"
				}
				r.Fail(lib.Failure{Kind: "oracle", Key: key, What: "after the listing returned the server still holds the directory open (descriptors of this process referring to it)", Input: cs, Expected: 0, Actual: out.fdsLeft})
			}
			if cs.api() == "cancel" {
				r.Hist("cancel-result/" + ec)
			}
			if (cs.api() != "readdir" && cs.api() != "ctx") || cs.Par > 1 {
				oskipped++
				r.Hist("model-comparison-skipped/" + c16SkipWhy(cs))
				continue
			}
			// the os model lists in directory order; the implementation's order is the file system's: compare as sorted sets
			var idx []int
			for _, fi := range out.l.fis {
				idx = append(idx, int(fi.Size()))
			}
			sort.Ints(idx)
			var is []string
			for _, i := range idx {
				is = append(is, strconv.Itoa(i))
			}
			s := "-"
			if len(is) > 0 {
				s = strings.Join(is, ",")
			}
			olines = append(olines, fmt.Sprintf("c16.oslist %s %d -", c16OSCfg, cs.N))
			if ec == "hang" {
				oimpl = append(oimpl, "nofuel")
			} else {
				if ec != "nil" {
					ec = "other"
				}
				oimpl = append(oimpl, fmt.Sprintf("ok 0 %s %s", ec, s))
			}
		}
		os.RemoveAll(dir)
	}
	if oskipped > 0 {
		r.Note("model comparison skipped for %d os-backed cases the driver op cannot express (cancelled context, Walk, Glob, parallel listings); their direct oracle ran", oskipped)
	}
	model, err := c.Model(olines)
	if err != nil {
		r.Fail(lib.Failure{Kind: "tie", Key: "c16/model-driver", What: err.Error()})
		return
	}
	for i := range olines {
		mf := strings.Fields(model[i])
		if len(mf) == 4 && mf[3] != "-" {
			parts := strings.Split(mf[3], ",")
			sort.Slice(parts, func(a, b int) bool { x, _ := strconv.Atoi(parts[a]); y, _ := strconv.Atoi(parts[b]); return x < y })
			mf[3] = strings.Join(parts, ",")
		}
		imf := strings.Fields(oimpl[i])
		// round trips of the os-backed listing are not observable through the client API: compare error class and entry set
		if len(mf) != 4 || len(imf) != 4 || mf[0] != imf[0] || mf[2] != imf[2] || mf[3] != imf[3] {
			r.Fail(lib.Failure{Kind: "correspondence", Key: "c16/c16.oslist", What: "model and implementation differ", Input: olines[i], Expected: c16Short(model[i]), Actual: c16Short(oimpl[i])})
		}
	}
}

func c16Short(s string) string {
	if len(s) > 400 {
		return s[:400] + fmt.Sprintf("… (%d bytes)", len(s))
	}
	return s
}

func c16SkipWhy(cs c16Case) string {
	if cs.Par > 1 && (cs.api() == "readdir" || cs.api() == "ctx") {
		return "parallel"
	}
	return cs.api()
}

func c16HistOpts(r *lib.Result, cs c16Case) {
	s := cs.Server
	if cs.Alloc {
		r.Hist(s + "-allocator/on")
	} else {
		r.Hist(s + "-allocator/off")
	}
	r.Hist(fmt.Sprintf("%s-max-tx-packet/%d", s, cs.MaxTx))
	rel := cs.Rel
	if rel == "" {
		rel = "absolute-no-option"
	}
	r.Hist(s + "-start-dir+path/" + rel)
	r.Hist(s + "-api/" + cs.api())
	if s == "rs" {
		n := cs.Names
		if n == "" {
			n = "e<i>"
		}
		r.Hist("rs-names/" + n)
		a := cs.Attrs
		if a == "" {
			a = "plain"
		}
		r.Hist("rs-attrs/" + a)
	}
	if cs.Par > 1 {
		r.Hist(s + "-parallel-listings")
	}
}
