package main

import (
	"fmt"
	"io"
	"os"
	"path/filepath"
	"sort"
	"strconv"
	"strings"
	"sync/atomic"
	"time"

	"github.com/pkg/sftp"

	"verifharness/lib"
)

func init() { register("c16", checkC16) }

type c16Info struct {
	name string
	idx  int
	dir  bool
}

func (f c16Info) Name() string { return f.name }
func (f c16Info) Size() int64  { return int64(f.idx) }
func (f c16Info) Mode() os.FileMode {
	if f.dir {
		return os.ModeDir | 0o755
	}
	return 0o644
}
func (f c16Info) ModTime() time.Time { return time.Unix(1_000_000_000+int64(f.idx), 0) }
func (f c16Info) IsDir() bool        { return f.dir }
func (f c16Info) Sys() any           { return nil }

// c16Lister is the scripted ListerAt: a function of the offset only (like the Lean `scriptBeh`).
type c16Lister struct {
	ents        []os.FileInfo
	sizes       []int
	eofWithLast bool
	calls       *int64
}

func (l c16Lister) ListAt(ls []os.FileInfo, off int64) (int, error) {
	atomic.AddInt64(l.calls, 1)
	n := len(l.ents)
	if int(off) >= n {
		return 0, io.EOF
	}
	rest := n - int(off)
	k := min(len(ls), rest)
	cur := 0
	for _, s := range l.sizes {
		if int(off) < cur+s {
			k = min(cur+s-int(off), k)
			break
		}
		cur += s
	}
	copy(ls, l.ents[int(off):int(off)+k])
	if l.eofWithLast && int(off)+k == n {
		return k, io.EOF
	}
	return k, nil
}

type c16Handlers struct{ l c16Lister }

func (h c16Handlers) Filelist(r *sftp.Request) (sftp.ListerAt, error) {
	switch r.Method {
	case "List":
		return h.l, nil
	case "Stat":
		one := c16Lister{ents: []os.FileInfo{c16Info{name: "d", dir: true}}, calls: new(int64)}
		return one, nil
	}
	return nil, os.ErrInvalid
}

type c16Case struct {
	Batch       int    `json:"batch"`
	N           int    `json:"n"`
	Sizes       []int  `json:"sizes"`
	EOFWithLast bool   `json:"eof_with_last"`
	DotMask     string `json:"dotmask"`
	Server      string `json:"server"` // rs | os
}

func (cs c16Case) line() string {
	e := "0"
	if cs.EOFWithLast {
		e = "1"
	}
	sz := "-"
	if len(cs.Sizes) > 0 {
		var p []string
		for _, s := range cs.Sizes {
			p = append(p, strconv.Itoa(s))
		}
		sz = strings.Join(p, ",")
	}
	m := cs.DotMask
	if m == "" {
		m = "-"
	}
	return fmt.Sprintf("c16.list %s %d %d %s/%s %s", c16Cfg, cs.Batch, cs.N, e, sz, m)
}

// c16Cfg / c16OSCfg are replaced at the start of checkC16 by the tokens regenerated from the source (gCurCfg).
var c16Cfg, c16OSCfg = "111111", "11111 128"

func c16RunRS(cs c16Case) (idx []int, names []string, rounds int64, errClass string, err error) {
	old := sftp.MaxFilelist
	sftp.MaxFilelist = int64(cs.Batch)
	defer func() { sftp.MaxFilelist = old }()
	var ents []os.FileInfo
	for i := 0; i < cs.N; i++ {
		name := fmt.Sprintf("e%d", i)
		if i < len(cs.DotMask) {
			switch cs.DotMask[i] {
			case 'd':
				name = "."
			case 'D':
				name = ".."
			}
		}
		ents = append(ents, c16Info{name: name, idx: i})
	}
	calls := new(int64)
	h := c16Handlers{l: c16Lister{ents: ents, sizes: cs.Sizes, eofWithLast: cs.EOFWithLast, calls: calls}}
	p, err := vhStartRS(sftp.Handlers{FileList: h}, nil)
	if err != nil {
		return nil, nil, 0, "", err
	}
	defer p.Close()
	type res struct {
		fis []os.FileInfo
		err error
	}
	ch := make(chan res, 1)
	go func() { fis, err := p.Client.ReadDir("/d"); ch <- res{fis, err} }()
	select {
	case r := <-ch:
		for _, fi := range r.fis {
			idx = append(idx, int(fi.Size()))
			names = append(names, fi.Name())
		}
		switch {
		case r.err == nil:
			errClass = "nil"
		case r.err == io.EOF:
			errClass = "eof"
		default:
			errClass = "other"
		}
		return idx, names, atomic.LoadInt64(calls), errClass, nil
	case <-time.After(20 * time.Second):
		return nil, nil, atomic.LoadInt64(calls), "hang", nil
	}
}

func checkC16(c *lib.Ctx) {
	r := c.R
	c16Cfg = gCurCfg(c, "c16", c16Cfg)
	c16OSCfg = gCurCfg(c, "c16os", c16OSCfg)
	r.Rule = "request server: every directory size 0..2*batch+2 x batch 1..5 x scripted legal ListAt behaviours (EOF with the last entries or on the following call; short-batch cut patterns) x dot/dotdot masks, end to end through Client.ReadDir with MaxFilelist = batch; os-backed server: real directories around the Readdir(128) batch boundary; non-trivial = listing that spans more than one batch or contains a dot entry; distinct by (server, batch, n, behaviour, mask)"
	var cases []c16Case
	if c.Replay != "" {
		var one c16Case
		if err := lib.ReadReplay(c.Replay, &one); err != nil {
			r.Fail(lib.Failure{Kind: "tie", Key: "replay", What: err.Error()})
			return
		}
		cases = []c16Case{one}
	} else {
		maxBatch := 5
		for batch := 1; batch <= maxBatch; batch++ {
			for n := 0; n <= 2*batch+2; n++ {
				for _, ewl := range []bool{false, true} {
					pats := [][]int{nil, {1}, {2, 1}, {1, 1, 1}, {batch}, {batch + 1, 1}}
					if c.Tier == "thorough" {
						for k := 0; k < 6; k++ {
							var p []int
							for j := 0; j < 1+c.Rand.Intn(4); j++ {
								p = append(p, 1+c.Rand.Intn(batch+1))
							}
							pats = append(pats, p)
						}
					}
					for _, sz := range pats {
						masks := []string{""}
						if n >= 2 {
							masks = append(masks, "dD", strings.Repeat("n", n-1)+"d")
						}
						if n >= 4 && c.Tier == "thorough" {
							masks = append(masks, "ndnD", "D"+strings.Repeat("n", n-2)+"d")
						}
						for _, m := range masks {
							cases = append(cases, c16Case{Batch: batch, N: n, Sizes: sz, EOFWithLast: ewl, DotMask: m, Server: "rs"})
						}
					}
				}
			}
		}
		r.Exhaustive = true
	}
	var lines, impl []string
	for _, cs := range cases {
		if cs.Server != "rs" {
			continue
		}
		idx, names, rounds, ec, err := c16RunRS(cs)
		if err != nil {
			r.Fail(lib.Failure{Kind: "tie", Key: "rs-start", What: err.Error()})
			return
		}
		key := cs.line()
		r.Case(key, cs.N > cs.Batch || cs.DotMask != "")
		r.Hist(fmt.Sprintf("rs-batch%d", cs.Batch))
		if cs.EOFWithLast {
			r.Hist("eof-with-last")
		} else {
			r.Hist("eof-on-next-call")
		}
		if cs.N > cs.Batch {
			r.Hist("multi-batch")
		}
		if len(r.Samples) < 5 && cs.N == 2*cs.Batch+1 && cs.DotMask != "" {
			r.Sample(map[string]any{"case": cs, "returned": idx, "rounds": rounds})
		}
		// direct oracle: each non-dot entry exactly once, in order, attributes (size = index) as served
		var want []int
		for i := 0; i < cs.N; i++ {
			if i < len(cs.DotMask) && (cs.DotMask[i] == 'd' || cs.DotMask[i] == 'D') {
				continue
			}
			want = append(want, i)
		}
		okNames := true
		for j, i := range idx {
			if names[j] != fmt.Sprintf("e%d", i) {
				okNames = false
			}
		}
		if ec == "hang" {
			r.Fail(lib.Failure{Kind: "oracle", Key: "rs/listing-does-not-terminate", What: "Client.ReadDir did not return within 20 s", Input: cs})
		} else if ec != "nil" || fmt.Sprint(idx) != fmt.Sprint(want) || !okNames {
			r.Fail(lib.Failure{Kind: "oracle", Key: "rs/listing-not-exact", What: "ReadDir did not return every entry exactly once (minus . and ..) with its attributes",
				Input: cs, Expected: want, Actual: map[string]any{"indices": idx, "names": names, "err": ec}})
		} else if rounds > int64(cs.N)+1 {
			r.Fail(lib.Failure{Kind: "oracle", Key: "rs/too-many-rounds", What: "more READDIR round trips than entries + 1", Input: cs, Expected: cs.N + 1, Actual: rounds})
		}
		var is []string
		for _, i := range idx {
			is = append(is, strconv.Itoa(i))
		}
		s := "-"
		if len(is) > 0 {
			s = strings.Join(is, ",")
		}
		lines = append(lines, key)
		if ec == "hang" {
			impl = append(impl, "nofuel")
		} else {
			impl = append(impl, fmt.Sprintf("ok %d %s %s", rounds, ec, s))
		}
	}
	c.Compare("c16", lines, impl)

	// os-backed server on real directories around the Readdir batch boundary
	sizes := []int{0, 1, 2, 127, 128, 129, 255, 256, 257}
	if c.Tier == "thorough" {
		sizes = nil
		for n := 0; n <= 300; n++ {
			sizes = append(sizes, n)
		}
	}
	if c.Replay != "" {
		sizes = nil
		for _, cs := range cases {
			if cs.Server == "os" {
				sizes = append(sizes, cs.N)
			}
		}
	}
	if len(sizes) > 0 {
		root, err := os.MkdirTemp("", "vh-c16-")
		if err != nil {
			r.Fail(lib.Failure{Kind: "tie", Key: "tmpdir", What: err.Error()})
			return
		}
		defer os.RemoveAll(root)
		p, err := vhStartOS(nil)
		if err != nil {
			r.Fail(lib.Failure{Kind: "tie", Key: "os-start", What: err.Error()})
			return
		}
		defer p.Close()
		// entry names of all lengths: a batch of 128 long names encodes to much more than a data packet
		for _, nl := range []struct{ n, namelen int }{{150, 200}, {300, 120}, {129, 250}} {
			d := filepath.Join(root, fmt.Sprintf("long%d_%d", nl.n, nl.namelen))
			os.Mkdir(d, 0o755)
			want := map[string]bool{}
			for i := 0; i < nl.n; i++ {
				name := fmt.Sprintf("e%04d_", i) + strings.Repeat("x", nl.namelen-6)
				os.WriteFile(filepath.Join(d, name), nil, 0o600)
				want[name] = true
			}
			fis, err := p.Client.ReadDir(d)
			r.Case(fmt.Sprintf("os long names %d x %d", nl.n, nl.namelen), true)
			r.Hist("os-backed-long-names")
			got := map[string]int{}
			for _, fi := range fis {
				got[fi.Name()]++
			}
			bad := err != nil || len(got) != len(want) || len(fis) != nl.n
			for name := range want {
				if got[name] != 1 {
					bad = true
				}
			}
			if bad {
				r.Fail(lib.Failure{Kind: "oracle", Key: "os/listing-not-exact/long-names", What: "ReadDir of a real directory with long entry names lost or duplicated entries",
					Input: map[string]int{"entries": nl.n, "name_length": nl.namelen}, Expected: nl.n, Actual: map[string]any{"returned": len(fis), "distinct": len(got), "err": fmt.Sprint(err)}})
			}
			os.RemoveAll(d)
		}
		var olines, oimpl []string
		for _, n := range sizes {
			d := filepath.Join(root, fmt.Sprintf("d%d", n))
			os.Mkdir(d, 0o755)
			for i := 0; i < n; i++ {
				os.WriteFile(filepath.Join(d, fmt.Sprintf("e%d", i)), make([]byte, i), 0o600)
			}
			fis, err := p.Client.ReadDir(d)
			r.Case(fmt.Sprintf("os %d", n), n > 128)
			r.Hist("os-backed")
			got := map[string]int64{}
			dup := false
			for _, fi := range fis {
				if _, ok := got[fi.Name()]; ok {
					dup = true
				}
				got[fi.Name()] = fi.Size()
			}
			bad := err != nil || dup || len(got) != n
			var idx []int
			for i := 0; i < n && !bad; i++ {
				if sz, ok := got[fmt.Sprintf("e%d", i)]; !ok || sz != int64(i) {
					bad = true
				}
			}
			for _, fi := range fis {
				idx = append(idx, int(fi.Size()))
			}
			sort.Ints(idx)
			if bad {
				r.Fail(lib.Failure{Kind: "oracle", Key: "os/listing-not-exact", What: "ReadDir of a real directory lost, duplicated or altered entries",
					Input: c16Case{N: n, Server: "os"}, Expected: n, Actual: map[string]any{"returned": len(fis), "err": fmt.Sprint(err)}})
			}
			var is []string
			for _, i := range idx {
				is = append(is, strconv.Itoa(i))
			}
			s := "-"
			if len(is) > 0 {
				s = strings.Join(is, ",")
			}
			olines = append(olines, fmt.Sprintf("c16.oslist %s %d -", c16OSCfg, n))
			rounds := n/128 + 1
			if n%128 != 0 || n == 0 {
				rounds = n/128 + 1
				if n%128 != 0 {
					rounds = n/128 + 2
				}
			}
			ec := "nil"
			if err != nil {
				ec = "other"
			}
			oimpl = append(oimpl, fmt.Sprintf("ok %d %s %s", rounds, ec, s))
			os.RemoveAll(d)
		}
		// the os model lists in directory order; the implementation's order is the file system's: compare as sorted sets
		model, err := c.Model(olines)
		if err != nil {
			r.Fail(lib.Failure{Kind: "tie", Key: "c16/model-driver", What: err.Error()})
		} else {
			for i := range olines {
				mf := strings.Fields(model[i])
				if len(mf) == 4 {
					parts := strings.Split(mf[3], ",")
					if mf[3] != "-" {
						sort.Slice(parts, func(a, b int) bool { x, _ := strconv.Atoi(parts[a]); y, _ := strconv.Atoi(parts[b]); return x < y })
						mf[3] = strings.Join(parts, ",")
					}
				}
				imf := strings.Fields(oimpl[i])
				// round trips of the os-backed listing are not observable through the client API: compare error class and entry set
				if len(mf) != 4 || mf[0] != imf[0] || mf[2] != imf[2] || mf[3] != imf[3] {
					r.Fail(lib.Failure{Kind: "correspondence", Key: "c16/c16.oslist", What: "model and implementation differ", Input: olines[i], Expected: model[i], Actual: oimpl[i]})
				}
			}
		}
	}
}
