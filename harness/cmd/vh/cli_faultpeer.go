package main

// A scripted server peer for a real *sftp.Client whose transport can fail with a CHOSEN ERROR VALUE, in both
// directions, and whose client→server writer can be told to fail from the k-th Write call on (C04).
//
// peers.ScriptedServer fails whole directions through io.Pipe's CloseWithError, which is driven from the
// server side and therefore races with the client's pipelined writes; the writer wrapper here counts the
// client's own Write calls (one for a frame without payload, two — header, payload — for SSH_FXP_WRITE), so
// "the k-th write fails" is exact for every schedule, and the reply stream can stay alive afterwards (the
// receiver has not noticed the loss yet: the window in which only the failing caller knows).
//
// The error values are the ones real transports return: x/crypto/ssh channel.Write answers io.EOF on a closed
// channel, io.Pipe io.ErrClosedPipe, sockets *net.OpError{EPIPE|ECONNRESET|i/o timeout}, closed files
// os.ErrClosed / net.ErrClosed, TLS io.ErrUnexpectedEOF, plus wrappers of those made with %w and with a
// custom Is method.

import (
	"errors"
	"fmt"
	"io"
	"net"
	"os"
	"sync"
	"syscall"
	"time"

	"github.com/pkg/sftp"

	"verifharness/peers"
	"verifharness/wire"
)

// ---------- error values ----------

type cliErrKind struct {
	Name   string
	Family string // what the value claims to be under errors.Is: eof | unexpected-eof | closed | timeout | syscall | opaque
	Make   func() error
}

// cliIsEOFErr is an error of a foreign type that answers errors.Is(err, io.EOF) through an Is method.
type cliIsEOFErr struct{}

func (cliIsEOFErr) Error() string        { return "channel closed by peer" }
func (cliIsEOFErr) Is(target error) bool { return target == io.EOF }

type cliOpaqueErr struct{ msg string }

func (e *cliOpaqueErr) Error() string { return e.msg }

var errCliInjected = errors.New("injected transport failure")

func cliOpErr(op string, inner error) error {
	return &net.OpError{Op: op, Net: "tcp", Addr: &net.TCPAddr{IP: net.IPv4(192, 0, 2, 1), Port: 22}, Err: inner}
}

// cliErrKinds is the table of transport error values. dir is "write" or "read" (only used for the text of
// the *net.OpError wrappers).
func cliErrKinds(dir string) []cliErrKind {
	return []cliErrKind{
		{"custom", "opaque", func() error { return errCliInjected }},
		{"custom-type", "opaque", func() error { return &cliOpaqueErr{"link layer gone"} }},
		{"eof", "eof", func() error { return io.EOF }},
		{"wrapped-eof", "eof", func() error { return fmt.Errorf("ssh: channel %s: %w", dir, io.EOF) }},
		{"wrapped2-eof", "eof", func() error { return fmt.Errorf("mux: %w", fmt.Errorf("stream 3: %w", io.EOF)) }},
		{"operror-eof", "eof", func() error { return cliOpErr(dir, io.EOF) }},
		{"is-eof", "eof", func() error { return cliIsEOFErr{} }},
		{"joined-eof", "eof", func() error { return errors.Join(errCliInjected, io.EOF) }},
		{"unexpected-eof", "unexpected-eof", func() error { return io.ErrUnexpectedEOF }},
		{"wrapped-unexpected-eof", "unexpected-eof", func() error { return fmt.Errorf("tls: %w", io.ErrUnexpectedEOF) }},
		{"closed-pipe", "closed", func() error { return io.ErrClosedPipe }},
		{"os-closed", "closed", func() error { return &os.PathError{Op: dir, Path: "|1", Err: os.ErrClosed} }},
		{"net-closed", "closed", func() error { return cliOpErr(dir, net.ErrClosed) }},
		{"deadline", "timeout", func() error { return os.ErrDeadlineExceeded }},
		{"operror-deadline", "timeout", func() error { return cliOpErr(dir, os.ErrDeadlineExceeded) }},
		{"epipe", "syscall", func() error { return cliOpErr(dir, os.NewSyscallError(dir, syscall.EPIPE)) }},
		{"econnreset", "syscall", func() error { return cliOpErr(dir, os.NewSyscallError(dir, syscall.ECONNRESET)) }},
		{"bare-epipe", "syscall", func() error { return syscall.EPIPE }},
	}
}

// cliErrValue returns the error value of a kind ("" is the historical fixed value) and its family.
func cliErrValue(kind, dir string) (error, string, bool) {
	if kind == "" {
		return errCliInjected, "opaque", true
	}
	for _, k := range cliErrKinds(dir) {
		if k.Name == kind {
			return k.Make(), k.Family, true
		}
	}
	return nil, "", false
}

// ---------- the peer ----------

// faultWriter is the client's writer. After arm(), the first `passN` Write calls are forwarded and every
// later one fails with err without forwarding a byte (passN < 0: never fail).
type faultWriter struct {
	w      io.WriteCloser
	mu     sync.Mutex
	armed  bool
	passN  int
	err    error
	calls  int // Write calls since arm()
	failed int // Write calls refused
	onFail func(call int)
}

func (f *faultWriter) Write(p []byte) (int, error) {
	f.mu.Lock()
	if f.armed {
		call := f.calls
		f.calls++
		if f.passN >= 0 && call >= f.passN {
			f.failed++
			first := f.failed == 1
			err, cb := f.err, f.onFail
			f.mu.Unlock()
			if first && cb != nil {
				cb(call)
			}
			return 0, err
		}
	}
	f.mu.Unlock()
	return f.w.Write(p)
}

func (f *faultWriter) Close() error { return f.w.Close() }

func (f *faultWriter) counts() (calls, failed int) {
	f.mu.Lock()
	defer f.mu.Unlock()
	return f.calls, f.failed
}

// faultReader is the client's reader: the READ behaviour of the transport at the moment it fails.  It forwards to
// the pipe until the peer ends the stream.  A stream ended with FailOutput / CutOutput returns its last bytes and the
// terminal error in SEPARATE Read calls (what pipes and sockets do).  A stream ended with FailOutputData(tail, err)
// hands out the bytes of tail once everything written before them has been read, and the Read call that hands out
// the LAST of them returns err IN THE SAME CALL (n > 0, err != nil — explicitly allowed by the io.Reader contract:
// iotest.DataErrReader, readers that learn about the end together with the final segment); every later Read
// returns (0, err).
type faultReader struct {
	r       *io.PipeReader
	mu      sync.Mutex
	tail    []byte
	terr    error
	dataErr int // Read calls that returned data together with the terminal error
}

var errFaultTail = errors.New("faultpeer: held-back tail follows")

func (f *faultReader) Read(p []byte) (int, error) {
	n, err := f.r.Read(p)
	if err != errFaultTail {
		return n, err
	}
	// the pipe is drained (io.Pipe reports the close error only when no Write is pending, with n == 0)
	f.mu.Lock()
	defer f.mu.Unlock()
	if len(p) == 0 && len(f.tail) > 0 {
		return 0, nil
	}
	n = copy(p, f.tail)
	f.tail = f.tail[n:]
	if len(f.tail) > 0 {
		return n, nil
	}
	if n > 0 {
		f.dataErr++
	}
	return n, f.terr
}

// DataErrReads returns how many Read calls of the client returned data together with the terminal error.
func (f *faultReader) DataErrReads() int {
	f.mu.Lock()
	defer f.mu.Unlock()
	return f.dataErr
}

// faultPeer is the server end of the client's transport (the same surface as peers.ScriptedServer).
type faultPeer struct {
	fromCli *io.PipeReader
	toCli   *io.PipeWriter
	Reqs    chan wire.Pkt
	W       *faultWriter
	R       *faultReader
	wmu     sync.Mutex
}

// newFaultClient creates a Client connected to a faultPeer. The handshake is done with the writer
// unarmed; Write calls are counted from the return of this function on.
func newFaultClient(versionFrame []byte, passN int, werr error, onFail func(call int), opts ...sftp.ClientOption) (*sftp.Client, *faultPeer, error) {
	c2sR, c2sW := io.Pipe()
	s2cR, s2cW := io.Pipe()
	fw := &faultWriter{w: c2sW, passN: passN, err: werr, onFail: onFail}
	fr := &faultReader{r: s2cR}
	fp := &faultPeer{fromCli: c2sR, toCli: s2cW, Reqs: make(chan wire.Pkt, 65536), W: fw, R: fr}
	go func() {
		first := true
		for {
			p, err := wire.ReadFrame(c2sR)
			if err != nil {
				close(fp.Reqs)
				io.Copy(io.Discard, c2sR)
				return
			}
			if first && p.Typ == wire.Init {
				first = false
				if versionFrame != nil {
					fp.Reply(versionFrame)
				}
				continue
			}
			first = false
			fp.Reqs <- p
		}
	}()
	type res struct {
		c   *sftp.Client
		err error
	}
	ch := make(chan res, 1)
	go func() {
		c, err := sftp.NewClientPipe(fr, fw, opts...)
		ch <- res{c, err}
	}()
	select {
	case r := <-ch:
		if r.err != nil {
			fp.Shutdown()
			return r.c, fp, r.err
		}
		fw.mu.Lock()
		fw.armed = true
		fw.mu.Unlock()
		return r.c, fp, nil
	case <-cliCase.Load().After(20 * time.Second):
		cliCase.Load().Fired()
		fp.Shutdown()
		return nil, fp, peers.ErrTimeout
	}
}

// Reply writes raw bytes to the client.
func (s *faultPeer) Reply(b []byte) error {
	s.wmu.Lock()
	defer s.wmu.Unlock()
	errc := make(chan error, 1)
	go func() { _, err := s.toCli.Write(b); errc <- err }()
	select {
	case err := <-errc:
		return err
	case <-cliCase.Load().After(20 * time.Second):
		cliCase.Load().Fired()
		return peers.ErrTimeout
	}
}

// CutOutput ends the server→client stream (EOF for the client's receiver).
func (s *faultPeer) CutOutput() { s.toCli.Close() }

// FailOutput ends the server→client stream with err: the client's pending and later Reads return err itself.
func (s *faultPeer) FailOutput(err error) { s.toCli.CloseWithError(err) }

// FailOutputData ends the server→client stream with `tail` as its last bytes, delivered TOGETHER with the terminal
// error err (io.EOF for a plain end of the stream): see faultReader.  Everything written with Reply before has been
// read by the client when Reply returned (io.Pipe), so the tail follows it in stream order.
func (s *faultPeer) FailOutputData(tail []byte, err error) {
	s.R.mu.Lock()
	s.R.tail, s.R.terr = append([]byte(nil), tail...), err
	s.R.mu.Unlock()
	s.toCli.CloseWithError(errFaultTail)
}

// FailInput makes the client's pending and later Writes return err itself (nil: io.ErrClosedPipe).
func (s *faultPeer) FailInput(err error) { s.fromCli.CloseWithError(err) }

// Shutdown closes both directions.
func (s *faultPeer) Shutdown() {
	s.toCli.Close()
	s.fromCli.Close()
}
