package main

// C01 — transferred bytes are exactly the file's bytes.
//
// A real *sftp.Client (sftp.NewClientPipe over in-memory pipes) moves data through every File
// transfer method against (i) the os-backed Server, (ii) the RequestServer with in-memory
// handlers, each with the allocator on/off and default/larger max-tx-packet, and (iii) a
// scripted peer that serves the file itself, records every request and answers held requests
// in a PRNG permutation.
//
// Further dimensions: the open mode of the File (xfOpenModeList: access mode x O_CREATE / O_APPEND / O_TRUNC / O_EXCL and
// Client.Create()), a request server whose FilePut handler is no sftp.OpenFileWriter (reads through a read-write open
// must fail cleanly), and a client packet size above the server's max payload on the refilling read paths.
//
// The request server also runs over the package's OWN example backend sftp.InMemHandler() (xfer_inmem.go), and beside
// the single transfers there are HISTORIES of one file (xfer_hist.go: data, shrink by Truncate / O_TRUNC / Create over
// the existing name, a sparse write beyond the new end, read everything back) mirrored call by call on an os.File twin:
// what a file holds is the outcome of everything done to it (the bytes of a hole are zeros, whatever was there before).
//
// And SEVERAL Files open on one served file at once (c01_multi.go): opened in every mode while the others stay open,
// transfers interleaved through all of them, hard links / renames / removes of the name under them, mirrored on os twins:
// the served file is one thing however many handles and names refer to it.
//
// Oracles: (1) outcome: bytes delivered / stored, count, error; (2) wire conformance on the
// scripted peer: the multiset of (offset, length) READ/WRITE requests is the chunk plan;
// (3) the same outcome when the replies are permuted. Model: the recorded plan is compared with
// the Lean driver's `xfer.plan`, ReadAt outcomes with `xfer.readat`, when those ops exist.

import (
	"bytes"
	"encoding/json"
	"fmt"
	"io"
	"math/rand"
	"os"
	"path/filepath"
	"runtime"
	"strings"
	"sync"

	"verifharness/lib"
	"verifharness/wire"
)

func init() {
	register("c01", func(c *lib.Ctx) { xfInChild(c, "c01", checkC01) })
}

type xfAPIVariant struct {
	API string
	Src string
	RFC int
}

func xfAPIVariants(thorough bool) []xfAPIVariant {
	v := []xfAPIVariant{{API: "ReadAt"}, {API: "Read"}, {API: "WriteTo"}, {API: "WriteAt"}, {API: "Write"}}
	kinds := xfSrcKinds
	if !thorough {
		kinds = kinds[:5]
	}
	for _, k := range kinds {
		v = append(v, xfAPIVariant{API: "ReadFrom", Src: k})
	}
	if !thorough {
		v = append(v, xfAPIVariant{API: "ReadFrom", Src: "*"}) // one of the remaining kinds, drawn per case
	}
	for _, n := range []int{0, 1, 3} {
		v = append(v, xfAPIVariant{API: "ReadFromWithConcurrency", Src: "opaque", RFC: n})
	}
	if thorough {
		v = append(v, xfAPIVariant{API: "ReadFromWithConcurrency", Src: "len", RFC: 3}, xfAPIVariant{API: "ReadFromWithConcurrency", Src: "opaque1", RFC: 2})
	}
	return v
}

// xfGeom draws (file size, offset, length) for one transfer. L is given (>= 0) or drawn (-1).
func xfGeom(rng *rand.Rand, cfg xfCfg, api string, L int) (S int, o int64, l int) {
	mp := cfg.MP
	if L < 0 {
		L = xfPickSize(rng, cfg)
	}
	offs := []int64{0, 0, 0, 1, int64(mp) - 1, int64(mp), int64(mp) + 1, int64(2*mp) + 1}
	switch api {
	case "ReadAt", "Read":
		o = offs[rng.Intn(len(offs))]
		if rng.Intn(6) == 0 {
			o = int64(rng.Intn(3*mp + 2))
		}
		if o < 0 {
			o = 0
		}
		switch rng.Intn(10) {
		case 0, 1, 2: // the read ends exactly at end of file
			S = int(o) + L
		case 3:
			S = int(o) + L - 1
		case 4:
			S = int(o) + L + 1
		case 5: // file much longer than the read
			S = int(o) + L + mp*2 + 1
		case 6: // read starts at or beyond end of file
			S = int(o) - rng.Intn(2)
		case 7:
			S = 0
		default:
			S = xfPickSize(rng, cfg)
		}
		if S < 0 {
			S = 0
		}
		return S, o, L
	case "WriteTo":
		S = L
		return S, xfPickOff(rng, cfg, S), 0
	default:
		switch rng.Intn(6) {
		case 0, 1:
			S = 0
		case 2:
			S = L
		default:
			S = xfPickSize(rng, cfg)
		}
		return S, xfPickOff(rng, cfg, S), L
	}
}

// xfPickWindow draws how many READ/WRITE requests the permuting peer holds back.
func xfPickWindow(rng *rand.Rand, cs xfCase) int {
	if p := cs.Path(); p != "concurrent" {
		return 1
	}
	max := cs.EffConc() + 1
	if max < 2 {
		return 1
	}
	if rng.Intn(3) == 0 {
		return max
	}
	return 2 + rng.Intn(max-1)
}

// ---------- oracles ----------

type xfFailer func(site, what string, exp, act any)

func xfC01Check(cs xfCase, out xfOutcome, fail xfFailer, hist func(...string)) {
	S, o, L := cs.FileLen, cs.Off, cs.Len
	initial := xfFilePat(S)
	switch {
	case out.SetupErr != nil:
		fail("setup", "could not set the case up: "+out.SetupErr.Error(), nil, nil)
		return
	case out.Hang:
		fail("hang", "the call (or Seek/Close after it) did not return within 20 s", "return", "hang")
		return
	case out.Panic != nil:
		fail("panic", "the call panicked", "no panic", fmt.Sprint(out.Panic))
		return
	}
	implicit := cs.API != "ReadAt" && cs.API != "WriteAt"
	wantOff := int64(0)
	// the open: the flags asked for are the flags that arrive, an O_EXCL open of an existing name is refused and
	// changes nothing, every other open succeeds
	mode := cs.Mode()
	if mode.Refuse {
		if out.OpenErr == nil {
			fail("open/excl-on-existing-accepted", "O_CREATE|O_EXCL on a name that exists must fail", "an error", "<nil>")
		}
		if !bytes.Equal(out.FileAfter, initial) {
			fail("open/refused-open-changed-file", "a refused open changed the served file", xfShort(initial), xfShort(out.FileAfter))
		}
		if cs.Srv.Kind != "peer" && out.LeftOpen != 0 {
			fail("handle-left", "the server holds a handle after a refused open", 0, out.LeftOpen)
		}
		return
	}
	if out.OpenErr != nil {
		fail("open/"+mode.Name, "opening the served file in this mode failed", "<nil>", out.OpenErr.Error())
		return
	}
	switch {
	case cs.Srv.Kind == "peer":
		if !out.OpenSeen || out.OpenWire != mode.Wire {
			fail("open/pflags-on-wire", "the OPEN request does not carry the pflags of the requested mode "+mode.Name, mode.Wire, fmt.Sprintf("%d (seen=%v)", out.OpenWire, out.OpenSeen))
		}
	case cs.Srv.Kind == "rs" && !cs.Srv.InMem: // (the package's own InMemHandler does not report what it was shown)
		if out.HandlerOp.Flags != mode.HandlerFlags() {
			fail("open/flags-shown-to-handler", "Request.Pflags() in the handler differs from the mode the client asked for ("+mode.Name+")", fmt.Sprintf("%+v", mode.HandlerFlags()), fmt.Sprintf("%+v via %s", out.HandlerOp.Flags, out.HandlerOp.Via))
		}
	}
	if mode.Empties() && (!out.AtOpenSet || len(out.AtOpen) != 0) {
		fail("open/not-emptied", "right after an open with O_TRUNC / Client.Create() / O_CREATE|O_EXCL on a new name the file must exist and be empty ("+mode.Name+")",
			"an empty file", fmt.Sprintf("exists=%v, %d bytes", out.AtOpenSet, len(out.AtOpen)))
		return
	}
	if cs.ReadsRefused() {
		// A handle the request server opened through Filewrite serves no READ: the read must fail cleanly - an error
		// status, nothing delivered, nothing changed, the offset where it was, and the handle still closes.
		wantN, wantClass := int64(0), "srv4"
		if cs.API != "WriteTo" && L == 0 {
			wantClass = "ok" // an empty buffer asks the server nothing
		}
		if out.N != wantN || xfErrClass(out.Err) != wantClass {
			fail("refused-read/count-error", "a read through a write-only handle (FilePut without OpenFile) must return (0, the server's failure status)",
				fmt.Sprintf("(%d, %s)", wantN, wantClass), fmt.Sprintf("(%d, %v)", out.N, out.Err))
		}
		if len(out.Data) != 0 {
			fail("refused-read/data", "a refused read delivered bytes", "nothing", xfShort(out.Data))
		}
		if !bytes.Equal(out.FileAfter, initial) {
			fail("file-changed", "a read changed the served file", xfShort(initial), xfShort(out.FileAfter))
		}
		if implicit {
			wantOff = o
		}
		if out.OffErr != nil || out.OffAfter != wantOff {
			fail("refused-read/offset", "a refused read moved the File offset", wantOff, fmt.Sprintf("%d (%v)", out.OffAfter, out.OffErr))
		}
		if out.CloseErr != nil {
			fail("close", "Close after the refused read failed", nil, out.CloseErr.Error())
		}
		if out.LeftOpen != 0 {
			fail("handle-left", "the server still holds a handle after Close", 0, out.LeftOpen)
		}
		return
	}
	switch cs.API {
	case "ReadAt", "Read":
		want := xfSlice(initial, o, L)
		var wantErr error
		if len(want) != L {
			wantErr = io.EOF
		}
		if out.N != int64(len(want)) || out.Err != wantErr {
			fail("count-error", "wrong (n, err): n must be min(len, size-off) and err nil exactly when n == len, else io.EOF",
				fmt.Sprintf("(%d, %v)", len(want), wantErr), fmt.Sprintf("(%d, %v)", out.N, out.Err))
		}
		if !bytes.Equal(out.Data, want) {
			fail("data", fmt.Sprintf("bytes delivered differ from the backing file's bytes [off, off+n) (first difference at index %d)", xfFirstDiff(out.Data, want)),
				xfShort(want), xfShort(out.Data))
		}
		if !bytes.Equal(out.FileAfter, initial) {
			fail("file-changed", "a read changed the served file", xfShort(initial), xfShort(out.FileAfter))
		}
		if implicit {
			wantOff = o + int64(len(want))
		}
	case "WriteTo":
		var want []byte
		if o < int64(S) {
			want = initial[o:]
		}
		if out.N != int64(len(want)) || out.Err != nil {
			fail("count-error", "WriteTo must deliver every byte up to end of file and return (that count, nil)",
				fmt.Sprintf("(%d, <nil>)", len(want)), fmt.Sprintf("(%d, %v)", out.N, out.Err))
		}
		if !bytes.Equal(out.Data, want) {
			fail("data", fmt.Sprintf("bytes written to the io.Writer differ from the backing file's bytes [off, size) (first difference at index %d)", xfFirstDiff(out.Data, want)),
				xfShort(want), xfShort(out.Data))
		}
		if !bytes.Equal(out.FileAfter, initial) {
			fail("file-changed", "a read changed the served file", xfShort(initial), xfShort(out.FileAfter))
		}
		wantOff = o + int64(len(want))
		if out.OffErr == nil && out.OffAfter != wantOff && cs.Path() == "concurrent" && len(want) > 0 {
			mp := int64(cs.Cfg.MP)
			if over := o + (int64(len(want))+mp-1)/mp*mp; out.OffAfter == over {
				// known defect F12, asserted by C12 (offset semantics), not by C01 (bytes and counts)
				hist("note=WriteTo-offset-overshoot(F12, asserted in C12)")
				wantOff = out.OffAfter
			}
		}
	default:
		data := xfPat(cs.Seed, L)
		want := xfOverwrite(initial, o, data)
		if out.N != int64(L) || out.Err != nil {
			fail("count-error", "a complete write must return (len, nil)", fmt.Sprintf("(%d, <nil>)", L), fmt.Sprintf("(%d, %v)", out.N, out.Err))
		}
		if xfInMemEmptyWrite(cs, out) {
			hist("InMemHandler|empty-write-beyond-end-of-file-extends-the-file-with-zeros(documented difference of the example backend, not asked)")
		} else if !bytes.Equal(out.FileAfter, want) {
			d := xfFirstDiff(out.FileAfter, want)
			fail("content", fmt.Sprintf("served file afterwards is not the expected overwrite (sizes %d vs %d, first difference at byte %d)", len(out.FileAfter), len(want), d),
				xfShort(want), xfShort(out.FileAfter))
		}
		if (cs.API == "ReadFrom" || cs.API == "ReadFromWithConcurrency") && out.Consumed != int64(L) {
			fail("consumed", "ReadFrom did not consume the whole source", L, out.Consumed)
		}
		if implicit {
			wantOff = o + int64(L)
		}
	}
	if out.OffErr != nil || out.OffAfter != wantOff {
		fail("offset", "File offset after the call is not start + bytes moved (ReadAt/WriteAt: unchanged)", wantOff, fmt.Sprintf("%d (%v)", out.OffAfter, out.OffErr))
	}
	if out.CloseErr != nil {
		fail("close", "Close after the transfer failed", nil, out.CloseErr.Error())
	}
	if cs.Srv.Kind == "peer" {
		if out.Closes != 1 {
			fail("close-count", "not exactly one CLOSE request reached the peer", 1, out.Closes)
		}
		xfWireOracle(cs, out, fail)
	} else if out.LeftOpen != 0 {
		fail("handle-left", "the server still holds a handle after Close", 0, out.LeftOpen)
	}
}

// xfWireOracle checks the recorded request stream of a failure-free transfer.
func xfWireOracle(cs xfCase, out xfOutcome, fail xfFailer) {
	e := xfExpectWire(cs)
	stats := 0
	for _, q := range out.Log {
		switch {
		case q.Malformed != "":
			fail("wire-malformed", fmt.Sprintf("request type %d is malformed: %s", q.Typ, q.Malformed), "well-formed frame", q.Malformed)
			return
		case q.Stale:
			fail("wire-handle", fmt.Sprintf("request type %d carries a handle that is not open", q.Typ), nil, nil)
			return
		case q.Typ == e.Typ:
		case (q.Typ == wire.Stat || q.Typ == wire.Fstat) && q.Typ == e.StatTyp:
			stats++
		default:
			fail("wire-type", fmt.Sprintf("unexpected request type %d during the transfer", q.Typ), nil, nil)
			return
		}
	}
	if e.StatTyp != 0 && stats != 1 {
		fail("wire-stat", fmt.Sprintf("expected exactly one size query of type %d (UseFstat=%v)", e.StatTyp, cs.Cfg.Fstat), 1, stats)
	}
	rec := xfDataReqs(out.Log, e.Typ)
	for _, c := range rec {
		if c.Len > cs.Cfg.MP || (c.Len < 1 && !(e.Typ == wire.Write && cs.Len == 0)) {
			fail("wire-length", "a request length lies outside [1, maxPacket]", fmt.Sprintf("1..%d", cs.Cfg.MP), fmt.Sprintf("%d:%d", c.Off, c.Len))
			return
		}
	}
	if d := xfWireCheck(rec, e.Required, e.Optional); d != "" {
		fail("wire-plan", "the (offset, length) requests on the wire are not the chunk plan: "+d, xfPlanText(e.Required), xfPlanText(rec))
	}
}

// ---------- generation and driver ----------

type xfJob struct {
	Spec xfSrvSpec
	Cfg  xfCfg
	Seed int64
	Idx  int
	Big  bool // a job of xfBigPacketCases instead of the variant sweep
	// Reads: only the read-side APIs (the client's packet size lies above the server's max payload: the refilling
	// single-chunk and sequential read paths still have to deliver exactly the file's bytes)
	Reads bool
	// ShortCap (scripted peer, C12): DATA replies carry at most this many bytes
	ShortCap int
	// Fault (request server, C01): the transfers of xfFaultCases - the handler's backend fails at a byte offset
	Fault bool
	// Hist (C01): histories of one file (xfer_hist.go) instead of single transfers
	Hist bool
	// Multi (C01): histories with several Files open on one served file at once (c01_multi.go)
	Multi bool
}

// xfApplyOpen gives the case its open mode. For the modes that empty the file the drawn size becomes what the name
// held BEFORE the open and the file the transfer sees is empty.
func xfApplyOpen(cs *xfCase, name string) {
	cs.Open, cs.RW = name, false
	m := cs.Mode()
	if m.Empties() {
		cs.PreLen = cs.FileLen
		if cs.PreLen == 0 {
			cs.PreLen = cs.Cfg.MP + 3
			if cs.PreLen > 70000 {
				cs.PreLen = 70000
			}
		}
		cs.FileLen = 0
	}
	if m.Fresh {
		cs.PreLen = 0
	}
}

// xfPickOpen rotates through the open modes of the transfer's side.
func xfPickOpen(api string, i int) string {
	if api == "ReadAt" || api == "Read" || api == "WriteTo" {
		return xfReadOpenModes[i%len(xfReadOpenModes)]
	}
	return xfWriteOpenModes[i%len(xfWriteOpenModes)]
}

// The largest DATA payload that fits the package's 262144-byte frame limit is 262135 bytes (9 bytes of
// type, id and length); with the allocator a page holds payload + 13 bytes of headers, i.e. 262131.
// A client packet size just below, at and above that page boundary, against servers whose max-tx-packet
// is raised to 262144, is still inside the property's domain for reads. (A WRITE frame adds 21 bytes
// plus the handle, so multi-chunk writes of such packets cannot be framed; writes stay single-chunk here.)
var xfBigPackets = []int{262131, 262132, 262135}

const xfBigMaxTx = 262144

// xfBigPacketCases: reads of k*p-1, k*p, k*p+1 bytes (k <= 3) ending at end of file and inside a longer
// file, through ReadAt, Read and WriteTo, plus single-chunk writes.
func xfBigPacketCases(spec xfSrvSpec, cfg xfCfg, rng *rand.Rand, thorough bool) []xfCase {
	p := cfg.MP
	var out []xfCase
	nmk := rng.Intn(8)
	mk := func(api string, S int, o int64, L int) {
		cs := xfCase{Srv: spec, Cfg: cfg, API: api, Src: "len", FileLen: S, Off: o, Len: L, Seed: rng.Intn(251)}
		nmk++
		if cs.IsRead() {
			xfApplyOpen(&cs, []string{"rdonly", "rdwr", "rdwr+creat", "rdwr+append"}[nmk%4])
		} else {
			xfApplyOpen(&cs, []string{"wronly+creat", "rdwr", "wronly+append", "rdwr+creat", "wronly"}[nmk%5])
		}
		out = append(out, cs)
	}
	for k := 1; k <= 3; k++ {
		for d := -1; d <= 1; d++ {
			L := k*p + d
			if !thorough && (k+d+rng.Intn(2))%2 == 0 && !(k == 3 && d == 0) && !(k == 2 && d == 1) {
				continue // quick: about half of the nine lengths per job, the two most telling always
			}
			mk("ReadAt", L, 0, L)     // ends exactly at end of file
			mk("ReadAt", 3*p+2, 1, L) // inside a longer file, unaligned start
			mk("Read", L+1, 1, L)     // implicit offset
			mk("WriteTo", L, 0, 0)    // whole file
			if thorough {
				mk("ReadAt", L-1, 0, L) // crosses end of file
				mk("WriteTo", L+1, 1, 0)
			}
		}
	}
	for _, L := range []int{1, 100000, 262000} {
		mk("WriteAt", 5, 3, L)
		mk("ReadFrom", 0, 0, L)
		mk("Write", L/2, 1, L)
	}
	return out
}

func xfMaxTx(spec xfSrvSpec) int {
	if spec.MaxTx != 0 {
		return int(spec.MaxTx)
	}
	return 32768
}

func checkC01(c *lib.Ctx) {
	r := c.R
	res := &xfRes{r: r}
	thorough := c.Tier == "thorough"
	r.Rule = "transfers = server kind {os, rs} x {allocator off,on} x {max-tx default, 65536} plus scripted peer {in order, permuted replies} x client options MaxPacket{Checked,Unchecked} mp in {1,2,3,4,7,32768} (and 40000 against the servers with max-tx 65536; 262131, 262132, 262135 = around the allocator page / frame limit against both servers with max-tx 262144, allocator on and off, reads of k*p-1,k*p,k*p+1 for k<=3) x MaxConcurrentRequestsPerFile in {1,2,3,64} x UseConcurrentReads x UseConcurrentWrites x UseFstat (quick: every (mp,conc) pair three times per server kind with the booleans rotating; thorough: the full product) x API {ReadAt, Read, WriteTo, WriteAt, Write, ReadFrom with sources Len/Size/Stat/LimitedReader/opaque(+1-byte reads, lying or negative Size, oversized limit), ReadFromWithConcurrency 0/1/3} x (file size, offset, length) from {0,1,k*mp-1,k*mp,k*mp+1 (k=1..3), mp*conc+r} and uniform draws up to 3*mp*conc+2 (thorough: every length 0..3*mp*conc+2 for mp<=7, conc<=3) x open mode of the File {O_RDONLY, O_WRONLY, O_RDWR, each with/without O_CREATE, O_APPEND (the servers take the offsets the client sends: the bytes land at the File offset), O_TRUNC and Client.Create() (the name held pre_open_len bytes before; the transfer sees an empty file), O_CREATE|O_EXCL on a new name, O_CREATE|O_EXCL on an existing name (the open must fail and change nothing)}: the mode rotates over the cases (thorough: also the explicit product mode x API variant x server kind for every fourth option set); the OPEN pflags are read off the wire on the scripted peer, Request.Pflags() in the handler on the request server x request server WITHOUT sftp.OpenFileWriter (FilePut has Filewrite only: a read-write open is served by Filewrite, writes work, every read through that handle must return (0, failure status), deliver nothing, leave file and offset alone, and Close must still release the handle) x client packet size 40000 above the default server max payload 32768 on the refilling read paths (ReadAt/Read/WriteTo with concurrent reads off); plus HANDLER-SIDE FAILURES on the request server {allocator off, on} (thorough: also max-tx 65536) x every (mp,conc) pair x every API variant x 3 (thorough 12; ReadAt/Read/WriteTo: 9 resp. 36) geometries: the in-memory handler's backend breaks at a byte offset At drawn from {chunk start, chunk start+1, chunk end-1, 0, size-1, size, end of the transfer (+1: beyond it, a control)} and a ReadAt / WriteAt touching bytes at or beyond At returns (0, err) or (the bytes below At, err), err rotating through 29 VALUES {io.EOF (premature: the file then ends at At), io.ErrUnexpectedEOF bare / %w-wrapped / in *os.PathError / errors.Join-ed, os.ErrNotExist, os.ErrPermission, %w-wrapped os.ErrNotExist, syscall errnos EIO ENOSPC ENOENT EBADF EDQUOT EINVAL bare and in *os.PathError (ENOENT, EACCES, os.ErrPermission, custom), errors.New, custom types (pointer, with Timeout()), io.ErrClosedPipe, io.ErrShortWrite, fs.ErrClosed, sftp.ErrSSHFxFailure/OpUnsupported/ConnectionLost; for writes also sftp.ErrSSHFxEOF and wrapped io.EOF}, through opens served by Fileread / Filewrite / OpenFile: a nil error only if everything up to the requested end moved, io.EOF only where the file ends, otherwise a non-nil non-EOF error, n within the bytes below At that were delivered / stored contiguously from the start offset, those bytes intact, the offset at start + n (writes: within [start, start + stored]); a case is non-trivial when it needs more than one packet or touches end of file; distinct by (server, options, api, source, sizes)"
	r.Rule += "; plus the request server over the package's OWN example backend sftp.InMemHandler() {allocator off, on} (xfer_inmem.go: stored and read back by direct calls of its handlers, a fresh file object per case): one covering option set per (mp,conc) pair (32 KiB packets with at most 3 requests per file and half of the variants: memFile.WriteAt sleeps 1 us per byte) x every API variant x open mode as above (documented difference, counted and not asked: an EMPTY write beyond the end of the file extends an InMemHandler file with zeros); plus HISTORIES of one file (xfer_hist.go) against {InMemHandler, InMemHandler+allocator, InMemHandler+max-tx 65536, os, rs, scripted peer, os+allocator, rs+allocator+max-tx 65536} x one covering option set, 4 (thorough 16; 32 KiB packets: a quarter) per option set, 2-3 rounds each of: the file holds data up to hi in {2, mp+1, 2mp, 2mp+1, 3mp, 3mp+2, mp*min(conc,3)+mp+1} (appended or rewritten through WriteAt / Seek+Write / Seek+ReadFrom(6 source kinds) / Seek+ReadFromWithConcurrency(0,1,3)), it is SHRUNK (File.Truncate to {0,1,2,mp-1,mp,half,size-1}; or Close + the same name opened again with O_TRUNC / Client.Create() / O_CREATE|O_TRUNC / plain; or the File of the history is itself opened with O_TRUNC / Create() / O_CREATE|O_TRUNC over a name that held 3mp+2 bytes), a SPARSE write starts gap in {1,2,mp-1,mp,mp+1,2mp+1} bytes beyond the new end with a length in {1,2,mp,mp+1,2mp+1} (half of them ending below what the file held before it was shrunk; a quarter after the file was extended again by Truncate, some of those into the middle of that extension), sometimes a second write further out and one byte into the hole between, and everything is READ BACK (ReadAt of size+1 bytes at 0 / Seek(0)+WriteTo / Seek(0)+Read; Seeks by all three whences), then Close and 4-18 calls after Close; every call is mirrored on an os.File twin over a local file: counts, bytes, errors and offsets after every call, the served file (read on the server side) against the twin after every mutation - the bytes of a hole are zeros whatever the file held there before; a failing history is shrunk call by call; keys history/<call>/<path>/<site>"
	r.Rule += "; plus MULTI-HANDLE histories (c01_multi.go) against {InMemHandler, InMemHandler+allocator, os, os+allocator, rs (the harness's handlers), rs+allocator+max-tx 65536} x one covering option set, 3 (thorough 12; 32 KiB packets: 1 resp. 3) per option set: up to 4 Files open AT ONCE on two names of the served file system, 12-21 steps (32 KiB packets: 8-12) of: open a further File in any of the 14 modes {O_RDONLY, O_WRONLY, O_RDWR} x {O_CREATE, O_APPEND, O_TRUNC, O_CREATE|O_EXCL}, Client.Create() while the others stay open (the second open of a history rotates through all modes, a third of the later ones are truncating; opens that must be refused included), transfers through ANY open File whose mode allows it (WriteAt / Seek+Write / Seek+ReadFrom(6 source kinds) / Seek+ReadFromWithConcurrency(0,1,3); ReadAt / Seek+Read / Seek+WriteTo) at offsets {0,1,size-1,size,size+1,size+mp,the File offset,mp-1,mp,size-len,half} with lengths {1,2,mp-1,mp,mp+1,2mp+1,mp*min(conc,3)+1}, after every successful open a write and a read through Files that were open on the file BEFORE it, File.Truncate / File.Stat / Seek by three whences / Close of one of them, and (os, InMemHandler) a hard link under the second name, Rename / PosixRename, Remove of a name under the open Files (a name created again is another file); the name held {nothing, 0, 1, 2, mp, mp+1, 2mp+1, 3mp+2} bytes before; every step is mirrored by package os on twin files (one os.File per File, same flags minus O_APPEND, same links/renames/removes): count, bytes, error class and offset after every call, after every call that can change anything what each NAME holds on the server side and what EVERY open File with read access reads (ReadAt of size+1 bytes at 0) against the twin, at the end all closed, names compared, no handle left on the server; a failing history is shrunk step by step; keys multi/<call>[/<open mode>]/<site>"
	model := xfProbeModel(c)
	xfProbeDefects(&model)
	if model.Seq {
		r.Note("every outcome (offset after, n, error class, data hash, served file) is also compared with the Lean driver ops xfer.readat / xfer.seq (switches wtm=%d rfm=%d taken from the implementation)", model.WTM, model.RFM)
	}
	if model.Plan {
		r.Note("wire plans recorded on the scripted peer are compared with the Lean driver op xfer.plan")
	} else {
		r.Note("xfer.plan not available: the expected chunk plan is computed by the harness itself (xfPlan / xfExpectWire)")
	}
	root, err := lib.MkScratch("vh-c01-")
	if err != nil {
		r.Fail(lib.Failure{Kind: "tie", Key: "tmpdir", What: err.Error()})
		return
	}
	defer os.RemoveAll(root)
	mc := &xfSeqCompare{}
	if thorough {
		mc.oneIn = 8
	}

	hangs := &xfHangBudget{}
	defer hangs.Report(r)
	runCase := func(cs xfCase, real *xfReal, dir string, hold *xfPeerHold) (hung bool) {
		out := xfExec(cs, real, dir, hold)
		if hung = out.Hang; hung {
			hangs.Add(cs.Srv)
		}
		path := cs.Path()
		nontrivial := cs.Len > cs.Cfg.MP || cs.FileLen > cs.Cfg.MP || cs.Off+int64(cs.Len) >= int64(cs.FileLen)
		res.Case(cs.Text(), nontrivial)
		lenFor := cs.Len
		if cs.API == "WriteTo" {
			lenFor = cs.FileLen
		}
		sc := xfSizeClass(lenFor, cs.Cfg.MP, cs.Cfg.Conc)
		api := cs.API
		if cs.API == "ReadFrom" {
			api += "(" + cs.Src + ")"
		} else if cs.API == "ReadFromWithConcurrency" {
			api += fmt.Sprintf("(%d)", cs.RFC)
		}
		res.Hist("api="+api+"|path="+path, "api="+cs.API+"|size="+sc, "api="+cs.API+"|srv="+cs.Srv.String(),
			fmt.Sprintf("opt=mp%d|c%d", cs.Cfg.MP, cs.Cfg.Conc), fmt.Sprintf("opt=cr%d|cw%d|fstat%d", xfB(cs.Cfg.CR), xfB(cs.Cfg.CW), xfB(cs.Cfg.Fstat)),
			"srv="+cs.Srv.String()+"|size="+sc)
		side := "write"
		if cs.IsRead() {
			side = "read"
		}
		res.Hist("open="+cs.Mode().Name+"|side="+side, "open="+cs.Mode().Name+"|srv="+cs.Srv.Kind)
		if cs.Mode().Append() && !cs.IsRead() && cs.Off < int64(cs.FileLen) {
			res.Hist("open=append|write-starts-below-end-of-file")
		}
		if cs.Srv.NoOFW {
			switch {
			case cs.ReadsRefused():
				res.Hist("rs-without-OpenFileWriter|read-through-Filewrite-handle-refused|api=" + cs.API + "|path=" + path)
			case cs.IsRead():
				res.Hist("rs-without-OpenFileWriter|read-through-Fileread-handle|api=" + cs.API)
			case cs.Mode().Reads():
				res.Hist("rs-without-OpenFileWriter|write-through-read-write-open|api=" + cs.API)
			default:
				res.Hist("rs-without-OpenFileWriter|write-through-write-only-open|api=" + cs.API)
			}
		}
		if cs.Srv.Kind == "rs" && !cs.Srv.NoOFW && cs.IsRead() && cs.Mode().Writes() && !cs.Mode().Refuse {
			k := "rs-with-OpenFileWriter|read-through-read-write-handle|api=" + cs.API
			if cs.API != "WriteTo" && cs.Off < int64(cs.FileLen) && cs.Off+int64(cs.Len) > int64(cs.FileLen) {
				k += "|crosses-eof(handler returns n>0 with io.EOF)"
			}
			res.Hist(k)
		}
		if cs.Cfg.MP > xfMaxTx(cs.Srv) {
			res.Hist("packet-size-above-server-max-payload|api=" + cs.API + "|path=" + path + "|srv=" + cs.Srv.String())
		}
		if cs.Window > 1 {
			res.Hist("peer=held-window>1|path=" + path)
		}
		if cs.IsRead() {
			switch {
			case cs.Off >= int64(cs.FileLen):
				res.Hist("eof=starts-at-or-beyond-eof")
			case cs.API != "WriteTo" && cs.Off+int64(cs.Len) == int64(cs.FileLen):
				res.Hist("eof=ends-exactly-at-eof")
			case cs.API != "WriteTo" && cs.Off+int64(cs.Len) > int64(cs.FileLen):
				res.Hist("eof=crosses-eof")
			}
		}
		fail := func(site, what string, exp, act any) {
			kind := "oracle"
			if site == "setup" {
				kind = "tie"
			}
			res.Fail(lib.Failure{Kind: kind, Key: cs.API + "/" + path + "/" + site, What: what, Input: cs, Expected: exp, Actual: act})
		}
		if cs.HFault != nil {
			kind, _ := xfHErrByName(cs.HFault.Err)
			reach := "fault-beyond-the-transfer(control)"
			if xfFaultReached(cs) {
				reach = "reached"
			}
			val := "failure"
			if kind.EOF && cs.IsRead() {
				val = "end-of-file"
			}
			res.Hist("handler-fault|api="+cs.API+"|path="+path+"|"+reach, "handler-fault|op="+cs.HFault.Op+"|err="+cs.HFault.Err,
				fmt.Sprintf("handler-fault|op=%s|value=%s|n>0-with-error=%v|%s", cs.HFault.Op, val, cs.HFault.Partial, reach), "handler-fault|open-served-by="+out.HandlerOp.Via+"|op="+cs.HFault.Op)
		}
		if cs.HFault != nil && xfFaultReached(cs) && out.SetupErr == nil && !out.Hang && out.Panic == nil && out.OpenErr == nil {
			xfC01FaultCheck(cs, out, fail)
			return // (the model's served file does not fail)
		}
		xfC01Check(cs, out, fail, res.Hist)
		if out.SetupErr != nil || out.Hang || out.Panic != nil {
			return
		}
		if cs.Srv.Kind == "peer" && model.Plan && len(cs.Fail) == 0 && out.OpenErr == nil && !cs.Mode().Refuse {
			if e := xfExpectWire(cs); e.PurePlan && cs.ShortCap == 0 {
				mc.add(xfSeqLine{readat: true, input: cs, line: fmt.Sprintf("xfer.plan %d %d %d", cs.Cfg.MP, cs.Off, cs.Len), calls: xfPlanText(xfDataReqs(out.Log, e.Typ))})
			}
		}
		switch {
		case out.OpenErr != nil || cs.Mode().Refuse:
			res.Hist("model=not-compared|the-open-is-refused (the model has no open)")
		case cs.ReadsRefused():
			res.Hist("model=not-compared|read-through-a-handle-that-serves-no-READ (the model's server serves every handle)")
		case xfInMemEmptyWrite(cs, out):
			res.Hist("model=not-compared|InMemHandler extends the file on an empty write beyond its end (documented difference of the example backend)")
		case cs.ShortCap == 0 && cs.FileLen <= 150000 && cs.Len <= 150000: // (the model works on byte lists; MB-sized cases take seconds)
			mc.addCase(model, cs, out, xfMaxTx(cs.Srv))
		}
		return
	}

	// runHist runs one history (a sequence of calls on one served file, mirrored on an os.File twin) and reports what
	// differs under C01's keys. It returns the pair to go on with (a new one after a hang; nil: none could be started).
	runHist := func(sc xfSeqCase, real *xfReal, dir string, hold *xfPeerHold) *xfReal {
		run := func(sc xfSeqCase) xfSeqResult { return xfRunSeq(sc, real, hold, dir) }
		sr := run(sc)
		res.Case(sc.Text(), true)
		hs := []string{"history|srv=" + sc.Srv.String(), "history|open=" + sc.Mode().Name + "|srv=" + sc.Srv.String(), fmt.Sprintf("history|opt=mp%d|c%d", sc.Cfg.MP, sc.Cfg.Conc),
			fmt.Sprintf("history|opt=cr%d|cw%d|fstat%d", xfB(sc.Cfg.CR), xfB(sc.Cfg.CW), xfB(sc.Cfg.Fstat))}
		for _, k := range xfHistShapes(sc) {
			hs = append(hs, "history|"+k)
			if sc.Srv.InMem {
				hs = append(hs, "history|srv=InMemHandler|"+k)
			}
		}
		res.Hist(hs...)
		report := func(sc xfSeqCase, fs []xfSeqFailure) {
			for _, f := range fs {
				kind := "oracle"
				if strings.Contains(f.Key, "setup") || strings.Contains(f.Key, "/twin") {
					kind = "tie"
				}
				res.Fail(lib.Failure{Kind: kind, Key: "history/" + strings.TrimPrefix(f.Key, "seq/"), What: fmt.Sprintf("%s (call #%d of the history)", f.What, f.At), Input: sc, Expected: f.Expected, Actual: f.Actual})
			}
		}
		restart := func() *xfReal {
			if real == nil {
				return nil
			}
			real.Shutdown()
			nr, err := xfStartPair(sc.Srv, sc.Cfg, dir)
			if err != nil {
				res.Fail(lib.Failure{Kind: "tie", Key: "setup/pair", What: err.Error(), Input: sc})
				return nil
			}
			return nr
		}
		if sr.SetupErr != nil {
			res.Fail(lib.Failure{Kind: "tie", Key: "setup", What: sr.SetupErr.Error(), Input: sc})
			return restart()
		}
		for _, f := range sr.Fails {
			if f.Key == xfKeyF12 {
				continue // (offset semantics: asserted by C12)
			}
			if strings.HasSuffix(f.Key, "/hang") {
				hangs.Add(sc.Srv)
				small := sc
				if f.At+1 < len(small.Ops) {
					small.Ops = append([]xfOp(nil), small.Ops[:f.At+1]...)
				}
				report(small, []xfSeqFailure{f})
				return restart()
			}
			small := xfShrinkSeq(sc, f.Key, run)
			report(small, run(small).Fails)
			break
		}
		return real
	}

	// runMulti runs one multi-handle history (c01_multi.go). It returns the pair to go on with (a new one after a hang).
	runMulti := func(mc xfMultiCase, real *xfReal, dir string, slot int) *xfReal {
		run := func(mc xfMultiCase) xfMultiResult { return xfRunMulti(mc, real, dir, slot) }
		mr := run(mc)
		res.Case(mc.Text(), true)
		hs := []string{"multi|srv=" + mc.Srv.String(), fmt.Sprintf("multi|opt=mp%d|c%d", mc.Cfg.MP, mc.Cfg.Conc),
			fmt.Sprintf("multi|opt=cr%d|cw%d|fstat%d", xfB(mc.Cfg.CR), xfB(mc.Cfg.CW), xfB(mc.Cfg.Fstat)), fmt.Sprintf("multi|name-held-before=%s", xfMultiBefore(mc))}
		for k, n := range mr.Marks {
			if n > 0 {
				hs = append(hs, "multi|"+k)
				if mc.Srv.InMem && !strings.HasPrefix(k, "call=") {
					hs = append(hs, "multi|srv=InMemHandler|"+k)
				}
			}
		}
		res.Hist(hs...)
		report := func(mc xfMultiCase, fs []xfSeqFailure) {
			for _, f := range fs {
				res.Fail(lib.Failure{Kind: "oracle", Key: f.Key, What: fmt.Sprintf("%s (step #%d of the multi-handle history)", f.What, f.At), Input: mc, Expected: f.Expected, Actual: f.Actual})
			}
		}
		restart := func() *xfReal {
			real.Shutdown()
			nr, err := xfStartPair(mc.Srv, mc.Cfg, dir)
			if err != nil {
				res.Fail(lib.Failure{Kind: "tie", Key: "setup/pair", What: err.Error(), Input: mc})
				return nil
			}
			return nr
		}
		switch {
		case mr.Hung:
			hangs.Add(mc.Srv)
			report(mc, mr.Fails)
			return restart()
		case mr.SetupErr != nil:
			res.Fail(lib.Failure{Kind: "tie", Key: "setup/multi", What: mr.SetupErr.Error(), Input: mc})
			return restart()
		case len(mr.Fails) > 0:
			small := xfShrinkMulti(mc, mr.Fails[0], run)
			sr := run(small)
			if sr.Hung {
				hangs.Add(mc.Srv)
				report(mc, mr.Fails)
				return restart()
			}
			if len(sr.Fails) == 0 || sr.SetupErr != nil {
				small, sr = mc, mr // (not reproduced in the shrunk form: the history as it was drawn)
			}
			report(small, sr.Fails)
		}
		return real
	}

	if c.Replay != "" {
		inputs, err := xfReplayInputs(c.Replay)
		if err != nil {
			r.Fail(lib.Failure{Kind: "tie", Key: "replay", What: err.Error()})
			return
		}
		for _, raw := range inputs {
			var mh xfMultiCase
			if json.Unmarshal(raw, &mh) == nil && len(mh.Steps) > 0 {
				// several Files open on one served file (c01_multi.go)
				real, err := xfStartPair(mh.Srv, mh.Cfg, root)
				if err != nil {
					r.Fail(lib.Failure{Kind: "tie", Key: "setup/pair", What: err.Error()})
					return
				}
				if real = runMulti(mh, real, root, 0); real != nil {
					real.Shutdown()
				}
				continue
			}
			var sc xfSeqCase
			if json.Unmarshal(raw, &sc) == nil && len(sc.Ops) > 0 && sc.Race == nil && sc.Pair == nil {
				// a history of one file (xfer_hist.go)
				var real *xfReal
				if sc.Srv.Kind != "peer" {
					if real, err = xfStartPair(sc.Srv, sc.Cfg, root); err != nil {
						r.Fail(lib.Failure{Kind: "tie", Key: "setup/pair", What: err.Error()})
						return
					}
				}
				if real = runHist(sc, real, root, nil); real != nil {
					real.Shutdown()
				}
				continue
			}
			var cs xfCase
			if err := json.Unmarshal(raw, &cs); err != nil || cs.API == "" {
				continue // (a crash report lists the in-flight cases of all three checks)
			}
			var real *xfReal
			if cs.Srv.Kind != "peer" {
				real, err = xfStartPair(cs.Srv, cs.Cfg, root)
				if err != nil {
					r.Fail(lib.Failure{Kind: "tie", Key: "setup/pair", What: err.Error()})
					return
				}
			}
			runCase(cs, real, root, nil)
			if real != nil {
				real.Shutdown()
			}
		}
		mc.compare(c, "c01")
		xfMHCompare(c) // multi-handle histories through mh.run (c01_multi.go)
		return
	}

	specs := append([]xfSrvSpec(nil), xfRealSpecs...)
	specs = append(specs, xfSrvSpec{Kind: "peer"}, xfSrvSpec{Kind: "peer", Perm: true},
		xfSrvSpec{Kind: "rs", NoOFW: true}, xfSrvSpec{Kind: "rs", NoOFW: true, Alloc: true, MaxTx: 65536},
		// the request server over the package's own example backend, sftp.InMemHandler() (xfer_inmem.go)
		xfSrvSpec{Kind: "rs", InMem: true}, xfSrvSpec{Kind: "rs", InMem: true, Alloc: true})
	var jobs []xfJob
	rot := int(c.Seed % 8)
	for si, sp := range specs {
		cfgs := append(append(xfCoverCfgs(si*3+rot), xfCoverCfgs(si*3+rot+1)...), xfCoverCfgs(si*3+rot+2)...)
		if thorough && !sp.NoOFW && !sp.InMem { // (the handler variant differs in how the open is served only: it keeps the covering sets)
			cfgs = xfAllCfgs()
		}
		if sp.InMem && !thorough {
			cfgs = cfgs[:len(cfgs)/3] // (one covering set: memFile.WriteAt sleeps a microsecond per byte)
		}
		for _, cfg := range cfgs {
			if sp.InMem && cfg.MP > 1000 && cfg.Conc > 3 {
				continue // (megabytes through a backend that sleeps a microsecond per byte)
			}
			jobs = append(jobs, xfJob{Spec: sp, Cfg: cfg, Seed: c.Rand.Int63(), Idx: len(jobs)})
		}
		if sp.MaxTx >= 40000 {
			// a packet size above 32768 is within the property as long as the server's max payload covers it
			for b, conc := range []int{1, 3} {
				jobs = append(jobs, xfJob{Spec: sp, Cfg: xfCfg{MP: 40000, Unchecked: true, Conc: conc, CR: (si+b)%2 == 0, CW: (si/2+b)%2 == 0, Fstat: b == 0},
					Seed: c.Rand.Int63(), Idx: len(jobs)})
			}
		}
	}
	// a packet size above the server's max payload (40000 against the default 32768): outside the property for the
	// concurrent readers (a short DATA reply means end of file to them), but the single-request and the sequential read
	// paths ask again for the rest, so there the file's bytes must still arrive exactly
	for si, sp := range []xfSrvSpec{{Kind: "os"}, {Kind: "os", Alloc: true}, {Kind: "rs"}, {Kind: "rs", Alloc: true}, {Kind: "rs", NoOFW: true}} {
		for b, conc := range []int{1, 3} {
			if !thorough && (si+b+rot)%2 == 0 {
				continue
			}
			jobs = append(jobs, xfJob{Spec: sp, Reads: true, Cfg: xfCfg{MP: 40000, Unchecked: true, Conc: conc, CR: false, CW: (si+b)%2 == 0, Fstat: b == 0},
				Seed: c.Rand.Int63(), Idx: len(jobs)})
		}
	}
	// packet sizes around the allocator's page boundary, both servers, allocator on and off
	for si, kind := range []string{"os", "rs"} {
		for ai, alloc := range []bool{false, true} {
			for pi, p := range xfBigPackets {
				b := si*2 + ai + pi
				conc := []int{3, 64, 2}[pi]
				jobs = append(jobs, xfJob{Big: true, Spec: xfSrvSpec{Kind: kind, Alloc: alloc, MaxTx: xfBigMaxTx},
					Cfg:  xfCfg{MP: p, Unchecked: true, Conc: conc, CR: true, CW: b%2 == 0, Fstat: b%3 == 0},
					Seed: c.Rand.Int63(), Idx: len(jobs)})
				if thorough {
					jobs = append(jobs, xfJob{Big: true, Spec: xfSrvSpec{Kind: kind, Alloc: alloc, MaxTx: xfBigMaxTx},
						Cfg:  xfCfg{MP: p, Unchecked: true, Conc: 1 + pi, CR: b%2 == 1, CW: b%2 == 1, Fstat: b%3 != 0},
						Seed: c.Rand.Int63(), Idx: len(jobs)})
				}
			}
		}
	}
	// handler-side failures (xfer_fault.go): the request server's in-memory handler fails ReadAt / WriteAt at a byte
	// offset with every kind of error value
	for si, sp := range []xfSrvSpec{{Kind: "rs"}, {Kind: "rs", Alloc: true}, {Kind: "rs", MaxTx: 65536}, {Kind: "rs", Alloc: true, MaxTx: 65536}} {
		if !thorough && si >= 2 {
			break
		}
		cfgs := xfCoverCfgs(si*3 + rot + 1)
		if thorough {
			cfgs = append(cfgs, xfCoverCfgs(si*3+rot+4)...)
		}
		for _, cfg := range cfgs {
			jobs = append(jobs, xfJob{Fault: true, Spec: sp, Cfg: cfg, Seed: c.Rand.Int63(), Idx: len(jobs)})
		}
	}
	// histories of one file (xfer_hist.go): data, shrink, sparse write beyond the new end, read back - against every kind
	// of served file system, the package's own InMemHandler first
	for si, sp := range []xfSrvSpec{{Kind: "rs", InMem: true}, {Kind: "rs", InMem: true, Alloc: true}, {Kind: "os"}, {Kind: "rs"}, {Kind: "peer"},
		{Kind: "os", Alloc: true}, {Kind: "rs", Alloc: true, MaxTx: 65536}, {Kind: "rs", InMem: true, MaxTx: 65536}} {
		cfgs := xfCoverCfgs(si*3 + rot + 2)
		if thorough {
			cfgs = append(cfgs, xfCoverCfgs(si*3+rot+5)...)
		}
		for _, cfg := range cfgs {
			if sp.InMem && cfg.MP > 1000 && cfg.Conc > 3 && !thorough {
				continue
			}
			jobs = append(jobs, xfJob{Hist: true, Spec: sp, Cfg: cfg, Seed: c.Rand.Int63(), Idx: len(jobs)})
		}
	}
	// several Files open on one served file at once (c01_multi.go), the package's own InMemHandler first
	for si, sp := range []xfSrvSpec{{Kind: "rs", InMem: true}, {Kind: "rs", InMem: true, Alloc: true}, {Kind: "os"}, {Kind: "os", Alloc: true},
		{Kind: "rs"}, {Kind: "rs", Alloc: true, MaxTx: 65536}} {
		for _, cfg := range xfCoverCfgs(si*3 + rot + 3) {
			jobs = append(jobs, xfJob{Multi: true, Spec: sp, Cfg: cfg, Seed: c.Rand.Int63(), Idx: len(jobs)})
		}
	}
	variants := xfAPIVariants(thorough)
	var sampleMu sync.Mutex
	sampled := map[string]bool{}

	xfParallel(len(jobs), runtime.GOMAXPROCS(0), func(w, ji int) {
		job := jobs[ji]
		rng := rand.New(rand.NewSource(job.Seed))
		dir := filepath.Join(root, fmt.Sprintf("j%d", job.Idx))
		if err := os.Mkdir(dir, 0o755); err != nil {
			res.Fail(lib.Failure{Kind: "tie", Key: "tmpdir", What: err.Error()})
			return
		}
		defer os.RemoveAll(dir)
		var real *xfReal
		if job.Spec.Kind != "peer" {
			var err error
			real, err = xfStartPair(job.Spec, job.Cfg, dir)
			if err != nil {
				res.Fail(lib.Failure{Kind: "tie", Key: "setup/pair", What: err.Error(), Input: job})
				return
			}
			defer real.Shutdown()
		}
		hold := &xfPeerHold{slot: w}
		defer hold.Close()
		cfg := job.Cfg
		if job.Multi {
			n := 3
			if thorough {
				n = 12
			}
			if cfg.MP > 1000 {
				n = (n + 3) / 4
			}
			for s := 0; s < n; s++ {
				if hangs.Spent(job.Spec) {
					return
				}
				mh := xfGenMulti(rng, job.Spec, cfg, job.Idx*7+s*5+rot)
				cur := runMulti(mh, real, dir, w)
				if cur != real {
					if cur != nil {
						defer cur.Shutdown()
					}
					real = cur
				}
				if real == nil {
					return
				}
				sampleMu.Lock()
				if tag := "multi/" + job.Spec.Kind; !sampled[tag] && cfg.MP < 100 && len(sampled) < 14 {
					sampled[tag] = true
					res.Sample(mh)
				}
				sampleMu.Unlock()
			}
			return
		}
		if job.Hist {
			n := 4
			if thorough {
				n = 16
			}
			if cfg.MP > 1000 {
				n = (n + 3) / 4
			}
			for s := 0; s < n; s++ {
				if hangs.Spent(job.Spec) {
					return
				}
				sc := xfHistCase(rng, job.Spec, cfg, job.Idx*5+s+rot)
				cur := runHist(sc, real, dir, hold)
				if cur != real && real != nil {
					// (a pair that was replaced after a hang: the deferred Shutdown above sees the first one only)
					if cur != nil {
						defer cur.Shutdown()
					}
					real = cur
				}
				if real == nil && job.Spec.Kind != "peer" {
					return
				}
			}
			return
		}
		if job.Fault {
			per := 3
			if thorough {
				per = 12
			}
			for _, cs := range xfFaultCases(rng, job.Spec, cfg, variants, job.Idx, per) {
				if hangs.Spent(job.Spec) || runCase(cs, real, dir, hold) {
					return
				}
			}
			return
		}
		if job.Big {
			for _, cs := range xfBigPacketCases(job.Spec, cfg, rng, thorough) {
				if runCase(cs, real, dir, hold) {
					return // (the connection of a hung call is not used again)
				}
			}
			return
		}
		classes := xfSizeClasses(cfg.MP, cfg.Conc)
		// the lengths this job walks through
		var lens []int
		small := cfg.MP <= 7 && cfg.Conc <= 3
		switch {
		case thorough && small:
			for l := 0; l <= 3*cfg.MP*cfg.Conc+2; l++ {
				lens = append(lens, l)
			}
		case thorough:
			lens = append(lens, classes...)
			for i := 0; i < 5; i++ {
				lens = append(lens, -1)
			}
			if cfg.MP <= 7 {
				lens = append(lens, 3*cfg.MP*cfg.Conc+2, 2*cfg.MP*cfg.Conc+1)
			}
		default:
			// quick: two lengths per API variant; the class index advances with job and variant so that all
			// classes are visited for every (mp, conc)
			lens = nil
		}
		k := job.Idx
		dead := false
		nOpen := job.Idx*5 + rot
		for vi, v := range variants {
			if job.Reads && v.API != "ReadAt" && v.API != "Read" && v.API != "WriteTo" {
				continue
			}
			ls := lens
			if ls == nil {
				ls = []int{classes[(k+vi)%len(classes)], -1}
				if cfg.MP == 32768 && cfg.Conc == 64 && vi%3 != 0 {
					ls = ls[:1]
				}
				if job.Spec.InMem && cfg.MP > 1000 {
					if ls = ls[:1]; (vi+k)%2 != 0 {
						continue // (a backend that sleeps a microsecond per byte: half of the variants, one length each)
					}
				}
			}
			reps := 1
			if thorough && small {
				reps = 2
			}
			one := func(L int, openName string) {
				if dead || hangs.Spent(job.Spec) {
					return
				}
				S, o, l := xfGeom(rng, cfg, v.API, L)
				cs := xfCase{Srv: job.Spec, Cfg: cfg, API: v.API, Src: v.Src, RFC: v.RFC,
					FileLen: S, Off: o, Len: l, Seed: rng.Intn(251)}
				if cs.Src == "*" {
					cs.Src = xfSrcKinds[5+rng.Intn(len(xfSrcKinds)-5)]
				}
				// the open mode rotates over the cases (every mode meets every API, server kind and size class
				// within a run; thorough: the explicit product below as well)
				if openName == "" {
					nOpen++
					openName = xfPickOpen(v.API, nOpen)
				}
				xfApplyOpen(&cs, openName)
				if job.Spec.Kind == "peer" {
					cs.Window = 1
					if job.Spec.Perm {
						cs.PermSeed = rng.Int63() >> 11 // (below 2^53: the seed survives a JSON round trip through float64)
						cs.Window = xfPickWindow(rng, cs)
					} else {
						// the in-order peer also exercises short DATA replies on the sequential read paths and a
						// size-only ATTRS reply (file not known to be regular) for WriteTo
						if cs.IsRead() && cs.Path() != "concurrent" && rng.Intn(4) == 0 {
							if cs.API == "WriteTo" && cfg.CR {
								cs.NoPerm = true
							}
							if !cfg.CR || cs.Path() == "single" || cs.NoPerm {
								cs.ShortCap = 1 + rng.Intn(cfg.MP)
								if cs.ShortCap > 64 && cs.FileLen > 200000 {
									cs.ShortCap = 8192 + rng.Intn(8192)
								}
							}
						}
					}
				}
				if runCase(cs, real, dir, hold) && real != nil {
					dead = true // the client of a hung call is not used again: the job ends here
				}
				tag := cs.API + "/" + cs.Path() + "/" + job.Spec.Kind
				sampleMu.Lock()
				if !sampled[tag] && cs.Len+cs.FileLen > 2*cfg.MP && cfg.MP < 100 && len(sampled) < 12 {
					sampled[tag] = true
					res.Sample(cs)
				}
				sampleMu.Unlock()
			}
			for _, L := range ls {
				for rep := 0; rep < reps; rep++ {
					one(L, "")
				}
			}
			if thorough && (job.Idx%4 == 0 || job.Spec.NoOFW) {
				// the explicit product: every open mode of the transfer's side with every API variant and server kind,
				// under every fourth option set (the rotation above reaches all of them), at a size class
				modes, seen := xfWriteOpenModes, map[string]bool{}
				if v.API == "ReadAt" || v.API == "Read" || v.API == "WriteTo" {
					modes = xfReadOpenModes
				}
				for _, name := range modes {
					if !seen[name] {
						seen[name] = true
						one(classes[(k+vi+len(seen))%len(classes)], name)
					}
				}
			}
		}
	})
	mc.compare(c, "c01")
	xfMHCompare(c) // multi-handle histories through mh.run (c01_multi.go)
}
