package main

// A strict request decoder and a small, well-behaved in-memory SFTP server used as the source of VALID
// replies by C04 (which then cuts the reply stream) and C20 (which then mutates single replies).

import (
	"fmt"
	"strings"
	"sync"

	"verifharness/wire"
)

// cliReq is a decoded client request.
type cliReq struct {
	Typ    byte
	ID     uint32
	Path   string // path / oldpath / target
	Path2  string // newpath / linkpath
	Handle string
	Off    uint64
	Len    uint32
	Data   []byte
	Pflags uint32
	Attrs  wire.St
	Ext    string
}

// cliDecodeReq decodes a request frame strictly: every byte must be consumed and nothing may be missing.
func cliDecodeReq(p wire.Pkt) (cliReq, error) {
	d := wire.D{B: p.Body}
	q := cliReq{Typ: p.Typ}
	q.ID = d.U32()
	switch p.Typ {
	case wire.Open:
		q.Path = d.Str()
		q.Pflags = d.U32()
		q.Attrs = d.St()
	case wire.Close, wire.Fstat, wire.Readdir:
		q.Handle = d.Str()
	case wire.Read:
		q.Handle = d.Str()
		q.Off = d.U64()
		q.Len = d.U32()
	case wire.Write:
		q.Handle = d.Str()
		q.Off = d.U64()
		q.Data = d.Bytes()
		q.Len = uint32(len(q.Data))
	case wire.Lstat, wire.Stat, wire.Opendir, wire.Remove, wire.Rmdir, wire.Realpath, wire.Readlink:
		q.Path = d.Str()
	case wire.Setstat:
		q.Path = d.Str()
		q.Attrs = d.St()
	case wire.Fsetstat:
		q.Handle = d.Str()
		q.Attrs = d.St()
	case wire.Mkdir:
		q.Path = d.Str()
		q.Attrs = d.St()
	case wire.Rename, wire.Symlink:
		q.Path = d.Str()
		q.Path2 = d.Str()
	case wire.Extended:
		q.Ext = d.Str()
		switch q.Ext {
		case "statvfs@openssh.com":
			q.Path = d.Str()
		case "fsync@openssh.com":
			q.Handle = d.Str()
		case "posix-rename@openssh.com", "hardlink@openssh.com":
			q.Path = d.Str()
			q.Path2 = d.Str()
		default:
			return q, fmt.Errorf("unknown extended request %q", q.Ext)
		}
	default:
		return q, fmt.Errorf("unknown request type %d", p.Typ)
	}
	if d.Err != nil {
		return q, fmt.Errorf("request type %d is truncated (%d body bytes)", p.Typ, len(p.Body))
	}
	if len(d.B) != 0 {
		return q, fmt.Errorf("request type %d has %d trailing bytes", p.Typ, len(d.B))
	}
	return q, nil
}

var cliExtensions = [][2]string{
	{"posix-rename@openssh.com", "1"}, {"statvfs@openssh.com", "2"}, {"fstatvfs@openssh.com", "2"},
	{"hardlink@openssh.com", "1"}, {"fsync@openssh.com", "1"},
}

func cliVersion() []byte { return wire.VersionFrame(3, cliExtensions) }

// cliPattern is the content of the fake server's files: a function of handle and position only.
func cliPattern(handle string, pos uint64) byte {
	h := uint64(1469598103934665603)
	for i := 0; i < len(handle); i++ {
		h = (h ^ uint64(handle[i])) * 1099511628211
	}
	x := (pos + 1) * 0x9E3779B97F4A7C15
	x ^= h
	x ^= x >> 29
	return byte(x ^ x>>8 ^ x>>16)
}

func cliPatternBytes(handle string, off uint64, n int) []byte {
	b := make([]byte, n)
	for i := range b {
		b[i] = cliPattern(handle, off+uint64(i))
	}
	return b
}

// fakeSrv produces the valid reply to each request. Files have `size` bytes of cliPattern content; a
// directory lists three names in one batch and then EOF.
type fakeSrv struct {
	mu          sync.Mutex
	size        uint64
	handles     int
	dirReads    map[string]int
	removeFails bool // REMOVE answers FAILURE (so that Client.Remove goes on to RMDIR)
	rmdirFails  bool
	mkdirFails  bool
	statMissing bool // STAT (and LSTAT unless lstatDir) answer NO_SUCH_FILE
	lstatDir    bool // LSTAT answers a directory
	// tree, when set, replaces the one-batch directory: path → the READDIR batches of that directory (then EOF).
	// Paths in tree are directories for STAT/LSTAT, every other path is a file. (C04 composites)
	tree    map[string][][]wire.NameEnt
	dirPath map[string]string // directory handle → path (tree only)
}

func newFakeSrv(size uint64) *fakeSrv { return &fakeSrv{size: size, dirReads: map[string]int{}} }

var fakeAttrs = wire.St{Flags: wire.ASize | wire.AUIDGID | wire.APerm | wire.ATime | wire.AExt, UID: 1000, GID: 100,
	Perm: 0o100644, Atime: 1_600_000_000, Mtime: 1_600_000_001, Ext: [][2]string{{"k@v", "x"}}}

func (f *fakeSrv) attrs(dir bool) wire.St {
	a := fakeAttrs
	a.Size = f.size
	if dir {
		a.Perm = 0o40755
	}
	return a
}

// Reply returns the valid reply frame for a request (nil only for a request that cannot be decoded).
func (f *fakeSrv) Reply(p wire.Pkt) []byte {
	q, err := cliDecodeReq(p)
	if err != nil {
		return wire.StatusFrame(p.ID(), wire.BadMessage, err.Error())
	}
	f.mu.Lock()
	defer f.mu.Unlock()
	ok := func() []byte { return wire.StatusFrame(q.ID, wire.OK, "") }
	switch q.Typ {
	case wire.Open:
		f.handles++
		return wire.HandleFrame(q.ID, fmt.Sprintf("fh%d", f.handles))
	case wire.Opendir:
		f.handles++
		if f.tree != nil {
			if _, ok := f.tree[q.Path]; !ok {
				return wire.StatusFrame(q.ID, wire.NoSuchFile, "no such directory")
			}
			if f.dirPath == nil {
				f.dirPath = map[string]string{}
			}
			f.dirPath[fmt.Sprintf("dh%d", f.handles)] = q.Path
		}
		return wire.HandleFrame(q.ID, fmt.Sprintf("dh%d", f.handles))
	case wire.Close:
		return ok()
	case wire.Lstat:
		if f.lstatDir {
			return wire.AttrsFrame(q.ID, f.attrs(true))
		}
		fallthrough
	case wire.Stat:
		if f.statMissing && q.Path != "probe" && q.Path != "probe2" && !strings.HasPrefix(q.Path, "race-") {
			return wire.StatusFrame(q.ID, wire.NoSuchFile, "no such file")
		}
		if f.tree != nil {
			_, isDir := f.tree[q.Path]
			return wire.AttrsFrame(q.ID, f.attrs(isDir))
		}
		return wire.AttrsFrame(q.ID, f.attrs(q.Path == "dir"))
	case wire.Fstat:
		return wire.AttrsFrame(q.ID, f.attrs(false))
	case wire.Readdir:
		f.dirReads[q.Handle]++
		if f.tree != nil {
			if b := f.tree[f.dirPath[q.Handle]]; f.dirReads[q.Handle] <= len(b) {
				return wire.NameFrame(q.ID, b[f.dirReads[q.Handle]-1])
			}
			return wire.StatusFrame(q.ID, wire.EOF, "EOF")
		}
		if f.dirReads[q.Handle] == 1 {
			return wire.NameFrame(q.ID, []wire.NameEnt{
				{Name: ".", Long: "drwxr-xr-x 1 u g 0 Jan 1 00:00 .", A: f.attrs(true)},
				{Name: "alpha", Long: "-rw-r--r-- 1 u g 40 Jan 1 00:00 alpha", A: f.attrs(false)},
				{Name: "beta", Long: "-rw-r--r-- 1 u g 40 Jan 1 00:00 beta", A: wire.St{Flags: wire.ASize | wire.APerm, Size: 7, Perm: 0o100600}},
			})
		}
		return wire.StatusFrame(q.ID, wire.EOF, "EOF")
	case wire.Read:
		if q.Off >= f.size {
			return wire.StatusFrame(q.ID, wire.EOF, "EOF")
		}
		n := uint64(q.Len)
		if q.Off+n > f.size {
			n = f.size - q.Off
		}
		return wire.DataFrame(q.ID, cliPatternBytes("file", q.Off, int(n)))
	case wire.Write, wire.Setstat, wire.Fsetstat, wire.Rename, wire.Symlink:
		return ok()
	case wire.Mkdir:
		if f.mkdirFails && !strings.HasPrefix(q.Path, "race-") {
			return wire.StatusFrame(q.ID, wire.Failure, "mkdir refused")
		}
		return ok()
	case wire.Remove:
		if f.removeFails {
			return wire.StatusFrame(q.ID, wire.Failure, "is a directory")
		}
		return ok()
	case wire.Rmdir:
		if f.rmdirFails {
			return wire.StatusFrame(q.ID, wire.Failure, "not a directory")
		}
		return ok()
	case wire.Readlink:
		return wire.NameFrame(q.ID, []wire.NameEnt{{Name: "target-of-" + q.Path, Long: "target-of-" + q.Path, A: wire.St{}}})
	case wire.Realpath:
		return wire.NameFrame(q.ID, []wire.NameEnt{{Name: "/abs/" + q.Path, Long: "/abs/" + q.Path, A: wire.St{}}})
	case wire.Extended:
		if q.Ext == "statvfs@openssh.com" {
			b := wire.B{}.U32(q.ID)
			for i := uint64(1); i <= 11; i++ {
				b = b.U64(i * 1000)
			}
			return wire.Frame(wire.ExtendedReply, b)
		}
		return ok()
	}
	return wire.StatusFrame(q.ID, wire.OpUnsupported, "unsupported")
}

// cliReplyFields lists the offsets (within the frame) of every uint32 length / count / flags word of a
// valid reply frame, with a name for reports. Offsets are relative to the start of the frame (length word at 0).
type cliField struct {
	Off  int
	Name string
	Val  uint32
}

func cliReplyFields(frame []byte) []cliField {
	if len(frame) < 9 {
		return nil
	}
	var out []cliField
	typ := frame[4]
	pos := 9 // after length, type, id
	u32 := func(name string) (uint32, bool) {
		if pos+4 > len(frame) {
			return 0, false
		}
		v := uint32(frame[pos])<<24 | uint32(frame[pos+1])<<16 | uint32(frame[pos+2])<<8 | uint32(frame[pos+3])
		if name != "" {
			out = append(out, cliField{pos, name, v})
		}
		pos += 4
		return v, true
	}
	str := func(name string) bool {
		n, ok := u32(name)
		if !ok || pos+int(n) > len(frame) {
			return false
		}
		pos += int(n)
		return true
	}
	attrs := func(pfx string) bool {
		fl, ok := u32(pfx + "attr-flags")
		if !ok {
			return false
		}
		if fl&wire.ASize != 0 {
			pos += 8
		}
		if fl&wire.AUIDGID != 0 {
			pos += 8
		}
		if fl&wire.APerm != 0 {
			pos += 4
		}
		if fl&wire.ATime != 0 {
			pos += 8
		}
		if fl&wire.AExt != 0 {
			n, ok := u32(pfx + "ext-count")
			if !ok {
				return false
			}
			for i := uint32(0); i < n; i++ {
				if !str(pfx+"ext-type-len") || !str(pfx+"ext-data-len") {
					return false
				}
			}
		}
		return pos <= len(frame)
	}
	switch typ {
	case wire.Status:
		u32("status-code")
		if str("status-msg-len") {
			str("status-lang-len")
		}
	case wire.Handle:
		str("handle-len")
	case wire.Data:
		str("data-len")
	case wire.Name:
		n, ok := u32("name-count")
		for i := uint32(0); ok && i < n; i++ {
			pfx := fmt.Sprintf("name%d-", i)
			ok = str(pfx+"filename-len") && str(pfx+"longname-len") && attrs(pfx)
		}
	case wire.Attrs:
		attrs("")
	}
	return out
}

// cliVField is a VALUE word of a well-formed reply (not a length or count): a 32- or 64-bit number the client hands
// to its caller or computes with (file size, ids, permission bits, times, the statvfs numbers, the status code).
type cliVField struct {
	Off  int
	W    int // 4 or 8 bytes
	Name string
	Val  uint64
}

// cliReplyValueFields lists the value words of a valid reply frame (offsets from the start of the frame).
func cliReplyValueFields(frame []byte) []cliVField {
	if len(frame) < 9 {
		return nil
	}
	var out []cliVField
	pos := 9
	num := func(name string, w int) bool {
		if pos+w > len(frame) {
			return false
		}
		var v uint64
		for _, b := range frame[pos : pos+w] {
			v = v<<8 | uint64(b)
		}
		if name != "" {
			out = append(out, cliVField{pos, w, name, v})
		}
		pos += w
		return true
	}
	u32 := func() (uint32, bool) {
		if pos+4 > len(frame) {
			return 0, false
		}
		v := uint32(frame[pos])<<24 | uint32(frame[pos+1])<<16 | uint32(frame[pos+2])<<8 | uint32(frame[pos+3])
		pos += 4
		return v, true
	}
	str := func() bool {
		n, ok := u32()
		if !ok || pos+int(n) > len(frame) {
			return false
		}
		pos += int(n)
		return true
	}
	attrs := func(pfx string) bool {
		fl, ok := u32()
		if !ok {
			return false
		}
		if fl&wire.ASize != 0 && !num(pfx+"size", 8) {
			return false
		}
		if fl&wire.AUIDGID != 0 && !(num(pfx+"uid", 4) && num(pfx+"gid", 4)) {
			return false
		}
		if fl&wire.APerm != 0 && !num(pfx+"perm", 4) {
			return false
		}
		if fl&wire.ATime != 0 && !(num(pfx+"atime", 4) && num(pfx+"mtime", 4)) {
			return false
		}
		if fl&wire.AExt != 0 {
			n, ok := u32()
			if !ok {
				return false
			}
			for i := uint32(0); i < n; i++ {
				if !str() || !str() {
					return false
				}
			}
		}
		return true
	}
	switch frame[4] {
	case wire.Status:
		num("status-code", 4)
	case wire.Attrs:
		attrs("")
	case wire.Name:
		n, ok := u32()
		for i := uint32(0); ok && i < n; i++ {
			ok = str() && str() && attrs(fmt.Sprintf("name%d-", i))
		}
	case wire.ExtendedReply:
		for i := 0; num(fmt.Sprintf("extreply-u64-%d", i), 8); i++ {
		}
	}
	return out
}
