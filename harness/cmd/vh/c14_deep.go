package main

// C14, the two dimensions that small all-held pipelines do not reach:
//
//   - server OPTIONS: every option the two servers can be started with (os-backed: ReadOnly, WithAllocator,
//     WithMaxTxPacket, WithServerWorkingDirectory; request server: WithRSAllocator, WithRSMaxTxPacket,
//     WithStartDirectory), in every combination;
//   - pipeline DEPTH: hundreds to tens of thousands of READ/WRITE requests between two CLOSEs. Such a pipeline is
//     not written out request by request in the job (and in the replay input) but generated from a c14Gen; only the
//     calls of the last few requests before each CLOSE are held, all earlier ones return on their own.

import (
	"fmt"
	"math/rand"
	"strings"

	"verifharness/wire"
)

// c14Opt is one combination of server options.
type c14Opt struct {
	ReadOnly bool   `json:"read_only,omitempty"` // os-backed only
	Alloc    bool   `json:"alloc,omitempty"`
	MaxTx    uint32 `json:"max_tx,omitempty"` // 0 = option not given
	WorkDir  bool   `json:"work_dir,omitempty"`
}

func (o c14Opt) prog(server string) gProg {
	return gProg{Server: server, Alloc: o.Alloc, MaxTx: o.MaxTx, ReadOnly: o.ReadOnly, WorkDir: o.WorkDir}
}

func c14OptOf(p gProg) c14Opt {
	return c14Opt{ReadOnly: p.ReadOnly, Alloc: p.Alloc, MaxTx: p.MaxTx, WorkDir: p.WorkDir}
}

func (o c14Opt) text() string {
	var t []string
	if o.ReadOnly {
		t = append(t, "readonly")
	}
	if o.Alloc {
		t = append(t, "allocator")
	}
	if o.MaxTx != 0 {
		t = append(t, fmt.Sprintf("max-tx=%d", o.MaxTx))
	}
	if o.WorkDir {
		t = append(t, "workdir")
	}
	if len(t) == 0 {
		return "none"
	}
	return strings.Join(t, "+")
}

// c14MaxTx: option absent, the smallest value the option accepts (= the default), a larger one.
var c14MaxTx = []uint32{0, 32768, 65536}

// c14Opts lists every option combination of a server.
func c14Opts(server string) []c14Opt {
	var out []c14Opt
	ro := []bool{false}
	if server == "os" {
		ro = []bool{false, true}
	}
	for _, r := range ro {
		for _, a := range []bool{false, true} {
			for _, m := range c14MaxTx {
				for _, w := range []bool{false, true} {
					out = append(out, c14Opt{ReadOnly: r, Alloc: a, MaxTx: m, WorkDir: w})
				}
			}
		}
	}
	return out
}

// c14Deck deals option combinations: every combination once, in PRNG order, then again.
type c14Deck struct {
	rng  *rand.Rand
	all  map[string][]c14Opt
	left map[string][]c14Opt
}

func newC14Deck(rng *rand.Rand) *c14Deck {
	return &c14Deck{rng: rng, all: map[string][]c14Opt{"os": c14Opts("os"), "rs": c14Opts("rs")}, left: map[string][]c14Opt{}}
}

func (d *c14Deck) next(server string) c14Opt {
	if len(d.left[server]) == 0 {
		l := append([]c14Opt(nil), d.all[server]...)
		d.rng.Shuffle(len(l), func(a, b int) { l[a], l[b] = l[b], l[a] })
		d.left[server] = l
	}
	o := d.left[server][0]
	d.left[server] = d.left[server][1:]
	return o
}

// c14Gen describes a deep pipeline: handle i is closed by the i-th CLOSE; Segs[i] READ/WRITE requests stand between
// the (i-1)-th CLOSE (the start of the pipeline for i = 0) and the i-th.
type c14Gen struct {
	Server string   `json:"server"`
	Opt    c14Opt   `json:"options"`
	Kinds  []string `json:"handle_kinds"`                  // get | put | rw, one per handle
	Segs   []int    `json:"rw_requests_before_each_close"` // same length as Kinds
	// Spread: the requests of a segment are addressed to all handles that are still open (PRNG choice) instead of
	// only to the handle that is closed next.
	Spread bool `json:"spread,omitempty"`
	// Held (gated mode): the calls of the last Held requests of every segment are held (at most 8: they must all
	// fit into the worker pool so that every one of them is running when the CLOSE arrives).
	Held int   `json:"held"`
	Seed int64 `json:"seed"`
	// Cmd, when > 0: behind every Cmd-th READ/WRITE of a segment stands a handle request that is neither — FSTAT and
	// FSETSTAT (permissions) in turn, FSTAT only on a read-only server — on the handle that is closed next (not counted
	// in Segs, never held).
	Cmd int `json:"handle_command_every,omitempty"`
}

func (g c14Gen) text() string {
	return fmt.Sprintf("deep %s options=%s kinds=%v segs=%v spread=%v held=%d seed=%d cmd=%d", g.Server, g.Opt.text(), g.Kinds, g.Segs, g.Spread, g.Held, g.Seed, g.Cmd)
}

func (g c14Gen) valid() error {
	if g.Server != "os" && g.Server != "rs" {
		return fmt.Errorf("gen: server %q", g.Server)
	}
	if len(g.Kinds) == 0 || len(g.Kinds) != len(g.Segs) || len(g.Kinds) > 8 {
		return fmt.Errorf("gen: %d handle kinds, %d segments", len(g.Kinds), len(g.Segs))
	}
	if g.Held < 0 || g.Held > 8 {
		return fmt.Errorf("gen: held %d", g.Held)
	}
	if g.Cmd < 0 {
		return fmt.Errorf("gen: handle command every %d", g.Cmd)
	}
	tot := 0
	for i, k := range g.Kinds {
		if k != "get" && k != "put" && k != "rw" {
			return fmt.Errorf("gen: handle kind %q", k)
		}
		if g.Segs[i] < 0 {
			return fmt.Errorf("gen: segment %d", g.Segs[i])
		}
		tot += g.Segs[i]
	}
	if tot > 90000 { // reads are 1…8 bytes at consecutive offsets of objects of 100000 bytes
		return fmt.Errorf("gen: %d requests", tot)
	}
	return nil
}

// expand writes the pipeline out. hold lists the requests whose calls are held.
// Reads: offset = number of the read on its handle (distinct offsets, so distinct call keys), 1…8 bytes.
// Writes: 1…8 bytes at 8 × number of the write on its handle (behind the read region on read-write handles), so no
// two writes overlap and the final content does not depend on their order.
func (g c14Gen) expand() (p gProg, hold []int) {
	rng := rand.New(rand.NewSource(g.Seed))
	p = g.Opt.prog(g.Server)
	files := map[string]string{"get": "f", "put": "g", "rw": "x"}
	for i, k := range g.Kinds {
		p.Handles = append(p.Handles, gHandle{Name: fmt.Sprintf("h%d", i), Kind: k, Path: fmt.Sprintf("%s%d", files[k], i+1)})
	}
	nr, nw := make([]int, len(g.Kinds)), make([]int, len(g.Kinds))
	ncmd := 0
	for si, n := range g.Segs {
		for j := 0; j < n; j++ {
			hi := si
			if g.Spread {
				hi = si + rng.Intn(len(g.Kinds)-si)
			}
			hd := p.Handles[hi]
			ln := uint32(1 + rng.Intn(8))
			var o gOp
			if hd.Kind == "get" || (hd.Kind == "rw" && rng.Intn(2) == 0) {
				o = gOp{K: "read", H: hd.Name, Off: int64(nr[hi]), Len: ln}
				nr[hi]++
			} else {
				off := int64(nw[hi]) * 8
				if hd.Kind == "rw" {
					off += 100000
				}
				o = gOp{K: "write", H: hd.Name, Off: off, Len: ln}
				nw[hi]++
			}
			if n-j <= g.Held {
				hold = append(hold, len(p.Ops))
			}
			p.Ops = append(p.Ops, o)
			if g.Cmd > 0 && (j+1)%g.Cmd == 0 {
				ncmd++
				if ncmd%2 == 0 && !g.Opt.ReadOnly {
					p.Ops = append(p.Ops, gOp{K: "fsetstat", H: p.Handles[si].Name, AF: wire.APerm})
				} else {
					p.Ops = append(p.Ops, gOp{K: "fstat", H: p.Handles[si].Name})
				}
			}
		}
		p.Ops = append(p.Ops, gOp{K: "close", H: p.Handles[si].Name})
	}
	for i := range p.Ops {
		p.Ops[i].ID = uint32(100 + i)
	}
	if hold == nil {
		hold = []int{}
	}
	return p, hold
}

// c14HeldReqs is the pipeline as the simulator sees it when only hold is held.
func c14HeldReqs(p gProg, hold []int) []simReq {
	reqs := gSimReqs(p)
	h := map[int]bool{}
	for _, i := range hold {
		h[i] = true
	}
	for i := range reqs {
		if !h[i] {
			reqs[i].Gate = ""
		}
	}
	return reqs
}

// c14Job is a C14 case: a written-out program (Gen nil) or a generated deep one.
type c14Job struct {
	gCase
	Gen *c14Gen `json:"gen,omitempty"`
	// Fail: a pipeline in which chosen handler calls fail (c14_fail.go); the case is then this and nothing else.
	Fail *c14fCase `json:"fail,omitempty"`
}

// input is what a failure carries for replay: the generator where there is one, not the 10^5 requests it stands for.
func (j c14Job) input() any {
	if j.Fail != nil {
		return map[string]any{"fail": j.Fail}
	}
	if j.Gen == nil {
		return j.gCase
	}
	return map[string]any{"gen": j.Gen, "mode": j.Mode, "order": j.Order, "grace_ms": j.Grace, "hold_ms": j.HoldMs, "watch_close": j.Watch, "seed": j.Seed, "tag": j.Tag, "end_input": j.EndInput}
}

// c14Depths: the numbers of READ/WRITE requests between two CLOSEs that are tried: 0…20 and every power of two up
// to max with both neighbours, plus the odd multiples of 256 in between up to 4096.
func c14Depths(max int) []int {
	var out []int
	for d := 0; d <= 20; d++ {
		out = append(out, d)
	}
	for p := 32; p <= max; p *= 2 {
		out = append(out, p-1, p, p+1)
		if m := p + p/2; p >= 512 && p <= 2048 && m+1 <= max { // 768, 1536, 3072: multiples of 256 that are not powers of two
			out = append(out, m-1, m, m+1)
		}
	}
	return out
}

// c14Split cuts total into n positive parts (PRNG).
func c14Split(rng *rand.Rand, total, n int) []int {
	if n <= 1 || total < n {
		return []int{total}
	}
	cuts := map[int]bool{}
	for len(cuts) < n-1 {
		cuts[1+rng.Intn(total-1)] = true
	}
	var out []int
	last := 0
	for x := 1; x < total; x++ {
		if cuts[x] {
			out = append(out, x-last)
			last = x
		}
	}
	return append(out, total-last)
}

func c14Kinds(rng *rand.Rand, opt c14Opt, n int) []string {
	ks := make([]string, n)
	for i := range ks {
		ks[i] = []string{"get", "put", "rw"}[rng.Intn(3)]
		if opt.ReadOnly {
			ks[i] = "get"
		}
	}
	return ks
}
