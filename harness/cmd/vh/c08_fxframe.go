package main

// C08, packet framing of the internal/encoding/ssh/filexfer codec: RawPacket.ReadFrom and
// RequestPacket.ReadFrom take the receive buffer and the length limit from the caller. The frame
// reader is exercised over the product of
//   limit     (small, the package default, 256 KiB, 1 MiB),
//   buffer    (nil, shorter than a length word, tiny, just below / at / above the limit, 2x, 4x the limit;
//              handed over with len 0 and with len == cap),
//   declared  (0, 1, 4, 5, 6, the limit and the buffer capacity -1/+0/+1, 2x and 4x the limit, 2^31-1, 2^31, 2^32-1),
//   stream    (body complete and followed by other bytes, complete, one byte short, absent),
// each call in the child process (GC off, address-space limit), with the bytes taken from the stream counted.

import (
	"encoding/binary"
	"fmt"
	"io"
	"runtime"
	"sort"
	"strings"

	"github.com/pkg/sftp"

	"verifharness/lib"
)

type c08Frame struct {
	Request  bool   `json:"request_packet"` // RequestPacket.ReadFrom, else RawPacket.ReadFrom
	Limit    uint32 `json:"max_packet_length"`
	Cap      int    `json:"buffer_cap"` // 0: nil buffer
	FullLen  bool   `json:"buffer_len_is_cap,omitempty"`
	Declared uint32 `json:"declared_length"`
	Avail    int    `json:"bytes_after_length_word"`
}

func (f c08Frame) spec() string {
	return fmt.Sprintf("%v,%d,%d,%v,%d,%d", f.Request, f.Limit, f.Cap, f.FullLen, f.Declared, f.Avail)
}

// c08Stream is the byte stream of one case: the length word, then a STAT request (type, id, path made of 'a's
// that fills the declared length exactly; shorter frames are cut), then 0xEE bytes that belong to the next frame.
// Only Avail bytes follow the length word. It hands out one segment per Read (short reads).
type c08Stream struct {
	prefix  []byte
	bodyEnd int // 4 + declared
	total   int // 4 + avail
	pos     int
}

func c08NewStream(f c08Frame) *c08Stream {
	p := make([]byte, 13)
	binary.BigEndian.PutUint32(p, f.Declared)
	p[4] = 17
	binary.BigEndian.PutUint32(p[5:], 0x01020304)
	if f.Declared >= 9 {
		binary.BigEndian.PutUint32(p[9:], f.Declared-9)
	} else {
		copy(p[9:], "aaaa")
	}
	s := &c08Stream{prefix: p, bodyEnd: 4 + int(f.Declared), total: 4 + f.Avail}
	if s.bodyEnd < len(p) {
		for i := s.bodyEnd; i < len(p); i++ {
			p[i] = 0xEE
		}
	}
	return s
}

func (s *c08Stream) Read(p []byte) (int, error) {
	if s.pos >= s.total {
		return 0, io.EOF
	}
	if len(p) == 0 {
		return 0, nil
	}
	end, fill := s.total, byte(0xEE)
	switch {
	case s.pos < len(s.prefix):
		end = min(end, len(s.prefix))
		n := copy(p, s.prefix[s.pos:end])
		s.pos += n
		return n, nil
	case s.pos < s.bodyEnd:
		end, fill = min(end, s.bodyEnd), 'a'
	}
	n := min(len(p), end-s.pos)
	q := p[:n]
	for i := range q {
		q[i] = fill
	}
	s.pos += n
	return n, nil
}

// one backing array for the receive buffers of all cases (the harness's own memory must not grow with the case count)
var c08Buf []byte

// c08FrameChild runs one case; answer: <ok|err|panic> <allocated> <consumed> <body length|-1> <error class|->
func c08FrameChild(spec string) string {
	var f c08Frame
	if _, err := fmt.Sscanf(strings.ReplaceAll(spec, ",", " "), "%t %d %d %t %d %d", &f.Request, &f.Limit, &f.Cap, &f.FullLen, &f.Declared, &f.Avail); err != nil {
		return "bad 0 0 0 -"
	}
	var b []byte
	if f.Cap > 0 {
		if len(c08Buf) < f.Cap {
			c08Buf = nil
			runtime.GC()
			c08Buf = make([]byte, max(f.Cap, 8<<20))
		}
		b = c08Buf[:f.Cap:f.Cap]
		for i := range b[:min(len(b), 32)] {
			b[i] = 0x55
		}
		if !f.FullLen {
			b = b[:0]
		}
	}
	cr := &countingReader{r: c08NewStream(f)}
	var ms runtime.MemStats
	runtime.ReadMemStats(&ms)
	before := ms.TotalAlloc
	res, bodyLen, cls := "ok", -1, "-"
	func() {
		defer func() {
			if r := recover(); r != nil {
				res = "panic"
			}
		}()
		_, _, n, err := sftp.VerifFxReadFrom(f.Request, cr, b, f.Limit)
		bodyLen = n
		if err != nil {
			res, cls = "err", sftp.VerifFxErrClass(err)
		}
	}()
	runtime.ReadMemStats(&ms)
	return fmt.Sprintf("%s %d %d %d %s", res, ms.TotalAlloc-before, cr.n, bodyLen, cls)
}

func c08Uniq32(xs []uint32) []uint32 {
	sort.Slice(xs, func(i, j int) bool { return xs[i] < xs[j] })
	out := xs[:0]
	for i, x := range xs {
		if i == 0 || x != xs[i-1] {
			out = append(out, x)
		}
	}
	return out
}

func c08FrameCases(c *lib.Ctx) []c08Case {
	var out []c08Case
	add := func(req bool, limit uint32, cp int, full bool, declared uint32) {
		whole := int(min(uint64(declared), 4*uint64(limit)+64))
		avs := []int{whole + 3, whole, whole - 1, 0}
		seen := map[int]bool{}
		for _, av := range avs {
			if av < 0 || seen[av] {
				continue
			}
			seen[av] = true
			f := c08Frame{Request: req, Limit: limit, Cap: cp, FullLen: full && cp > 0, Declared: declared, Avail: av}
			kind := "RawPacket.ReadFrom"
			if req {
				kind = "RequestPacket.ReadFrom"
			}
			out = append(out, c08Case{Entry: "fxframe", Kind: kind, Mut: "frame", Frame: &f})
		}
	}
	limits := []uint32{16, 1024, sftp.VerifFxDefaultMaxPacketLength, 256 << 10, 1 << 20}
	for _, limit := range limits {
		caps := c08Uniq32([]uint32{0, 3, 4, 5, 64, limit - 1, limit, limit + 1, 2 * limit, 4 * limit})
		for _, cp := range caps {
			decl := c08Uniq32([]uint32{0, 1, 4, 5, 6, 9, 10, limit - 1, limit, limit + 1, cp - 1, cp, cp + 1, 2 * limit, 2*limit + 1,
				4 * limit, 4*limit + 1, 0x7fffffff, 0x80000000, 0xffffffff})
			for _, d := range decl {
				for _, req := range []bool{false, true} {
					for _, full := range []bool{false, true} {
						if full && cp == 0 {
							continue
						}
						add(req, limit, int(cp), full, d)
					}
				}
			}
		}
	}
	// PRNG: limit, capacity and declared length near one another
	nr := 400
	if c.Tier == "thorough" {
		nr = 20000
	}
	near := func(x uint32) uint32 {
		switch c.Rand.Intn(4) {
		case 0:
			return x
		case 1:
			return x + uint32(c.Rand.Intn(9)) - 4
		case 2:
			return uint32(uint64(x) * uint64(1+c.Rand.Intn(5)) / 2)
		}
		return uint32(c.Rand.Intn(3 << 20))
	}
	for i := 0; i < nr; i++ {
		limit := uint32(5 + c.Rand.Intn(1<<uint(3+c.Rand.Intn(18))))
		cp := near(limit)
		if cp > 8<<20 {
			cp = 8 << 20
		}
		d := near([]uint32{limit, cp}[c.Rand.Intn(2)])
		add(i%2 == 0, limit, int(cp), c.Rand.Intn(2) == 0, d)
	}
	return out
}

// c08FrameJudge applies the framing statements of C08 to one answer of the child.
func c08FrameJudge(r *lib.Result, cs c08Case, ans string) (failed bool) {
	f := *cs.Frame
	fail := func(key, what, actual string) {
		failed = true
		r.Fail(lib.Failure{Kind: "oracle", Key: "fxframing/" + key, What: what, Input: cs,
			Expected: "filexfer " + cs.Kind + ": a frame declaring 0 or more than max_packet_length bytes is refused with exactly the 4 length bytes taken from the stream; a packet is delivered only whole",
			Actual:   actual})
	}
	if ans == "died" || ans == "hang" {
		fail("reader-"+ans, "reading this frame killed the process (out of memory / fatal error) or did not finish within 20 s", ans)
		return true
	}
	var res, cls string
	var alloc uint64
	var consumed, bodyLen int
	if n, _ := fmt.Sscan(ans, &res, &alloc, &consumed, &bodyLen, &cls); n != 5 {
		r.Fail(lib.Failure{Kind: "tie", Key: "fxframing/child-answer", What: "unreadable answer of the child: " + ans, Input: cs})
		return true
	}
	act := fmt.Sprintf("outcome=%s error=%s consumed=%d delivered_body=%d allocated=%d", res, cls, consumed, bodyLen, alloc)
	if res == "panic" {
		fail("panic", "the frame reader panicked", act)
		return true
	}
	d := int64(f.Declared)
	if f.Declared == 0 || f.Declared > f.Limit {
		if res != "err" || consumed != 4 {
			which := "long"
			if f.Declared == 0 {
				which = "zero"
			}
			fail(which+"-not-refused-early", "a frame declaring 0 or more than the limit must be refused after exactly the 4 length bytes, whatever receive buffer the caller passes", act)
		}
		return failed
	}
	if res == "ok" {
		if int64(f.Avail) < d {
			fail("delivered-short", "fewer bytes than declared were available but a packet was delivered", act)
		} else if !f.Request && int64(bodyLen) != d-5 {
			fail("delivered-short", "the delivered packet does not have the declared length", act)
		}
	}
	if int64(f.Avail) >= d {
		if int64(consumed) > 4+d {
			fail("over-read", "the reader took bytes of the next frame from the stream", act)
		} else if d >= 5 && int64(consumed) != 4+d {
			fail("delivered-short", "the body of an admissible, completely available frame was not read completely", act)
		}
	}
	if bound := 64*uint64(consumed) + uint64(f.Limit) + 64<<10; alloc > bound {
		fail("alloc-out-of-proportion", fmt.Sprintf("reading %d bytes (limit %d) allocated %d bytes", consumed, f.Limit, alloc), act)
	}
	return failed
}

func c08FrameBucket(f c08Frame) string {
	b := "cap<=limit"
	if uint64(f.Cap) > uint64(f.Limit) {
		b = "cap>limit"
	}
	switch {
	case f.Declared == 0:
		b += "/decl=0"
	case f.Declared <= f.Limit:
		b += "/decl<=limit"
	case uint64(f.Declared) <= uint64(f.Cap):
		b += "/limit<decl<=cap"
	default:
		b += "/decl>limit,cap"
	}
	return "fxframe-" + b
}
