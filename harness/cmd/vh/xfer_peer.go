package main

// The scripted peer used by C01/C12/C13: a real *sftp.Client (peers.NewClient) talks to a
// peer that serves ONE in-memory file itself. It records every request, can hold
// outstanding READ/WRITE requests and answer them in a PRNG-chosen permutation, can fail
// chosen request offsets with a status, and can answer READs short.

import (
	"bytes"
	"fmt"
	"math/rand"
	"os"
	"sync"
	"time"

	"github.com/pkg/sftp"

	"verifharness/lib"
	"verifharness/peers"
	"verifharness/wire"
)

type xfFail struct {
	Code uint32 `json:"code"`
	Msg  string `json:"msg"`
}

// xfReq is one recorded request.
type xfReq struct {
	Seq       int
	Typ       byte
	ID        uint32
	Handle    string
	Path      string
	Off       int64
	Len       int // READ: requested length; WRITE: len(data)
	Data      []byte
	Malformed string // non-empty: what was wrong with the frame
	Stale     bool   // carries a handle that was closed (or never issued) when the frame arrived
}

type xfPeerOpts struct {
	File     []byte
	Exists   bool
	Window   int   // hold READ/WRITE requests until this many are outstanding (<=1: answer at once, in order)
	PermSeed int64 // PRNG of the reply order
	Fail     map[int64]xfFail
	StatFail *xfFail
	ShortCap int  // > 0: DATA replies carry at most this many bytes
	NoPerm   bool // ATTRS replies carry the size only (no permissions: not known to be a regular file)
	// PathView: what STAT/LSTAT of the PATH answer once the name no longer refers to the open file (FSTAT of the
	// handle keeps answering from the served file)
	PathView *xfNameView
	Idle     time.Duration
	// what happens to a CLOSE request (the handle is released when the request arrives, whatever is answered):
	// CloseFail: it is answered with this failure status; CloseCut: the connection to the client is cut instead
	CloseFail *xfFail
	CloseCut  bool
}

const xfCloseRefusedMsg = "close refused"

// xfPeerLogMax bounds the recorded requests of one case (a client that spins on a reply it takes for progress sends
// requests as fast as they are answered until its call is given up after 20 s).
const xfPeerLogMax = 1 << 18

type xfPeer struct {
	Cli *sftp.Client
	SS  *peers.ScriptedServer

	mu       sync.Mutex
	file     []byte
	exists   bool
	open     map[string]bool
	nextH    int
	log      []xfReq
	closes   int
	opts     xfPeerOpts
	rng      *rand.Rand
	done     chan struct{}
	timeouts int
	npending int
	applied  []xfChunk // WRITE requests answered OK (their data is in the served file), in answer order
	// reply order (SetOrder): READ/WRITE requests at these offsets are answered in this order
	order   []int64
	ordNext int // order[:ordNext] have been answered
	ordHit  int // … of which in their turn (not released by the idle timer)
}

const xfHandleTag = "\xfeH\xff" // bytes >= 251 never occur in the data patterns

func xfNewPeer(cfg xfCfg, o xfPeerOpts) (*xfPeer, error) {
	cli, ss, err := peers.NewClient(wire.VersionFrame(3, nil), cfg.Opts()...)
	if err != nil {
		return nil, err
	}
	if o.Idle == 0 {
		o.Idle = 400 * time.Microsecond
	}
	p := &xfPeer{Cli: cli, SS: ss, file: append([]byte(nil), o.File...), exists: o.Exists, open: map[string]bool{},
		opts: o, rng: rand.New(rand.NewSource(o.PermSeed)), done: make(chan struct{})}
	go p.run()
	return p, nil
}

func (p *xfPeer) Shutdown() {
	go p.Cli.Close()
	lib.WaitCleanup(xfProp+"/peer", 5*time.Second, p.done) // clean-up wait: bounded by the hang budget, stops no case
	p.SS.Shutdown()
}

func (p *xfPeer) Put(b []byte) {
	p.mu.Lock()
	p.file = append([]byte(nil), b...)
	p.exists = true
	p.mu.Unlock()
}

func (p *xfPeer) Get() []byte {
	p.mu.Lock()
	defer p.mu.Unlock()
	return append([]byte(nil), p.file...)
}

// Reset prepares a quiescent peer for the next case: waits until every held request has been answered,
// then installs the file and the behaviour and clears the log.
func (p *xfPeer) Reset(o xfPeerOpts) bool {
	p.SetBehaviour(func(b *xfPeerOpts) { b.Window = 1; b.Fail = nil; b.StatFail = nil })
	deadline := time.Now().Add(5 * time.Second)
	for {
		p.mu.Lock()
		n := p.npending
		p.mu.Unlock()
		if n == 0 {
			break
		}
		if time.Now().After(deadline) {
			return false
		}
		time.Sleep(50 * time.Microsecond)
	}
	if o.Idle == 0 {
		o.Idle = p.opts.Idle
	}
	p.mu.Lock()
	p.file = append([]byte(nil), o.File...)
	p.exists = o.Exists
	p.opts = o
	p.rng = rand.New(rand.NewSource(o.PermSeed))
	p.log = nil
	p.applied = nil
	p.closes = 0
	p.timeouts = 0
	p.order, p.ordNext, p.ordHit = nil, 0, 0
	p.mu.Unlock()
	return true
}

// TakeApplied returns and clears the list of WRITE requests applied since the last call.
func (p *xfPeer) TakeApplied() []xfChunk {
	p.mu.Lock()
	defer p.mu.Unlock()
	a := p.applied
	p.applied = nil
	return a
}

// Settle waits until every request the client has written so far was answered: a STAT round trip
// (answered in arrival order, after all earlier requests were taken off the stream), then the held ones.
func (p *xfPeer) Settle() bool {
	p.SetBehaviour(func(b *xfPeerOpts) { b.Window = 1 })
	ok, _ := xfGuard(func() { p.Cli.Lstat("/f") })
	if !ok {
		return false
	}
	deadline := time.Now().Add(5 * time.Second)
	for {
		p.mu.Lock()
		n := p.npending
		p.mu.Unlock()
		if n == 0 {
			return true
		}
		if time.Now().After(deadline) {
			return false
		}
		time.Sleep(50 * time.Microsecond)
	}
}

// xfOrderGap is the pause after a reply that has a place in the reply order: the client's worker has taken the reply
// off its channel and handed the outcome on before the next ordered reply is written.
const xfOrderGap = 250 * time.Microsecond

// xfOrderIdle: a request held back for its turn is released when nothing has arrived for this long (the request it
// waits for is not coming: the client does not send it before it has an answer).
const xfOrderIdle = 4 * time.Millisecond

// SetOrder installs the reply order of the next call (nil: none) and returns how many entries of the previous one
// were answered in their turn. The peer must be quiescent.
func (p *xfPeer) SetOrder(offs []int64) (hit int) {
	p.mu.Lock()
	defer p.mu.Unlock()
	hit = p.ordHit
	p.order, p.ordNext, p.ordHit = append([]int64(nil), offs...), 0, 0
	return hit
}

// ordPlace returns the position of a READ/WRITE request in the part of the reply order that is still to come (-1: none).
func (p *xfPeer) ordPlace(q xfReq) int {
	if q.Typ != wire.Read && q.Typ != wire.Write {
		return -1
	}
	p.mu.Lock()
	defer p.mu.Unlock()
	for i := p.ordNext; i < len(p.order); i++ {
		if p.order[i] == q.Off {
			return i - p.ordNext
		}
	}
	return -1
}

// SetBehaviour changes window / failures between calls (the peer must be quiescent).
func (p *xfPeer) SetBehaviour(f func(o *xfPeerOpts)) {
	p.mu.Lock()
	f(&p.opts)
	p.mu.Unlock()
}

func (p *xfPeer) Log() []xfReq {
	p.mu.Lock()
	defer p.mu.Unlock()
	return append([]xfReq(nil), p.log...)
}

// LogLen is the number of requests recorded so far; LogFrom returns those from index i on.
func (p *xfPeer) LogLen() int { p.mu.Lock(); defer p.mu.Unlock(); return len(p.log) }

func (p *xfPeer) LogFrom(i int) []xfReq {
	p.mu.Lock()
	defer p.mu.Unlock()
	if i > len(p.log) {
		i = len(p.log)
	}
	return append([]xfReq(nil), p.log[i:]...)
}

func (p *xfPeer) ResetLog() {
	p.mu.Lock()
	p.log = nil
	p.mu.Unlock()
}

func (p *xfPeer) Closes() int { p.mu.Lock(); defer p.mu.Unlock(); return p.closes }

// DataReqs returns the recorded (offset, length) of all requests of type typ.
func xfDataReqs(log []xfReq, typ byte) []xfChunk {
	var out []xfChunk
	for _, q := range log {
		if q.Typ == typ {
			out = append(out, xfChunk{q.Off, q.Len})
		}
	}
	return out
}

func (p *xfPeer) decode(pk wire.Pkt) xfReq {
	q := xfReq{Typ: pk.Typ, ID: pk.ID()}
	if len(pk.Body) < 4 {
		q.Malformed = "no id"
		return q
	}
	d := wire.D{B: pk.Body[4:]}
	switch pk.Typ {
	case wire.Open:
		q.Path = d.Str()
		q.Len = int(d.U32()) // pflags
		d.St()
	case wire.Close, wire.Fstat, wire.Readdir:
		q.Handle = d.Str()
	case wire.Read:
		q.Handle = d.Str()
		q.Off = int64(d.U64())
		q.Len = int(d.U32())
	case wire.Write:
		q.Handle = d.Str()
		q.Off = int64(d.U64())
		q.Data = append([]byte(nil), d.Bytes()...)
		q.Len = len(q.Data)
	case wire.Fsetstat:
		q.Handle = d.Str()
		st := d.St()
		if st.Flags&wire.ASize != 0 {
			q.Off = int64(st.Size)
			q.Len = 1
		}
	case wire.Stat, wire.Lstat, wire.Setstat, wire.Remove:
		q.Path = d.Str()
		d.B = nil
	default:
		d.B = nil
	}
	if d.Err != nil {
		q.Malformed = "short frame: " + d.Err.Error()
	} else if len(d.B) != 0 {
		// for WRITE this is the check "Length field == len(Data)": the data string must end the frame
		q.Malformed = fmt.Sprintf("%d trailing bytes after the last field", len(d.B))
	}
	return q
}

func (p *xfPeer) run() {
	defer close(p.done)
	var pending []xfReq
	var held []xfReq // requests waiting for their turn in the reply order
	drain := false
	timer := time.NewTimer(time.Hour)
	defer timer.Stop()
	// answerOrdered answers q, which is next in the reply order, and then every held request whose turn has come
	answerOrdered := func(q xfReq, inTurn bool) bool {
		for {
			if p.SS.Reply(p.answer(q)) != nil {
				return false
			}
			p.mu.Lock()
			p.ordNext++
			if inTurn {
				p.ordHit++
			}
			p.mu.Unlock()
			time.Sleep(xfOrderGap)
			found := false
			for i, h := range held {
				if p.ordPlace(h) == 0 {
					q, found = h, true
					held = append(held[:i], held[i+1:]...)
					break
				}
			}
			p.mu.Lock()
			p.npending = len(pending) + len(held)
			p.mu.Unlock()
			if !found {
				return true
			}
		}
	}
	for {
		var pk wire.Pkt
		var ok bool
		p.mu.Lock()
		window := p.opts.Window
		p.mu.Unlock()
		switch {
		case len(held) > 0 && len(pending) == 0:
			if !timer.Stop() {
				select {
				case <-timer.C:
				default:
				}
			}
			timer.Reset(xfOrderIdle)
			select {
			case pk, ok = <-p.SS.Reqs:
				if !ok {
					return
				}
			case <-timer.C:
				// the request the held ones wait for is not coming: release them, in their order
				best, bi := -1, 0
				for i, h := range held {
					if pl := p.ordPlace(h); best < 0 || pl < best {
						best, bi = pl, i
					}
				}
				q := held[bi]
				held = append(held[:bi], held[bi+1:]...)
				p.mu.Lock()
				p.ordNext += best // skip the entries that never came
				p.mu.Unlock()
				if !answerOrdered(q, false) {
					return
				}
				continue
			}
		case len(pending) == 0:
			pk, ok = <-p.SS.Reqs
			if !ok {
				return
			}
		case len(pending) < window && !drain:
			if !timer.Stop() {
				select {
				case <-timer.C:
				default:
				}
			}
			timer.Reset(p.opts.Idle)
			select {
			case pk, ok = <-p.SS.Reqs:
				if !ok {
					return
				}
			case <-timer.C:
				// the client sends nothing more before it gets an answer: it is blocked at this many outstanding
				drain = true
				p.mu.Lock()
				p.timeouts++
				if len(pending) < p.opts.Window {
					p.opts.Window = len(pending)
				}
				p.mu.Unlock()
				continue
			}
		default:
			select {
			case pk, ok = <-p.SS.Reqs:
				if !ok {
					return
				}
			default:
				p.mu.Lock()
				i := p.rng.Intn(len(pending))
				p.mu.Unlock()
				q := pending[i]
				pending = append(pending[:i], pending[i+1:]...)
				err := p.SS.Reply(p.answer(q))
				p.mu.Lock()
				p.npending = len(pending)
				p.mu.Unlock()
				if err != nil {
					return
				}
				continue
			}
		}
		drain = false
		q := p.decode(pk)
		p.mu.Lock()
		window = p.opts.Window // may have been changed while we were waiting for this request
		q.Seq = len(p.log)
		if q.Handle != "" || pk.Typ == wire.Close || pk.Typ == wire.Read || pk.Typ == wire.Write || pk.Typ == wire.Fstat || pk.Typ == wire.Fsetstat {
			q.Stale = !p.open[q.Handle]
		}
		if pk.Typ == wire.Close && !q.Stale {
			p.open[q.Handle] = false
			delete(p.open, q.Handle)
			p.closes++
		}
		if len(p.log) < xfPeerLogMax || q.Stale || pk.Typ == wire.Close {
			p.log = append(p.log, q)
		}
		cut := pk.Typ == wire.Close && p.opts.CloseCut
		p.mu.Unlock()
		if cut {
			// the connection goes away while the CLOSE is outstanding; what the client still writes is read (and recorded)
			p.SS.CutOutput()
			continue
		}
		if pl := p.ordPlace(q); pl == 0 {
			if !answerOrdered(q, true) {
				return
			}
			continue
		} else if pl > 0 {
			held = append(held, q)
			p.mu.Lock()
			p.npending = len(pending) + len(held)
			p.mu.Unlock()
			continue
		}
		if (pk.Typ == wire.Read || pk.Typ == wire.Write) && window > 1 {
			pending = append(pending, q)
			p.mu.Lock()
			p.npending = len(pending)
			p.mu.Unlock()
			continue
		}
		if p.SS.Reply(p.answer(q)) != nil {
			return
		}
	}
}

// answer builds the reply to q and applies its effect on the served file.
func (p *xfPeer) answer(q xfReq) []byte {
	p.mu.Lock()
	defer p.mu.Unlock()
	if q.Malformed != "" {
		return wire.StatusFrame(q.ID, wire.BadMessage, "malformed: "+q.Malformed)
	}
	switch q.Typ {
	case wire.Open:
		pf := uint32(q.Len)
		switch {
		case !p.exists && pf&wire.FCreat == 0:
			return wire.StatusFrame(q.ID, wire.NoSuchFile, "no such file")
		case p.exists && pf&wire.FCreat != 0 && pf&wire.FExcl != 0:
			return wire.StatusFrame(q.ID, wire.Failure, "exists")
		}
		p.exists = true
		if pf&wire.FTrunc != 0 {
			p.file = nil
		}
		p.nextH++
		h := fmt.Sprintf("%s%d%s", xfHandleTag, p.nextH, xfHandleTag)
		p.open[h] = true
		return wire.HandleFrame(q.ID, h)
	case wire.Close:
		if q.Stale {
			return wire.StatusFrame(q.ID, wire.Failure, "close of a stale handle")
		}
		if f := p.opts.CloseFail; f != nil {
			return wire.StatusFrame(q.ID, f.Code, f.Msg)
		}
		return wire.StatusFrame(q.ID, wire.OK, "")
	case wire.Stat, wire.Lstat, wire.Fstat:
		if q.Typ == wire.Fstat && q.Stale {
			return wire.StatusFrame(q.ID, wire.Failure, "stale handle")
		}
		if p.opts.StatFail != nil {
			return wire.StatusFrame(q.ID, p.opts.StatFail.Code, p.opts.StatFail.Msg)
		}
		if v := p.opts.PathView; v != nil && q.Typ != wire.Fstat && v.Kind != "" && v.Kind != "same" {
			size, mode, exists := v.Attrs(q.Typ == wire.Lstat)
			if !exists {
				return wire.StatusFrame(q.ID, wire.NoSuchFile, "no such file")
			}
			perm := uint32(mode.Perm()) | 0o100000
			switch {
			case mode&os.ModeSymlink != 0:
				perm = uint32(mode.Perm()) | 0o120000
			case mode.IsDir():
				perm = uint32(mode.Perm()) | 0o040000
			}
			return wire.AttrsFrame(q.ID, wire.St{Flags: wire.ASize | wire.APerm, Size: uint64(size), Perm: perm})
		}
		if !p.exists {
			return wire.StatusFrame(q.ID, wire.NoSuchFile, "no such file")
		}
		a := wire.St{Flags: wire.ASize | wire.APerm, Size: uint64(len(p.file)), Perm: 0o100644}
		if p.opts.NoPerm {
			a.Flags = wire.ASize
		}
		return wire.AttrsFrame(q.ID, a)
	case wire.Fsetstat:
		if q.Stale {
			return wire.StatusFrame(q.ID, wire.Failure, "stale handle")
		}
		if q.Len == 1 {
			n := int(q.Off)
			if n <= len(p.file) {
				p.file = p.file[:n:n]
			} else {
				p.file = append(append([]byte(nil), p.file...), make([]byte, n-len(p.file))...)
			}
		}
		return wire.StatusFrame(q.ID, wire.OK, "")
	case wire.Read:
		if q.Stale {
			return wire.StatusFrame(q.ID, wire.Failure, "stale handle")
		}
		if f, ok := p.opts.Fail[q.Off]; ok {
			return wire.StatusFrame(q.ID, f.Code, f.Msg)
		}
		if q.Off >= int64(len(p.file)) {
			return wire.StatusFrame(q.ID, wire.EOF, "EOF")
		}
		b := xfSlice(p.file, q.Off, q.Len)
		if p.opts.ShortCap > 0 && len(b) > p.opts.ShortCap {
			b = b[:p.opts.ShortCap]
		}
		return wire.DataFrame(q.ID, b)
	case wire.Write:
		if q.Stale {
			return wire.StatusFrame(q.ID, wire.Failure, "stale handle")
		}
		if f, ok := p.opts.Fail[q.Off]; ok {
			return wire.StatusFrame(q.ID, f.Code, f.Msg)
		}
		p.file = xfOverwrite(p.file, q.Off, q.Data)
		p.applied = append(p.applied, xfChunk{q.Off, len(q.Data)})
		return wire.StatusFrame(q.ID, wire.OK, "")
	}
	return wire.StatusFrame(q.ID, wire.OpUnsupported, "unsupported")
}

// xfHandleUseAfterClose parses the raw client->server byte stream and returns every request
// frame that carries a handle after the CLOSE frame of that handle.
func xfHandleUseAfterClose(raw []byte) (closes map[string]int, late []string, tail int) {
	frames, rest := wire.Split(raw)
	closes = map[string]int{}
	closed := map[string]bool{}
	for i, f := range frames {
		if len(f.Body) < 4 {
			continue
		}
		d := wire.D{B: f.Body[4:]}
		var h string
		switch f.Typ {
		case wire.Close, wire.Read, wire.Write, wire.Fstat, wire.Fsetstat, wire.Readdir:
			h = d.Str()
		case wire.Extended:
			d.Str()
			h = d.Str()
		default:
			// any other frame: look for a closed handle's bytes anywhere in it
			for ch := range closed {
				if bytes.Contains(f.Body, []byte(ch)) {
					late = append(late, fmt.Sprintf("frame %d type %d contains closed handle", i, f.Typ))
				}
			}
			continue
		}
		if closed[h] {
			late = append(late, fmt.Sprintf("frame %d type %d id %d carries handle closed earlier", i, f.Typ, f.ID()))
		}
		if f.Typ == wire.Close {
			closes[h]++
			closed[h] = true
		}
	}
	return closes, late, len(rest)
}
