package main

// Shared by C07 and C11: running session programs against a fresh server inside a child
// process ("vh child ss <root>"), and the parent-side pool that feeds such children,
// survives their death (a panic in a package goroutine kills the process) and pins a
// crash down by re-running the offending job alone.

import (
	"bufio"
	"bytes"
	"crypto/sha256"
	"encoding/binary"
	"encoding/hex"
	"encoding/json"
	"fmt"
	"io"
	"os"
	"os/exec"
	"path/filepath"
	"regexp"
	"sort"
	"strings"
	"sync"
	"sync/atomic"
	"time"

	"verifharness/lib"
	"verifharness/wire"
)

func init() { children["ss"] = ssChildMain }

// ---------- jobs and results ----------

type ssEnd struct {
	After  int    `json:"after"`             // index of the last step sent
	Mode   string `json:"mode"`              // eof | noreply | mid | break | breakmid | badpkt
	MidOff int    `json:"mid_off,omitempty"` // bytes of the following frame sent before the end
	// badpkt: the last thing the server receives is a well-FRAMED packet whose body does not decode
	// (srvsession_bad.go): derived from a valid request of kind Bad by Defect.  The server has to stop on
	// its own (the stream stays open until it did, or until the stop deadline passed); a packet that is
	// merely to be refused (attrs-short) is answered and followed by EOF.  Unread: the packet goes out in
	// the same write as the last request, whose reply is not read first (the workers are busy when it arrives).
	Bad    string `json:"bad,omitempty"`
	Defect string `json:"defect,omitempty"`
	Unread bool   `json:"unread,omitempty"`
	soft   bool   // set by the run: the packet was a refusable one (the session ended with EOF)
}

// unread: the reply to the last request was not read before the connection was ended.
func (e ssEnd) unread() bool { return e.Mode == "noreply" || (e.Mode == "badpkt" && e.Unread) }

// cleanEOF: the server sees EOF on a packet boundary (the os-backed Serve then returns nil).
func (e ssEnd) cleanEOF() bool {
	return e.Mode == "eof" || e.Mode == "noreply" || (e.Mode == "badpkt" && e.soft)
}

type ssJob struct {
	Kind string   `json:"kind"` // ref | c07 | c11
	PID  string   `json:"pid"`  // program id (hash of cfg+prog)
	Cfg  *ssCfg   `json:"cfg,omitempty"`
	Prog []ssStep `json:"prog,omitempty"`
	Mut  *ssMut   `json:"mut,omitempty"`
	End  *ssEnd   `json:"end,omitempty"`
	Fast bool     `json:"fast,omitempty"` // reduced deadlines: the parent has already seen many full-deadline liveness failures
	Cl   string   `json:"cl,omitempty"`   // hang class of the job (lib/budget.go)
	Full bool     `json:"full,omitempty"` // thorough tier or a replay: nothing is sampled out inside the case
}

// ssThoroughRun: set by the parent (thorough tier, or a replay) and handed to the children with every job.
var ssThoroughRun bool

// Liveness deadlines.  A healthy case is over in well under 50 ms; the full deadlines are the
// ones the property is judged by.  Once the parent has collected ssSlowBudget failures that each
// cost a full deadline, the defect is established and further cases run with reduced deadlines
// (and say so), so that a systematic leak or hang cannot stretch a run to hours.
var ssFast bool

const ssSlowBudget = 24

func ssDl(full, fast time.Duration) time.Duration {
	if ssFast {
		return fast
	}
	return full
}
func ssDlHang() time.Duration  { return ssDl(20*time.Second, 2*time.Second) }
func ssDlStop() time.Duration  { return ssDl(3*time.Second, 300*time.Millisecond) }
func ssDlQuiet() time.Duration { return ssDl(5*time.Second, 300*time.Millisecond) }
func ssDlNote() string {
	if ssFast {
		return " [reduced deadline: the same failure was already observed with the full deadline]"
	}
	return ""
}

type ssResult struct {
	Findings  []ssFinding `json:"findings,omitempty"`
	Hist      []string    `json:"hist,omitempty"`
	FrameLens []int       `json:"frame_lens,omitempty"` // ref
	StrOffs   [][]int     `json:"str_offs,omitempty"`   // ref
	StrLens   [][]int     `json:"str_lens,omitempty"`   // ref
	Fields    [][]ssField `json:"fields,omitempty"`     // ref: the integer fields of every frame
	Replies   []string    `json:"replies,omitempty"`    // ref
	EndClass  string      `json:"end_class,omitempty"`  // c07: how the judge reads the end of the stream
	NA, NB    int         `json:",omitempty"`           // c07: frames identical to the reference / well-formed but different
	ServeErr  string      `json:"serve_err,omitempty"`
	Exit      bool        `json:"exit,omitempty"`  // the child must be replaced (a goroutine is stuck)
	Slow      bool        `json:"slow,omitempty"`  // a liveness deadline expired in this case
	Model     *ssMTrace   `json:"model,omitempty"` // c11: the session as actions of the handle-table model (srvsession_model.go)
	// parent side
	Crash   bool   `json:"crash,omitempty"`
	Timeout bool   `json:"timeout,omitempty"`
	Stderr  string `json:"stderr,omitempty"`
	Prev    int    `json:"-"`
}

func ssProgID(cfg ssCfg, prog []ssStep) string {
	b, _ := json.Marshal(struct {
		C ssCfg
		P []ssStep
	}{cfg, prog})
	h := sha256.Sum256(b)
	return hex.EncodeToString(h[:8])
}

// ---------- a session inside the child ----------

type ssSess struct {
	cfg        ssCfg
	root, tree string
	fs         *cntFS
	srv        *ssSrv
	trk        *ssTrack
	init       string // cfg.RO: the served tree before the first request
}

func ssOpen(cfg ssCfg, root string) (*ssSess, error) { return ssOpenTr(cfg, root, "", nil) }

// ssOpenTr is ssOpen on the transport tr (ssStartTr; feed: the whole input of the "buf" transport).
func ssOpenTr(cfg ssCfg, root, tr string, feed []byte) (*ssSess, error) {
	s := &ssSess{cfg: cfg, root: root, tree: filepath.Join(root, "t"), trk: newSSTrack(cfg)}
	if cfg.Kind == "os" {
		// the process directory (<root>/cwd, where relative paths made by mutations land) starts empty too:
		// what one run left there must not be found by the next
		if ents, err := os.ReadDir(filepath.Join(root, "cwd")); err == nil {
			for _, e := range ents {
				os.RemoveAll(filepath.Join(root, "cwd", e.Name()))
			}
		}
		if err := ssMkTree(s.tree, cfg.Tree, cfg.Start); err != nil {
			return nil, err
		}
		if cfg.RO {
			s.init = s.state()
		}
	} else {
		s.fs = newCntFS(cfg.Tree, cfg.Start)
		s.fs.closeErrPct, s.fs.closeErrSeed = cfg.CloseErr, cfg.CloseErrSeed
	}
	var err error
	s.srv, err = ssStartTr(cfg, s.tree, s.fs, tr, feed)
	return s, err
}

// readOnlyCheck: a read-only server leaves the served tree exactly as it was, whatever it was sent.
func (s *ssSess) readOnlyCheck(res *ssResult) {
	if !s.cfg.RO || s.cfg.Kind != "os" {
		return
	}
	if got := s.state(); got != s.init {
		res.Findings = append(res.Findings, ssFinding{Key: "os/readonly-tree-changed", What: "the tree served by a ReadOnly() server differs from what it was before the session",
			Expected: ssDiffText(s.init, got, "-"), Actual: ssDiffText(got, s.init, "+")})
	}
}

// state is what the served files / the handlers look like now.
func (s *ssSess) state() string {
	if s.cfg.Kind == "os" {
		return lib.JoinLines(lib.Snapshot(s.tree, false))
	}
	if s.cfg.InMem {
		return ""
	}
	return strings.Join(s.fs.callsCopy(), "\n") + "\n--\n" + s.fs.dump()
}

// finish waits for Serve and applies the release oracles (fds, handler objects, goroutines).
func (s *ssSess) finish(res *ssResult) (extra []wire.Pkt) {
	k := s.cfg.Kind
	if !s.srv.Wait(ssDlHang()) {
		res.Findings = append(res.Findings, ssFinding{Key: k + "/serve-hang", What: fmt.Sprintf("Serve did not return within %v after the stream ended", ssDlHang()) + ssDlNote(), Actual: strings.Join(ssPkgGoroutines(), "\n\n")})
		res.Exit, res.Slow = true, true
		return nil
	}
	if s.srv.serveErr != nil {
		res.ServeErr = s.srv.serveErr.Error()
	}
	extra = s.srv.Drain()
	if k == "os" {
		if fds := ssFDs(s.root); len(fds) > 0 {
			res.Findings = append(res.Findings, ssFinding{Key: "os/fd-leak", What: "file descriptors into the served tree remain after Serve returned", Expected: "none", Actual: strings.Join(fds, " ")})
		}
	} else if !s.cfg.InMem {
		variants := map[string]bool{}
		for _, o := range s.fs.objStates() {
			if v := fmt.Sprintf("object/%s/closer=%v/transfer-error=%v", o.Kind, o.HasClose, o.HasTE); !variants[v] {
				variants[v] = true
				res.Hist = append(res.Hist, v)
			}
			if o.Closed == o.wantClosed() {
				continue
			}
			key := fmt.Sprintf("rs/object-closed-%d-times/%s", o.Closed, o.Kind)
			if o.Kind == "statlister" && o.Closed == 0 {
				key = "rs/stat-lister-not-closed"
			}
			res.Findings = append(res.Findings, ssFinding{Key: key, What: fmt.Sprintf("%s object #%d for %s (io.Closer: %v) was closed %d times by the time Serve returned", o.Kind, o.ID, o.Path, o.HasClose, o.Closed), Expected: fmt.Sprintf("closed == %d", o.wantClosed()), Actual: fmt.Sprintf("%+v", o)})
		}
	}
	s.readOnlyCheck(res)
	if g := ssWaitQuiet(ssDlQuiet()); len(g) > 0 {
		res.Findings = append(res.Findings, ssFinding{Key: k + "/goroutine-leak", What: fmt.Sprintf("package goroutines still alive %v after Serve returned", ssDlQuiet()) + ssDlNote(), Expected: "none", Actual: ssTrim(strings.Join(g, "\n\n"), 4000)})
		res.Exit, res.Slow = true, true
	}
	return extra
}

// ---------- reference run ----------

type ssRef struct {
	cfg     ssCfg
	prog    []ssStep
	Frames  [][]byte
	Replies []wire.Pkt
	Init    string
	States  []string // state after reply i
	Bad     bool
}

func ssRunRef(cfg ssCfg, prog []ssStep, root string) (*ssRef, ssResult) {
	var res ssResult
	ref := &ssRef{cfg: cfg, prog: prog}
	s, err := ssOpen(cfg, root)
	if err != nil {
		res.Findings = append(res.Findings, ssFinding{Key: "tie/server-start", What: err.Error()})
		ref.Bad = true
		return ref, res
	}
	ref.Init = s.state()
	handles := map[int]string{}
	eff := newSSEffect(s)
	for i, st := range prog {
		f := st.frame(i, cfg, s.tree, handles)
		q, why := ssParseReq(f[4], f[5:])
		if why != "" {
			res.Findings = append(res.Findings, ssFinding{Key: "tie/generator-frame-" + why, What: "the generator produced a frame its own judge rejects", Actual: hex.EncodeToString(f)})
			ref.Bad = true
			break
		}
		eff.before(q)
		s.srv.Send(f)
		rep, err := s.srv.Recv(ssDlHang())
		if err != nil {
			res.Findings = append(res.Findings, ssFinding{Key: fmt.Sprintf("%s/valid-request-unanswered/%s", cfg.Kind, q.Kind), What: "no reply to a valid request with the stream still open: " + err.Error(), Actual: fmt.Sprintf("step %d %+v", i, st)})
			ref.Bad = true
			res.Exit, res.Slow = err == errSSTimeout, err == errSSTimeout
			break
		}
		res.Findings = append(res.Findings, s.trk.observe(q, rep)...)
		res.Findings = append(res.Findings, eff.after(q, rep)...)
		if h, ok := ssHandleOf(rep); ok {
			handles[i] = h
		}
		ref.Frames = append(ref.Frames, f)
		ref.Replies = append(ref.Replies, rep)
		ref.States = append(ref.States, s.state())
		res.FrameLens = append(res.FrameLens, len(f))
		res.StrOffs = append(res.StrOffs, q.StrOffs)
		res.StrLens = append(res.StrLens, q.StrLens)
		res.Fields = append(res.Fields, q.Fields)
		res.Replies = append(res.Replies, ssReplyText(rep))
	}
	s.srv.CloseInput()
	if extra := s.finish(&res); len(extra) > 0 {
		res.Findings = append(res.Findings, ssFinding{Key: cfg.Kind + "/extra-response/clean", What: "responses nobody asked for at the end of a valid session", Actual: ssReplyText(extra[0])})
	}
	res.Hist = append(res.Hist, eff.hist...)
	return ref, res
}

// ---------- C07: one mutated stream ----------

func ssRunC07(ref *ssRef, m ssMut, root string) ssResult {
	var res ssResult
	cfg := ref.cfg
	k := cfg.Kind
	stream := m.apply(ref.Frames)
	j := ssJudge(stream)
	res.EndClass = j.End
	pipe := m.Pipe || m.Tr == "buf" // the whole stream at once
	// nInter: the requests sent one at a time, each reply read — all of them, none in a pipelined case, the first
	// m.Stage in a STAGED pipeline (ssMut.Stage), whose rest goes out in one write
	nInter := len(j.Reqs)
	if pipe {
		nInter = 0
		if m.Stage > 0 && m.Tr != "buf" {
			nInter = min(m.Stage, len(j.Reqs))
		}
	}
	staged := pipe && nInter > 0
	trName := m.Tr
	if trName == "" {
		trName = "conn"
	}
	res.Hist = append(res.Hist, "transport/"+trName)
	// A: frames identical to the reference, in place; B: the well-formed rest
	nA, off := 0, 0
	for nA < len(j.Reqs) && nA < len(ref.Frames) && j.Reqs[nA].Off == off && bytes.Equal(stream[off:off+j.Reqs[nA].Len], ref.Frames[nA]) {
		off += len(ref.Frames[nA])
		nA++
	}
	res.NA, res.NB = nA, len(j.Reqs)-nA
	hard := j.End == "badlen" || j.End == "unknown-type" || j.End == "short-body"
	// what the stream holds BEHIND the malformed packet (the packet: the bad length word, resp. the whole frame
	// whose body does not decode): none of it may be acted upon, on whatever transport
	malEnd := len(stream)
	switch j.End {
	case "badlen":
		malEnd = j.EndOff + 4
	case "unknown-type", "short-body":
		malEnd = j.EndOff + 4 + int(binary.BigEndian.Uint32(stream[j.EndOff:]))
	}
	if hard {
		behind := "nothing"
		if malEnd < len(stream) {
			behind = "bytes-that-are-no-request"
			if bj := ssJudge(stream[malEnd:]); len(bj.Reqs) > 0 {
				behind = "well-formed-requests"
				for _, q := range bj.Reqs {
					if !ssHarmless[q.Kind] {
						behind = "well-formed-requests-that-modify"
						break
					}
				}
			}
		}
		res.Hist = append(res.Hist, "behind-the-malformed-packet/"+trName+"/"+j.End+"/"+behind)
	}
	if p, esc := ssEscapes(cfg, root, filepath.Join(root, "t"), stream, j.Reqs); esc {
		// containment: the mutation made a request name a path outside the scratch directory
		res.Hist = append(res.Hist, lib.NotRunBucket)
		res.EndClass = "not-run"
		_ = p
		return res
	}
	// the key for symptoms of "acted on / answered the malformed packet"
	malKey := func(symptom string) string {
		if k == "os" && j.End == "short-body" {
			return "os/makepacket-error-dispatched" // F3
		}
		return fmt.Sprintf("%s/%s/%s", k, symptom, j.End)
	}
	var feed []byte
	if m.Tr == "buf" {
		feed = stream
	}
	s, err := ssOpenTr(cfg, root, m.Tr, feed)
	if err != nil {
		res.Findings = append(res.Findings, ssFinding{Key: "tie/server-start", What: err.Error()})
		return res
	}
	send := func(b []byte) {
		if m.Tr != "buf" { // (the "buf" transport holds the whole stream already)
			s.srv.Send(b)
		}
	}
	answered := 0
	// "pure": every request so far that differs from the reference run is of a kind that changes
	// nothing (READ, STAT …), whatever its field values — so the recorded requests that follow it
	// must be answered exactly as in the reference run.
	pure := true
	maxData := uint32(32768)
	if cfg.MaxTx != 0 {
		maxData = cfg.MaxTx
	}
	check := func(i int, q ssReq, rep wire.Pkt, before string) {
		f := s.trk.observe(q, rep)
		if i < nA {
			if why := ssSameReply(ref.Replies[i], rep); why != "" {
				res.Findings = append(res.Findings, ssFinding{Key: k + "/reply-differs-from-reference/" + q.Kind, What: "reply to an unmutated request differs from the reference run: " + why, Expected: ssReplyText(ref.Replies[i]), Actual: ssReplyText(rep)})
			}
			return // legality of reference replies is reported by the reference run
		}
		res.Findings = append(res.Findings, f...)
		if q.Soft && before != "" && before != s.state() {
			key := k + "/short-attrs-dispatched"
			res.Findings = append(res.Findings, ssFinding{Key: key, What: q.Kind + " with an attribute block shorter than its flags promise was acted upon", Expected: before, Actual: s.state()})
		}
		if q.Kind == "read" && rep.Typ == wire.Data && len(rep.Body) >= 8 {
			n := binary.BigEndian.Uint32(rep.Body[4:])
			lim := min(q.RdLen, maxData)
			if n > lim || int(n) != len(rep.Body)-8 {
				res.Findings = append(res.Findings, ssFinding{Key: k + "/read-reply-longer-than-asked", What: fmt.Sprintf("READ asking for %d bytes (max-tx-packet %d) answered with DATA of %d bytes (payload present: %d)", q.RdLen, maxData, n, len(rep.Body)-8), Expected: fmt.Sprintf("at most %d", lim), Actual: ssReplyText(rep)})
			}
		}
		same := i < len(ref.Frames) && bytes.Equal(stream[q.Off:q.Off+q.Len], ref.Frames[i])
		switch {
		case same && pure:
			if why := ssSameReply(ref.Replies[i], rep); why != "" {
				res.Findings = append(res.Findings, ssFinding{Key: k + "/reply-differs-after-harmless-request/" + q.Kind, What: "only requests that change nothing (READ, STAT …) were altered, yet the reply to a later, unaltered request differs from the reference run: " + why, Expected: ssReplyText(ref.Replies[i]), Actual: ssReplyText(rep)})
			}
		case !same:
			// a harmless request in place of a harmless one keeps the two runs in the same state
			refHarmless := false
			if i < len(ref.Frames) {
				rq, why := ssParseReq(ref.Frames[i][4], ref.Frames[i][5:])
				refHarmless = why == "" && ssHarmless[rq.Kind]
			}
			if !ssHarmless[q.Kind] || !refHarmless {
				pure = false
			}
		}
	}
	dead := false
	var stateDiff *ssFinding // the state oracle's finding (reported at the end, after its diagnosis)
	var stateWant string
	eff := newSSEffect(s)
	var got []wire.Pkt // the replies, in order (sequential mode)
	{
		for i, q := range j.Reqs[:nInter] {
			before := ""
			if q.Soft {
				before = s.state()
			}
			eff.before(q)
			s.srv.Send(stream[q.Off : q.Off+q.Len])
			rep, err := s.srv.Recv(ssDlHang())
			if err != nil {
				res.Findings = append(res.Findings, ssFinding{Key: fmt.Sprintf("%s/well-formed-unanswered/%s", k, q.Kind), What: "no reply to a well-formed request with the stream still open: " + err.Error(), Actual: hex.EncodeToString(stream[q.Off : q.Off+q.Len])})
				res.Exit, res.Slow = err == errSSTimeout, err == errSSTimeout
				dead = true
				break
			}
			answered++
			got = append(got, rep)
			check(i, q, rep, before)
			res.Findings = append(res.Findings, eff.after(q, rep)...)
		}
	}
	rest := stream[j.EndOff:]
	if pipe && nInter < len(j.Reqs) {
		rest = stream[j.Reqs[nInter].Off:] // (nInter == 0: the whole stream)
	}
	// sendRest writes the pipelined part.  With Hold / Stall the handler objects are held resp. the server's output
	// is left unread from just before the write until the server hung up (a stream with a malformed packet; a
	// server that read the packet and did not hang up within the grace time is waited for no longer: it may
	// finish what it has queued first) or took the whole write (any other stream), or the bound passed: the
	// requests in front of the malformed packet are still queued or running when it arrives.
	sendRest := func() {
		hold, stall := m.Hold && s.fs != nil, m.Stall
		if !staged || !(hold || stall) {
			send(rest)
			return
		}
		if hold {
			s.fs.Hold()
		}
		if stall {
			s.srv.Stall()
		}
		sent := make(chan struct{})
		go func() { s.srv.Send(rest); close(sent) }()
		bound := time.After(ssDl(500*time.Millisecond, 100*time.Millisecond))
		sentC := (<-chan struct{})(sent)
		var malRead, grace <-chan struct{}
		if hard {
			sentC = nil
			malRead = s.srv.TakenAt(int64(malEnd))
		}
	wait:
		for {
			select {
			case <-s.srv.hung:
				res.Hist = append(res.Hist, "pipeline/held-until/the-server-hung-up")
				break wait
			case <-malRead:
				malRead = nil
				g := make(chan struct{})
				// (with the output left unread the server cannot hang up at all while a write of its own is stuck:
				// what matters then is only that its queues were full when the packet came)
				d := ssDl(100*time.Millisecond, 30*time.Millisecond)
				if !hold {
					d = 10 * time.Millisecond
				}
				time.AfterFunc(d, func() { close(g) })
				grace = g
			case <-grace:
				res.Hist = append(res.Hist, "pipeline/held-until/the-server-had-read-the-malformed-packet-and-not-hung-up/"+j.End)
				break wait
			case <-sentC:
				res.Hist = append(res.Hist, "pipeline/held-until/the-server-took-the-whole-write")
				break wait
			case <-s.srv.done:
				res.Hist = append(res.Hist, "pipeline/held-until/serve-returned")
				break wait
			case <-bound:
				res.Hist = append(res.Hist, "pipeline/held-until/the-bound(pipeline-deeper-than-the-server-takes-while-held)")
				break wait
			}
		}
		s.srv.Resume()
		if hold {
			s.fs.Release()
		}
		<-sent // (Send has its own deadline)
	}
	switch {
	case dead:
		s.srv.CloseInput()
	case !hard:
		sendRest()
		s.srv.CloseInput()
	default:
		sendRest()
		// the server must stop on its own after a malformed packet.  A healthy server does so within
		// milliseconds; when the short deadline expires the case waits on (stream still open) up to the
		// hang deadline before it is judged, so that a starved machine is not mistaken for a server
		// that keeps serving.
		stopped := s.srv.Wait(ssDlStop())
		if !stopped && !ssFast {
			if stopped = s.srv.Wait(ssDlHang() - ssDlStop()); stopped {
				res.Hist = append(res.Hist, "load/stopped-after-malformed-later-than-"+ssDlStop().String())
			}
		}
		if !stopped {
			res.Findings = append(res.Findings, ssFinding{Key: malKey("keeps-serving-after-malformed"), What: fmt.Sprintf("Serve did not return within %v after a malformed packet (stream still open)", ssDl(ssDlHang(), ssDlStop())) + ssDlNote()})
			res.Slow = true
		}
		s.srv.CloseInput()
	}
	extra := s.finish(&res)
	if res.Exit {
		return res
	}
	if pipe {
		// accept any prefix (F5), never a wrong, reordered, duplicated or surplus response
		rem := j.Reqs[nInter:]
		if len(extra) > len(rem) {
			res.Findings = append(res.Findings, ssFinding{Key: malKey("extra-response"), What: "more responses than well-formed requests", Expected: fmt.Sprint(len(rem)), Actual: fmt.Sprint(len(extra))})
			extra = extra[:len(rem)]
		}
		for i, rep := range extra {
			check(nInter+i, rem[i], rep, "")
		}
		if staged && !dead {
			// how many of the pipelined requests were still unanswered when the output ended (they were queued or
			// running when the server hung up resp. the stream ended)
			res.Hist = append(res.Hist, fmt.Sprintf("pipeline/%s/pipelined-requests-left-unanswered/%d", j.End, ssBucket(len(rem)-len(extra))))
		}
		if !dead {
			answered = len(j.Reqs) // all received frames are processed before Serve returns
		}
	} else if len(extra) > 0 && !dead {
		res.Findings = append(res.Findings, ssFinding{Key: malKey("extra-response"), What: "a response was emitted that answers no well-formed request (reply to the malformed tail)", Expected: "nothing after the last well-formed request's reply", Actual: ssReplyText(extra[0])})
	}
	res.Hist = append(res.Hist, eff.hist...)
	// state: exactly as if the stream had stopped just before the malformed packet
	if res.NB == 0 && !dead && answered == nA && !cfg.InMem {
		want := ref.Init
		if nA > 0 {
			want = ref.States[nA-1]
		}
		// (a staged pipeline runs READs and WRITEs on several workers: the order of their handler calls in the
		// log is the schedule's — ssPipeCanon)
		canon := func(st string) string {
			if staged && k == "rs" {
				return ssPipeCanon(st)
			}
			return st
		}
		want = canon(want)
		if got := canon(s.state()); got != want {
			stateDiff = &ssFinding{Key: malKey("state-changed-by-malformed"), What: fmt.Sprintf("after the run the served files / handler log differ from the reference run cut before the malformed packet (stream end class %q, transport %s)", j.End, trName),
				Expected: ssDiffText(want, got, "-"), Actual: ssDiffText(got, want, "+")}
			stateWant = want
		}
	}
	// effect of frames that carry bytes after the last field of their request: those bytes mean nothing —
	// the stream re-encoded without them must be answered the same and leave the same files / handler log
	if canon, changed, first := ssCanonical(stream, j.Reqs); changed && !pipe && !dead && !cfg.InMem && len(got) == len(j.Reqs) {
		res.Hist = append(res.Hist, "trailing-bytes-in-dispatched-frame/"+first)
		var reps []wire.Pkt
		var final, cstate string
		ok := false
		sameAsRef := len(canon) <= len(ref.Frames)
		for i := 0; sameAsRef && i < len(canon); i++ {
			sameAsRef = bytes.Equal(canon[i], ref.Frames[i])
		}
		switch {
		case sameAsRef && len(canon) > 0:
			// without those bytes the stream IS the recorded one: the reference run is the second run
			res.Hist = append(res.Hist, "trailing-bytes/compared-with/the-reference-run")
			reps, cstate, final, ok = ref.Replies[:len(canon)], ref.States[len(canon)-1], s.state(), true
		case m.Kind == "type" && (m.Frame+int(m.Val))%3 != 0 && !ssThoroughRun:
			// a replaced type byte mostly leaves a request of fewer fields and what was the rest of the old one
			// after it: the same bytes-after-the-last-field situation the "tail" mutation puts every request
			// kind into (and compares with the reference run for free) — quick: every third of them is re-run
			res.Hist = append(res.Hist, "trailing-bytes/compared-with/nothing(type-byte-mutation,sampled-out)")
		default:
			res.Hist = append(res.Hist, "trailing-bytes/compared-with/a-second-run-of-the-re-encoded-stream")
			final = s.effState() // (before the second run re-creates the tree)
			reps, cstate, ok = ssRunCanon(cfg, root, m.Tr, canon, rest, &res)
		}
		if ok {
			for i, rep := range reps {
				if why := ssSameReply(rep, got[i]); why != "" {
					q := j.Reqs[i]
					res.Findings = append(res.Findings, ssFinding{Key: k + "/trailing-bytes-change-reply/" + q.Kind, What: fmt.Sprintf("request %d (%s) is answered differently in the stream as sent than in the same stream with the bytes after the last field of every request (here %d after a %s) removed: %s", i, q.Kind, j.Reqs[ssFirstSlack(j.Reqs)].Slack, first, why),
						Expected: ssReplyText(rep), Actual: ssReplyText(got[i])})
					break
				}
			}
			if a, b := ssEffectState(final), ssEffectState(cstate); a != b {
				res.Findings = append(res.Findings, ssFinding{Key: k + "/trailing-bytes-change-effect/" + first, What: fmt.Sprintf("bytes that follow the last field of a %s request inside its frame (%d of them) changed what the session did: the served files / handler log differ from those of the same stream without them", first, j.Reqs[ssFirstSlack(j.Reqs)].Slack),
					Expected: ssDiffText(b, a, "-"), Actual: ssDiffText(a, b, "+")})
			}
		}
	}
	if stateDiff != nil {
		// WHAT was acted upon — the malformed packet itself, or what the stream holds behind it?  The same
		// stream cut right behind the malformed packet is run on a fresh server (same transport): when that
		// leaves the expected state, the packet was refused all right and the server went on to execute
		// what followed it.
		if hard && malEnd < len(stream) && !res.Exit {
			if st, ok := ssRunCutBehind(cfg, root, m.Tr, pipe, nInter, stream[:malEnd], j, &res); ok && (st == stateWant || (staged && k == "rs" && ssPipeCanon(st) == stateWant)) {
				stateDiff.Key = fmt.Sprintf("%s/requests-behind-malformed-executed/%s", k, j.End)
				stateDiff.What = fmt.Sprintf("the server went on serving behind a malformed packet (stream end class %q, transport %s): the same stream cut right behind that packet leaves the served files / handler log as the reference run cut before it does, the whole stream does not — the %d bytes that follow the packet were acted upon", j.End, trName, len(stream)-malEnd)
			}
		}
		res.Findings = append(res.Findings, *stateDiff)
	}
	return res
}

// ssRunCutBehind runs cut — a judged stream that ends with its malformed packet — on a fresh server of the
// same configuration and transport (the well-formed requests one at a time, each reply read, then the
// malformed packet; pipe: all at once), ends the input and returns the state Serve left.
func ssRunCutBehind(cfg ssCfg, root, tr string, pipe bool, stage int, cut []byte, j ssJudged, res *ssResult) (string, bool) {
	var feed []byte
	if tr == "buf" {
		feed = cut
	}
	s, err := ssOpenTr(cfg, root, tr, feed)
	if err != nil {
		res.Findings = append(res.Findings, ssFinding{Key: "tie/server-start", What: err.Error()})
		return "", false
	}
	switch {
	case tr == "buf":
	case pipe && stage <= 0:
		s.srv.Send(cut)
	default:
		n := len(j.Reqs) // (a staged pipeline: the first stage requests one at a time, the rest at once)
		if pipe {
			n = min(stage, n)
		}
		for _, q := range j.Reqs[:n] {
			s.srv.Send(cut[q.Off : q.Off+q.Len])
			if _, err := s.srv.Recv(ssDlHang()); err != nil {
				res.Exit, res.Slow = err == errSSTimeout, err == errSSTimeout
				s.srv.CloseInput()
				return "", false
			}
		}
		if n < len(j.Reqs) {
			s.srv.Send(cut[j.Reqs[n].Off:])
		} else {
			s.srv.Send(cut[j.EndOff:])
		}
	}
	s.srv.CloseInput()
	var tmp ssResult
	s.finish(&tmp) // the release oracles of this run are those of the cut stream's own case
	if tmp.Exit {
		res.Exit, res.Slow = true, true
		return "", false
	}
	return s.state(), true
}

// ssPipeCanon: the state text of a request-server session (handler call log, "--", tree dump) with the ReadAt /
// WriteAt lines of the log moved behind the others and sorted.  READs and WRITEs of a pipeline run on several
// workers, next to the one worker that runs everything else in order: which of their handler calls is logged
// first is the schedule's choice, not the server's.
func ssPipeCanon(st string) string {
	log, dump, ok := strings.Cut(st, "\n--\n")
	if !ok {
		return st
	}
	var cmd, rw []string
	for _, l := range strings.Split(log, "\n") {
		if strings.HasPrefix(l, "ReadAt #") || strings.HasPrefix(l, "WriteAt #") {
			rw = append(rw, l)
		} else {
			cmd = append(cmd, l)
		}
	}
	sort.Strings(rw)
	return strings.Join(append(cmd, rw...), "\n") + "\n--\n" + dump
}

func ssFirstSlack(reqs []ssReq) int {
	for i, q := range reqs {
		if q.Slack > 0 {
			return i
		}
	}
	return 0
}

// request kinds that change neither the served files nor the handle table, whatever their fields say
var ssHarmless = map[string]bool{"read": true, "stat": true, "lstat": true, "fstat": true, "readlink": true, "realpath": true, "ext:statvfs@openssh.com": true, "ext-unknown": true}

// ssDiffText returns the lines of a that are not in b.
func ssDiffText(a, b, mark string) string {
	in := map[string]bool{}
	for _, l := range strings.Split(b, "\n") {
		in[l] = true
	}
	var out []string
	for _, l := range strings.Split(a, "\n") {
		if !in[l] {
			out = append(out, mark+l)
		}
	}
	if len(out) > 12 {
		out = append(out[:12], "…")
	}
	return strings.Join(out, "\n")
}

// ---------- C11: one session cut at one point ----------

func ssRunC11(cfg ssCfg, prog []ssStep, end ssEnd, root string) ssResult {
	var res ssResult
	k := cfg.Kind
	s, err := ssOpen(cfg, root)
	if err != nil {
		res.Findings = append(res.Findings, ssFinding{Key: "tie/server-start", What: err.Error()})
		return res
	}
	add := func(f ssFinding) { res.Findings = append(res.Findings, f) }
	mrec := newSSMRec(s)
	handles := map[int]string{}
	objHandle := map[int]string{} // rs: object id -> handle
	closeSent := map[string]bool{}
	last := end.After
	if last >= len(prog) {
		last = len(prog) - 1
	}
	sig := func() string {
		if k == "os" {
			return s.state() + "\nfds: " + strings.Join(ssFDs(s.root), " ")
		}
		var sb strings.Builder
		sb.WriteString(s.state())
		for _, o := range s.fs.objStates() {
			fmt.Fprintf(&sb, "\nobject %+v", o)
		}
		return sb.String()
	}
	dead := false
	var bad []byte // end.Mode badpkt: the undecodable packet
	var badQ ssReq // … as the judge reads it (soft packets only)
	var badErr error
	badSent := false
	for i := 0; i <= last; i++ {
		fs := prog[i].frames(i, cfg, s.tree, handles)
		q, why := ssParseReq(fs[0][4], fs[0][5:])
		if why != "" {
			add(ssFinding{Key: "tie/generator-frame-" + why, What: "the generator produced a frame its own judge rejects"})
			break
		}
		noreply := end.unread() && i == last
		stale := s.trk.stale(q)
		if stale {
			res.Hist = append(res.Hist, "stale/"+q.Kind)
		}
		if len(fs) > 1 {
			res.Hist = append(res.Hist, fmt.Sprintf("pipelined-burst/%s/stale=%v", q.Kind, stale))
		}
		before, nobj := "", 0
		if stale && !noreply {
			before = sig()
		}
		if k == "rs" {
			nobj = len(s.fs.objStates())
		}
		hkind, hlive := s.trk.live[q.Handle]
		hlive = hlive && q.HasHandle
		msnap := mrec.snap()
		out := bytes.Join(fs, nil) // a burst goes out in one write: pipelined
		if noreply && end.Mode == "badpkt" {
			// the undecodable packet travels with the last request (which may be a CLOSE: the packet then names
			// a handle that is being closed — it is not to be dispatched either way)
			bad, badQ, badErr = ssBadFor(&end, cfg, s)
			out = append(out, bad...)
			badSent = true
		}
		s.srv.Send(out)
		if q.Kind == "close" {
			closeSent[q.Handle] = true
		}
		if noreply {
			mrec.defer_(i, q, hkind, hlive, len(fs), msnap)
			break
		}
		var rep wire.Pkt
		var reps []wire.Pkt
		for n := range fs {
			qn := q
			if len(fs) > 1 {
				qn.ID = ssBurstID(i, n)
			}
			var err error
			rep, err = s.srv.Recv(ssDlHang())
			if err != nil {
				add(ssFinding{Key: fmt.Sprintf("%s/valid-request-unanswered/%s", k, q.Kind), What: "no reply to a valid request with the stream still open: " + err.Error(), Actual: fmt.Sprintf("step %d %+v (reply %d of %d)", i, prog[i], n+1, len(fs))})
				res.Exit, res.Slow = err == errSSTimeout, err == errSSTimeout
				dead = true
				break
			}
			res.Findings = append(res.Findings, s.trk.observe(qn, rep)...)
			reps = append(reps, rep)
		}
		if dead {
			break
		}
		mrec.record(i, q, hkind, hlive, reps, msnap, false)
		if stale {
			if after := sig(); after != before {
				add(ssFinding{Key: fmt.Sprintf("%s/stale-handle-acted/%s", k, q.Kind), What: fmt.Sprintf("%s naming the never-issued or closed handle %q touched files or handlers", q.Kind, q.Handle), Expected: ssDiffText(before, after, "-"), Actual: ssDiffText(after, before, "+")})
			}
		}
		if h, ok := ssHandleOf(rep); ok {
			handles[i] = h
			if k == "rs" {
				for _, o := range s.fs.objStates()[nobj:] {
					objHandle[o.ID] = h
				}
			}
		}
		// per-step invariants: one resource per live handle; contexts follow their handle
		if k == "os" {
			if fds := ssFDs(s.root); len(fds) != len(s.trk.live) {
				add(ssFinding{Key: "os/fd-count-mismatch", What: fmt.Sprintf("after step %d (%s) the number of descriptors into the tree differs from the number of live handles", i, q.Kind), Expected: fmt.Sprint(len(s.trk.live)), Actual: strings.Join(fds, " ")})
			}
		} else {
			for _, o := range s.fs.objStates() {
				if o.Kind == "statlister" {
					continue
				}
				h, mapped := objHandle[o.ID]
				_, live := s.trk.live[h]
				switch {
				case !mapped:
					add(ssFinding{Key: "rs/object-without-handle", What: fmt.Sprintf("handler object #%d (%s %s) exists but no HANDLE was issued for it", o.ID, o.Kind, o.Path)})
				case live && (o.Closed != 0 || o.CtxDone):
					add(ssFinding{Key: "rs/live-handle-object-dead", What: fmt.Sprintf("handle %q is open but its %s object is closed=%d ctx-cancelled=%v", h, o.Kind, o.Closed, o.CtxDone), Expected: "closed=0, context alive"})
				case !live && o.Closed != o.wantClosed():
					add(ssFinding{Key: fmt.Sprintf("rs/close-did-not-close-once/%s", o.Kind), What: fmt.Sprintf("handle %q was closed but its %s object (io.Closer: %v) has closed=%d", h, o.Kind, o.HasClose, o.Closed), Expected: fmt.Sprintf("closed=%d", o.wantClosed())})
				case !live && !o.CtxDone:
					add(ssFinding{Key: "rs/context-not-cancelled-on-close", What: fmt.Sprintf("handle %q was closed but the context given to its %s handler is still alive", h, o.Kind)})
				case !live && o.TE != 0:
					add(ssFinding{Key: "rs/transfer-error-on-clean-close", What: fmt.Sprintf("handle %q was closed by the client but its object received TransferError", h)})
				}
			}
		}
	}
	// how the connection ends
	if !dead && !end.unread() {
		mrec.samplePre()
	}
	if !dead && (end.Mode == "mid" || end.Mode == "breakmid") {
		nf := wire.Req(wire.Close, 9999, wire.B{}.Str("1"))
		if last+1 < len(prog) {
			nf = prog[last+1].frame(last+1, cfg, s.tree, handles)
		}
		n := end.MidOff
		if n < 1 {
			n = 1
		}
		if n >= len(nf) {
			n = len(nf) - 1
		}
		s.srv.Send(nf[:n])
	}
	if !dead && end.Mode == "badpkt" {
		if !badSent {
			bad, badQ, badErr = ssBadFor(&end, cfg, s)
			if badErr == nil {
				s.srv.Send(bad)
			}
		}
		switch {
		case badErr != nil:
			add(ssFinding{Key: "tie/generator-undecodable-packet", What: badErr.Error()})
		case end.soft && !end.Unread:
			// a complete request that must be refused: answered, then EOF
			rep, err := s.srv.Recv(ssDlHang())
			if err != nil {
				add(ssFinding{Key: fmt.Sprintf("%s/valid-request-unanswered/%s", k, badQ.Kind), What: "no reply to a request that is to be refused (attribute block shorter than its flags) with the stream still open: " + err.Error(), Actual: hex.EncodeToString(bad)})
				res.Exit, res.Slow = err == errSSTimeout, err == errSSTimeout
				dead = true
			} else {
				res.Findings = append(res.Findings, s.trk.observe(badQ, rep)...)
			}
		case !end.soft:
			// the server has to stop on its own; whether it does is C07's subject — here the stream is closed
			// once the stop deadline has passed, and everything open must be released all the same
			if !s.srv.Wait(ssDlStop()) {
				res.Hist = append(res.Hist, "badpkt/server-did-not-stop-by-itself-within-"+ssDlStop().String())
				res.Slow = true
			}
		}
		res.Hist = append(res.Hist, "badpkt/request/"+end.Bad, "badpkt/defect/"+ssBadDefectClass(end.Defect), fmt.Sprintf("badpkt/live-handles/%d", ssBucket(len(s.trk.live))),
			fmt.Sprintf("badpkt/refusable=%v/unread=%v", end.soft, end.Unread))
	}
	if end.Mode == "break" || end.Mode == "breakmid" {
		s.srv.Break()
	} else {
		s.srv.CloseInput()
	}
	nlive := len(s.trk.live)
	extra := s.finish(&res)
	if res.Exit || dead {
		return res
	}
	res.Model = mrec.finish(end, extra)
	res.Hist = append(res.Hist, fmt.Sprintf("live-at-end/%d", ssBucket(nlive)), fmt.Sprintf("issued/%d", ssBucket(len(s.trk.order))))
	if k == "os" {
		// every file the server opened (seen through the counting wrapper put around it when its HANDLE
		// reply arrived) has been closed exactly once — by its CLOSE or by the end-of-Serve sweep
		for idx, f := range mrec.files {
			if f == nil {
				continue
			}
			if n := int(f.closed.Load()); n != 1 {
				h := ""
				if idx < len(mrec.t.Issued) {
					h = mrec.t.Issued[idx]
				}
				add(ssFinding{Key: fmt.Sprintf("os/file-closed-%d-times", min(n, 2)), What: fmt.Sprintf("the file behind handle %q (%s) was closed %d times by the time Serve returned", h, f.f.Name(), n), Expected: "closed == 1", Actual: fmt.Sprint(n)})
			}
		}
		if cfg.Debug && s.srv.dbg != nil {
			ssDebugCheck(s, end, closeSent, &res)
		}
	}
	if k == "rs" && !cfg.InMem {
		for _, o := range s.fs.objStates() {
			if o.Kind == "statlister" {
				continue // reported by finish
			}
			h, mapped := objHandle[o.ID]
			_, live := s.trk.live[h]
			openAtEnd := !mapped || (live && !closeSent[h]) // an unmapped object belongs to the unanswered last OPEN
			wantTE := 0
			if openAtEnd && o.HasTE && o.Kind != "lister" { // a ListerAt is never told (its variants have the method, to see it)
				wantTE = 1
			}
			if openAtEnd {
				res.Hist = append(res.Hist, fmt.Sprintf("open-at-end/%s/closer=%v/transfer-error=%v", o.Kind, o.HasClose, o.HasTE))
			}
			if o.TE != wantTE {
				add(ssFinding{Key: fmt.Sprintf("rs/transfer-error-count/%s", o.Kind), What: fmt.Sprintf("%s object #%d (handle %q, open at the end of the session: %v, has TransferError: %v) received TransferError %d times", o.Kind, o.ID, h, openAtEnd, o.HasTE, o.TE), Expected: fmt.Sprint(wantTE), Actual: fmt.Sprint(o.TE)})
			}
			if o.TEAfterClose {
				add(ssFinding{Key: "rs/transfer-error-after-close", What: fmt.Sprintf("%s object #%d received TransferError after Close", o.Kind, o.ID)})
			}
			if !o.CtxDone {
				add(ssFinding{Key: "rs/context-not-cancelled-at-end", What: fmt.Sprintf("the context given to the handler of %s object #%d (handle %q) is still alive after Serve returned", o.Kind, o.ID, h)})
			}
		}
	}
	return res
}

// ssDebugCheck: WithDebug(w) — the end-of-Serve sweep names every handle it finds still open, once;
// a handle whose CLOSE was answered is not among them.  When every reply of the session was read the
// harness knows the set of open handles exactly and the report must be that set.
func ssDebugCheck(s *ssSess, end ssEnd, closeSent map[string]bool, res *ssResult) {
	hs, unread := ssDbgLeftOpen(s.srv.dbg.lines())
	res.Hist = append(res.Hist, fmt.Sprintf("debug/left-open-lines/%d", ssBucket(len(hs))))
	if len(unread) > 0 {
		res.Hist = append(res.Hist, "debug/other-lines")
	}
	add := func(key, what, exp, act string) {
		res.Findings = append(res.Findings, ssFinding{Key: key, What: what, Expected: exp, Actual: act})
	}
	seen := map[string]bool{}
	for _, h := range hs {
		_, live := s.trk.live[h]
		switch {
		case seen[h]:
			add("os/debug-left-open-twice", fmt.Sprintf("the end-of-Serve sweep reported handle %q twice", h), "once", strings.Join(hs, " "))
		case s.trk.issued[h] && !live:
			add("os/closed-handle-swept", fmt.Sprintf("handle %q was closed by an answered CLOSE, yet the end-of-Serve sweep found it in the table", h), "not reported", strings.Join(hs, " "))
		case !s.trk.issued[h] && !end.unread():
			add("os/debug-unknown-handle", fmt.Sprintf("the end-of-Serve sweep reported handle %q, which no HANDLE reply ever carried", h), "only issued handles", strings.Join(hs, " "))
		}
		seen[h] = true
	}
	if end.unread() {
		return // the last request was not answered before the end: the set of open handles is not known exactly
	}
	var missing []string
	for h := range s.trk.live {
		if !seen[h] && !closeSent[h] {
			missing = append(missing, h)
		}
	}
	if len(missing) > 0 {
		sort.Strings(missing)
		add("os/debug-left-open-missing", "handles that were open when the connection ended are not reported by the end-of-Serve sweep", strings.Join(missing, " "), strings.Join(hs, " "))
	}
}

// ssBadFor renders the undecodable packet of end for the session as it stands (the handle it names is
// chosen among the handles that are live now) and records in end whether it is a refusable one.
func ssBadFor(end *ssEnd, cfg ssCfg, s *ssSess) (f []byte, q ssReq, err error) {
	f, soft, err := ssBadFrame(end.Bad, end.Defect, ssBadHandle(strings.TrimPrefix(end.Bad, "ext:"), s.trk), cfg, s.tree)
	if err != nil {
		return nil, q, err
	}
	end.soft = soft
	if soft {
		q, _ = ssParseReq(f[4], f[5:])
	}
	return f, q, nil
}

// ssBadDefectClass drops the field name: cut | in | over | huge | type-only | attrs-short | id-only …
func ssBadDefectClass(d string) string {
	c, _, _ := strings.Cut(d, ":")
	return c
}

func ssBucket(n int) int {
	switch {
	case n <= 2:
		return n
	case n <= 4:
		return 4
	case n <= 8:
		return 8
	case n <= 16:
		return 16
	case n <= 32:
		return 32
	}
	return 64
}

// ---------- child loop ----------

type ssKnown struct {
	cfg  ssCfg
	prog []ssStep
	ref  *ssRef
}

// vh child ss <root> [linger]
func ssChildMain(args []string) {
	if len(args) < 1 {
		os.Exit(2)
	}
	root := args[0]
	// the root is handed over by the parent: it must lie in a scratch directory (the parent's are known to
	// this process, lib.InitContainment), and relative paths of mutated frames land in <root>/cwd
	if ok, why := lib.InScratch("", root); !ok || !filepath.IsAbs(root) {
		fmt.Fprintln(os.Stderr, "ss child: root is not a scratch directory:", why)
		os.Exit(2)
	}
	os.MkdirAll(filepath.Join(root, "cwd"), 0o755)
	if err := os.Chdir(filepath.Join(root, "cwd")); err != nil {
		fmt.Fprintln(os.Stderr, "ss child:", err)
		os.Exit(2)
	}
	linger := len(args) > 1 && args[1] == "linger"
	in := bufio.NewReaderSize(os.Stdin, 1<<20)
	out := bufio.NewWriter(os.Stdout)
	known := map[string]*ssKnown{}
	for {
		line, err := in.ReadBytes('\n')
		if len(bytes.TrimSpace(line)) > 0 {
			var job ssJob
			if e := json.Unmarshal(line, &job); e != nil {
				fmt.Fprintln(os.Stderr, "ss child: bad job:", e)
				os.Exit(2)
			}
			t0 := time.Now()
			res := ssDoJob(&job, root, known)
			if res.Slow { // a liveness deadline expired in this case: charge what the case cost to the run's hang budget
				lib.SpendHang(job.Cl, time.Since(t0))
			}
			b, _ := json.Marshal(res)
			out.Write(b)
			out.WriteByte('\n')
			out.Flush()
			if res.Exit {
				os.Exit(3)
			}
		}
		if err != nil {
			break
		}
	}
	if linger {
		time.Sleep(300 * time.Millisecond) // a delayed panic of a left-over goroutine still kills us
	}
}

func ssDoJob(job *ssJob, root string, known map[string]*ssKnown) ssResult {
	// reduced deadlines: the parent's own rule (ssSlowBudget), or the run's hang budget is used up / its soft deadline passed
	ssFast = job.Fast || lib.HangExhausted() || lib.Expired()
	ssThoroughRun = job.Full
	kn := known[job.PID]
	if kn == nil {
		if job.Cfg == nil {
			return ssResult{Findings: []ssFinding{{Key: "tie/unknown-program", What: "child does not know program " + job.PID}}}
		}
		kn = &ssKnown{cfg: *job.Cfg, prog: job.Prog}
		known[job.PID] = kn
	}
	switch job.Kind {
	case "ref":
		ref, res := ssRunRef(kn.cfg, kn.prog, root)
		kn.ref = ref
		return res
	case "c07":
		if kn.ref == nil {
			ref, res := ssRunRef(kn.cfg, kn.prog, root)
			if res.Exit {
				return res
			}
			kn.ref = ref
		}
		if kn.ref.Bad {
			return ssResult{Findings: []ssFinding{{Key: "tie/reference-incomplete", What: "the reference run of this session did not complete"}}}
		}
		return ssRunC07(kn.ref, *job.Mut, root)
	case "c11":
		return ssRunC11(kn.cfg, kn.prog, *job.End, root)
	}
	return ssResult{Findings: []ssFinding{{Key: "tie/unknown-job", What: job.Kind}}}
}

// ---------- parent: pool of children ----------

type ssProc struct {
	cmd    *exec.Cmd
	in     io.WriteCloser
	out    *bufio.Reader
	stderr *ssTail
	knows  map[string]bool
}

type ssTail struct {
	mu sync.Mutex
	b  []byte
}

func (t *ssTail) Write(p []byte) (int, error) {
	t.mu.Lock()
	defer t.mu.Unlock()
	t.b = append(t.b, p...)
	if len(t.b) > 1<<16 {
		t.b = t.b[:1<<16] // keep the head: the panic message and the first stack come first
	}
	return len(p), nil
}
func (t *ssTail) String() string { t.mu.Lock(); defer t.mu.Unlock(); return string(t.b) }

func ssSpawn(root string, linger bool) (*ssProc, error) {
	args := []string{"child", "ss", root}
	if linger {
		args = append(args, "linger")
	}
	exe, err := os.Executable()
	if err != nil {
		return nil, err
	}
	cmd := exec.Command(exe, args...)
	cmd.Env = append(os.Environ(), "GOMEMLIMIT=1GiB", "GOMAXPROCS=4")
	// Mutated frames can turn any string of a request (a handle, an extension name) into a RELATIVE
	// path of another request kind; the os-backed server resolves those against the process working
	// directory.  The child therefore lives in a scratch directory of its own.
	cmd.Dir = filepath.Join(root, "cwd")
	if err := os.MkdirAll(cmd.Dir, 0o755); err != nil {
		return nil, err
	}
	p := &ssProc{cmd: cmd, stderr: &ssTail{}, knows: map[string]bool{}}
	cmd.Stderr = p.stderr
	if p.in, err = cmd.StdinPipe(); err != nil {
		return nil, err
	}
	so, err := cmd.StdoutPipe()
	if err != nil {
		return nil, err
	}
	p.out = bufio.NewReaderSize(so, 1<<20)
	return p, cmd.Start()
}

func (p *ssProc) kill() {
	p.in.Close()
	p.cmd.Process.Kill()
	p.cmd.Wait()
}

// ssPJob is a job as the parent holds it.
type ssPJob struct {
	Kind string
	Cfg  ssCfg
	Prog []ssStep
	PID  string
	Mut  *ssMut
	End  *ssEnd
}

var ssSlowSeen atomic.Int32

// class is the hang class of the job: property / server kind / mutation kind or way the stream ends.
func (j *ssPJob) class() string {
	cl := j.Kind + "/" + j.Cfg.Kind
	switch {
	case j.Mut != nil:
		if j.Mut.Tr != "" { // a transport of its own is a class of its own: what hangs there says nothing about the others
			cl = j.Kind + "/" + j.Cfg.Kind + "-" + j.Mut.Tr
		}
		cl += "/" + j.Mut.Kind
		if j.Mut.Stage > 0 { // staged pipelines (held handlers, unread replies) are a class of their own too
			cl += "+staged"
		}
	case j.End != nil:
		cl += "/" + j.End.Mode
	}
	return cl
}

func (j *ssPJob) wire(withProg bool) []byte {
	w := ssJob{Kind: j.Kind, PID: j.PID, Mut: j.Mut, End: j.End, Fast: ssSlowSeen.Load() >= ssSlowBudget, Cl: j.class(), Full: ssThoroughRun}
	if withProg {
		w.Cfg, w.Prog = &j.Cfg, j.Prog
	}
	b, _ := json.Marshal(w)
	return append(b, '\n')
}

// call runs one job in the child; a dead or silent child is an observation (Crash / Timeout).
func (p *ssProc) call(j *ssPJob) (res ssResult, alive bool) {
	if _, err := p.in.Write(j.wire(!p.knows[j.PID])); err != nil {
		p.cmd.Wait()
		return ssResult{Crash: true, Stderr: p.stderr.String()}, false
	}
	p.knows[j.PID] = true
	type rd struct {
		line []byte
		err  error
	}
	ch := make(chan rd, 1)
	go func() { l, e := p.out.ReadBytes('\n'); ch <- rd{l, e} }()
	// the backstop behind the child's own deadlines (which are reduced once the hang budget is used up)
	tmo := 90 * time.Second
	if lib.HangExhausted() || lib.Expired() {
		tmo = 45 * time.Second
	}
	select {
	case r := <-ch:
		if r.err != nil {
			p.cmd.Wait()
			return ssResult{Crash: true, Stderr: p.stderr.String()}, false
		}
		if e := json.Unmarshal(r.line, &res); e != nil {
			p.kill()
			return ssResult{Crash: true, Stderr: "bad result line: " + e.Error()}, false
		}
		if res.Slow {
			ssSlowSeen.Add(1)
		}
		if res.Exit {
			p.cmd.Wait()
			return res, false
		}
		return res, true
	case <-time.After(tmo):
		p.kill()
		lib.SpendHang(j.class(), tmo)
		return ssResult{Timeout: true, Stderr: p.stderr.String()}, false
	}
}

// ssRunPool runs all jobs on n children; done is called (serialised) for every job.
func ssRunPool(base string, n int, jobs []*ssPJob, done func(i int, j *ssPJob, r *ssResult)) {
	var mu, dmu sync.Mutex
	next := 0
	var wg sync.WaitGroup
	for w := 0; w < n; w++ {
		wg.Add(1)
		go func(w int) {
			defer wg.Done()
			root := filepath.Join(base, fmt.Sprintf("w%02d", w))
			var p *ssProc
			prev := -1
			for {
				mu.Lock()
				i := next
				next++
				mu.Unlock()
				if i >= len(jobs) {
					break
				}
				if lib.Stop(jobs[i].class()) {
					continue // not run (and done is not called): the run's time budgets forbid its class; lib.BudgetReport counts it
				}
				if p == nil {
					var err error
					if p, err = ssSpawn(root, false); err != nil {
						r := ssResult{Crash: true, Stderr: "spawn: " + err.Error()}
						dmu.Lock()
						done(i, jobs[i], &r)
						dmu.Unlock()
						p = nil
						continue
					}
					prev = -1
				}
				r, alive := p.call(jobs[i])
				r.Prev = prev
				prev = i
				if !alive {
					p = nil
				}
				dmu.Lock()
				done(i, jobs[i], &r)
				dmu.Unlock()
			}
			if p != nil {
				p.in.Close()
				p.cmd.Wait()
			}
		}(w)
	}
	wg.Wait()
}

// ssRunAlone runs one job in a fresh child of its own (which lingers 300 ms before exiting).
func ssRunAlone(base string, j *ssPJob) ssResult {
	root := filepath.Join(base, "w99") // same length as the pool roots: frame offsets of a replayed case stay the same
	p, err := ssSpawn(root, true)
	if err != nil {
		return ssResult{Crash: true, Stderr: "spawn: " + err.Error()}
	}
	r, alive := p.call(j)
	if alive {
		p.in.Close()
		if err := p.cmd.Wait(); err != nil { // died while lingering
			return ssResult{Crash: true, Stderr: p.stderr.String()}
		}
	}
	return r
}

var ssPanicFn = regexp.MustCompile(`github\.com/pkg/sftp\.([^\s(]*(?:\([^)]*\))?[^\s(]*)\(`)

// ssCrashKey derives a stable key from a dead child's stderr.
func ssCrashKey(cfg ssCfg, stderr string) (key, head string) {
	lines := strings.Split(stderr, "\n")
	for _, l := range lines {
		if strings.HasPrefix(l, "panic:") || strings.HasPrefix(l, "fatal error:") {
			head = l
			break
		}
	}
	fn := ""
	if i := strings.Index(stderr, "[running]"); i >= 0 {
		if m := ssPanicFn.FindStringSubmatch(stderr[i:]); m != nil {
			fn = m[1]
		}
	}
	switch {
	case head == "" && fn == "":
		return cfg.Kind + "/child-died-silently", strings.TrimSpace(stderr)
	case strings.Contains(stderr, "getDataSlice") && cfg.Alloc && cfg.MaxTx > 1<<18:
		return "alloc/read-len-over-page", head // F10: max-tx-packet beyond the allocator's page
	case cfg.InMem && strings.Contains(fn, "Filecmd"):
		return "rs/short-attrs-dispatched", head // SETSTAT with a short attribute block reaches the handler; Attributes() is nil
	case cfg.Kind == "os" && strings.Contains(stderr, "(*packetManager).controller") && strings.Contains(head, "nil pointer"):
		return "os/unknown-type-nil-packet-panic", head // F4
	case fn == "":
		return cfg.Kind + "/panic-outside-package", head
	}
	return cfg.Kind + "/panic/" + fn, head
}

// ssMkBase creates the parent-owned scratch directory (fixed-length name: frame offsets do not depend on it).
func ssMkBase(rnd func() uint32) (string, error) {
	outer, err := lib.ScratchOuter() // (its name has a fixed length too)
	if err != nil {
		return "", err
	}
	for i := 0; i < 100; i++ {
		d := filepath.Join(outer, fmt.Sprintf("vhss-%010d", rnd()))
		if err := os.Mkdir(d, 0o755); err == nil {
			lib.AddScratch(d)
			return d, nil
		} else if !os.IsExist(err) {
			return "", err
		}
	}
	return "", fmt.Errorf("cannot create scratch directory")
}

// ssInput is the replay input of a C07 / C11 case.
type ssInput struct {
	Cfg  ssCfg    `json:"cfg"`
	Prog []ssStep `json:"prog"`
	Mut  *ssMut   `json:"mut,omitempty"`
	End  *ssEnd   `json:"end,omitempty"`
	Cmp  *ssCfg   `json:"cmp,omitempty"` // c07 path-style comparison: the configuration whose reference run is compared with Cfg's
}

func (j *ssPJob) input() ssInput { return ssInput{Cfg: j.Cfg, Prog: j.Prog, Mut: j.Mut, End: j.End} }

// ssCollector turns job results into the lib.Result: findings, crashes (confirmed alone), timeouts.
type ssCollector struct {
	r        *lib.Result
	base     string
	jobs     []*ssPJob
	crashed  []int
	prevOf   map[int]int
	stderrOf map[int]string
}

func (c *ssCollector) done(i int, j *ssPJob, res *ssResult) {
	for _, h := range res.Hist {
		c.r.Hist(h)
	}
	for _, f := range res.Findings {
		if os.Getenv("VH_SS_DEBUG") != "" {
			b, _ := json.Marshal(j.input())
			fmt.Fprintf(os.Stderr, "FINDING %s | %s | %s\n", f.Key, f.What, b)
		}
		kind := "oracle"
		if strings.HasPrefix(f.Key, "tie/") {
			kind = "tie"
		}
		c.r.Fail(lib.Failure{Kind: kind, Key: f.Key, What: f.What, Input: j.input(), Expected: f.Expected, Actual: f.Actual})
	}
	if res.Timeout {
		c.r.Fail(lib.Failure{Kind: "oracle", Key: j.Cfg.Kind + "/child-timeout", What: "the child process running this case did not answer within 90 s", Input: j.input(), Actual: res.Stderr})
	}
	if res.Crash {
		c.crashed = append(c.crashed, i)
		if c.prevOf == nil {
			c.prevOf = map[int]int{}
		}
		c.prevOf[i] = res.Prev
		if c.stderrOf == nil {
			c.stderrOf = map[int]string{}
		}
		c.stderrOf[i] = strings.TrimSpace(res.Stderr)
		c.r.Hist("child-died")
	}
}

// confirm re-runs crashed jobs alone (up to perKey per key) and records the failures.
func (c *ssCollector) confirm(perKey int) {
	seen := map[string]int{}
	stderrOf := c.stderrOf
	// cases whose outcome does not depend on the schedule first (staged pipelines with held handlers): they are
	// the ones a key's reported inputs should be
	sort.SliceStable(c.crashed, func(a, b int) bool {
		held := func(i int) bool { m := c.jobs[i].Mut; return m != nil && m.Hold }
		return held(c.crashed[a]) && !held(c.crashed[b])
	})
	for _, i := range c.crashed {
		j := c.jobs[i]
		key, head := ssCrashKey(j.Cfg, stderrOf[i])
		seen[key]++
		what := "the server process died while serving this stream: " + head
		if seen[key] <= perKey && !lib.Stopped(j.class()) {
			alone := ssRunAlone(c.base, j)
			k2, _ := ssCrashKey(j.Cfg, alone.Stderr)
			switch {
			case alone.Crash && k2 == key:
				what += " (reproduced by re-running the case alone in a fresh process)"
			case alone.Crash:
				what += fmt.Sprintf(" (alone the case dies with key %s)", k2)
			default:
				// not reproducible alone: was it a delayed panic of the previous case?
				if p := c.prevOf[i]; p >= 0 {
					if pa := ssRunAlone(c.base, c.jobs[p]); pa.Crash {
						k3, h3 := ssCrashKey(c.jobs[p].Cfg, pa.Stderr)
						c.r.Fail(lib.Failure{Kind: "oracle", Key: k3, What: "the server process died (delayed, while the next case ran): " + h3, Input: c.jobs[p].input(), Expected: "no panic", Actual: ssTrim(pa.Stderr, 3000)})
						continue
					}
				}
				key = j.Cfg.Kind + "/crash-not-reproducible"
			}
		}
		c.r.Fail(lib.Failure{Kind: "oracle", Key: key, What: what, Input: j.input(), Expected: "no panic, Serve returns", Actual: ssTrim(stderrOf[i], 3000)})
	}
}

func ssTrim(s string, n int) string {
	if len(s) > n {
		return s[:n] + "…"
	}
	return s
}
