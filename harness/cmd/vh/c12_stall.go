package main

// C12 — transfers whose SOURCE or SINK stalls, then Close, then the source/sink goes on.
//
// "After Close … exactly one close request has been sent, and no request carrying the closed handle is written to the
// wire afterwards." ReadFrom / ReadFromWithConcurrency read from an io.Reader the application hands in, WriteTo writes to
// its io.Writer; both may block for any length of time. The transfer calls start goroutines of their own (a feeder that
// reads the source and dispatches WRITE requests, workers that collect the replies): whatever the call does when the
// server refuses chunks, when the source fails or ends early, it must not RETURN (and so let go of the File) while one of
// its goroutines can still put a request on the wire. That is only observable later: the application closes the File,
// the CLOSE frame goes out, the source delivers its next bytes - and a WRITE naming the closed handle follows the CLOSE.
//
// One case (xfStall):
//
//	open; Seek(off); start the transfer call with a GATED source (it hands out `stall_at` bytes, in pieces of at most
//	`piece`, and then blocks in Read until it is released; afterwards the rest, end of data, or an error) resp. a gated
//	sink (accepts `stall_at` bytes, then blocks in Write); the scripted peer refuses the chunks `fail_chunks` of the
//	call's chunk plan (none, some, all) with status `fail_code`, in arrival order or permuted (window);
//	wait until the source is blocked (or the call has returned without ever getting there: a FAILED transfer);
//	close "during": Close is called NOW, beside the stalled call (it has to wait for it); close "after": only when the
//	call has returned. For a grace period the harness looks whether the call (resp. Close) returns although the source
//	is still blocked - if so the application does what it is entitled to: it closes the File at once;
//	release the source; wait for call and Close; then a settle period (the released Read has returned, some
//	milliseconds, two round trips on the connection) during which the peer keeps recording.
//
// Oracle (wire order, recorded by the peer and parsed once more from the raw byte stream): exactly one CLOSE frame, Close
// returned nil, and NO frame naming the handle after the CLOSE frame. A request written BEFORE the CLOSE is fine (the
// read-ahead of a cancelled transfer, the chunk the feeder had in hand when it was cancelled): only the order on the
// wire counts, not when the peer got round to looking at it. Afterwards one more method must answer os.ErrClosed.
// Every wait on the File goes through the hang budget; the source is released on every path.

import (
	"bufio"
	"bytes"
	"encoding/json"
	"errors"
	"fmt"
	"io"
	"math/rand"
	"os"
	"os/exec"
	"path/filepath"
	"strings"
	"sync"
	"time"

	"github.com/pkg/sftp"

	"verifharness/lib"
	"verifharness/wire"
)

type xfStall struct {
	API     string `json:"api"`                   // ReadFrom | ReadFromWithConcurrency | WriteTo
	Conc    int    `json:"conc,omitempty"`        // the argument of ReadFromWithConcurrency
	Src     string `json:"src,omitempty"`         // what ReadFrom can learn about the source: opaque | len | size | limited
	Off     int64  `json:"off,omitempty"`         // Seek(off, io.SeekStart) before the call
	N       int    `json:"n,omitempty"`           // bytes the source holds (WriteTo: the file's bytes from off on are what the sink is offered)
	StallAt int    `json:"stall_at"`              // the Read (Write) that follows this many bytes handed out (accepted) blocks until released; < 0: never
	Piece   int    `json:"piece,omitempty"`       // the source hands out at most this many bytes per Read (0: what is asked for)
	End     string `json:"end,omitempty"`         // once released: "" goes on to the end, "err" fails at once, "eof" the source ends there
	Fail    []int  `json:"fail_chunks,omitempty"` // chunks of the call's plan the peer refuses; -1: every chunk
	Code    uint32 `json:"fail_code,omitempty"`
	Close   string `json:"close"` // "after": Close follows the call; "during": Close is called while the call is stalled
}

func (st xfStall) text() string {
	return fmt.Sprintf("%s/c%d/%s/off%d/n%d/stall%d/piece%d/end=%s/fail%v=%d/close=%s", st.API, st.Conc, st.Src, st.Off, st.N, st.StallAt, st.Piece, st.End, st.Fail, st.Code, st.Close)
}

const (
	xfStallGrace  = 20 * time.Millisecond // how long a stalled call (or the Close beside it) is watched for returning early
	xfStallSettle = 4 * time.Millisecond  // after everything has returned: time for a goroutine left behind to get to the wire
)

// xfGate is the gated source and sink.
type xfGate struct {
	mu       sync.Mutex
	data     []byte // source: what it delivers
	pos      int    // bytes handed out / accepted
	stallAt  int
	piece    int
	end      string
	passed   bool // the stall is over (or was never reached and the gate is open)
	open     bool
	gate     chan struct{}
	stalled  chan struct{} // closed when a Read/Write has arrived at the gate
	arrived  bool
	busy     int // Reads/Writes in progress
	lateBusy int // … that began after the release or were blocked at it
	sink     bytes.Buffer
}

func xfNewGate(data []byte, st *xfStall) *xfGate {
	return &xfGate{data: data, stallAt: st.StallAt, piece: st.Piece, end: st.End, gate: make(chan struct{}), stalled: make(chan struct{})}
}

// wait blocks the caller at the gate if this is the place; it returns true when the stall has just ended here.
// Called with g.mu held; returns with it held.
func (g *xfGate) wait(here bool) bool {
	if g.passed || g.stallAt < 0 || !here {
		return false
	}
	g.passed = true
	if !g.arrived {
		g.arrived = true
		close(g.stalled)
	}
	g.mu.Unlock()
	<-g.gate
	g.mu.Lock()
	g.lateBusy++
	return true
}

func (g *xfGate) Read(p []byte) (n int, err error) {
	g.mu.Lock()
	g.busy++
	if g.open {
		g.lateBusy++
	}
	defer func() { g.busy--; g.mu.Unlock() }()
	if len(p) == 0 {
		return 0, nil
	}
	if g.wait(g.pos >= g.stallAt) {
		switch g.end {
		case "err":
			g.end = "failed"
			return 0, xfSrcErr{}
		case "eof":
			g.data = g.data[:g.pos]
		}
	}
	if g.end == "failed" {
		return 0, xfSrcErr{}
	}
	if g.pos >= len(g.data) {
		return 0, io.EOF
	}
	n = len(g.data) - g.pos
	if n > len(p) {
		n = len(p)
	}
	if g.piece > 0 && n > g.piece {
		n = g.piece
	}
	if !g.passed && g.stallAt >= 0 && g.pos+n > g.stallAt {
		n = g.stallAt - g.pos // up to the gate, not across it
	}
	copy(p, g.data[g.pos:g.pos+n])
	g.pos += n
	return n, nil
}

func (g *xfGate) Write(p []byte) (n int, err error) {
	g.mu.Lock()
	g.busy++
	if g.open {
		g.lateBusy++
	}
	defer func() { g.busy--; g.mu.Unlock() }()
	if g.wait(g.pos+len(p) > g.stallAt) && g.end == "err" {
		g.end = "failed"
	}
	if g.end == "failed" {
		return 0, xfSrcErr{}
	}
	g.sink.Write(p)
	g.pos += len(p)
	return len(p), nil
}

func (g *xfGate) release() {
	g.mu.Lock()
	if !g.open {
		g.open = true
		close(g.gate)
	}
	g.mu.Unlock()
}

func (g *xfGate) isStalled() bool {
	select {
	case <-g.stalled:
		g.mu.Lock()
		defer g.mu.Unlock()
		return !g.open
	default:
		return false
	}
}

func (g *xfGate) state() (busy, late, pos int) {
	g.mu.Lock()
	defer g.mu.Unlock()
	return g.busy, g.lateBusy, g.pos
}

// what File.ReadFrom may learn about the size of the gated source
type xfGateLen struct{ *xfGate }

func (g xfGateLen) Len() int { g.mu.Lock(); defer g.mu.Unlock(); return len(g.data) - g.pos }

type xfGateSize struct{ *xfGate }

func (g xfGateSize) Size() int64 { g.mu.Lock(); defer g.mu.Unlock(); return int64(len(g.data)) }

func (g *xfGate) reader(kind string) (io.Reader, error) {
	switch kind {
	case "", "opaque":
		return struct{ io.Reader }{g}, nil
	case "len":
		return xfGateLen{g}, nil
	case "size":
		return xfGateSize{g}, nil
	case "limited":
		return &io.LimitedReader{R: struct{ io.Reader }{g}, N: int64(len(g.data))}, nil
	}
	return nil, fmt.Errorf("unknown gated source kind %q", kind)
}

// xfStallSite names the code path of the case for the failure key (documented rules only).
func xfStallSite(sc xfSeqCase) string {
	st := sc.Stall
	switch st.API {
	case "ReadFrom":
		if xfReadFromConcurrent(sc.Cfg, st.Src, st.N) {
			return "ReadFrom/concurrent"
		}
		return "ReadFrom/sequential"
	case "WriteTo":
		return "WriteTo/" + xfWriteToPath(sc.Cfg, sc.FileLen)
	}
	return st.API
}

// xfRunStall runs one case on a (held) scripted peer.
func xfRunStall(sc xfSeqCase, hold *xfPeerHold) (fails []xfSeqFailure, marks []string) {
	st := sc.Stall
	site := xfStallSite(sc)
	fail := func(key, what string, exp, act any) {
		fails = append(fails, xfSeqFailure{Key: "stall/" + site + "/" + key, What: what, At: -1, Expected: exp, Actual: act})
	}
	mark := func(f string, a ...any) { marks = append(marks, "stall|"+fmt.Sprintf(f, a...)) }
	kase := lib.NewCase(xfProp + "/stall")
	mp := sc.Cfg.MP
	if st.API != "ReadFrom" && st.API != "ReadFromWithConcurrency" && st.API != "WriteTo" {
		fail("setup", "unknown call "+st.API, nil, nil)
		return
	}
	// the chunk plan of the call and what the peer refuses of it
	total := st.N
	if st.API == "WriteTo" {
		total = max(sc.FileLen-int(st.Off), 0)
	}
	plan := xfPlan(mp, st.Off, total+mp)
	failMap := map[int64]xfFail{}
	for j, idx := range st.Fail {
		code := st.Code
		if code == 0 || (j > 0 && idx >= 0) {
			code = wire.Failure
		}
		switch {
		case idx == -1:
			for _, ch := range plan {
				failMap[ch.Off] = xfFail{Code: code, Msg: fmt.Sprintf("fail@%d", ch.Off)}
			}
		case idx >= 0 && idx < len(plan):
			failMap[plan[idx].Off] = xfFail{Code: code, Msg: fmt.Sprintf("fail@%d", plan[idx].Off)}
		}
	}
	po := xfPeerOpts{File: xfFilePat(sc.FileLen), Exists: true, Window: max(sc.Window, 1), PermSeed: sc.Seed, Fail: failMap}
	peer := hold.get(sc.Cfg, po, 2*(sc.FileLen+st.N)+400)
	if peer == nil {
		var err error
		if peer, err = xfNewPeer(sc.Cfg, po); err != nil {
			fail("setup", err.Error(), nil, nil)
			return
		}
		if hold != nil {
			hold.put(sc.Cfg, peer)
		} else {
			defer peer.Shutdown()
		}
	}
	abandon := func() { // the connection is not fit for another case
		if hold != nil && hold.p == peer {
			hold.p = nil
			go peer.Shutdown()
		}
	}
	var f *sftp.File
	var err error
	if ok, _ := xfGuardK(kase, func() {
		if f, err = peer.Cli.OpenFile("/f", os.O_RDWR); err == nil && st.Off != 0 {
			_, err = f.Seek(st.Off, io.SeekStart)
		}
	}); !ok || err != nil {
		fail("setup", fmt.Sprintf("open/seek: %v (returned=%v)", err, ok), nil, nil)
		abandon()
		return
	}
	var data []byte
	if st.API != "WriteTo" {
		data = xfPat(5, st.N)
	}
	g := xfNewGate(data, st)
	defer g.release() // on every path
	var src io.Reader
	if st.API == "ReadFrom" {
		if src, err = g.reader(st.Src); err != nil {
			fail("setup", err.Error(), nil, nil)
			return
		}
	} else {
		src = struct{ io.Reader }{g}
	}
	isDone := func(ch chan struct{}) bool {
		select {
		case <-ch:
			return true
		default:
			return false
		}
	}
	// --- the call ---
	callDone := make(chan struct{})
	var n int64
	var cerr error
	var pn any
	go func() {
		defer close(callDone)
		defer func() { pn = recover() }()
		switch st.API {
		case "ReadFrom":
			n, cerr = f.ReadFrom(src)
		case "ReadFromWithConcurrency":
			n, cerr = f.ReadFromWithConcurrency(src, st.Conc)
		case "WriteTo":
			n, cerr = f.WriteTo(struct{ io.Writer }{g})
		}
	}()
	select {
	case <-g.stalled:
	case <-callDone:
	case <-kase.After(hangDeadline):
		kase.Fired()
		g.release()
		if _, ok := lib.WaitCase(kase, hangDeadline, callDone); !ok {
			fail("hang", "the call neither asked its source/sink for the next bytes nor returned within 20 s", "return", "hang")
			go f.Close()
			abandon()
			return
		}
	}
	// --- Close: beside the stalled call, or after it; a call that lets go of the File early is followed by Close at once ---
	closeDone := make(chan struct{})
	var closeErr error
	closeStarted := false
	startClose := func() {
		closeStarted = true
		go func() { defer close(closeDone); closeErr = f.Close() }()
	}
	early := ""
	if g.isStalled() {
		if st.Close == "during" {
			startClose()
		}
		t := time.NewTimer(xfStallGrace)
		if closeStarted {
			select {
			case <-closeDone:
				early = "Close"
			case <-t.C:
			}
		} else {
			select {
			case <-callDone:
				early = "the call"
			case <-t.C:
			}
		}
		t.Stop()
		mark("outcome=source/sink blocked with the call under way")
	} else {
		mark("outcome=the call returned without getting to the stall (failed or short transfer)")
	}
	if !closeStarted && isDone(callDone) {
		startClose()
		if _, ok := lib.WaitCase(kase, hangDeadline, closeDone); !ok {
			fail("close-hang", "Close after the call had returned did not return within 20 s", "return", "hang")
			abandon()
			return
		}
	}
	if early != "" {
		busy, _, _ := g.state()
		mark("returned-while-source/sink-blocked=%s|reads-in-progress=%d", strings.ReplaceAll(early, " ", "-"), busy)
	}
	// --- the source/sink goes on ---
	g.release()
	if _, ok := lib.WaitCase(kase, hangDeadline, callDone); !ok {
		fail("hang", "the call did not return within 20 s after its source/sink went on", "return", "hang")
		go f.Close()
		abandon()
		return
	}
	if pn != nil {
		fail("panic", "the call panicked", nil, fmt.Sprint(pn))
		abandon()
		return
	}
	if !closeStarted {
		startClose()
	}
	if _, ok := lib.WaitCase(kase, hangDeadline, closeDone); !ok {
		fail("close-hang", "Close did not return within 20 s after the call had returned", "return", "hang")
		abandon()
		return
	}
	// --- settle: whatever the call left behind gets its chance to reach the wire ---
	for i := 0; i < 200; i++ { // (the released Read/Write returns as soon as its goroutine runs)
		if busy, _, _ := g.state(); busy == 0 {
			break
		}
		time.Sleep(100 * time.Microsecond)
	}
	peer.SetBehaviour(func(o *xfPeerOpts) { o.Window = 1 })
	for i := 0; i < 2; i++ {
		time.Sleep(xfStallSettle / 2)
		if ok, _ := xfGuardK(kase, func() { peer.Cli.Lstat("/f") }); !ok {
			fail("settle-hang", "a STAT round trip on the connection did not return within 20 s after the File was closed", "return", "hang")
			abandon()
			return
		}
	}
	busy, late, pos := g.state()
	mark("api=%s|path=%s", st.API, strings.TrimPrefix(site, st.API+"/"))
	mark("close=%s|end=%s", st.Close, map[string]string{"": "goes-on", "err": "fails", "eof": "ends"}[st.End])
	switch {
	case len(st.Fail) == 0:
		mark("server-refuses=nothing")
	case st.Fail[0] == -1:
		mark("server-refuses=every-chunk")
	default:
		mark("server-refuses=%d-chunk(s)", min(len(st.Fail), 2))
	}
	mark("result=%s", xfErrClassShort(cerr))
	if late > 0 {
		mark("reads/writes of the source/sink after the release: yes")
	}
	// --- the wire ---
	got := fmt.Sprintf("call = (%d, %v), Close = %v, source/sink at %d", n, cerr, closeErr, pos)
	if busy != 0 {
		got += fmt.Sprintf(", %d Read/Write still in progress", busy)
	}
	log := peer.Log()
	ncl, closeAt := 0, -1
	var order []string
	var stale []string
	for _, q := range log {
		name := xfReqName(q.Typ)
		switch q.Typ {
		case wire.Read, wire.Write:
			name += fmt.Sprintf("@%d", q.Off)
		case wire.Close:
			ncl++
			if closeAt < 0 {
				closeAt = q.Seq
			}
		case wire.Lstat:
			continue // the harness's own round trips
		}
		if q.Stale {
			name += "(!)"
			stale = append(stale, fmt.Sprintf("request #%d %s", q.Seq, name))
		}
		order = append(order, name)
	}
	if len(order) > 24 {
		order = append(append(order[:8:8], "…"), order[len(order)-14:]...)
	}
	wireText := strings.Join(order, " ")
	if closeErr != nil {
		fail("close-result", "Close of the File after the transfer (the server answers the CLOSE request with SSH_FX_OK) did not return nil", "<nil>", got)
	}
	if ncl != 1 {
		fail("close-count", "not exactly one CLOSE request was sent for the File", 1, fmt.Sprintf("%d CLOSE requests; wire: %s (%s)", ncl, wireText, got))
	}
	_, lateRaw, _ := xfHandleUseAfterClose(peer.SS.RawIn())
	if len(stale) > 0 || len(lateRaw) > 0 {
		what := "a request carrying the closed handle was written to the wire after the CLOSE frame"
		if early != "" {
			what += " (" + early + " had returned while the source/sink handed to the transfer was still blocked: a goroutine of the transfer outlived it)"
		}
		fail("use-after-close", what, "nothing naming the handle after CLOSE", fmt.Sprintf("%s; wire: %s; raw stream: %v (%s)", strings.Join(stale, ", "), wireText, lateRaw, got))
		abandon()
	}
	// closed is final
	var aerr error
	name := []string{"Write", "ReadFrom", "WriteTo", "Seek", "Close", "ReadFromWithConcurrency", "Read", "Stat"}[(st.N+st.StallAt+len(st.Fail))%8]
	if ok, _ := xfGuardK(kase, func() {
		switch name {
		case "Write":
			_, aerr = f.Write([]byte{1})
		case "ReadFrom":
			_, aerr = f.ReadFrom(bytes.NewReader([]byte{1, 2}))
		case "WriteTo":
			_, aerr = f.WriteTo(io.Discard)
		case "Seek":
			_, aerr = f.Seek(0, io.SeekCurrent)
		case "Close":
			aerr = f.Close()
		case "ReadFromWithConcurrency":
			_, aerr = f.ReadFromWithConcurrency(bytes.NewReader([]byte{1, 2}), 2)
		case "Read":
			_, aerr = f.Read(make([]byte, 1))
		case "Stat":
			_, aerr = f.Stat()
		}
	}); !ok {
		fail("after-close/hang", name+" after Close did not return within 20 s", "os.ErrClosed", "hang")
		abandon()
		return
	}
	if !errors.Is(aerr, os.ErrClosed) {
		fail("after-close/"+name, name+" after the File was closed did not return os.ErrClosed", "os.ErrClosed", fmt.Sprint(aerr))
	}
	return
}

func xfErrClassShort(err error) string {
	c := xfErrClass(err)
	if strings.HasPrefix(c, "other:") {
		if errors.As(err, new(xfSrcErr)) {
			return "source/sink-error"
		}
		return "other"
	}
	return c
}

// xfStallTrivial: a case says something about the property only if requests went out and something did not go well
// or the stall was reached.
func xfStallNontrivial(sc xfSeqCase) bool {
	st := sc.Stall
	return st.StallAt >= 0 && (len(st.Fail) > 0 || st.End != "" || st.Close == "during")
}

var xfStallAPIs = []string{"rfc1", "rfc2", "rf-len", "rfc0", "wt", "rf-opaque", "rfc3", "rf-size", "rfc5", "rf-limited"}
var xfStallFails = []string{"all", "first", "none", "some", "all", "last-before-stall"}

// xfGenStall writes case k of an option set: the call and the server's refusals rotate with k (all 60 combinations
// within 60 consecutive k), the rest is drawn.
func xfGenStall(rng *rand.Rand, cfg xfCfg, k int) xfSeqCase {
	mp := cfg.MP
	api := xfStallAPIs[k%len(xfStallAPIs)]
	fk := xfStallFails[(k/len(xfStallAPIs)+k)%len(xfStallFails)]
	st := &xfStall{Close: []string{"after", "during", "after"}[(k/3+k)%3]}
	// where the source blocks: after 0..4 whole chunks (now and then more: one per worker of a larger pool), at the
	// boundary, one byte into the next chunk, or one byte before its end
	chunks := []int{1, 2, 0, 3, 1, 4, 2, 1}[rng.Intn(8)]
	if rng.Intn(9) == 0 && mp <= 7 {
		chunks = 5 + rng.Intn(2*cfg.Conc+2)
		if chunks > 70 {
			chunks = 66
		}
	}
	part := []int{0, 0, 0, 1, mp - 1, 0}[rng.Intn(6)]
	if part >= mp || part < 0 {
		part = 0
	}
	st.StallAt = chunks*mp + part
	rest := []int{mp, 1, 2*mp + 1, 0, mp + 1, 3 * mp}[rng.Intn(6)] // what follows the stall (0: the source blocks before it says EOF)
	if part > 0 && rest < mp-part {
		rest = mp - part
	}
	total := st.StallAt + rest
	switch rng.Intn(8) {
	case 0:
		st.End = "err"
	case 1:
		st.End = "eof"
	}
	if rng.Intn(4) == 0 {
		st.Off = int64([]int{1, mp, mp + 1, 2*mp + 1}[rng.Intn(4)])
	}
	sc := xfSeqCase{Srv: xfSrvSpec{Kind: "peer"}, Cfg: cfg, Window: 1, Stall: st, Tag: "stall"}
	switch {
	case api == "wt":
		st.API = "WriteTo"
		sc.FileLen = int(st.Off) + total
		if st.End == "eof" {
			st.End = ""
		}
	case strings.HasPrefix(api, "rfc"):
		st.API, st.N = "ReadFromWithConcurrency", total
		st.Conc = int(api[3] - '0')
		sc.FileLen = []int{0, 1, mp + 1, total + 3}[rng.Intn(4)]
	default:
		st.API, st.N, st.Src = "ReadFrom", total, api[3:]
		sc.FileLen = []int{0, 1, mp + 1, total + 3}[rng.Intn(4)]
	}
	if st.API != "WriteTo" && rng.Intn(3) == 0 {
		st.Piece = []int{1, 2, mp, mp + 1, 3}[rng.Intn(5)]
	}
	nplan := (total + mp - 1) / mp
	switch fk {
	case "all":
		st.Fail = []int{-1}
	case "first":
		st.Fail = []int{0}
	case "last-before-stall":
		if chunks > 0 {
			st.Fail = []int{chunks - 1}
		}
	case "some":
		for i := 0; i < nplan && len(st.Fail) < 3; i++ {
			if rng.Intn(2) == 0 {
				st.Fail = append(st.Fail, i)
			}
		}
	}
	if len(st.Fail) > 0 {
		st.Code = []uint32{4, 3, 4, 8, 2, 255, 4, 256}[rng.Intn(8)]
		if st.API == "WriteTo" && st.Code == 1 {
			st.Code = 4
		}
	}
	if k%4 == 3 && cfg.Conc > 1 {
		sc.Seed = rng.Int63() >> 11
		sc.Window = 2 + rng.Intn(min(cfg.Conc, 4)+1)
	}
	return sc
}

// xfShrinkStall simplifies a failing case while the same key still fails.
func xfShrinkStall(sc xfSeqCase, key string, run func(xfSeqCase) []xfSeqFailure) xfSeqCase {
	has := func(t xfSeqCase) bool {
		for i := 0; i < 2; i++ { // (schedule-dependent: two tries)
			for _, f := range run(t) {
				if f.Key == key {
					return true
				}
			}
		}
		return false
	}
	try := func(edit func(st *xfStall, t *xfSeqCase)) {
		t := sc
		st := *sc.Stall
		st.Fail = append([]int(nil), st.Fail...)
		t.Stall = &st
		edit(&st, &t)
		if xfStallSite(t) == xfStallSite(sc) && has(t) {
			sc = t
		}
	}
	mp := sc.Cfg.MP
	try(func(st *xfStall, t *xfSeqCase) { t.Window, t.Seed = 1, 0 })
	try(func(st *xfStall, t *xfSeqCase) {
		if st.API == "WriteTo" {
			t.FileLen -= int(st.Off)
		}
		st.Off = 0
	})
	try(func(st *xfStall, t *xfSeqCase) { st.Piece = 0 })
	try(func(st *xfStall, t *xfSeqCase) { st.End = "" })
	try(func(st *xfStall, t *xfSeqCase) { st.Close = "after" })
	try(func(st *xfStall, t *xfSeqCase) {
		if st.API != "WriteTo" {
			t.FileLen = 0
		}
	})
	for _, c := range []int{1, 2, 3} { // fewer chunks before the stall
		if sc.Stall.StallAt > c*mp {
			try(func(st *xfStall, t *xfSeqCase) {
				d := st.StallAt - c*mp
				st.StallAt -= d
				if st.API == "WriteTo" {
					t.FileLen -= d
				} else {
					st.N -= d
				}
			})
		}
	}
	try(func(st *xfStall, t *xfSeqCase) { // one more chunk after the stall, no more
		if st.API == "WriteTo" {
			t.FileLen = int(st.Off) + st.StallAt + mp
		} else {
			st.N = st.StallAt + mp
		}
	})
	try(func(st *xfStall, t *xfSeqCase) { st.Code = 4 })
	return sc
}

// ---------- running the cases in a process of their own ----------
//
// A goroutine that a transfer call leaves behind does not only write to the wire: it may also report to channels the
// call has closed meanwhile (a source that FAILS after the call has returned) - a panic outside the calling goroutine,
// which takes the process down. The cases of one option set therefore run, one after the other, in a child process
// (vh child c12stall); the child says which case it is about to run, so that a death is reported with exactly that
// case as its input, and the remaining cases go to a new child.

func init() { children["c12stall"] = xfStallChild }

type xfStallIn struct {
	Prop   string      `json:"prop"`
	Cases  []xfSeqCase `json:"cases"`
	Shrink bool        `json:"shrink"`
}

type xfStallLine struct {
	Run     *xfSeqCase     `json:"run,omitempty"` // this case is run next (also the attempts of the minimiser)
	Idx     int            `json:"idx"`
	Done    bool           `json:"done,omitempty"`    // the outcome of case idx
	Prelim  bool           `json:"prelim,omitempty"`  // … as first seen, before it is minimised
	Skipped bool           `json:"skipped,omitempty"` // not run: the run's budgets are used up
	Case    *xfSeqCase     `json:"case,omitempty"`
	Fails   []xfSeqFailure `json:"fails,omitempty"`
	Marks   []string       `json:"marks,omitempty"`
}

func xfStallChild(args []string) {
	if len(args) < 1 {
		os.Exit(2)
	}
	var in xfStallIn
	b, err := os.ReadFile(args[0])
	if err == nil {
		err = json.Unmarshal(b, &in)
	}
	if err != nil {
		fmt.Fprintln(os.Stderr, "c12stall:", err)
		os.Exit(2)
	}
	xfProp = in.Prop
	out := json.NewEncoder(os.Stdout)
	hold := &xfPeerHold{}
	defer func() { hold.Close() }()
	run := func(sc xfSeqCase) ([]xfSeqFailure, []string) {
		out.Encode(xfStallLine{Run: &sc})
		return xfRunStall(sc, hold)
	}
	for i := range in.Cases {
		sc := in.Cases[i]
		if lib.Stop(xfProp + "/stall") {
			out.Encode(xfStallLine{Idx: i, Skipped: true})
			continue
		}
		fs, marks := run(sc)
		if len(fs) == 0 {
			out.Encode(xfStallLine{Idx: i, Done: true, Case: &sc, Marks: marks})
			continue
		}
		f0 := fs[0]
		if !in.Shrink || strings.HasSuffix(f0.Key, "hang") || strings.HasSuffix(f0.Key, "/setup") || strings.HasSuffix(f0.Key, "/panic") {
			out.Encode(xfStallLine{Idx: i, Done: true, Case: &sc, Fails: fs[:1], Marks: marks})
			continue
		}
		out.Encode(xfStallLine{Idx: i, Prelim: true, Case: &sc, Fails: fs[:1], Marks: marks})
		small := xfShrinkStall(sc, f0.Key, func(t xfSeqCase) []xfSeqFailure { fs, _ := run(t); return fs })
		var again []xfSeqFailure
		for t := 0; t < 3 && len(again) == 0; t++ {
			fs, _ := run(small)
			for _, f := range fs {
				if f.Key == f0.Key {
					again = append(again, f)
				}
			}
		}
		if len(again) == 0 { // (did not show again: what was seen, as it was seen)
			small, again = sc, fs[:1]
		}
		out.Encode(xfStallLine{Idx: i, Done: true, Case: &small, Fails: again[:1]})
	}
}

// xfStallExec runs the cases in child processes and hands every outcome to each (marks: only with the first outcome of a
// case). A child that dies is a failure of the case it was running.
func xfStallExec(cases []xfSeqCase, shrink bool, dir string, tag string, each func(sc xfSeqCase, fs []xfSeqFailure, marks []string, ran bool)) (tie error) {
	crashes := 0
	for from, gen := 0, 0; from < len(cases); gen++ {
		inF := filepath.Join(dir, fmt.Sprintf("stall-%s-%d.json", tag, gen))
		b, _ := json.Marshal(xfStallIn{Prop: xfProp, Cases: cases[from:], Shrink: shrink})
		if err := os.WriteFile(inF, b, 0o600); err != nil {
			return err
		}
		cmd := exec.Command(os.Args[0], "child", "c12stall", inF)
		cmd.Env = append(os.Environ(), "GOTRACEBACK=single")
		var se bytes.Buffer
		cmd.Stderr = &se
		po, err := cmd.StdoutPipe()
		if err != nil {
			return err
		}
		if err := cmd.Start(); err != nil {
			return err
		}
		stopAlive := lib.KeepAlive()
		limit := max(time.Minute, min(20*time.Minute, lib.Remaining()+2*time.Minute))
		killed := false
		timer := time.AfterFunc(limit, func() { killed = true; cmd.Process.Kill() })
		var lastRun, prelimCase *xfSeqCase
		var prelim []xfSeqFailure
		next := 0 // cases[from+next] is the one in progress
		rd := bufio.NewReaderSize(po, 1<<16)
		for {
			line, rerr := rd.ReadBytes('\n')
			if len(line) > 1 {
				var l xfStallLine
				if json.Unmarshal(line, &l) == nil {
					switch {
					case l.Run != nil:
						lastRun = l.Run
					case l.Skipped:
						each(cases[from+l.Idx], nil, nil, false)
						next, lastRun, prelim, prelimCase = l.Idx+1, nil, nil, nil
					case l.Prelim && l.Case != nil:
						prelim, prelimCase = l.Fails, l.Case
						each(*l.Case, nil, l.Marks, true)
					case l.Done && l.Case != nil:
						if prelimCase == nil {
							each(*l.Case, l.Fails, l.Marks, true)
						} else {
							each(*l.Case, l.Fails, nil, false)
						}
						next, lastRun, prelim, prelimCase = l.Idx+1, nil, nil, nil
					}
				}
			}
			if rerr != nil {
				break
			}
		}
		werr := cmd.Wait()
		timer.Stop()
		stopAlive()
		os.Remove(inF)
		if werr == nil && from+next >= len(cases) {
			return nil
		}
		// the child died (or stopped early)
		if prelimCase != nil {
			each(*prelimCase, prelim, nil, false)
		}
		crashed := cases[min(from+next, len(cases)-1)]
		if lastRun != nil {
			crashed = *lastRun
		}
		lines := strings.Split(se.String(), "\n")
		key, what := "process-died", fmt.Sprintf("the process running this case died (%v)", werr)
		if killed {
			key, what = "process-did-not-finish", fmt.Sprintf("the process running this case (and the ones before it) did not finish within %v", limit)
			lib.SpendHang(xfProp+"/stall", limit)
		}
		for _, l := range lines {
			if strings.HasPrefix(l, "panic:") || strings.HasPrefix(l, "fatal error:") {
				key, what = "panic-in-package-goroutine", "the process running this case died of a panic outside the calling goroutine (a goroutine of the transfer call went on after the call had returned): "+l
				break
			}
		}
		if werr == nil {
			key, what = "child-stopped-early", "the process running the cases ended without running them all"
		}
		if len(lines) > 30 {
			lines = lines[:30]
		}
		each(crashed, []xfSeqFailure{{Key: "stall/" + xfStallSite(crashed) + "/" + key, What: what, At: -1, Expected: "the call and Close return, the process lives on", Actual: strings.Join(lines, "\n")}}, nil, prelimCase == nil && lastRun != nil)
		from += next + 1
		if crashes++; crashes >= 4 || werr == nil {
			for _, sc := range cases[min(from, len(cases)):] {
				each(sc, nil, nil, false)
			}
			return fmt.Errorf("%d child processes died: the remaining %d cases of this option set were not run", crashes, max(len(cases)-from, 0))
		}
	}
	return nil
}
