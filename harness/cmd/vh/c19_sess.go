package main

// C19, SEVERAL SESSIONS SERVED BY ONE PROCESS.
//
// The other sections of the check talk to one server at a time (or to servers side by side inside the harness process,
// where a fatal error of the package takes the harness down with it).  A process normally serves many sessions — one
// sftp.Server / sftp.RequestServer per SSH channel — and whatever the package keeps at package level (the advertised
// extension list, tables and caches on the decode and dispatch paths) is shared between all of them.  This section
// runs 2…8 servers of both kinds in ONE child process (`vh child c19sess`, GOMAXPROCS >= 4),
//
//   - concurrently: every session is driven by a goroutine of its own; the sessions shake hands at the same moment and
//     then send streams of extended requests — advertised names with valid arguments, names nobody serves (names that
//     are new to the process, the same new names in several sessions at once, long names, names with odd bytes,
//     near-misses of the supported names, the other OpenSSH names), requests that do not decode (after which the
//     session is opened again: handshakes run beside the other sessions' streams) — serially and pipelined, the steps
//     of the sessions released together;
//   - sequentially: the same script is served by a first, a second and a third session of the same process, one after
//     the other: a later session must be answered exactly like the first.
//
// Oracle (the property's own statement, per request, judged by the code of c19_srv.go): the VERSION reply carries
// exactly the configured list; every unserved name is answered STATUS OP_UNSUPPORTED with the request's id and a
// following STAT is answered (the session continues); every advertised extension is served (effect checked on the
// tree); sessions given the same requests get the same answers; and THE PROCESS SURVIVES — a fatal error or a panic in a
// goroutine of the package ends every session of the process at once and is reported with the first lines of what the
// runtime printed.  A plan (the sessions, their options and steps) is a small JSON value from which every request is
// derived deterministically: it is the replay input, and failing plans are shrunk (sessions, steps, counts) by
// re-running them.

import (
	"bytes"
	"encoding/json"
	"fmt"
	"math/rand"
	"os"
	"os/exec"
	"path/filepath"
	"runtime"
	"sort"
	"strings"
	"sync"
	"time"

	"github.com/pkg/sftp"

	"verifharness/lib"
	"verifharness/wire"
)

func init() { children["c19sess"] = c19SessChild }

// c19SStep is a run of extended requests of one session; the requests are a pure function of the step.
//
//	gen = tagged    : N names "<tag><i>@vh.example" (new to the process unless another step has the same tag)
//	      long      : N names of Len bytes starting with the tag
//	      odd       : N PRNG names (random bytes; supported names with a byte flipped, dropped, inserted, swapped), from Seed
//	      fixed     : N names of the fixed list of unserved names (c19UnknownNames), starting at Off
//	      served    : N requests with supported names and valid arguments (all shapes of c19_srv.go), starting at Off
//	      malformed : N requests that do not decode (c19Malformed), starting at Off; each may end the session, which is then opened again
type c19SStep struct {
	Gen   string `json:"gen"`
	N     int    `json:"n"`
	Tag   string `json:"tag,omitempty"`
	Len   int    `json:"len,omitempty"`
	Seed  int64  `json:"seed,omitempty"`
	Off   int    `json:"off,omitempty"`
	Batch int    `json:"batch,omitempty"` // > 1: pipelined, this many requests written in one piece (unserved names only)
	Twice bool   `json:"twice,omitempty"` // the names of the step are sent a second time (names the process has seen by then)
}

type c19SSess struct {
	Kind    string     `json:"kind"` // os | rs
	Opts    []string   `json:"opts"`
	Ifaces  []string   `json:"ifaces,omitempty"`
	InitHex string     `json:"init_hex"`
	Steps   []c19SStep `json:"steps"`
}

type c19SPlan struct {
	Mode     string     `json:"mode"`           // concurrent | sequential
	Procs    int        `json:"gomaxprocs_min"` // the child raises GOMAXPROCS to this if it is lower
	Exts     []string   `json:"exts"`           // configured extension list
	Sessions []c19SSess `json:"sessions"`
}

// c19SessCase is the replay input of this section.
type c19SessCase struct {
	Sect  string   `json:"sect"` // "sessions"
	Plan  c19SPlan `json:"plan"`
	Tries int      `json:"tries,omitempty"` // the outcome depends on the schedule: run up to this many times
	Focus any      `json:"focus,omitempty"` // the session and request a reply-level failure was seen at
}

type c19SessIn struct {
	Case  c19SessCase `json:"case"`
	Tier  string      `json:"tier"`
	Seed  int64       `json:"seed"`
	Model string      `json:"model,omitempty"`
}

func (p c19SPlan) requests() int {
	n := 0
	for _, s := range p.Sessions {
		for _, st := range s.Steps {
			if st.Twice {
				n += st.N
			}
			n += st.N
		}
	}
	return n
}

func (p c19SPlan) text() string {
	b, _ := json.Marshal(p)
	return string(b)
}

func (p c19SPlan) clone() c19SPlan {
	var q c19SPlan
	b, _ := json.Marshal(p)
	json.Unmarshal(b, &q)
	return q
}

// ---------- the requests of a step ----------

var c19SArgKinds = []string{"none", "paths", "path", "handle", "raw", "cutstr"}

func c19ServedQs(names []string) []c19Q {
	var qs []c19Q
	for _, n := range names {
		for _, a := range []string{"std", "alt"} {
			if n == "hardlink@openssh.com" && a == "alt" {
				continue
			}
			qs = append(qs, c19Q{NameHex: lib.Hex([]byte(n)), Args: a}, c19Q{NameHex: lib.Hex([]byte(n)), Args: a, Rel: true})
		}
	}
	return qs
}

func c19StepQs(st c19SStep, names []string) []c19Q {
	rnd := rand.New(rand.NewSource(st.Seed ^ 0x5e5510))
	rot := int(uint64(st.Seed)%7) + st.Off + len(st.Tag)
	mk := func(i int, n string) c19Q {
		q := c19Q{NameHex: lib.Hex([]byte(n)), Args: c19SArgKinds[(i+rot)%len(c19SArgKinds)], Rel: i%2 == 1}
		if q.Args == "raw" {
			b := make([]byte, rnd.Intn(33))
			rnd.Read(b)
			q.RawHex = lib.Hex(b)
		}
		return q
	}
	var qs []c19Q
	n := st.N
	if n < 0 {
		n = 0
	}
	switch st.Gen {
	case "tagged":
		for i := 0; i < n; i++ {
			qs = append(qs, mk(i, fmt.Sprintf("%s%d@vh.example", st.Tag, i)))
		}
	case "long":
		for i := 0; i < n; i++ {
			nm := fmt.Sprintf("%s%d-", st.Tag, i)
			if len(nm) < st.Len {
				nm += strings.Repeat(string(rune('a'+i%26)), st.Len-len(nm))
			}
			qs = append(qs, mk(i, nm))
		}
	case "odd":
		for i := 0; i < n; i++ {
			qs = append(qs, mk(i, c19RandomName(rnd, names)))
		}
	case "fixed":
		l := c19UnknownNames(names, false)
		for i := 0; i < n; i++ {
			qs = append(qs, mk(i, l[(st.Off+i)%len(l)]))
		}
	case "served":
		l := c19ServedQs(names)
		for i := 0; i < n; i++ {
			qs = append(qs, l[(st.Off+i)%len(l)])
		}
	case "malformed":
		l := c19Malformed(names)
		for i := 0; i < n; i++ {
			qs = append(qs, l[(st.Off+i)%len(l)])
		}
	}
	if st.Twice {
		qs = append(qs, qs...)
	}
	return qs
}

// ---------- the child: one process serving the sessions of a plan ----------

// c19Barrier releases the sessions of a plan together (handshakes, steps). It is a pacing device, not an oracle: a
// session waits for the others for at most two seconds, and a session that has finished leaves.
type c19Barrier struct {
	mu      sync.Mutex
	n, wait int
	gen     chan struct{}
}

func c19NewBarrier(n int) *c19Barrier { return &c19Barrier{n: n, gen: make(chan struct{})} }

func (b *c19Barrier) release() {
	close(b.gen)
	b.gen = make(chan struct{})
	b.wait = 0
}

func (b *c19Barrier) arrive() {
	if b == nil {
		return
	}
	b.mu.Lock()
	b.wait++
	if b.wait >= b.n {
		b.release()
		b.mu.Unlock()
		return
	}
	ch := b.gen
	b.mu.Unlock()
	select {
	case <-ch:
	case <-time.After(2 * time.Second):
		b.mu.Lock()
		if ch == b.gen && b.wait > 0 { // still the same round: stop waiting, the others go on when they arrive
			b.wait--
		}
		b.mu.Unlock()
	}
}

func (b *c19Barrier) leave() {
	if b == nil {
		return
	}
	b.mu.Lock()
	b.n--
	if b.wait > 0 && b.wait >= b.n {
		b.release()
	}
	b.mu.Unlock()
}

func c19SessChild(args []string) {
	if len(args) < 2 {
		fmt.Fprintln(os.Stderr, "vh child c19sess <in.json> <out.json>")
		os.Exit(2)
	}
	var in c19SessIn
	b, err := os.ReadFile(args[0])
	if err == nil {
		err = json.Unmarshal(b, &in)
	}
	if err != nil {
		fmt.Fprintln(os.Stderr, "vh child c19sess:", err)
		os.Exit(2)
	}
	r := lib.NewResult("C19", in.Tier, in.Seed)
	c := &lib.Ctx{Tier: in.Tier, Seed: in.Seed, ModelPath: in.Model, Rand: rand.New(rand.NewSource(in.Seed)), R: r}
	c19SessRun(c, in.Case.Plan)
	if err := r.Write(args[1]); err != nil {
		fmt.Fprintln(os.Stderr, "vh child c19sess:", err)
		os.Exit(2)
	}
}

func c19SessRun(c *lib.Ctx, plan c19SPlan) {
	r := c.R
	if plan.Procs > runtime.GOMAXPROCS(0) {
		runtime.GOMAXPROCS(plan.Procs)
	}
	var names []string
	data := map[string]string{}
	for _, e := range sftp.VerifSupportedExtensions() {
		names = append(names, e[0])
		data[e[0]] = e[1]
	}
	defer sftp.SetSFTPExtensions(names...)
	if plan.Exts == nil {
		plan.Exts = []string{}
	}
	if err := sftp.SetSFTPExtensions(plan.Exts...); err != nil {
		r.Fail(lib.Failure{Kind: "tie", Key: "sessions/plan", What: "configured list of the plan is refused: " + err.Error()})
		return
	}
	scratch, err := lib.MkScratch("vh-c19s-")
	if err != nil {
		r.Fail(lib.Failure{Kind: "tie", Key: "tmpdir", What: err.Error()})
		return
	}
	defer os.RemoveAll(scratch)
	n := len(plan.Sessions)
	sinks := make([]*c19Sink, n)
	trs := make([][]string, n)
	for i := range sinks {
		sinks[i] = &c19Sink{}
	}
	if plan.Mode == "sequential" {
		for si := 0; si < n; si++ {
			trs[si] = c19SessOne(c, &plan, si, names, data, scratch, nil, sinks[si])
		}
	} else {
		bar := c19NewBarrier(n)
		var wg sync.WaitGroup
		for si := 0; si < n; si++ {
			wg.Add(1)
			go func(si int) {
				defer wg.Done()
				defer bar.leave()
				trs[si] = c19SessOne(c, &plan, si, names, data, scratch, bar, sinks[si])
			}(si)
		}
		wg.Wait() // every wait inside a session is bounded by the hang budget
	}
	agg := &c19Sink{}
	for si, sk := range sinks {
		// what the session recorded; its failures are re-keyed and get the plan as their input
		tmp := lib.NewResult(r.Property, r.Tier, r.Seed)
		for _, op := range sk.ops {
			op(tmp)
		}
		fs := tmp.Failures
		tmp.Failures = nil
		if b, err := json.Marshal(tmp); err == nil {
			r.Absorb(b)
		}
		for _, f := range fs {
			f.Key = "sessions/" + plan.Mode + "/" + f.Key
			f.What = fmt.Sprintf("%s (session %d of %d served by one process, %s)", f.What, si, n, plan.Mode)
			f.Input = c19SessCase{Sect: "sessions", Plan: plan, Tries: c19SessTries, Focus: map[string]any{"session": si, "case": f.Input}}
			r.Fail(f)
		}
		agg.merge(sk)
	}
	// sessions given the same requests must have been answered alike
	first := map[string]int{}
	for si, ss := range plan.Sessions {
		b, _ := json.Marshal(ss)
		k := string(b)
		fi, ok := first[k]
		if !ok {
			first[k] = si
			continue
		}
		r.Case(fmt.Sprintf("sessions %s same-script %d vs %d %s", plan.Mode, fi, si, k), true)
		r.Hist("sessions-" + plan.Mode + "-same-script-pair")
		a, bb := trs[fi], trs[si]
		if c19TrCut(a) || c19TrCut(bb) {
			continue // cut short by the budgets: nothing to compare
		}
		at := -1
		for i := 0; i < len(a) || i < len(bb); i++ {
			if i >= len(a) || i >= len(bb) || a[i] != bb[i] {
				at = i
				break
			}
		}
		if at < 0 {
			continue
		}
		get := func(t []string) string {
			if at < len(t) {
				return t[at]
			}
			return "(no such request: the transcript ended)"
		}
		r.Fail(lib.Failure{Kind: "oracle", Key: "sessions/" + plan.Mode + "/same-requests-different-answers/" + ss.Kind,
			What:     fmt.Sprintf("sessions %d and %d of one process were given the same requests and were answered differently (first difference at entry %d of the transcript)", fi, si, at),
			Input:    c19SessCase{Sect: "sessions", Plan: plan, Tries: c19SessTries, Focus: map[string]any{"sessions": []int{fi, si}, "entry": at}},
			Expected: get(a), Actual: get(bb)})
	}
	c19CompareModel(c, agg)
}

func c19TrCut(t []string) bool {
	for _, e := range t {
		if e == "stopped" {
			return true
		}
	}
	return false
}

func c19VKeys(vs []c19V) string {
	var k []string
	for _, v := range vs {
		k = append(k, v.Key)
	}
	return strings.Join(k, ",")
}

// c19SessOne drives one session through its steps and returns the transcript of outcome classes.
func c19SessOne(c *lib.Ctx, plan *c19SPlan, si int, names []string, data map[string]string, scratch string, bar *c19Barrier, sk *c19Sink) (tr []string) {
	ss := plan.Sessions[si]
	v := c19Variant{kind: ss.Kind, opts: ss.Opts, ifaces: ss.Ifaces}
	initBody := lib.UnHex(ss.InitHex)
	if len(initBody) < 4 {
		initBody = wire.B{}.U32(3)
	}
	class := "c19/" + ss.Kind
	pre := fmt.Sprintf("sessions %s %d/%d %s %v %v cfg=%v", plan.Mode, si, len(plan.Sessions), ss.Kind, ss.Opts, ss.Ifaces, plan.Exts)
	bar.arrive() // the handshakes of all sessions start together
	se, in, ok := c19Handshake(sk, v, plan.Exts, data, initBody, scratch, true)
	sk.Case(fmt.Sprintf("%s handshake init=%x", pre, initBody), true)
	sk.Hist("sessions-" + plan.Mode + "-handshake-" + ss.Kind)
	if !ok {
		return append(tr, "handshake-failed")
	}
	defer func() {
		if se != nil {
			se.close()
		}
	}()
	reopen := func() bool {
		se.close()
		sk.Hist("sessions-" + plan.Mode + "-reopened-" + ss.Kind)
		se, _, ok = c19Handshake(sk, v, plan.Exts, data, initBody, scratch, true)
		if !ok {
			se = nil
			tr = append(tr, "handshake-failed")
		}
		return ok
	}
	for sti, st := range ss.Steps {
		bar.arrive() // the steps of all sessions start together
		qs := c19StepQs(st, names)
		pipelined := st.Batch > 1 && st.Gen != "served" && st.Gen != "malformed"
		for qi := 0; qi < len(qs); {
			if c.StopN(class, len(qs)-qi) || lib.Stopped(c19ProbeClass(ss.Kind)) {
				return append(tr, "stopped")
			}
			if se.dead && !reopen() {
				return tr
			}
			if !pipelined {
				q := qs[qi]
				qi++
				cl, vs, obs := se.do(q, plan.Exts, names)
				one := in
				one.Mode = "serial"
				one.Q = []c19Q{q}
				e := cl
				for _, o := range obs {
					sk.Obs(o.Key, o.Got, one)
					e += "|" + o.Got
				}
				tr = append(tr, e+"|"+c19VKeys(vs))
				if cl == "not-run" {
					sk.Hist(lib.NotRunBucket)
					continue
				}
				sk.Case(fmt.Sprintf("%s step %d %s ext %v", pre, sti, st.Gen, q), cl != "known")
				sk.Hist("sessions-" + plan.Mode + "-" + ss.Kind + "-" + st.Gen + "-" + cl)
				c19Report(sk, one, vs)
				continue
			}
			// a pipelined batch: at most st.Batch requests and 256 KiB of names, written in one piece, then a STAT
			end, bytes := qi, 0
			for end < len(qs) && end-qi < st.Batch && (end == qi || bytes+len(qs[end].NameHex)/2 <= 256<<10) {
				bytes += len(qs[end].NameHex) / 2
				end++
			}
			batch := qs[qi:end]
			qi = end
			one := in
			one.Mode = "pipelined"
			one.Q = batch
			sk.Case(fmt.Sprintf("%s step %d %s pipelined %v", pre, sti, st.Gen, batch), true)
			sk.HistAdd("sessions-"+plan.Mode+"-"+ss.Kind+"-"+st.Gen+"-pipelined", len(batch))
			vs, obs := se.pipelined(batch, plan.Exts, names)
			e := "batch"
			for _, o := range obs {
				sk.Obs(o.Key, o.Got, one)
				e += "|" + o.Got
			}
			tr = append(tr, e+"|"+c19VKeys(vs))
			c19Report(sk, one, vs)
		}
	}
	if !se.dead && !c.Stop(c19ProbeClass(ss.Kind)) {
		if act, ok := se.alive(); !ok {
			one := in
			one.Mode = "serial"
			sk.Fail(lib.Failure{Kind: "oracle", Key: "server/session-ended-after-extended/" + se.kindKey(), What: "the session does not continue after its extended requests", Input: one, Actual: act})
			tr = append(tr, "not-alive")
		}
	}
	return tr
}

func (s *c19Sink) HistAdd(k string, n int) {
	s.ops = append(s.ops, func(r *lib.Result) { r.HistAdd(k, n) })
}

// ---------- the parent: plans, child processes, shrinking ----------

const c19SessTries = 12

type c19SessOut struct {
	res     *lib.Result // what the child recorded (nil: it did not finish)
	died    string      // the process died: first line of the runtime's message (or the exit status)
	stderr  string      // the first lines of what it printed
	pkg     bool        // the runtime's message or the stack names the package
	harness string      // the run could not be done or judged (not an observation about the package)
	ms      int64
}

var c19SessSeq int

// c19SessExec runs one plan in a child process.
func c19SessExec(c *lib.Ctx, dir string, plan c19SPlan, model bool) (out c19SessOut) {
	c19SessSeq++
	inF := filepath.Join(dir, fmt.Sprintf("s%d.in.json", c19SessSeq))
	outF := filepath.Join(dir, fmt.Sprintf("s%d.out.json", c19SessSeq))
	defer os.Remove(inF)
	defer os.Remove(outF)
	in := c19SessIn{Case: c19SessCase{Sect: "sessions", Plan: plan}, Tier: c.Tier, Seed: c.Seed}
	if model {
		in.Model = c.ModelPath
	}
	b, _ := json.Marshal(in)
	if err := os.WriteFile(inF, b, 0o644); err != nil {
		return c19SessOut{harness: err.Error()}
	}
	t0 := time.Now()
	cmd := exec.Command(os.Args[0], "child", "c19sess", inF, outF)
	cmd.Env = append(os.Environ(), "GOTRACEBACK=all", "GOMEMLIMIT=4GiB")
	var se bytes.Buffer
	cmd.Stderr = &se
	if err := cmd.Start(); err != nil {
		return c19SessOut{harness: err.Error()}
	}
	defer lib.KeepAlive()()
	done := make(chan error, 1)
	go func() { done <- cmd.Wait() }()
	// the child bounds every wait by the hang budget and stops at the soft deadline; the kill is the backstop behind that
	limit := max(2*time.Minute, min(10*time.Minute, lib.Remaining()+time.Minute))
	var werr error
	select {
	case werr = <-done:
	case <-time.After(limit):
		lib.SpendHang("c19/sessions/"+plan.Mode, limit)
		cmd.Process.Kill()
		<-done
		return c19SessOut{harness: fmt.Sprintf("the process serving the sessions did not finish within %v and was killed", limit), ms: time.Since(t0).Milliseconds()}
	}
	out.ms = time.Since(t0).Milliseconds()
	if werr != nil {
		text := se.String()
		lines := strings.Split(text, "\n")
		out.died = werr.Error()
		for _, l := range lines {
			if strings.HasPrefix(l, "panic:") || strings.HasPrefix(l, "fatal error:") || strings.HasPrefix(l, "SIG") || strings.HasPrefix(l, "unexpected fault") {
				out.died = werr.Error() + ": " + l
				break
			}
		}
		// the goroutine that failed comes first: its frames say whether the package was running
		head := lines
		if len(head) > 28 {
			head = head[:28]
		}
		out.stderr = strings.Join(head, "\n")
		out.pkg = strings.Contains(out.stderr, "github.com/pkg/sftp.")
		return out
	}
	ob, err := os.ReadFile(outF)
	var res lib.Result
	if err == nil {
		err = json.Unmarshal(ob, &res)
	}
	if err != nil {
		return c19SessOut{harness: "result of the process serving the sessions: " + err.Error(), ms: out.ms}
	}
	out.res = &res
	return out
}

// c19SessSig is what a failing run shows: the key of the death, or the keys of the oracle failures of the sessions.
func c19SessSig(plan c19SPlan, o c19SessOut) []string {
	if o.died != "" {
		return []string{"sessions/process-died/" + plan.Mode}
	}
	var ks []string
	if o.res != nil {
		seen := map[string]bool{}
		for _, f := range o.res.Failures {
			if f.Kind == "oracle" && strings.HasPrefix(f.Key, "sessions/") && !seen[f.Key] {
				seen[f.Key] = true
				ks = append(ks, f.Key)
			}
		}
	}
	sort.Strings(ks)
	return ks
}

// c19SessShrink looks for a smaller plan that still shows key: fewer sessions, fewer steps, fewer requests. The
// outcome may depend on the schedule, so every candidate gets up to `tries` runs; the number of child runs is bounded.
func c19SessShrink(c *lib.Ctx, dir string, plan c19SPlan, key string, runs int, until time.Time) (c19SPlan, c19SessOut, int) {
	var best c19SessOut
	used := 0
	// a candidate is taken only if it shows the key in two runs out of two (a replay must reproduce it)
	fails := func(p c19SPlan) bool {
		var last c19SessOut
		for t := 0; t < 2; t++ {
			if used >= runs || !time.Now().Before(until) || c.Expired() {
				return false
			}
			used++
			last = c19SessExec(c, dir, p, false)
			hit := false
			for _, k := range c19SessSig(p, last) {
				hit = hit || k == key
			}
			if !hit {
				return false
			}
		}
		best = last
		return true
	}
	cur := plan
	// sessions: halves first, then one at a time
	for changed := true; changed && len(cur.Sessions) > 1; {
		changed = false
		h := len(cur.Sessions) / 2
		for _, keep := range [][2]int{{0, h}, {h, len(cur.Sessions)}} {
			if keep[1]-keep[0] < 1 || keep[1]-keep[0] == len(cur.Sessions) {
				continue
			}
			if keep[1]-keep[0] < 2 && cur.Mode != "sequential" && len(cur.Sessions) > 2 {
				continue // try two sessions before one
			}
			p := cur.clone()
			p.Sessions = p.Sessions[keep[0]:keep[1]]
			if fails(p) {
				cur, changed = p, true
				break
			}
		}
	}
	// steps: keep one kind of step at a time in all sessions, then drop single steps
	gens := map[string]bool{}
	var order []string
	for _, s := range cur.Sessions {
		for _, st := range s.Steps {
			if !gens[st.Gen] {
				gens[st.Gen] = true
				order = append(order, st.Gen)
			}
		}
	}
	if len(order) > 1 {
		for _, g := range order {
			p := cur.clone()
			for i := range p.Sessions {
				var keep []c19SStep
				for _, st := range p.Sessions[i].Steps {
					if st.Gen == g {
						keep = append(keep, st)
					}
				}
				p.Sessions[i].Steps = keep
			}
			if p.requests() > 0 && fails(p) {
				cur = p
				break
			}
		}
	}
	for i := range cur.Sessions {
		for chunk := len(cur.Sessions[i].Steps) / 2; chunk >= 1; {
			removed := false
			for from := 0; from+chunk <= len(cur.Sessions[i].Steps) && len(cur.Sessions[i].Steps) > chunk; from += chunk {
				p := cur.clone()
				st := p.Sessions[i].Steps
				p.Sessions[i].Steps = append(append([]c19SStep{}, st[:from]...), st[from+chunk:]...)
				if fails(p) {
					cur, removed = p, true
					break
				}
			}
			if !removed {
				chunk /= 2
			} else if chunk > len(cur.Sessions[i].Steps)/2 {
				chunk = len(cur.Sessions[i].Steps) / 2
			}
		}
	}
	// counts: halve
	for again := true; again; {
		again = false
		p := cur.clone()
		for i := range p.Sessions {
			for j := range p.Sessions[i].Steps {
				st := &p.Sessions[i].Steps[j]
				if st.N > 8 {
					st.N /= 2
					again = true
				}
			}
		}
		if !again || !fails(p) {
			break
		}
		cur = p
	}
	return cur, best, used
}

func c19SessOpts(rnd *rand.Rand, kind string) (opts, ifaces []string) {
	pool := c19RSOptNames
	if kind == "os" {
		pool = c19OSOptNames
	}
	opts = []string{}
	for _, o := range pool {
		if rnd.Intn(3) == 0 {
			opts = append(opts, o)
		}
	}
	if kind == "rs" {
		ifaces = c19Subsets(c19RSIfaceNames)[rnd.Intn(1<<len(c19RSIfaceNames))]
	}
	return opts, ifaces
}

// c19SessPlan builds one plan: n sessions; every session gets the steps of a common schedule with tags, seeds and
// counts of its own, so that the sessions do the same kind of thing at the same time.
func c19SessPlan(rnd *rand.Rand, id string, mode string, n int, scale int, names []string) c19SPlan {
	exts := []string{}
	for _, i := range rnd.Perm(len(names)) {
		if rnd.Intn(4) != 0 {
			exts = append(exts, names[i])
		}
	}
	plan := c19SPlan{Mode: mode, Procs: 4, Exts: exts}
	inits := c19Inits(false)
	type slot struct {
		gen    string
		shared bool
	}
	sched := []slot{{"tagged", false}, {"tagged", true}, {"odd", false}, {"served", false}, {"fixed", false}, {"long", false}, {"malformed", false}, {"tagged", false}}
	rnd.Shuffle(len(sched), func(i, j int) { sched[i], sched[j] = sched[j], sched[i] })
	batches := []int{0, 0, 16, 64}
	lens := []int{255, 256, 1024, 4096, 32768, 65536}
	mkSess := func(si int, kind string) c19SSess {
		opts, ifaces := c19SessOpts(rnd, kind)
		s := c19SSess{Kind: kind, Opts: opts, Ifaces: ifaces, InitHex: lib.Hex(inits[rnd.Intn(len(inits))])}
		for gi, sl := range sched {
			st := c19SStep{Gen: sl.gen}
			switch sl.gen {
			case "tagged":
				st.Tag = fmt.Sprintf("%s-s%d-g%d-", id, si, gi)
				st.N = scale * (30 + rnd.Intn(50))
				if sl.shared { // the same names, new to the process, in every session at the same step
					st.Tag = fmt.Sprintf("%s-all-g%d-", id, gi)
					st.N = scale * 40
				}
				st.Batch = batches[rnd.Intn(len(batches))]
				st.Twice = rnd.Intn(3) == 0
			case "odd":
				st.Seed = rnd.Int63() >> 11 // 52 bits: the plan survives a trip through JSON numbers
				st.N = scale * (15 + rnd.Intn(30))
				st.Batch = batches[rnd.Intn(len(batches))]
			case "fixed":
				st.Off = rnd.Intn(200)
				st.N = 20 + rnd.Intn(30)
				st.Batch = batches[rnd.Intn(len(batches))]
			case "long":
				st.Tag = fmt.Sprintf("%s-s%d-g%d-", id, si, gi)
				st.Len = lens[rnd.Intn(len(lens))]
				st.N = 3 + rnd.Intn(4)
				st.Twice = rnd.Intn(2) == 0
			case "served":
				st.Off = rnd.Intn(20)
				st.N = 5 + rnd.Intn(6)
			case "malformed":
				st.Off = rnd.Intn(40)
				st.N = 1 + rnd.Intn(2)
			}
			s.Steps = append(s.Steps, st)
		}
		return s
	}
	if mode == "sequential" {
		// the same two scripts (one per kind), served three times each, alternating
		a, b := mkSess(0, "os"), mkSess(1, "rs")
		for i := 0; i < n; i++ {
			if i%2 == 0 {
				plan.Sessions = append(plan.Sessions, a)
			} else {
				plan.Sessions = append(plan.Sessions, b)
			}
		}
		return plan
	}
	first := rnd.Intn(2)
	for si := 0; si < n; si++ {
		kind := []string{"os", "rs"}[rnd.Intn(2)]
		if si < 2 {
			kind = []string{"os", "rs"}[(si+first)%2] // both kinds in every plan
		}
		plan.Sessions = append(plan.Sessions, mkSess(si, kind))
	}
	if n >= 3 {
		plan.Sessions[n-1] = plan.Sessions[0] // two sessions with the very same requests at the same time
	}
	return plan
}

// c19Sessions is the section's driver. It reports whether a process serving sessions died (the harness process then
// does not serve sessions side by side itself).
func c19Sessions(c *lib.Ctx, only *c19SessCase) (procDied bool) {
	r := c.R
	dir, err := lib.MkScratch("vh-c19-sessions-")
	if err != nil {
		r.Fail(lib.Failure{Kind: "tie", Key: "tmpdir", What: err.Error()})
		return false
	}
	defer os.RemoveAll(dir)
	thorough := c.Tier == "thorough"
	var names []string
	for _, e := range sftp.VerifSupportedExtensions() {
		names = append(names, e[0])
	}
	type job struct {
		plan  c19SPlan
		tries int
	}
	var jobs []job
	if only != nil {
		t := only.Tries
		if t < 1 {
			t = 1
		}
		jobs = append(jobs, job{only.Plan, min(t, 16)})
	} else {
		rnd := rand.New(rand.NewSource(c.Rand.Int63()))
		counts := []int{2, 3, 4, 6, 8, 2 + rnd.Intn(7)}
		scale, nseq := 2, 2
		if thorough {
			counts = nil
			for i := 0; i < 63; i++ {
				counts = append(counts, 2+i%7)
			}
			scale, nseq = 6, 8
		}
		for i, n := range counts {
			jobs = append(jobs, job{c19SessPlan(rnd, fmt.Sprintf("c%d", i), "concurrent", n, scale, names), 1})
		}
		for i := 0; i < nseq; i++ {
			jobs = append(jobs, job{c19SessPlan(rnd, fmt.Sprintf("q%d", i), "sequential", 6, scale, names), 1})
		}
	}
	shrinkRuns, shrinkFor := 40, 8*time.Second
	if thorough {
		shrinkRuns, shrinkFor = 120, 60*time.Second
	}
	shrunk := map[string]bool{}
	var shrinkUntil time.Time
	noted := map[string]bool{}
	var totalMs int64
	nRuns := 0
	for _, j := range jobs {
		plan := j.plan
		class := "c19/sessions/" + plan.Mode
		if only == nil && c.Stop(class) {
			continue
		}
		r.Case("sessions "+plan.text(), true)
		r.Hist("sessions-" + plan.Mode + "-plan")
		r.Hist(fmt.Sprintf("sessions-%s-%d-servers", plan.Mode, len(plan.Sessions)))
		r.HistAdd("sessions-"+plan.Mode+"-requests-planned", plan.requests())
		var o c19SessOut
		var sig []string
		for t := 0; t < j.tries; t++ {
			o = c19SessExec(c, dir, plan, true)
			totalMs += o.ms
			nRuns++
			if sig = c19SessSig(plan, o); len(sig) > 0 || o.harness != "" {
				break
			}
			if t+1 < j.tries && o.res != nil {
				o.res.Failures = nil // counted once, by the last run
			}
		}
		if o.harness != "" {
			r.Fail(lib.Failure{Kind: "tie", Key: "sessions/child", What: o.harness, Input: c19SessCase{Sect: "sessions", Plan: plan, Tries: c19SessTries}})
			continue
		}
		// a smaller plan showing the same, once per key
		small := map[string]c19SPlan{}
		if only == nil {
			for _, k := range sig {
				if shrunk[k] {
					continue
				}
				shrunk[k] = true
				// the shrinking of a whole run is bounded: shrinkRuns child runs and shrinkFor of wall time for all keys together
				if shrinkUntil.IsZero() {
					shrinkUntil = time.Now().Add(shrinkFor)
				}
				sp, so, used := c19SessShrink(c, dir, plan, k, shrinkRuns, shrinkUntil)
				nRuns += used
				shrinkRuns -= used
				if sp.requests() < plan.requests() || len(sp.Sessions) < len(plan.Sessions) {
					small[k] = sp
					if k == "sessions/process-died/"+plan.Mode && so.died != "" {
						o.died, o.stderr, o.pkg = so.died, so.stderr, so.pkg
					}
				}
			}
		}
		if o.died != "" {
			procDied = true
			key := "sessions/process-died/" + plan.Mode
			in := plan
			if sp, ok := small[key]; ok {
				in = sp
			}
			kind := "oracle"
			what := fmt.Sprintf("the process serving %d sessions (%s) died: %s — every session of the process ends and the requests in flight are never answered", len(in.Sessions), in.Mode, o.died)
			if !o.pkg {
				kind = "tie"
				what = fmt.Sprintf("the process serving %d sessions (%s) died without a frame of the package among the first lines it printed: %s", len(in.Sessions), in.Mode, o.died)
			}
			r.Fail(lib.Failure{Kind: kind, Key: key, What: what, Input: c19SessCase{Sect: "sessions", Plan: in, Tries: c19SessTries},
				Expected: "every request of every session is answered (unserved names: STATUS OP_UNSUPPORTED with the request's id, the session continues) and the process lives", Actual: o.stderr})
			continue
		}
		for i := range o.res.Failures {
			f := &o.res.Failures[i]
			if sp, ok := small[f.Key]; ok {
				f.Input = c19SessCase{Sect: "sessions", Plan: sp, Tries: c19SessTries, Focus: "shrunk: re-run to see the session and request"}
			}
		}
		o.res.Rule = ""
		var notes []string
		for _, n := range o.res.Notes { // one note of a kind is enough
			k := n[:min(len(n), 8)]
			if !noted[k] {
				noted[k] = true
				notes = append(notes, "sessions (first plan): "+n)
			}
		}
		o.res.Notes = notes
		if b, err := json.Marshal(o.res); err == nil {
			r.Absorb(b)
		}
	}
	r.Note("sessions: %d plans (%d runs of a child process serving 2…8 sessions, %.1f s in all)", len(jobs), nRuns, float64(totalMs)/1000)
	return procDied
}
