package main

// C02, VOLUME: races between the two lanes of a server — the pool of read/write workers and the single command
// worker — whose window is a few instructions wide (a READ / WRITE being looked up in the handle table at the instant
// an OPEN / OPENDIR / CLOSE registers or removes a handle, …) do not show in a few thousand pipelines of which each
// runs once. A churn case keeps ONE session busy for a fixed time: un-gated batches of 8…24 READ / WRITE requests on
// long-lived handles with 1…3 command requests among them (OPEN, OPENDIR and CLOSE of OTHER handles, FSTAT, STAT,
// READDIR), batch after batch, tens of thousands of lane crossings per second. After every batch: one reply per
// request, in arrival order, with the request's id, of a legal type, READs with the bytes of the file. The cases go
// first in the batch of a run and run side by side with the rest (wall cost: that of one case).

import (
	"bytes"
	"fmt"
	"math/rand"
	"os"
	"path/filepath"
	"time"

	"github.com/pkg/sftp"

	"verifharness/lib"
	"verifharness/peers"
	"verifharness/wire"
)

type c02Churn struct {
	Server string `json:"server"`
	Alloc  bool   `json:"alloc,omitempty"`
	Ms     int    `json:"duration_ms"`
	Seed   int64  `json:"seed"`
}

func (ch c02Churn) text() string {
	return fmt.Sprintf("churn %s alloc=%v %d ms seed=%d", ch.Server, ch.Alloc, ch.Ms, ch.Seed)
}

const c02ChurnFile = 65536 // bytes of the file that is read throughout

func c02ChurnRun(ch c02Churn, job c02Job, scratch string) gSummary {
	s := gSummary{Text: ch.text(), Nontrivial: true}
	hist := func(k string) { s.Hist = append(s.Hist, k) }
	srvName := ch.Server
	k := lib.NewCase(gClass("c02", srvName))
	rng := rand.New(rand.NewSource(ch.Seed))
	rounds, sent := 0, 0
	var last []string // the batch in flight, for the report
	fail := func(kind, key, what string, exp, act any) gSummary {
		s.Fails = append(s.Fails, lib.Failure{Kind: kind, Key: key, What: what, Input: job, Expected: exp,
			Actual: map[string]any{"seen": act, "round": rounds, "requests_answered_before": sent, "batch_in_flight": last}})
		return s
	}
	hist("server=" + srvName)
	hist("mode=churn/" + srvName)
	hist("config=" + srvName + "/" + c02SrvCfg{Alloc: ch.Alloc}.text())

	root := "/"
	var srv *peers.Srv
	if srvName == "os" {
		root = filepath.Join(scratch, "churn")
		os.RemoveAll(root)
		if err := os.MkdirAll(filepath.Join(root, "dir"), 0o755); err != nil {
			return fail("tie", "harness/tree", err.Error(), nil, nil)
		}
		defer os.RemoveAll(root)
		var opts []sftp.ServerOption
		if ch.Alloc {
			opts = append(opts, sftp.WithAllocator())
		}
		var err error
		if srv, err = peers.StartOS(opts...); err != nil {
			return fail("tie", "harness/server-start", err.Error(), nil, nil)
		}
	} else {
		var opts []sftp.RequestServerOption
		if ch.Alloc {
			opts = append(opts, sftp.WithRSAllocator())
		}
		srv = peers.StartRS(sftp.InMemHandler(), opts...)
	}
	defer func() {
		srv.CloseInput()
		d := gDeadline
		if k.Hung() > 0 { // a server that has stopped answering is not waited for once more
			d = time.Second
		}
		hCleanupSrv(srv, k.Class(), d)
	}()
	pth := func(n string) string { return filepath.Join(root, n) }
	if v, err := hHandshake(srv, k); err != nil || v.Typ != wire.Version {
		return fail("tie", "harness/handshake", fmt.Sprint(err, v.Typ), nil, nil)
	}
	id := uint32(0)
	call := func(f func(id uint32) []byte) (wire.Pkt, error) {
		id++
		return hCall(srv, k, f(id))
	}
	handleOf := func(p wire.Pkt, err error) (string, bool) {
		if err != nil || p.Typ != wire.Handle || len(p.Body) < 8 {
			return "", false
		}
		d := wire.D{B: p.Body[4:]}
		return d.Str(), true
	}
	// the objects: /data (read throughout), /sink (written throughout), /other (opened and closed all the time), /dir
	content := gContent("churn", 0, c02ChurnFile)
	setupFail := func(what string, p wire.Pkt, err error) gSummary {
		return fail("tie", "harness/churn-setup", what, nil, fmt.Sprint(gFrameText(p), " ", err))
	}
	if srvName == "rs" {
		if p, err := call(func(id uint32) []byte { return wire.Req(wire.Mkdir, id, wire.B{}.Str(pth("dir")).U32(0)) }); err != nil || p.Typ != wire.Status {
			return setupFail("MKDIR", p, err)
		}
	}
	for _, n := range []string{"data", "other", "sink"} {
		h, ok := handleOf(call(func(id uint32) []byte {
			return wire.Req(wire.Open, id, wire.B{}.Str(pth(n)).U32(wire.FWrite|wire.FCreat|wire.FTrunc).U32(0))
		}))
		if !ok {
			return setupFail("creating "+n, wire.Pkt{}, nil)
		}
		for off := 0; off < c02ChurnFile && n != "sink"; off += 16384 {
			if p, err := call(func(id uint32) []byte {
				return wire.Req(wire.Write, id, wire.B{}.Str(h).U64(uint64(off)).Bytes(content[off:off+16384]))
			}); err != nil || p.Typ != wire.Status || gParseStatus(p).Code != wire.OK {
				return setupFail("filling "+n, p, err)
			}
		}
		if p, err := call(func(id uint32) []byte { return wire.Req(wire.Close, id, wire.B{}.Str(h)) }); err != nil || p.Typ != wire.Status {
			return setupFail("closing "+n, p, err)
		}
	}
	hData, ok1 := handleOf(call(func(id uint32) []byte {
		return wire.Req(wire.Open, id, wire.B{}.Str(pth("data")).U32(wire.FRead).U32(0))
	}))
	hSink, ok2 := handleOf(call(func(id uint32) []byte {
		return wire.Req(wire.Open, id, wire.B{}.Str(pth("sink")).U32(wire.FWrite).U32(0))
	}))
	if !ok1 || !ok2 {
		return setupFail("opening the long-lived handles", wire.Pkt{}, nil)
	}

	type want struct {
		id   uint32
		kind string
		off  int
		n    int
	}
	var files, dirs []string // handles opened by earlier batches (their HANDLE replies were read)
	kinds := map[string]int{}
	end := time.Now().Add(time.Duration(ch.Ms) * time.Millisecond)
	for time.Now().Before(end) && !lib.Expired() {
		var stream []byte
		var ws []want
		last = last[:0]
		add := func(kind string, fr []byte, off, n int) {
			ws = append(ws, want{id, kind, off, n})
			stream = append(stream, fr...)
			last = append(last, fmt.Sprintf("%s#%d", kind, id))
		}
		nrw := 8 + rng.Intn(17)
		ncmd := 1 + rng.Intn(3)
		cmdAt := map[int]bool{}
		for len(cmdAt) < ncmd {
			cmdAt[rng.Intn(nrw+1)] = true
		}
		cmd := func() {
			id++
			switch r := rng.Intn(10); {
			case r < 3:
				add("open", wire.Req(wire.Open, id, wire.B{}.Str(pth("other")).U32(wire.FRead).U32(0)), 0, 0)
			case r < 6 && len(files) > 0:
				h := files[len(files)-1]
				files = files[:len(files)-1]
				add("close", wire.Req(wire.Close, id, wire.B{}.Str(h)), 0, 0)
			case r < 7:
				add("opendir", wire.Req(wire.Opendir, id, wire.B{}.Str(pth("dir"))), 0, 0)
			case r < 8 && len(dirs) > 0:
				h := dirs[len(dirs)-1]
				dirs = dirs[:len(dirs)-1]
				add("close", wire.Req(wire.Close, id, wire.B{}.Str(h)), 0, 0)
			case r < 9:
				add("fstat", wire.Req(wire.Fstat, id, wire.B{}.Str(hData)), 0, 0)
			default:
				add("stat", wire.Req(wire.Stat, id, wire.B{}.Str(pth("data"))), 0, 0)
			}
		}
		for i := 0; i <= nrw; i++ {
			if cmdAt[i] {
				cmd()
			}
			if i == nrw {
				break
			}
			id++
			if rng.Intn(4) == 0 {
				n := 1 + rng.Intn(512)
				off := rng.Intn(c02ChurnFile - n)
				add("write", wire.Req(wire.Write, id, wire.B{}.Str(hSink).U64(uint64(off)).Bytes(content[off:off+n])), off, n)
			} else {
				n := 1 + rng.Intn(4096)
				off := rng.Intn(c02ChurnFile - n)
				add("read", wire.Req(wire.Read, id, wire.B{}.Str(hData).U64(uint64(off)).U32(uint32(n))), off, n)
			}
		}
		// sent by a goroutine of its own: a server that has stopped shows as a missing reply, not as a blocked write
		sendErr := make(chan error, 1)
		go func(b []byte) { sendErr <- srv.Send(b) }(stream)
		for i, w := range ws {
			f, err := hRecv(srv, k, gDeadlineNow())
			if err != nil {
				return fail("oracle", "count/missing-response/"+srvName, fmt.Sprintf("round %d of an un-gated session that had answered %d requests: reply %d of %d of the batch (%s#%d) did not arrive: %v — the server stopped answering", rounds, sent, i+1, len(ws), w.kind, w.id, err),
					"one reply per request", nil)
			}
			if f.ID() != w.id {
				return fail("oracle", "order/id-mismatch/"+srvName, fmt.Sprintf("reply %d of the batch does not carry the id of request %d of the batch", i+1, i+1), w.id, gFrameText(f))
			}
			succ := gSuccessType(w.kind)
			okStatus := f.Typ == wire.Status && gParseStatus(f).Code == wire.OK
			if !(f.Typ == succ || f.Typ == wire.Status) || (succ != wire.Status && okStatus) {
				return fail("oracle", fmt.Sprintf("legal-type/%s/%s->%s", srvName, w.kind, gTypeName(f.Typ)), w.kind+" answered with "+gFrameText(f), gTypeName(succ)+" or an error STATUS", gFrameText(f))
			}
			switch {
			case f.Typ != succ || (succ == wire.Status && !okStatus):
				// every request of a churn names live objects: all of them succeed
				return fail("oracle", "data/status-outcome/"+srvName, fmt.Sprintf("%s on an open handle / an existing object failed", w.kind), "success", gFrameText(f))
			case w.kind == "read":
				d := wire.D{B: f.Body[4:]}
				if got := d.Bytes(); d.Err != nil || !bytes.Equal(got, content[w.off:w.off+w.n]) {
					return fail("oracle", "data/wrong-payload/"+srvName, "DATA reply is not the bytes of the file at the offset asked for", gDigest(content[w.off:w.off+w.n]), gDigest(got))
				}
			case w.kind == "open" || w.kind == "opendir":
				d := wire.D{B: f.Body[4:]}
				if w.kind == "open" {
					files = append(files, d.Str())
				} else {
					dirs = append(dirs, d.Str())
				}
			}
			kinds[w.kind]++
			sent++
		}
		if err, ok := lib.WaitCase(k, gDeadline, sendErr); !ok || err != nil {
			return fail("oracle", "input/send-blocked/"+srvName, fmt.Sprintf("the server did not take in the batch although it answered it: %v", err), nil, nil)
		}
		rounds++
		// keep the number of open handles bounded
		for len(files) > 40 || len(dirs) > 10 {
			hs := &files
			if len(dirs) > 10 {
				hs = &dirs
			}
			h := (*hs)[0]
			*hs = (*hs)[1:]
			if p, err := call(func(id uint32) []byte { return wire.Req(wire.Close, id, wire.B{}.Str(h)) }); err != nil || p.Typ != wire.Status {
				return fail("oracle", "count/missing-response/"+srvName, "CLOSE between two batches not answered", nil, fmt.Sprint(err))
			}
		}
	}
	bucket := "0…999"
	switch {
	case sent >= 100000:
		bucket = "100000+"
	case sent >= 10000:
		bucket = "10000…99999"
	case sent >= 1000:
		bucket = "1000…9999"
	}
	hist("churn/requests-answered=" + bucket)
	for kd := range kinds {
		hist("churn/request=" + kd)
	}
	s.Sample = map[string]any{"churn": ch, "rounds": rounds, "requests_answered": sent, "by_kind": kinds}
	return s
}
