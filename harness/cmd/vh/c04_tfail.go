package main

// C04, family "transport-fail": TRANSPORTS WHOSE METHODS FAIL, in every combination, and what holds at the moment
// Client.Close returns.
//
// The other families end a direction of the link and look at the calls.  Here the three methods of the transport the
// Client was given — Read of the io.Reader, Write and Close of the io.WriteCloser — misbehave the way real links do
// around a connection loss, crossed with the moment at which the connection is closed:
//
//   WriteCloser.Close   tears the link down (always: the peer sees its input end) and returns
//                         never        nil (io.Pipe, the other families),
//                         first        an error on the first call (tls.Conn.Close on a dead peer: the close_notify write
//                                      fails although the socket is closed),
//                         second       an error on every call but the first ("use of closed network connection",
//                                      os.ErrClosed: the receiver has closed the writer itself when it ended, the user's
//                                      own Client.Close is the second call — or the other way round),
//                         all          an error on every call,
//                         reader-ended an error iff the read side has already reported its terminal error (a half-broken
//                                      link whose write side notices only then),
//                         sticky       the error of the first failed Write, if one failed (buffered / encrypting writers
//                                      report the pending write error on Close);
//                       the error VALUE rotates through the table cliErrKinds.
//   what ends the read side once the writer is closed:
//                         peer         the peer, like a server that exits, ends its output D after its input ended
//                                      (D = 0, 1.5 ms, 25 ms; thorough also 200 µs, 8 ms),
//                         local        Close itself: the pending Read fails at once with an error value (net.Conn,
//                                      *os.File: one Close for both directions).
//   Read at the end     eof | err (value of the table) in a Read of its own, or data+err: the reply to one call in
//                       flight arrives with its last 1 … all bytes in the SAME Read call as the terminal error (n > 0,
//                       err != nil: that reply has been received completely, its caller gets it), or part+err: the same
//                       with the reply one byte short (a partial frame: that caller fails like the others).
//   Write               ok, or the k-th Write call after the answered calls fails — (0, err), or a SHORT write
//                       (0 < n < len, err: the first n bytes have left) — and every later one fails (0, err).
//
//   moments             close         Client.Close with N calls in flight (N = 0: idle), the link otherwise healthy;
//                       end+close     the peer ends the reply stream and Client.Close is called 0 … 120 µs apart, in
//                                     either order: Close during the receiver's shutdown;
//                       first-notify  the peer ends the reply stream; Client.Close is called the instant the first call
//                                     in flight has returned (the receiver is in the middle of its broadcast);
//                       after-wait    the peer ends the reply stream, Client.Wait has returned, then Client.Close: the
//                                     transport's Close is called for the second time.
//
// A few calls are answered before all that (their replies were received completely: they return them), N calls
// (Stat/Lstat/ReadLink/RealPath/Mkdir) are in flight on N goroutines unanswered, two goroutines sit in Client.Wait.
// Immediately after Close has returned ONE goroutine dump is taken (runtime.Stack stops the world) — the oracles of
// c04_atclose.go, exact, no time threshold:
//
//   * no goroutine started by pkg/sftp still executes package code (Close waits for the receiver, whatever the
//     transport's Close said);
//   * nobody is still parked in Client.Wait; no call is still parked waiting for its result;
//   * then, without any further event from the harness: Wait returns, every call that was in flight returns — with an
//     error, except the one whose reply was completed by the bytes that came with the terminal error —, a call started now
//     fails, a second Client.Close returns, the goroutine table is free of pkg/sftp (every wait through the hang budget).
//
// A case is T independent trials under a chosen GOMAXPROCS and stops at the first trial that fails.

import (
	"fmt"
	"io"
	"math/rand"
	"runtime"
	"sort"
	"strings"
	"sync"
	"sync/atomic"
	"time"

	"github.com/pkg/sftp"

	"verifharness/lib"
	"verifharness/wire"
)

const c04TFOp = "transport-fail"

// c04TF is the transport's behaviour and the moment of a transport-fail case (c04Case: At = calls in flight, Err = the
// Read error value, Tail = bytes that come with the terminal error, Procs, Trials, Seed).
type c04TF struct {
	Moment    string `json:"moment"`               // close | end+close | first-notify | after-wait
	CloseErr  string `json:"close_err"`            // never | first | second | all | reader-ended | sticky
	CloseErrV string `json:"close_errv,omitempty"` // error value of Close (cliErrKinds; sticky: the Write error itself)
	Ends      string `json:"ends"`                 // peer | local
	DelayUs   int    `json:"delay_us,omitempty"`   // peer: time between the end of its input and the end of its output
	Read      string `json:"read"`                 // eof | err | data+err | part+err
	Write     string `json:"write,omitempty"`      // "" | fail | short
	WriteAt   int    `json:"write_at,omitempty"`   // Write calls of the calls in flight that still succeed
	WriteErrV string `json:"write_errv,omitempty"`
	Answered  int    `json:"answered,omitempty"` // calls answered before the moment
}

var (
	c04TFMoments   = []string{"close", "end+close", "first-notify", "after-wait"}
	c04TFCloseErrs = []string{"never", "first", "second", "all", "reader-ended", "sticky"}
	c04TFReads     = []string{"eof", "err", "data+err", "part+err"}
)

// ---------- the transport ----------

// tfReader is the client's reader.  It forwards to the pipe; a stream ended by the peer with a held-back tail hands the
// tail out once everything before it has been read, its LAST bytes together with the terminal error (see faultReader);
// closeLocal makes the pending and every later Read fail with lerr (the transport was closed on this side).
type tfReader struct {
	r       *io.PipeReader
	mu      sync.Mutex
	tail    []byte
	terr    error
	dataErr int
	lerr    error
	local   atomic.Bool
	ended   atomic.Bool // a Read has returned the terminal error
}

func (f *tfReader) Read(p []byte) (int, error) {
	n, err := f.r.Read(p)
	if err == errFaultTail {
		f.mu.Lock()
		defer f.mu.Unlock()
		if len(p) == 0 && len(f.tail) > 0 {
			return 0, nil
		}
		n = copy(p, f.tail)
		f.tail = f.tail[n:]
		if len(f.tail) > 0 {
			return n, nil
		}
		if n > 0 {
			f.dataErr++
		}
		f.ended.Store(true)
		return n, f.terr
	}
	if err != nil {
		if n == 0 && f.local.Load() {
			err = f.lerr
		}
		f.ended.Store(true)
	}
	return n, err
}

func (f *tfReader) closeLocal() {
	f.local.Store(true)
	f.r.CloseWithError(f.lerr)
}

// tailLeft reports how many held-back bytes the client has not read, and how many Reads returned data with the error.
func (f *tfReader) tailState() (left, dataErr int) {
	f.mu.Lock()
	defer f.mu.Unlock()
	return len(f.tail), f.dataErr
}

// tfWriter is the client's WriteCloser.
type tfWriter struct {
	w  *io.PipeWriter
	rd *tfReader
	mu sync.Mutex
	// Write
	armed  bool
	wmode  string // "" | fail | short
	passN  int
	werr   error
	calls  int   // Write calls since arm
	failed int   // Write calls that returned an error
	sticky error // the first Write error
	// Close
	cmode     string
	cerr      error
	local     bool
	closes    int // Close calls
	closeErrs int // Close calls that returned an error
}

func (f *tfWriter) Write(p []byte) (int, error) {
	f.mu.Lock()
	if f.armed {
		call := f.calls
		f.calls++
		if f.wmode != "" && call >= f.passN {
			f.failed++
			first := f.failed == 1
			err := f.werr
			if first {
				f.sticky = err
			}
			f.mu.Unlock()
			if first && f.wmode == "short" && len(p) > 1 {
				// a short write: the first bytes have left, the rest never will
				m := len(p) / 2
				if n, perr := f.w.Write(p[:m]); perr != nil {
					return n, perr
				}
				return m, err
			}
			return 0, err
		}
	}
	f.mu.Unlock()
	return f.w.Write(p)
}

// Close tears the link down — whatever it returns.
func (f *tfWriter) Close() error {
	readerEnded := f.rd.ended.Load()
	f.mu.Lock()
	f.closes++
	n, sticky := f.closes, f.sticky
	f.mu.Unlock()
	f.w.Close()
	if f.local {
		f.rd.closeLocal()
	}
	var err error
	switch f.cmode {
	case "first":
		if n == 1 {
			err = f.cerr
		}
	case "second":
		if n >= 2 {
			err = f.cerr
		}
	case "all":
		err = f.cerr
	case "reader-ended":
		if readerEnded {
			err = f.cerr
		}
	case "sticky":
		err = sticky
	}
	if err != nil {
		f.mu.Lock()
		f.closeErrs++
		f.mu.Unlock()
	}
	return err
}

type tfCounts struct {
	WriteCalls     int `json:"write_calls_of_the_calls_in_flight"`
	WritesFailed   int `json:"write_calls_that_failed"`
	CloseCalls     int `json:"close_calls"`
	CloseCallsErrs int `json:"close_calls_that_returned_an_error"`
}

// tfObs counts, over the trials of a case, in how many of them the transport really did what the case asks for.
type tfObs struct {
	CloseErrAtReturn int `json:"trials_in_which_a_transport_Close_call_had_returned_an_error_when_Client.Close_returned"`
	SecondClose      int `json:"trials_in_which_Client.Close_made_the_second_transport_Close_call"`
	WritesFailed     int `json:"trials_in_which_a_Write_call_failed"`
	WholeWithErr     int `json:"trials_in_which_a_reply_was_completed_by_bytes_that_came_with_the_terminal_error"`
	ReadEndedBefore  int `json:"trials_in_which_the_read_side_had_ended_when_Client.Close_was_called"`
}

func (f *tfWriter) counts() tfCounts {
	f.mu.Lock()
	defer f.mu.Unlock()
	return tfCounts{f.calls, f.failed, f.closes, f.closeErrs}
}

// ---------- the peer ----------

type tfPeer struct {
	c2sR      *io.PipeReader
	s2cW      *io.PipeWriter
	rd        *tfReader
	fake      *fakeSrv
	arrived   atomic.Int64 // requests of the calls in flight read completely (none is answered)
	wmu       sync.Mutex
	pmu       sync.Mutex
	pending   []wire.Pkt // those requests
	readMode  string
	rerr      error
	tailN     int
	delay     time.Duration
	endOnce   sync.Once
	outEnding atomic.Bool // set BEFORE the reply stream ends: whoever has seen the stream end sees it set
	outEnded  chan struct{}
	inEnded   atomic.Bool
	withErr   string // path of the call whose reply went out with the terminal error ("" none)
	complete  bool   // … completely (data+err) or one byte short (part+err)
	done      chan struct{}
}

func (p *tfPeer) run(version []byte) {
	defer close(p.done)
	first := true
	for {
		pk, err := wire.ReadFrame(p.c2sR)
		if err != nil {
			// the client closed its writer (or garbage arrived): a server exits, which ends its output — a little later
			p.inEnded.Store(true)
			if p.delay > 0 {
				time.Sleep(p.delay)
			}
			p.endOutput()
			io.Copy(io.Discard, p.c2sR)
			return
		}
		if first && pk.Typ == wire.Init {
			first = false
			p.write(version)
			continue
		}
		first = false
		if q, derr := cliDecodeReq(pk); derr == nil && strings.HasPrefix(q.Path, "ans-") {
			p.write(p.fake.Reply(pk))
			continue
		}
		p.pmu.Lock()
		p.pending = append(p.pending, pk)
		p.pmu.Unlock()
		p.arrived.Add(1)
	}
}

func (p *tfPeer) write(b []byte) error {
	p.wmu.Lock()
	defer p.wmu.Unlock()
	errc := make(chan error, 1)
	go func() { _, err := p.s2cW.Write(b); errc <- err }()
	select {
	case err := <-errc:
		return err
	case <-cliCase.Load().After(cliDeadline):
		cliCase.Load().Fired()
		return fmt.Errorf("the client does not read")
	}
}

// endOutput ends the reply stream (once): EOF, an error value, or the reply to one call in flight with its last bytes
// in the same Read as the terminal error.
func (p *tfPeer) endOutput() {
	p.endOnce.Do(func() {
		defer close(p.outEnded)
		p.outEnding.Store(true)
		terr := p.rerr
		switch p.readMode {
		case "eof":
			p.s2cW.Close()
			return
		case "err":
			p.s2cW.CloseWithError(terr)
			return
		}
		if terr == nil {
			terr = io.EOF
		}
		p.pmu.Lock()
		var pk *wire.Pkt
		if len(p.pending) > 0 {
			pk = &p.pending[0]
		}
		p.pmu.Unlock()
		if pk == nil {
			// nothing in flight: the error comes alone
			if p.rerr == nil {
				p.s2cW.Close()
			} else {
				p.s2cW.CloseWithError(p.rerr)
			}
			return
		}
		frame := p.fake.Reply(*pk)
		end := len(frame)
		if p.readMode == "part+err" {
			end--
		}
		t := max(1, min(p.tailN, end))
		if head := frame[:end-t]; len(head) > 0 {
			if err := p.write(head); err != nil {
				p.s2cW.Close() // the client has closed its reader
				return
			}
		}
		if q, derr := cliDecodeReq(*pk); derr == nil {
			p.withErr, p.complete = q.Path, p.readMode == "data+err"
		}
		p.rd.mu.Lock()
		p.rd.tail, p.rd.terr = append([]byte(nil), frame[end-t:end]...), terr
		p.rd.mu.Unlock()
		p.s2cW.CloseWithError(errFaultTail)
	})
}

func (p *tfPeer) shutdown() {
	p.s2cW.Close()
	p.c2sR.Close()
}

// ---------- one case ----------

func c04RunTransportFail(cs c04Case) (res c04Res) {
	fail := func(key, what string, act any) { res.Fails = append(res.Fails, c20Fail{key, what, act}) }
	tf := cs.TF
	if tf == nil {
		fail("tie/case", "transport-fail case without the transport's behaviour", nil)
		return
	}
	known := func(v string, in []string) bool {
		for _, x := range in {
			if x == v {
				return true
			}
		}
		return false
	}
	if !known(tf.Moment, c04TFMoments) || !known(tf.CloseErr, c04TFCloseErrs) || !known(tf.Read, c04TFReads) ||
		!known(tf.Ends, []string{"peer", "local"}) || !known(tf.Write, []string{"", "fail", "short"}) {
		fail("tie/unknown-transport-behaviour", fmt.Sprintf("%+v", *tf), nil)
		return
	}
	rerr, rfam, ok1 := cliErrValue(cs.Err, "read")
	cerr, _, ok2 := cliErrValue(tf.CloseErrV, "close")
	werr, _, ok3 := cliErrValue(tf.WriteErrV, "write")
	if !ok1 || !ok2 || !ok3 {
		fail("tie/unknown-error-kind", cs.Err+" "+tf.CloseErrV+" "+tf.WriteErrV, nil)
		return
	}
	if tf.Read == "eof" || (tf.Read != "err" && cs.Err == "") {
		rerr = nil // the stream ends with io.EOF
	}
	if cs.Procs > 0 {
		defer runtime.GOMAXPROCS(runtime.GOMAXPROCS(cs.Procs))
	}
	trials := max(cs.Trials, 1)
	rng := rand.New(rand.NewSource(cs.Seed))
	buf := make([]byte, 2<<20+2200*(cs.At+8)) // the dump buffer, made before anything starts
	res.TFObs = &tfObs{}
	for t := 0; t < trials && len(res.Fails) == 0 && !res.ExitNow; t++ {
		c04TFTrial(cs, t, rng, buf, rerr, rfam, cerr, werr, fail, &res)
		res.Trials = t + 1
		if len(res.Fails) > 0 {
			res.Trace = append(res.Trace, fmt.Sprintf("trial %d of %d failed", t, trials))
		}
	}
	if cs.At >= 1000 {
		res.ExitNow = true // (a large goroutine table slows every later dump in this process)
	}
	return
}

func c04TFTrial(cs c04Case, t int, rng *rand.Rand, buf []byte, rerr error, rfam string, cerr, werr error, fail func(key, what string, act any), res *c04Res) {
	tf := cs.TF
	N := cs.At
	k := cliCase.Load()
	c2sR, c2sW := io.Pipe()
	s2cR, s2cW := io.Pipe()
	lerr := rerr
	if lerr == nil {
		lerr = io.ErrClosedPipe
	}
	rd := &tfReader{r: s2cR, lerr: lerr}
	wr := &tfWriter{w: c2sW, rd: rd, wmode: tf.Write, passN: tf.WriteAt, werr: werr, cmode: tf.CloseErr, cerr: cerr, local: tf.Ends == "local"}
	peer := &tfPeer{c2sR: c2sR, s2cW: s2cW, rd: rd, fake: newFakeSrv(cliFileSize), readMode: tf.Read, rerr: rerr, tailN: cs.Tail,
		delay: time.Duration(tf.DelayUs) * time.Microsecond, outEnded: make(chan struct{}), done: make(chan struct{})}
	go peer.run(cliVersion())
	type mk struct {
		c   *sftp.Client
		err error
	}
	mkc := make(chan mk, 1)
	go func() {
		c, err := sftp.NewClientPipe(rd, wr, sftp.MaxPacketUnchecked(cliMaxPacket))
		mkc <- mk{c, err}
	}()
	var client *sftp.Client
	select {
	case m := <-mkc:
		if m.err != nil {
			peer.shutdown()
			fail("tie/new-client", m.err.Error(), nil)
			return
		}
		client = m.c
	case <-k.After(cliDeadline):
		k.Fired()
		peer.shutdown()
		fail("tie/new-client", "handshake did not finish", nil)
		res.ExitNow = true
		return
	}
	// what of the transport has failed so far is part of every key: a defect that needs a failing Close is not the one
	// that shows with any transport
	var atReturn tfCounts // the transport's counters at the moment Client.Close returned
	fkeyOf := func(c tfCounts) string {
		s := c04TFOp
		if c.WritesFailed > 0 {
			s += "/write-fails"
		}
		if c.CloseCallsErrs > 0 {
			s += "/close-fails"
		}
		return s
	}
	fkey := func() string { return fkeyOf(wr.counts()) }
	// … and for what a call returns, what the Read error claims to be (an EOF-like value must still be an error)
	vkey := func() string {
		if tf.Read == "err" && rfam != "opaque" {
			return fkeyOf(atReturn) + "/errv:" + rfam
		}
		return fkeyOf(atReturn)
	}
	gdump := func() []string { g := cliDescribe(cliGoroutines2()); return g[:min(20, len(g))] }
	giveUp := func() { res.ExitNow = true; peer.shutdown() }

	// ---- calls answered before anything fails: they return their replies ----
	for i := 0; i < tf.Answered; i++ {
		var err error
		if !cliWithin(cliDeadline, func() { _, err = client.Stat(fmt.Sprintf("ans-%d", i)) }) {
			fail("hang/answered-call/"+fkey(), "a Stat that the peer answers did not return within 20 s (nothing has failed yet)", gdump())
			giveUp()
			return
		}
		if err != nil {
			fail("lost-reply/answered-call/"+fkey(), "a Stat whose reply was delivered completely, before anything failed, returned an error", cliErrStr(err))
		}
	}
	wr.mu.Lock()
	wr.armed = true
	wr.mu.Unlock()

	// ---- N calls in flight, two goroutines in Wait ----
	errs := make([]error, N)
	var returned atomic.Int64
	var fwg sync.WaitGroup
	fwg.Add(N)
	for g := 0; g < N; g++ {
		go func(g int) {
			defer fwg.Done()
			path := fmt.Sprintf("fly-%d", g)
			var err error
			switch g % 5 {
			case 0:
				_, err = client.Stat(path)
			case 1:
				_, err = client.Lstat(path)
			case 2:
				_, err = client.ReadLink(path)
			case 3:
				_, err = client.RealPath(path)
			case 4:
				err = client.Mkdir(path)
			}
			errs[g] = err
			returned.Add(1)
		}(g)
	}
	var wwg sync.WaitGroup
	for w := 0; w < 2; w++ {
		wwg.Add(1)
		go func() { defer wwg.Done(); client.Wait() }()
	}
	// every call has its request at the peer — or, with a failing Write, has returned
	wantArrived := N
	if tf.Write != "" {
		wantArrived = min(N, tf.WriteAt)
	}
	w := k.Wait(cliDeadline)
	for t0 := time.Now(); peer.arrived.Load() < int64(wantArrived) || returned.Load() < int64(N-wantArrived); {
		if time.Since(t0) > w {
			k.Spend(w)
			fail("hang/setup/"+fkey(), fmt.Sprintf("of %d concurrent calls %d got their request to the peer and %d returned within 20 s; expected %d and %d (the transport's Write fails from call %d on: %v)", N, peer.arrived.Load(), returned.Load(), wantArrived, N-wantArrived, tf.WriteAt, tf.Write != ""), gdump())
			giveUp()
			return
		}
		time.Sleep(100 * time.Microsecond)
	}
	inFlight := wantArrived
	res.InFlight = inFlight
	res.NReq += inFlight + tf.Answered
	base := returned.Load()

	// ---- the moment ----
	moment := tf.Moment
	if inFlight == 0 && moment == "first-notify" {
		moment = "after-wait" // nobody to notify
	}
	gap := time.Duration(rng.Intn(120)) * time.Microsecond
	endFirst := rng.Intn(2) == 0
	switch moment {
	case "first-notify":
		go peer.endOutput()
		w := k.Wait(cliDeadline)
		for t0 := time.Now(); returned.Load() == base; runtime.Gosched() {
			if time.Since(t0) > w {
				k.Spend(w)
				fail("hang/outstanding-call/"+fkey(), fmt.Sprintf("none of %d calls in flight returned within 20 s after the reply stream ended", inFlight), gdump())
				giveUp()
				return
			}
		}
	case "after-wait":
		go peer.endOutput()
		if !cliWithin(cliDeadline, func() { client.Wait() }) {
			fail("wait-hang/"+fkey(), "Client.Wait did not return within 20 s after the reply stream ended", gdump())
			giveUp()
			return
		}
	}
	closed := make(chan struct{})
	var tClose, tDump time.Duration
	var n int
	var closeErr error
	var outEndingAtReturn, readEndedAtReturn, readEndedBefore bool
	var closesBefore int
	go func() {
		defer close(closed)
		if moment == "end+close" {
			rel := make(chan struct{})
			go func() {
				<-rel
				if !endFirst {
					acSpin(gap)
				}
				peer.endOutput()
			}()
			runtime.Gosched()
			close(rel)
			if endFirst {
				acSpin(gap)
			}
		}
		readEndedBefore, closesBefore = rd.ended.Load(), wr.counts().CloseCalls
		t0 := time.Now()
		closeErr = client.Close()
		// the picture of the moment Close returned
		t1 := time.Now()
		outEndingAtReturn, readEndedAtReturn, atReturn = peer.outEnding.Load(), rd.ended.Load(), wr.counts()
		n = runtime.Stack(buf, true)
		tClose, tDump = t1.Sub(t0), time.Since(t1)
	}()
	if _, ok := lib.WaitCase(k, cliDeadline, closed); !ok {
		fail("close-hang/"+fkey(), fmt.Sprintf("Client.Close did not return within 20 s (%d calls in flight; the transport's Close has torn the link down)", inFlight), map[string]any{"transport": wr.counts(), "goroutines": gdump()})
		giveUp()
		return
	}
	retAtDump := int(returned.Load() - base)
	obs := res.TFObs
	if atReturn.CloseCallsErrs > 0 {
		obs.CloseErrAtReturn++
	}
	if closesBefore > 0 {
		obs.SecondClose++
	}
	if atReturn.WritesFailed > 0 {
		obs.WritesFailed++
	}
	if readEndedBefore {
		obs.ReadEndedBefore++
	}
	snap := acParse(buf[:n], n == len(buf))
	fk := fkeyOf(atReturn) // (what had failed when Close returned)
	detail := func() map[string]any {
		return map[string]any{"trial": t, "moment": moment, "calls_in_flight": inFlight, "close_returned": cliErrStr(closeErr),
			"close_ms": float64(tClose.Microseconds()) / 1000, "dump_ms": float64(tDump.Microseconds()) / 1000,
			"at_the_moment_Close_returned": snap, "in_flight_calls_returned_when_the_dump_was_done": retAtDump,
			"the_peer_had_begun_to_end_the_reply_stream_when_Close_returned":      outEndingAtReturn,
			"the_client_had_read_the_end_of_the_reply_stream_when_Close_returned": readEndedAtReturn,
			"transport_when_Close_returned":                                       atReturn, "gomaxprocs": runtime.GOMAXPROCS(0)}
	}
	if len(snap.PkgRunning) > 0 {
		fail("alive-at-close-return/"+cliShortFn(snap.PkgRoot)+"/"+fk, "a goroutine started by pkg/sftp is still executing package code at the moment Client.Close returns: Close did not wait for it (the transport's Close had torn the link down and returned "+map[bool]string{true: "an error", false: "nil"}[atReturn.CloseCallsErrs > 0]+")", detail())
	}
	if snap.WaitParked > 0 {
		fail("wait-blocked-at-close-return/"+fk, fmt.Sprintf("Client.Close has returned, yet %d goroutine(s) are still parked in Client.Wait: the connection is not marked as shut down", snap.WaitParked), detail())
	}
	if snap.CallParked > 0 {
		at := make([]string, 0, len(snap.ParkedAt))
		for f := range snap.ParkedAt {
			at = append(at, f)
		}
		sort.Strings(at)
		fail("not-notified-at-close-return/"+strings.Join(at, "+")+"/"+fk, fmt.Sprintf("Client.Close has returned, yet %d of %d calls in flight are still parked waiting for their result: they have not been notified", snap.CallParked, inFlight), detail())
	}

	// ---- without any further event from the harness: Wait, the calls in flight, a later call, a second Close ----
	if !cliWithin(cliDeadline, func() { client.Wait() }) || !cliWithin(cliDeadline, wwg.Wait) {
		fail("wait-hang/"+fk, "Client.Wait did not return within 20 s after Client.Close had returned", map[string]any{"detail": detail(), "goroutines": gdump()})
		giveUp()
		return
	}
	if !cliWithin(cliDeadline, fwg.Wait) {
		fail("hang/outstanding-call/"+fk, fmt.Sprintf("%d of %d calls in flight have not returned 20 s after Client.Close returned", N-int(returned.Load()), inFlight), map[string]any{"detail": detail(), "goroutines": gdump()})
		giveUp()
		return
	}
	// the peer is done with the reply stream (its own clock: ≤ 25 ms after its input ended); only then is it known
	// whether the reply that travelled with the terminal error was handed out completely
	if _, ok := lib.WaitCase(k, cliDeadline, peer.outEnded); !ok {
		fail("tie/peer-did-not-end", "the harness peer did not end its output", nil)
		giveUp()
		return
	}
	left, dataErr := rd.tailState()
	gotWhole := peer.withErr != "" && peer.complete && left == 0 && rd.ended.Load()
	res.DataErr += dataErr
	if gotWhole {
		obs.WholeWithErr++
	}
	noErr := 0
	for g, err := range errs {
		path := fmt.Sprintf("fly-%d", g)
		switch {
		case gotWhole && path == peer.withErr:
			if err != nil {
				fail("lost-reply/in-flight-call/"+fk+"/data+err", "the reply to a call in flight was received completely — its last bytes in the same Read call as the terminal error —, yet the call returned an error", map[string]any{"call": path, "err": cliErrStr(err), "bytes_with_the_error": cs.Tail})
			}
		case err == nil:
			noErr++
			if noErr == 1 {
				fail("no-error/in-flight-call/"+vkey(), "a call whose reply was never received completely (or whose request could not be written) returned no error", map[string]any{"call": path, "reply_sent_one_byte_short_with_the_error": path == peer.withErr})
			}
		}
	}
	var aerr error
	if !cliWithin(cliDeadline, func() { _, aerr = client.Stat("after") }) {
		fail("hang/after/Stat/"+fk, "a Stat started after Client.Close returned did not return within 20 s", gdump())
		giveUp()
		return
	}
	if aerr == nil {
		fail("after-call-succeeded/after/Stat/"+vkey(), "a Stat started after Client.Close returned no error", nil)
	}
	if !cliWithin(cliDeadline, func() { client.Close() }) {
		fail("close-hang/second-close/"+fk, "a second Client.Close did not return within 20 s", gdump())
		giveUp()
		return
	}
	peer.shutdown()
	if _, ok := lib.WaitCase(k, 5*time.Second, peer.done); !ok {
		fail("tie/server-goroutine", "harness peer goroutine did not finish", nil)
		res.ExitNow = true
		return
	}
	if started, callers := cliWaitQuiet(5 * time.Second); len(started)+len(callers) > 0 {
		top := "?"
		if len(started) > 0 {
			top = cliShortFn(started[0].PkgFrame())
		} else {
			top = "caller-in/" + cliShortFn(callers[0].PkgFrame())
		}
		all := cliDescribe(append(started, callers...))
		fail("goroutine-leak/"+top, "goroutines of pkg/sftp survive Client.Close (polled for 5 s)", all[:min(20, len(all))])
		res.ExitNow = true
	}
	if len(res.Fails) == 0 {
		c := wr.counts()
		res.Trace = []string{fmt.Sprintf("transport: %d Write calls failed, %d of %d Close calls returned an error; reply completed by bytes that came with the error: %v", c.WritesFailed, c.CloseCallsErrs, c.CloseCalls, gotWhole)}
	}
}

// ---------- generator ----------

// c04GenTransportFail lists the transport-fail cases of a tier: the cross product moment × Close behaviour × what ends
// the read side × Read at the end (thorough: × Write × calls in flight), the other dimensions rotating.
func c04GenTransportFail(rng *rand.Rand, thorough bool, rkinds, wkinds []string) []c04Case {
	var out []c04Case
	type end struct {
		mode  string
		delay int
	}
	endsClose := []end{{"peer", 0}, {"peer", 1500}, {"peer", 25000}, {"local", 0}}
	endsOther := []end{{"peer", 0}, {"local", 0}}
	if thorough {
		endsClose = []end{{"peer", 0}, {"peer", 200}, {"peer", 1500}, {"peer", 8000}, {"peer", 25000}, {"local", 0}}
	}
	procs := []int{1, 2, 4, 8}
	if thorough {
		procs = []int{1, 2, 3, 4, 8, 16}
	}
	i := 0
	add := func(moment, ce string, e end, read, write string, n int) {
		i++
		cs := c04Case{Op: c04TFOp, Fault: moment, At: n, Procs: procs[i%len(procs)], Seed: rng.Int63(), Trials: 2}
		tf := &c04TF{Moment: moment, CloseErr: ce, Ends: e.mode, DelayUs: e.delay, Read: read, Write: write, Answered: []int{0, 1, 3}[i%3]}
		if moment != "close" && moment != "after-wait" {
			cs.Trials = 3 // a schedule
		}
		if thorough {
			cs.Trials *= 2
		}
		if ce != "never" && ce != "sticky" {
			tf.CloseErrV = wkinds[rng.Intn(len(wkinds))]
		}
		if read == "err" || e.mode == "local" || (read != "eof" && rng.Intn(2) == 0) {
			cs.Err = rkinds[rng.Intn(len(rkinds))]
		}
		if read == "data+err" || read == "part+err" {
			cs.Tail = []int{1, 2, 3, 5, 9, 1 << 20}[rng.Intn(6)] // … the whole frame including its length word
		}
		if write != "" {
			tf.WriteAt = rng.Intn(n + 2)
			tf.WriteErrV = wkinds[rng.Intn(len(wkinds))]
		}
		cs.TF = tf
		out = append(out, cs)
	}
	sizes := []int{0, 1, 5, 40, 300}
	for _, moment := range c04TFMoments {
		ends := endsOther
		if moment == "close" {
			ends = endsClose
		}
		for _, ce := range c04TFCloseErrs {
			for _, e := range ends {
				for _, read := range c04TFReads {
					writes := []string{[]string{"", "", "fail", "short"}[i%4]}
					if ce == "sticky" {
						writes = []string{[]string{"fail", "short"}[i%2]} // without a failed Write, sticky is never
					}
					ns := []int{sizes[i%len(sizes)]}
					if moment == "first-notify" || moment == "end+close" {
						ns = []int{[]int{300, 2500, 1200}[i%3]} // the broadcast must last a little
					}
					if thorough {
						writes = []string{"", "fail", "short"}
						ns = sizes
						if moment == "first-notify" || moment == "end+close" {
							ns = []int{1, 5, 40, 300, 2500}
						}
					}
					for _, wmode := range writes {
						for _, n := range ns {
							add(moment, ce, e, read, wmode, n)
						}
					}
				}
			}
		}
	}
	return out
}
