package main

// C20 — no server reply can crash the client.
//
// For every client operation the VALID reply to each of its requests is taken from a fake server and replaced
// by a malformed one (truncated at every byte with a consistent frame length, every length/count/flags word
// inflated or deflated, every other reply type with the right id — themselves truncated and edited —, PRNG
// bodies, ill-framed packets). Every case runs in a child process, one case at a time, so a panic in a
// background goroutine, an out-of-memory death or a wedge is observed as the child's exit and attributed to
// the case (confirmed by re-running it alone).

import (
	"encoding/binary"
	"encoding/json"
	"fmt"
	"math/rand"
	"regexp"
	"runtime"
	"sort"
	"strconv"
	"strings"
	"sync"
	"sync/atomic"
	"time"

	"github.com/pkg/sftp"

	"verifharness/lib"
	"verifharness/peers"
	"verifharness/wire"
)

func init() {
	register("c20", checkC20)
	children["c20"] = func(args []string) { cliChildLoop(true, c20Child) }
}

// c20Mut describes how one reply is malformed.
type c20Mut struct {
	Base  string `json:"base"`             // "valid" or the substituted reply: status-ok|status-eof|status-fail|handle|data|name1|name2|attrs|extreply|version|type99
	Kind  string `json:"kind"`             // none | cut | field | rand | badframe
	N     int    `json:"n,omitempty"`      // cut: payload bytes kept (payload = everything after the type byte; the id is its first 4 bytes)
	Off   int    `json:"off,omitempty"`    // field: offset of the word within the frame
	Field string `json:"field,omitempty"`  // field: name
	Val   uint32 `json:"val,omitempty"`    // field: new value
	Seed  int64  `json:"seed,omitempty"`   // rand
	Len   int    `json:"len,omitempty"`    // rand: payload bytes after the id
	Typ   byte   `json:"typ,omitempty"`    // rand: type byte
	BadID bool   `json:"bad_id,omitempty"` // rand: PRNG id as well
	How   string `json:"how,omitempty"`    // badframe: len0 | toolong | inflated-eof; trail: what the trailing bytes are (zero | ff | prng | reply | body)
	W     int    `json:"w,omitempty"`      // value: width of the word in bytes (4 or 8)
	V64   string `json:"v64,omitempty"`    // value: new value, hexadecimal (0x…)
	VName string `json:"vname,omitempty"`  // value: what boundary the value is (2^63, 2^64-maxpacket, …)
	Err   string `json:"errv,omitempty"`   // cuterr: the error value the transport returns after the cut (cliErrKinds; "eof" = plain io.EOF)
	// id (c20_ids.go): a complete, well-formed reply whose REQUEST ID matches no outstanding request. How: foreign (the
	// reply to the request carries another id) | dup (the reply is delivered twice) | unsol-before / unsol-after (a reply
	// nobody asked for, before the operation's first request / after its last reply). ID: which id — +0x1000 | 0 | max
	// (2^32-1) | next (id+1) | prev (id-1) | +2^31, relative to the id of the request answered (unsol: of the last request seen)
	ID string `json:"id,omitempty"`
}

type c20Case struct {
	Op  string `json:"op"`
	Idx int    `json:"reply_index"` // which reply of the measured operation is malformed (arrival order of its requests); -1 none
	Mut c20Mut `json:"mut"`
	Opt string `json:"opt,omitempty"` // option variant (cli_ops.go: which MaxPacket constructor, UseFstat, UseConcurrentReads/Writes, MaxConcurrentRequestsPerFile); "" = MaxPacketUnchecked + the operation's own options
}

type c20Fail struct {
	Key  string `json:"key"`
	What string `json:"what"`
	Act  any    `json:"actual,omitempty"`
}

type c20Res struct {
	Reached bool      `json:"reached"` // the targeted reply was requested and the malformed frame sent
	Outcome string    `json:"outcome"` // value | error | hang
	Summary string    `json:"summary,omitempty"`
	Err     string    `json:"err,omitempty"`
	After   string    `json:"after"` // usable | failed-clean | …
	Alloc   uint64    `json:"alloc"`
	Recv    int       `json:"recv"`
	Sent    string    `json:"sent,omitempty"` // hex of the malformed frame as sent
	ReqTyp  int       `json:"req_typ,omitempty"`
	Replies []string  `json:"replies,omitempty"` // dry run: valid reply frames of the measured operation, arrival order
	ReqTyps []int     `json:"req_typs,omitempty"`
	Fails   []c20Fail `json:"fails,omitempty"`
	ExitNow bool      `json:"-"`
}

// c20Base builds a well-formed reply of another kind carrying id.
func c20Base(base string, id uint32) []byte {
	switch base {
	case "status-ok":
		return wire.StatusFrame(id, wire.OK, "")
	case "status-eof":
		return wire.StatusFrame(id, wire.EOF, "EOF")
	case "status-fail":
		return wire.Frame(wire.Status, wire.B{}.U32(id).U32(wire.Failure).Str("it failed").Str("en"))
	case "handle":
		return wire.HandleFrame(id, "HNDL")
	case "data":
		return wire.DataFrame(id, []byte("0123456789"))
	case "data-long": // well-formed, but more bytes than any request of the operation table asks for (MaxPacket 16)
		return wire.DataFrame(id, cliPatternBytes("long", 0, 100))
	case "name1":
		return wire.NameFrame(id, []wire.NameEnt{{Name: "nm", Long: "long nm", A: wire.St{}}})
	case "name2":
		return wire.NameFrame(id, []wire.NameEnt{{Name: "a", Long: "la", A: wire.St{Flags: wire.ASize, Size: 5}}, {Name: "b", Long: "lb", A: fakeAttrs}})
	case "attrs":
		return wire.AttrsFrame(id, fakeAttrs)
	case "extreply":
		b := wire.B{}.U32(id)
		for i := uint64(1); i <= 11; i++ {
			b = b.U64(i)
		}
		return wire.Frame(wire.ExtendedReply, b)
	case "version":
		return wire.Frame(wire.Version, wire.B{}.U32(id))
	case "type99":
		return wire.Frame(99, wire.B{}.U32(id).Str("whatever"))
	}
	return nil
}

var c20Bases = []string{"status-ok", "status-eof", "status-fail", "handle", "data", "data-long", "name1", "name2", "attrs", "extreply", "version", "type99"}

func c20Reframe(typ byte, payload []byte) []byte { return wire.Frame(typ, payload) }

// c20Apply produces the bytes sent instead of the valid reply; cutAfter asks for the stream to end after them.
func c20Apply(m c20Mut, valid []byte) (out []byte, cutAfter bool) {
	out, cutAfter, _ = c20ApplyReq(m, valid, nil)
	return
}

// c20ApplyReq is c20Apply with the request that is being answered (needed by "over": a DATA reply with more bytes
// than the READ asked for) and the error value the reply stream fails with after the bytes (nil: plain end).
func c20ApplyReq(m c20Mut, valid []byte, req *wire.Pkt) (out []byte, cutAfter bool, ferr error) {
	switch m.Kind {
	case "id":
		return c20ApplyID(m, valid), false, nil
	case "value":
		// a WELL-FORMED reply: one value word replaced
		b := append([]byte(nil), valid...)
		if m.Base != "valid" && m.Base != "" {
			b = c20Base(m.Base, binary.BigEndian.Uint32(valid[5:9]))
		}
		v, _ := strconv.ParseUint(strings.TrimPrefix(m.V64, "0x"), 16, 64)
		switch {
		case m.W == 8 && m.Off+8 <= len(b):
			binary.BigEndian.PutUint64(b[m.Off:], v)
		case m.W == 4 && m.Off+4 <= len(b):
			binary.BigEndian.PutUint32(b[m.Off:], uint32(v))
		}
		return b, false, nil
	case "cuterr":
		// the first N bytes of the (valid) reply frame, then the transport fails with the chosen error value
		b := valid
		if m.Base != "valid" && m.Base != "" {
			b = c20Base(m.Base, binary.BigEndian.Uint32(valid[5:9]))
		}
		n := max(0, min(m.N, len(b)))
		if m.Err != "" && m.Err != "eof" {
			if e, _, ok := cliErrValue(m.Err, "read"); ok {
				ferr = e
			}
		}
		return b[:n], true, ferr
	case "trail":
		// a complete, well-formed reply FOLLOWED by trailing bytes inside the same frame (the length word covers them)
		b := valid
		if m.Base != "valid" && m.Base != "" {
			b = c20Base(m.Base, binary.BigEndian.Uint32(valid[5:9]))
		}
		return wire.Frame(b[4], append(append([]byte(nil), b[5:]...), c20TrailBytes(m, b)...)), false, nil
	case "over":
		// a well-formed DATA reply carrying N bytes more than the READ asked for
		if req != nil && req.Typ == wire.Read {
			if q, err := cliDecodeReq(*req); err == nil {
				return wire.DataFrame(q.ID, cliPatternBytes("file", q.Off, int(q.Len)+m.N)), false, nil
			}
		}
		return valid, false, nil
	}
	out, cutAfter = c20ApplyOld(m, valid)
	return
}

func c20ApplyOld(m c20Mut, valid []byte) (out []byte, cutAfter bool) {
	id := binary.BigEndian.Uint32(valid[5:9])
	base := valid
	if m.Base != "valid" && m.Base != "" {
		base = c20Base(m.Base, id)
	}
	typ, payload := base[4], base[5:]
	switch m.Kind {
	case "none":
		return base, false
	case "cut":
		n := m.N
		if n > len(payload) {
			n = len(payload)
		}
		return c20Reframe(typ, payload[:n]), false
	case "field":
		b := append([]byte(nil), base...)
		if m.Off+4 <= len(b) {
			binary.BigEndian.PutUint32(b[m.Off:], m.Val)
		}
		return b, false
	case "rand":
		r := rand.New(rand.NewSource(m.Seed))
		p := make([]byte, 4+m.Len)
		r.Read(p)
		if !m.BadID {
			binary.BigEndian.PutUint32(p, id)
		}
		return c20Reframe(m.Typ, p), false
	case "badframe":
		switch m.How {
		case "len0":
			return []byte{0, 0, 0, 0}, false
		case "toolong":
			b := append([]byte(nil), base...)
			binary.BigEndian.PutUint32(b, 256*1024+1)
			return b, true
		case "inflated-eof":
			b := append([]byte(nil), base...)
			binary.BigEndian.PutUint32(b, uint32(len(base)-4+10))
			return b, true
		}
	}
	return base, false
}

func (m c20Mut) String() string {
	switch m.Kind {
	case "cut":
		return fmt.Sprintf("%s/cut@%d", m.Base, m.N)
	case "field":
		return fmt.Sprintf("%s/%s@%d=%d", m.Base, m.Field, m.Off, m.Val)
	case "rand":
		return fmt.Sprintf("rand/typ%d/len%d/seed%d/badid=%v", m.Typ, m.Len, m.Seed, m.BadID)
	case "badframe":
		return fmt.Sprintf("%s/badframe-%s", m.Base, m.How)
	case "value":
		return fmt.Sprintf("%s/value/%s@%d:%d=%s(%s)", m.Base, m.Field, m.Off, m.W, m.V64, m.VName)
	case "cuterr":
		return fmt.Sprintf("%s/stream-cut@%d/%s", m.Base, m.N, m.Err)
	case "over":
		return fmt.Sprintf("data-over+%d", m.N)
	case "trail":
		return fmt.Sprintf("%s/trail+%d/%s", m.Base, m.N, m.How)
	case "id":
		return fmt.Sprintf("%s/unmatched-id/%s/%s", m.Base, m.How, m.ID)
	}
	return m.Base + "/" + m.Kind
}

// ---------- child: run one case ----------

func c20Child(idx int, raw json.RawMessage) (any, bool) {
	var cs c20Case
	if err := json.Unmarshal(raw, &cs); err != nil {
		return c20Res{Fails: []c20Fail{{Key: "tie/case", What: err.Error()}}}, false
	}
	res := c20Run(cs)
	return res, res.ExitNow
}

func c20Run(cs c20Case) (res c20Res) {
	if cs.Op == "selftest-background-panic" {
		// harness self-test: a panic in a goroutine nobody can recover must be seen by the parent
		go func() { var b []byte; _ = b[3] }()
		time.Sleep(2 * time.Second)
		return
	}
	op := cliOpByName(cs.Op)
	if op == nil {
		res.Fails = append(res.Fails, c20Fail{Key: "tie/unknown-op", What: cs.Op})
		return
	}
	fail := func(key, what string, act any) { res.Fails = append(res.Fails, c20Fail{key, what, act}) }
	fake := newFakeSrv(cliFileSize)
	if op.Fake != nil {
		op.Fake(fake)
	}
	copts, oerr := cliClientOptsVar(op, cs.Opt)
	if oerr != nil {
		fail("tie/unknown-option-variant", oerr.Error(), nil)
		return
	}
	client, peer, err := peers.NewClient(cliVersion(), copts...)
	if err != nil {
		fail("tie/new-client", err.Error(), nil)
		return
	}
	var phase atomic.Int32   // 0 setup, 1 measured operation, 2 afterwards
	var lastID atomic.Uint32 // id of the last request the peer has seen
	var recv atomic.Int64
	var mu sync.Mutex
	cut := false
	n := 0
	srvDone := make(chan struct{})
	go func() {
		defer close(srvDone)
		for p := range peer.Reqs {
			lastID.Store(p.ID())
			valid := fake.Reply(p)
			out := valid
			cutAfter := false
			var ferr error
			// whether the request belongs to the measured operation is decided once, under the lock the main goroutine
			// takes to end the measurement: the bytes of every reply counted as the operation's are in `recv` before
			// the allocation is read (a concurrent transfer can return while a speculative READ is still unanswered)
			mu.Lock()
			dead := cut
			if phase.Load() == 1 {
				if cs.Idx < 0 {
					res.Replies = append(res.Replies, lib.Hex(valid))
					res.ReqTyps = append(res.ReqTyps, int(p.Typ))
				}
				if n == cs.Idx && !c20Unsolicited(cs.Mut) {
					out, cutAfter, ferr = c20ApplyReq(cs.Mut, valid, &p)
					res.Reached = true
					res.Sent = lib.Hex(out)
					res.ReqTyp = int(p.Typ)
				}
				n++
				if !dead {
					recv.Add(int64(len(out)))
				}
			}
			mu.Unlock()
			if dead {
				continue
			}
			if len(out) > 0 && peer.Reply(out) != nil {
				continue
			}
			if cutAfter {
				mu.Lock()
				cut = true
				mu.Unlock()
				if ferr != nil {
					peer.FailOutput(ferr) // the client's next Read returns this very value
				} else {
					peer.CutOutput()
				}
			}
		}
	}()
	cleanup := func() {
		peer.Shutdown()
		if !cliWithin(cliDeadline, func() { client.Close() }) {
			fail("close-hang/"+cs.Op, "Client.Close did not return within 20 s after the transport was shut down", cliDescribe(cliGoroutines2()))
			res.ExitNow = true
			return
		}
		if started, callers := cliWaitQuiet(5 * time.Second); len(started)+len(callers) > 0 {
			top := "?"
			if len(started) > 0 {
				top = cliShortFn(started[0].PkgFrame())
			} else {
				top = cliShortFn(callers[0].PkgFrame())
			}
			fail("goroutine-leak/"+top, "goroutines of pkg/sftp survive Client.Close", cliDescribe(append(started, callers...)))
			res.ExitNow = true
		}
	}
	env := &cliOpEnv{c: client}
	if op.NeedFile {
		ok := cliWithin(cliDeadline, func() { env.f, err = client.OpenFile("file", 2 /* O_RDWR */) })
		if !ok || err != nil {
			fail("tie/setup-open", fmt.Sprint("setup open failed: ", err), nil)
			cleanup()
			return
		}
	}
	// ---- the measured operation ----
	var m0, m1 runtime.MemStats
	var summary string
	var operr error
	// a reply nobody asked for (c20_ids.go): sent by this goroutine, before the operation's first request …
	unsolicited := func(when string) {
		if !c20Unsolicited(cs.Mut) || cs.Mut.How != when {
			return
		}
		fr := c20UnsolicitedFrame(cs.Mut, lastID.Load())
		res.Reached = true
		res.Sent = lib.Hex(fr)
		recv.Add(int64(len(fr)))
		peer.Reply(fr)
		if when == "unsol-after" {
			// not an oracle: give the receiver the moment it needs to act on the frame, so that the probe below sees a
			// settled Client (one that ignores the frame stays usable; one that gives up the session has failed cleanly)
			cliWithin(300*time.Millisecond, func() { client.Wait() })
		}
	}
	unsolicited("unsol-before")
	phase.Store(1)
	runtime.ReadMemStats(&m0)
	returned := cliWithin(cliDeadline, func() { summary, operr = op.Run(env) })
	mu.Lock()
	phase.Store(2)
	mu.Unlock()
	runtime.ReadMemStats(&m1)
	res.Recv = int(recv.Load())
	res.Alloc = m1.TotalAlloc - m0.TotalAlloc
	if m1.HeapAlloc > 192<<20 {
		defer runtime.GC() // the collector is off in this process (allocation is metered); collect by hand, rarely
	}
	if !returned {
		res.Outcome = "hang"
		started, callers := cliPkgGoroutines()
		fail("hang/"+cs.Op, "the operation did not return within 20 s although every request was answered with a frame", cliDescribe(append(callers, started...)))
		res.ExitNow = true
		peer.Shutdown()
		return
	}
	if operr != nil {
		res.Outcome, res.Err = "error", operr.Error()
	} else {
		res.Outcome, res.Summary = "value", summary
	}
	if p := cliAccPanic.Swap(nil); p != nil {
		// the value handed to the caller cannot be looked at: its accessor panics (recovered here, so the case goes on)
		res.Outcome = "panic"
		fail("panic/accessor/"+cs.Op, "the operation returned a value whose accessor panics in the caller: "+*p, *p)
	}
	bound := uint64(64*res.Recv + 1<<20)
	if strings.Contains(cs.Opt, "mp-default") {
		// the working set a default Client is configured for (64 requests in flight x 32 KiB buffers), whatever the replies
		bound += 2 * 64 * 32768
	}
	if res.Alloc > bound {
		fail("alloc/"+cs.Op, fmt.Sprintf("the call allocated %d bytes for %d reply bytes (bound 64·n + 1 MiB = %d)", res.Alloc, res.Recv, bound), res.Alloc)
	}
	// ---- afterwards: still usable, or failed cleanly ----
	unsolicited("unsol-after") // … or after its last reply
	var fi string
	var perr error
	if !cliWithin(cliDeadline, func() { fi, perr = cliFi(client.Stat("probe")) }) {
		res.After = "probe-hang"
		fail("after/probe-hang/"+cs.Op, "a Stat issued after the operation did not return within 20 s", nil)
		res.ExitNow = true
		peer.Shutdown()
		return
	}
	want := fmt.Sprintf("probe size=%d", cliFileSize)
	if perr == nil && strings.HasPrefix(fi, want) {
		res.After = "usable"
	} else if perr == nil {
		res.After = "wrong-probe"
		fail("after/wrong-result/"+cs.Op, "the Stat issued after the operation returned another result than the server sent", fi)
	} else {
		// must have failed cleanly: Wait returns, further calls fail promptly
		waited := cliWithin(5*time.Second, func() { client.Wait() })
		var perr2 error
		again := cliWithin(cliDeadline, func() { _, perr2 = client.Stat("probe2") })
		switch {
		case !waited:
			res.After = "limbo"
			fail("after/limbo/"+cs.Op, "after the operation a Stat failed ("+perr.Error()+") although the connection was not shut down (Wait does not return)", nil)
		case !again || perr2 == nil:
			res.After = "limbo2"
			fail("after/limbo/"+cs.Op, "connection reported lost but a later call did not fail promptly", cliErrStr(perr2))
		default:
			res.After = "failed-clean"
		}
	}
	cleanup()
	return
}

func cliGoroutines2() []cliGoroutine {
	a, b := cliPkgGoroutines()
	return append(a, b...)
}

// ---------- parent ----------

// c20Key maps a crash site to the stable key of the defect.
func c20Key(d *cliDeath, op string) string {
	if d.Why != "panic" {
		return d.Why + "/" + op
	}
	site := d.Site
	if strings.Contains(d.Head, "nil pointer dereference") {
		// one root cause: STAT/LSTAT/FSTAT answered with STATUS OK makes stat()/fstat()/Lstat return (nil, nil);
		// the nil *FileStat is dereferenced by the package itself (WriteTo, RemoveAll, MkdirAll, Seek) or by the
		// first method call on the os.FileInfo handed to the caller
		// name the outermost package function on the crashing stack (the API entry point)
		for _, l := range strings.Split(d.Stack, "\n") {
			if m := cliFrameRe.FindStringSubmatch(l); m != nil {
				site = strings.TrimPrefix(m[1], "github.com/pkg/sftp.")
			}
		}
		return "panic/status-ok-as-attrs/" + site
	}
	in := func(s string) bool { return strings.Contains(d.Stack, "github.com/pkg/sftp."+s+"(") }
	switch {
	case in("unmarshalStatus"):
		return "panic/unmarshalStatus-short"
	case site == "(*Client).opendir":
		return "panic/opendir-handle-short"
	case site == "(*Client).open":
		return "panic/open-handle-short"
	case site == "(*Client).ReadLink":
		return "panic/readlink-name-short"
	case site == "(*Client).RealPath":
		return "panic/realpath-name-short"
	case site == "(*Client).ReadDirContext":
		return "panic/readdir-name-short"
	case site == "(*File).readChunkAt":
		return "panic/readchunkat-data-short"
	case strings.HasPrefix(site, "(*File).readAt.func"):
		return "panic/readat-worker-data-short"
	case strings.HasPrefix(site, "(*File).WriteTo.func"):
		return "panic/writeto-worker-data-short"
	}
	if site == "" {
		site = "unknown-site"
	}
	return "panic/" + site
}

// c20Pair is an (operation, option variant) pair and how densely its replies are mutated:
// 3 thorough-full, 2 quick-full, 0 light.
type c20Pair struct {
	op        cliOp
	variant   string
	level     int
	valueOnly bool // only the value family (c20_more.go) is generated for this pair
}

func c20Pairs(thorough bool) []c20Pair {
	universal := map[string]bool{}
	for _, v := range cliUniversalVars {
		universal[v] = true
	}
	var out []c20Pair
	for _, op := range cliOps() {
		for _, v := range cliOpVariants(op) {
			lvl := 2
			if universal[v] {
				lvl = 0
			}
			if thorough {
				lvl = map[int]int{2: 3, 0: 2}[lvl]
			}
			out = append(out, c20Pair{op: op, variant: v, level: lvl})
		}
	}
	return append(out, c20ExtraPairs(thorough)...)
}

func c20Generate(c *lib.Ctx, pairs []c20Pair, dry map[string]c20Res) []c20Case {
	var out []c20Case
	for pi, p := range pairs {
		op := p.op
		d, ok := dry[cliOpKey(op.Name, p.variant)]
		if !ok || p.valueOnly {
			continue
		}
		thorough := p.level == 3
		light := p.level == 0
		nrand := map[int]int{3: 150, 2: 4, 0: 1}[p.level]
		// the speculative tail of a concurrent WriteTo is schedule dependent: keep the deterministic prefix + 2
		nrep := c20Nrep(op.Name, d)
		for j := 0; j < nrep; j++ {
			valid := lib.UnHex(d.Replies[j])
			add := func(m c20Mut) { out = append(out, c20Case{Op: op.Name, Opt: p.variant, Idx: j, Mut: m}) }
			bases := append([]string{"valid"}, c20Bases...)
			if light {
				// the valid reply and three of the substituted kinds, rotating
				bases = []string{"valid"}
				for k := 0; k < 3; k++ {
					bases = append(bases, c20Bases[(pi+j+4*k)%len(c20Bases)])
				}
			}
			for _, base := range bases {
				fr := valid
				if base != "valid" {
					fr = c20Base(base, 1)
					if fr[4] == valid[4] && base != "status-fail" && base != "name2" && base != "data-long" {
						// same kind as the valid reply: the valid one is already treated in full; keep only
						// structurally different variants
						if !(valid[4] == wire.Status) {
							continue
						}
					}
					add(c20Mut{Base: base, Kind: "none"})
				}
				plen := len(fr) - 5
				full := (base == "valid" && !light) || thorough
				for n := 0; n < plen; n++ {
					switch {
					case full:
					case light:
						if !(n == 0 || n == 4 || n == plen-1 || n == plen/2 || (base == "valid" && n%3 == (pi+j)%3)) {
							continue
						}
					default:
						if !(n <= 8 || n == plen-1 || n == plen/2) {
							continue
						}
					}
					add(c20Mut{Base: base, Kind: "cut", N: n})
				}
				for _, f := range cliReplyFields(fr) {
					vals := []uint32{0, f.Val - 1, f.Val + 1, 1<<31 - 1, 1<<32 - 1, 1 << 29, 1<<29 + 1, 1 << 31} // incl. counts whose product with an element size wraps around 2^32
					if thorough {
						// boundaries of the sizes in play: MaxPacket 16, pool buffers, the 256 KiB frame limit, sign bits
						vals = append(vals, 1, 2, 3, 4, 8, 15, 16, 17, 32, 255, 256, 65535, 65536, 1<<18-1, 1<<18, 1<<18+1, 1<<24, 1<<31, 1<<31+1, 1<<32-2)
					}
					if !full {
						vals = []uint32{0, f.Val + 1, 1<<32 - 1}
					}
					if strings.HasSuffix(f.Name, "attr-flags") {
						vals = append(vals, f.Val|wire.AExt, 0xffffffff, f.Val&^wire.AExt)
					}
					seen := map[uint32]bool{f.Val: true}
					for _, v := range vals {
						if seen[v] {
							continue
						}
						seen[v] = true
						add(c20Mut{Base: base, Kind: "field", Off: f.Off, Field: f.Name, Val: v})
					}
				}
			}
			for k := 0; k < nrand; k++ {
				typs := []byte{valid[4], wire.Status, wire.Handle, wire.Data, wire.Name, wire.Attrs, wire.ExtendedReply, byte(c.Rand.Intn(256))}
				add(c20Mut{Kind: "rand", Seed: c.Rand.Int63(), Len: c.Rand.Intn(48), Typ: typs[c.Rand.Intn(len(typs))], BadID: k%8 == 7})
			}
			for k, how := range []string{"len0", "toolong", "inflated-eof"} {
				if light && k != (pi+j)%3 {
					continue
				}
				add(c20Mut{Base: "valid", Kind: "badframe", How: how})
			}
		}
	}
	return out
}

func checkC20(c *lib.Ctx) {
	r := c.R
	r.Rule = "for each of the client operations of cmd/vh/cli_ops.go (Client and File API incl. Walk, Glob, ReadDirContext over several batches, RemoveAll and MkdirAll over a tree, ReadFrom with every reader interface, ReadFromWithConcurrency; single- and multi-chunk, sequential and concurrent paths; 40-byte file, MaxPacket 16), each option variant of the operation (every operation: MaxPacketUnchecked, MaxPacketChecked, the MaxPacket alias, UseFstat(true) — the last three at reduced density, thorough: quick density; transfers also: UseFstat on/off, UseConcurrentReads false/true, UseConcurrentWrites true/false, MaxConcurrentRequestsPerFile 1/2 and combinations, at full density) and each reply of the operation: the valid reply (from a fake server) cut to every payload length 0…n-1 with a consistent frame length; every length/count/attribute-flags word set to 0, n-1, n+1, 2^31-1, 2^32-1 (flags: |EXTENDED, all ones); every other reply kind (3 STATUS shapes, HANDLE, DATA, NAME x1, NAME x2, ATTRS, EXTENDED_REPLY, VERSION, type 99) with the right id, themselves cut (thorough: every length; quick: 0…8, middle, n-1) and field-edited; PRNG payloads with PRNG type (some with a PRNG id); ill-framed packets (length 0, length > 256 KiB, inflated length then EOF). Further families (c20_more.go): VALUE — well-formed replies whose value words (ATTRS size, uid, gid, permissions, atime, mtime, also inside every NAME entry; the eleven statvfs numbers; the status code) are set to 0, 1, 2^31-1, 2^31, 2^32-1, 2^32, 2^53+1, 2^62, 2^63-1, 2^63, 2^63+1, 2^64-2^15, 2^64-2, 2^64-1, the values around 2^64-k*p, 2^63±p, 64*p, p for both packet sizes p in play (16 and the default 32768), PRNG values with the top bit set and clear; permission words also every file type; for every operation that receives the reply, under every option variant, plus the multi-step value operations of cliValueOps (Seek(End) then Read / Write / WriteTo / ReadFrom; Stat then Truncate(size); ReadFrom from readers announcing MaxInt64, MinInt64, -1) and the transfers on a Client without any MaxPacket option; sizes 2^63, 2^64-2^15, 2^64-1 are in every tier for every pair; every FileInfo / *FileStat / *StatVFS returned is looked at through all its accessors under recover. STREAM CUT — the reply stream cut after N bytes of a reply (quick: first reply of the default variant: every N for frames <= 64 bytes, else 0..13, middle, every 7th, n-1, n; all other replies and variants: 4, 5, 9 and one rotating position; thorough: every N) and then failing with an error value of the table cliErrKinds (io.EOF plain / wrapped / Is-method / joined, io.ErrUnexpectedEOF, io.ErrClosedPipe, os.ErrClosed, net.ErrClosed, deadlines, EPIPE, ECONNRESET, opaque) — exactly after the length word: always a non-EOF value and a rotating one (first reply of the default variant and thorough: every value). OVER — every READ answered with a well-formed DATA reply carrying 1, 9, 16 (one chunk), 200000 bytes more than requested (thorough: also 2, 15, 17, 255, 4096, 32768, 65536 and the largest frame the client accepts -1/0/+1). TRAILING BYTES — replies LONGER than their content: every reply of every operation, and every substituted reply kind (STATUS x3, HANDLE, DATA, NAME x1/x2, ATTRS, EXTENDED_REPLY, VERSION, type 99), complete and well-formed, followed INSIDE the same frame (the length word covers them) by 1, 7, 8 (one more word), 13, 800 bytes of zeros / 0xff / PRNG (rotating; thorough: all three, and 2, 3, 4, 5, 9, 12, 16, 24, 92, 255, 256, 4096, 32768, 200000 bytes with a rotating content), by a whole second reply (length word, type, id, body) or by the body once more; universal option variants: the valid reply in full, three rotating kinds with 8, one rotating size and a second reply. UNMATCHED REQUEST ID (c20_ids.go) — complete, well-formed replies of every type (the valid reply and every substituted kind) whose id belongs to no outstanding request: the reply to a request carrying id+0x1000, 0, 2^32-1, id+1, id-1, id+2^31 instead of its id; a reply delivered twice; a reply nobody asked for before the first request of the operation and after its last reply (ids relative to the last request seen); quick: every reply of the default variant × {+0x1000, 0, 2^32-1, one more rotating} for the valid reply, one rotating (kind, id), twice the valid reply and twice a rotating kind, 3+3 unsolicited per operation, other variants 4 rotating cases; thorough: the product. Each case is one fresh Client in a child process (one case at a time; a dead child is re-run alone). Non-trivial = every case whose reply differs from the valid one; distinct by (operation, option variant, reply index, mutation)."
	workers := runtime.NumCPU()
	if workers > 16 {
		workers = 16
	}
	var cases []c20Case
	if c.Replay != "" {
		var one c20Case
		if err := lib.ReadReplay(c.Replay, &one); err != nil {
			r.Fail(lib.Failure{Kind: "tie", Key: "replay", What: err.Error()})
			return
		}
		cases = []c20Case{one}
	} else {
		// dry runs: the valid replies of every operation under every option variant
		pairs := c20Pairs(c.Tier == "thorough")
		var dryCases []json.RawMessage
		for _, p := range pairs {
			b, _ := json.Marshal(c20Case{Op: p.op.Name, Opt: p.variant, Idx: -1, Mut: c20Mut{Base: "valid", Kind: "none"}})
			dryCases = append(dryCases, b)
		}
		results, deaths, err := cliRunPoolC("c20", nil, dryCases, workers, 90*time.Second, nil, func(i int) string { return "c20/" + pairs[i].op.Name })
		if err != nil {
			r.Fail(lib.Failure{Kind: "tie", Key: "child-start", What: err.Error()})
			return
		}
		dry := map[string]c20Res{}
		for i, p := range pairs {
			if deaths[i] == cliNotRun {
				continue
			}
			op := p.op
			okey := cliOpKey(op.Name, p.variant)
			none := c20Case{Op: op.Name, Opt: p.variant, Idx: -1}
			var res c20Res
			if d := deaths[i]; d != nil || results[i] == nil {
				r.Fail(lib.Failure{Kind: "oracle", Key: "valid-replies/" + okey, What: "the child died on VALID replies", Input: none, Actual: deaths[i]})
				continue
			}
			json.Unmarshal(results[i], &res)
			r.Case("dry/"+okey, false)
			r.Hist("valid-run/" + res.Outcome + "/" + res.After)
			if (res.Outcome != "value" && !op.ErrOK) || res.After != "usable" || len(res.Fails) > 0 {
				r.Fail(lib.Failure{Kind: "tie", Key: "valid-replies/" + okey, What: "operation does not succeed against the fake server's valid replies; the harness's fake server or operation table is wrong",
					Input: none, Actual: res})
				continue
			}
			if dd, ok := dry[op.Name]; ok && p.variant != "" {
				if fmt.Sprint(res.ReqTyps) != fmt.Sprint(dd.ReqTyps) && !strings.HasPrefix(op.Name, "File.WriteTo-concurrent") {
					r.Hist("variant-changes-requests/" + okey)
				}
			}
			dry[okey] = res
			c20DryCache.Store(okey, res.Replies)
		}
		cases = c20Generate(c, pairs, dry)
		// the further families (c20_more.go); the value cases last: a boundary at which an operation HANGS costs hang
		// budget, and nothing else is waiting behind it
		cases = append(cases, c20GenCut(c, pairs, dry)...)
		cases = append(cases, c20GenOver(c, pairs, dry)...)
		cases = append(cases, c20GenTrail(c, pairs, dry)...)
		cases = append(cases, c20GenIDs(c, pairs, dry)...)
		cases = append(cases, c20GenValue(c, pairs, dry)...)
	}
	selftest := -1
	if c.Replay == "" {
		selftest = len(cases)
		cases = append(cases, c20Case{Op: "selftest-background-panic"})
	}
	raws := make([]json.RawMessage, len(cases))
	for i, cs := range cases {
		raws[i], _ = json.Marshal(cs)
	}
	results, deaths, err := cliRunPoolC("c20", nil, raws, workers, 90*time.Second, nil, func(i int) string { return c20Class(cases[i]) })
	if err != nil {
		r.Fail(lib.Failure{Kind: "tie", Key: "child-start", What: err.Error()})
		return
	}
	type pending struct {
		f    lib.Failure
		size int
	}
	byKey := map[string][]pending{}
	var maxRatio float64
	var maxAlloc uint64
	unreached := 0
	for i, cs := range cases {
		if deaths[i] == cliNotRun {
			continue
		}
		if i == selftest {
			if d := deaths[i]; d != nil && d.Why == "panic" && d.Confirmed {
				r.Note("self-test passed: a panic in a background goroutine of a child is observed (%s)", d.Head)
			} else {
				r.Fail(lib.Failure{Kind: "tie", Key: "selftest/background-panic-not-observed", What: "a deliberate panic in a background goroutine of a child process was not reported as a death", Actual: deaths[i]})
			}
			continue
		}
		canon := fmt.Sprintf("%s#%d %s", cliOpKey(cs.Op, cs.Opt), cs.Idx, cs.Mut)
		r.Case(canon, true)
		r.Hist("op/" + cs.Op)
		r.Hist("option-variant/" + map[bool]string{true: "default", false: cs.Opt}[cs.Opt == ""])
		for _, a := range strings.Split(cs.Opt, "+") {
			if a != "" {
				r.Hist("option/" + a)
			}
		}
		r.Hist("mutation/" + cs.Mut.Kind + "/" + map[bool]string{true: "valid-reply", false: "substituted-type"}[cs.Mut.Base == "valid" || cs.Mut.Base == ""])
		switch cs.Mut.Kind {
		case "value":
			f := cs.Mut.Field
			if strings.HasPrefix(f, "name") && f != "name-count" && strings.Contains(f, "-") {
				f = "nameN" + f[strings.Index(f, "-"):]
			}
			if strings.HasPrefix(f, "extreply-u64-") {
				f = "extreply-u64-N"
			}
			r.Hist("value-field/" + f)
			r.Hist("value/" + fmt.Sprint(8*cs.Mut.W) + "bit/" + cs.Mut.VName)
		case "cuterr":
			at := "body"
			switch {
			case cs.Mut.N == 0:
				at = "before-length-word"
			case cs.Mut.N < 4:
				at = "inside-length-word"
			case cs.Mut.N == 4:
				at = "after-length-word"
			case cs.Mut.N == 5:
				at = "after-type-byte"
			case cs.Mut.N < 9:
				at = "inside-id"
			case cs.Mut.N == 9:
				at = "after-id"
			}
			r.Hist("stream-cut/" + at)
			r.Hist("stream-cut-error/" + cs.Mut.Err)
			if cs.Mut.N == 4 {
				r.Hist("stream-cut-after-length-word/" + cs.Mut.Err)
			}
		case "over":
			r.Hist("data-over/+" + fmt.Sprint(cs.Mut.N))
		case "id":
			r.Hist("unmatched-id/" + cs.Mut.How + "/id=" + cs.Mut.ID)
			r.Hist("unmatched-id/reply-type/" + cs.Mut.Base)
		case "trail":
			r.Hist("trailing-bytes/+" + c20TrailBucket(cs.Mut))
			r.Hist("trailing-bytes-content/" + cs.Mut.How)
			r.Hist("trailing-bytes-after/" + cs.Mut.Base)
		}
		if d := deaths[i]; d != nil {
			key := c20Key(d, cs.Op)
			r.Hist("outcome/child-died/" + d.Why)
			sent := ""
			size := 1 << 30
			what := fmt.Sprintf("client process died (%s) in %s: %s", d.Why, d.Site, d.Head)
			if d.Background {
				what += " — in a background goroutine started by the package (not recoverable by the caller)"
			}
			if !d.Confirmed {
				if d.Why == "panic" && strings.Contains(d.Stack, "github.com/pkg/sftp.") {
					what += " [schedule dependent: the case did not die again when re-run alone 3 times; the crash report above is from the first run, in which only this case was active in the process]"
				} else {
					key = "unconfirmed-" + key
					what += " [the case did not die when re-run alone]"
				}
			}
			byKey[key] = append(byKey[key], pending{lib.Failure{Kind: "oracle", Key: key, What: what, Input: cs,
				Expected: "the operation returns a value or an error", Actual: map[string]any{"death": d, "reply_sent": sent}}, size})
			continue
		}
		if results[i] == nil {
			r.Fail(lib.Failure{Kind: "tie", Key: "no-result", What: "no result for case", Input: cs})
			continue
		}
		var res c20Res
		json.Unmarshal(results[i], &res)
		if !res.Reached {
			unreached++
			r.Hist("outcome/reply-index-not-reached")
			r.Hist("not-reached/" + cs.Mut.Kind + "/" + cs.Op)
			continue
		}
		r.Hist("outcome/" + res.Outcome)
		if res.Summary == "nil-file" {
			r.Hist("note/Open-returned-(nil,nil)")
		}
		r.Hist("after/" + res.After)
		if res.Recv > 0 {
			if q := float64(res.Alloc) / float64(res.Recv); q > maxRatio {
				maxRatio = q
			}
		}
		if res.Alloc > maxAlloc {
			maxAlloc = res.Alloc
		}
		if len(r.Samples) < 8 && (i%(len(cases)/8+1) == 0) {
			r.Sample(map[string]any{"case": cs, "reply_sent": res.Sent, "outcome": res.Outcome, "err": res.Err, "after": res.After, "alloc": res.Alloc, "reply_bytes": res.Recv})
		}
		for _, f := range res.Fails {
			kind := "oracle"
			if strings.HasPrefix(f.Key, "tie/") {
				kind = "tie"
			}
			byKey[f.Key] = append(byKey[f.Key], pending{lib.Failure{Kind: kind, Key: f.Key, What: f.What, Input: cs, Actual: map[string]any{"detail": f.Act, "reply_sent": res.Sent, "outcome": res.Outcome, "err": res.Err}}, len(res.Sent)})
		}
	}
	// deaths: attach the reply bytes by re-deriving them from the dry run is not possible here (ids), so describe
	// the frame with the id of the dry run's position: done below by c20Describe.
	keys := make([]string, 0, len(byKey))
	for k := range byKey {
		keys = append(keys, k)
	}
	sort.Strings(keys)
	for _, k := range keys {
		ps := byKey[k]
		for i := range ps {
			if cs, ok := ps[i].f.Input.(c20Case); ok {
				fr := c20Describe(cs)
				if m, ok := ps[i].f.Actual.(map[string]any); ok && m["reply_sent"] == "" {
					m["reply_sent"] = fr + " (id shown as aaaaaaaa)"
					ps[i].size = len(fr)
				}
			}
		}
		sort.SliceStable(ps, func(a, b int) bool { return ps[a].size < ps[b].size })
		heads := map[string]int{}
		for _, p := range ps {
			if m, ok := p.f.Actual.(map[string]any); ok {
				if d, ok := m["death"].(*cliDeath); ok {
					h := d.Head
					// fold the numbers of "index out of range [3] with length 2" etc.
					h = c20NumRe.ReplaceAllString(h, "N")
					heads[h]++
				}
			}
		}
		var hs []string
		for h, n := range heads {
			hs = append(hs, fmt.Sprintf("%dx %s", n, h))
		}
		sort.Strings(hs)
		r.Note("%s: %d failing cases; smallest reply: %v; crash messages: %s", k, len(ps), c20ActualSent(ps[0].f), strings.Join(hs, " | "))
		for _, p := range ps {
			r.Fail(p.f)
		}
	}
	r.Note("largest allocation during one call: %d bytes; largest allocation/reply-bytes ratio: %.1f; %d cases whose targeted reply index was not requested in that run (schedule-dependent tail)", maxAlloc, maxRatio, unreached)
	r.Skip("no Lean driver op for the reply interpreter exists yet (would need `c20.reply <method> <typ> <hex>` → value|error|panic); outcome classes are checked by the direct oracle only")
}

func c20ActualSent(f lib.Failure) any {
	if m, ok := f.Actual.(map[string]any); ok {
		return m["reply_sent"]
	}
	return nil
}

// c20Describe renders the malformed frame of a case whose child died (the valid reply is not known for
// "valid"-based mutations without the dry run, so those are rebuilt from a fresh fake server where possible).
func c20Describe(cs c20Case) string {
	if cs.Mut.Kind == "over" {
		return fmt.Sprintf("well-formed DATA reply to the READ carrying the requested bytes and %d more", cs.Mut.N)
	}
	if c20Unsolicited(cs.Mut) {
		return lib.Hex(c20Base(cs.Mut.Base, 0xAAAAAAAA))
	}
	var valid []byte
	if cs.Mut.Base == "valid" || cs.Mut.Base == "" {
		valid = c20ValidFor(cs)
		if valid == nil {
			return ""
		}
	} else {
		valid = c20Base("status-ok", 0xAAAAAAAA)
	}
	valid = append([]byte(nil), valid...)
	binary.BigEndian.PutUint32(valid[5:], 0xAAAAAAAA)
	out, _ := c20Apply(cs.Mut, valid)
	return lib.Hex(out)
}

var c20NumRe = regexp.MustCompile(`[0-9]+`)

var c20DryCache sync.Map

// c20ValidFor returns the valid reply #Idx of an operation by running it in-process against the fake
// server (valid replies only, so this cannot crash).
func c20ValidFor(cs c20Case) []byte {
	if v, ok := c20DryCache.Load(cliOpKey(cs.Op, cs.Opt)); ok {
		reps := v.([]string)
		if cs.Idx < len(reps) {
			return lib.UnHex(reps[cs.Idx])
		}
		return nil
	}
	res := c20Run(c20Case{Op: cs.Op, Opt: cs.Opt, Idx: -1, Mut: c20Mut{Base: "valid", Kind: "none"}})
	c20DryCache.Store(cliOpKey(cs.Op, cs.Opt), res.Replies)
	if cs.Idx < len(res.Replies) {
		return lib.UnHex(res.Replies[cs.Idx])
	}
	return nil
}

var _ = sftp.ErrSSHFxConnectionLost
