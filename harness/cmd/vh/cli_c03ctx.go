package main

// C03, scenario family "abandoned request": a context-aware call (Client.ReadDirContext — its OPENDIR and
// READDIR requests use the caller's ctx) is cancelled while one of its requests is outstanding. The peer
// holds that request, lets the deferred CLOSE and K further self-identifying calls of the same caller (and
// the calls of 0…8 concurrent callers) run, and answers the abandoned request LATE: before the j-th of the
// follow-up replies (j PRNG, j = 0 is before the CLOSE's reply) or after all of them. A late reply to an
// abandoned request must be dropped silently (or fail the connection cleanly); it must never become the
// result of another call. Oracle as in the main family: every call returns exactly the result built for its
// own request, nobody sees an unexpected id or another request's payload, inflight is empty at the end.

import (
	"bytes"
	"context"
	"errors"
	"fmt"
	"math/rand"
	"os"
	"sync"
	"sync/atomic"
	"time"

	"github.com/pkg/sftp"

	"verifharness/peers"
	"verifharness/wire"
)

// c03K recovers the operation number k a request belongs to (callers own disjoint ranges of k).
func c03K(q cliReq) uint64 {
	switch q.Typ {
	case wire.Read, wire.Write:
		return q.Off / c03Stride
	case wire.Close, wire.Readdir, wire.Fstat:
		return c03Num(q.Handle)
	}
	return c03Num(q.Path)
}

// c03OneCall issues one self-identifying call and returns what it got and what its own request's reply says.
func c03OneCall(client *sftp.Client, shared *sftp.File, rng *rand.Rand, k uint64, mp int) (kind, got, want string, err error) {
	kinds := []string{"stat", "stat-missing", "lstat", "readlink", "realpath", "mkdir", "rename", "readdir", "statvfs", "readat-shared", "open-close"}
	kind = kinds[rng.Intn(len(kinds))]
	switch kind {
	case "stat":
		fi, e := client.Stat(fmt.Sprintf("p%d", k))
		want = fmt.Sprintf("p%d %d -rw-r--r--", k, k)
		if err = e; e == nil {
			got = fmt.Sprintf("%s %d %v", fi.Name(), fi.Size(), fi.Mode())
		}
	case "stat-missing":
		_, e := client.Stat(fmt.Sprintf("missing%d", k))
		got, want = cliErrStr(e), "file does not exist"
	case "lstat":
		fi, e := client.Lstat(fmt.Sprintf("l%d", k))
		want = fmt.Sprintf("l%d %d Lrwxrwxrwx", k, k+7)
		if err = e; e == nil {
			got = fmt.Sprintf("%s %d %v", fi.Name(), fi.Size(), fi.Mode())
		}
	case "readlink":
		got, err = client.ReadLink(fmt.Sprintf("r%d", k))
		want = fmt.Sprintf("t%d", k)
	case "realpath":
		got, err = client.RealPath(fmt.Sprintf("q%d", k))
		want = fmt.Sprintf("/abs/q%d", k)
	case "mkdir":
		got = cliErrStr(client.Mkdir(fmt.Sprintf("m%d", k)))
		want = "nil"
		if k%2 == 1 {
			want = fmt.Sprintf("sftp: \"no m%d\" (SSH_FX_FAILURE)", k)
		}
	case "rename":
		got = cliErrStr(client.Rename(fmt.Sprintf("a%d", k), fmt.Sprintf("b%d", k)))
		want = fmt.Sprintf("sftp: \"a%d>b%d\" (SSH_FX_FAILURE)", k, k)
	case "readdir":
		fis, e := client.ReadDir(fmt.Sprintf("dir%d", k))
		err = e
		for _, fi := range fis {
			got += fmt.Sprintf("%s:%d ", fi.Name(), fi.Size())
		}
		want = fmt.Sprintf("e%d_0:%d e%d_1:%d ", k, k, k, k+1)
	case "statvfs":
		v, e := client.StatVFS(fmt.Sprintf("v%d", k))
		if err = e; e == nil {
			got = fmt.Sprint(v.Bsize)
		}
		want = fmt.Sprint(k)
	case "readat-shared":
		n := 1 + rng.Intn(mp)
		b := make([]byte, n)
		m, e := shared.ReadAt(b, int64(k*c03Stride))
		err = e
		if m != n {
			got, want = fmt.Sprintf("n=%d", m), fmt.Sprintf("n=%d", n)
		} else if !bytes.Equal(b, cliPatternBytes("h:shared", k*c03Stride, n)) {
			got, want = "data of another request", "the pattern of this handle and offset"
		}
	case "open-close":
		f, e := client.Open(fmt.Sprintf("o%d", k))
		if err = e; e == nil {
			err = f.Close()
		}
	}
	return
}

func c03RunCtx(cs c03Case) (res c03Res) {
	res.Batches = map[string]int{}
	res.OpHist = map[string]int{}
	var fmu sync.Mutex
	fail := func(key, what string, act any) {
		fmu.Lock()
		res.Fails = append(res.Fails, c20Fail{key, what, act})
		fmu.Unlock()
	}
	count := func(kind string) {
		fmu.Lock()
		res.Calls++
		res.OpHist[kind]++
		fmu.Unlock()
	}
	client, peer, err := peers.NewClient(cliVersion(), c03Opts(cs)...)
	if err != nil {
		fail("tie/new-client", err.Error(), nil)
		return
	}
	srv := &c03Server{dirReads: map[string]int{}}

	// ---- the peer: answers in arrival order, except for the request it holds ----
	type holdState struct {
		dir       string
		hold      string // opendir | first | second
		late      string // name | eof
		pos       int    // inject before the pos-th reply to the victim's follow-up requests
		heldCh    chan struct{}
		held      *cliReq
		sentSince int
		injected  bool
		readdirs  int
	}
	var hmu sync.Mutex
	var cur *holdState
	var evs []connEv
	abandonedIDs := map[uint32]bool{}
	arrivals := 0
	evStop := cs.ConnCap <= 0
	var trace []string
	tr := func(s string) {
		if len(trace) < 80 {
			trace = append(trace, s)
		}
	}
	lateFrame := func(st *holdState) []byte {
		q := *st.held
		if st.hold == "opendir" {
			if st.late == "eof" {
				return wire.StatusFrame(q.ID, wire.NoSuchFile, "late: no "+q.Path)
			}
			return wire.HandleFrame(q.ID, "d:"+q.Path)
		}
		if st.late == "eof" {
			return wire.StatusFrame(q.ID, wire.EOF, "late EOF")
		}
		k := c03Num(q.Handle)
		return wire.NameFrame(q.ID, []wire.NameEnt{
			{Name: fmt.Sprintf("late%d_0", k), Long: "l", A: wire.St{Flags: wire.ASize, Size: 900000 + k}},
			{Name: fmt.Sprintf("late%d_1", k), Long: "l", A: wire.St{Flags: wire.ASize, Size: 900001 + k}}})
	}
	// inject must be called with hmu held
	inject := func(st *holdState, where string) {
		if st.held == nil || st.injected {
			return
		}
		st.injected = true
		tr(fmt.Sprintf("late-reply#%d %s", st.held.ID, where))
		lf := lateFrame(st)
		if !evStop {
			evs = append(evs, connEv{K: "r", ID: st.held.ID, T: connTok(lf)})
		}
		peer.Reply(lf)
	}
	peerDone := make(chan struct{})
	go func() {
		defer close(peerDone)
		for p := range peer.Reqs {
			q, derr := cliDecodeReq(p)
			if derr != nil {
				fail("framing/undecodable-request", derr.Error(), nil)
				continue
			}
			victim := c03K(q) < 100000
			hmu.Lock()
			if arrivals++; arrivals > cs.ConnCap {
				evStop = true
			}
			if !evStop {
				evs = append(evs, connEv{K: "a", ID: q.ID})
			}
			st := cur
			if st != nil && st.held == nil && victim {
				match := false
				switch {
				case st.hold == "opendir":
					match = q.Typ == wire.Opendir && q.Path == st.dir
				case q.Typ == wire.Readdir && q.Handle == "d:"+st.dir:
					st.readdirs++
					match = (st.hold == "first" && st.readdirs == 1) || (st.hold == "second" && st.readdirs == 2)
				}
				if match {
					qq := q
					st.held = &qq
					abandonedIDs[q.ID] = true
					tr(fmt.Sprintf("hold#%d %s", q.ID, c03Canon(q)))
					close(st.heldCh)
					hmu.Unlock()
					continue
				}
			}
			if st != nil && st.held != nil && !st.injected && victim {
				if st.sentSince == st.pos {
					inject(st, fmt.Sprintf("before follow-up reply %d (#%d %s)", st.sentSince, q.ID, c03Canon(q)))
				}
				st.sentSince++
			}
			tr(fmt.Sprintf("reply#%d %s", q.ID, c03Canon(q)))
			frame := srv.reply(q)
			if !evStop {
				evs = append(evs, connEv{K: "r", ID: q.ID, T: connTok(frame)})
			}
			hmu.Unlock()
			peer.Reply(frame)
		}
	}()

	hung := atomic.Bool{}
	var shared *sftp.File
	if !cliWithin(cliDeadline, func() { shared, err = client.OpenFile("shared", os.O_RDWR) }) || err != nil {
		fail("error/setup-open", fmt.Sprint("opening the shared file failed although the OPEN was answered with a handle: ", err), nil)
		res.ExitNow = true
		peer.Shutdown()
		return
	}

	// connection failed cleanly? (an acceptable reaction to a late reply; the case then ends)
	failedClean := func() bool { return cliWithin(200*time.Millisecond, func() { client.Wait() }) }
	cleanStop := atomic.Bool{}
	broken := atomic.Bool{}
	check := func(who string, kind, got, want string, cerr error, k uint64, after string) {
		count(kind)
		if cerr == nil && got == want {
			return
		}
		if cerr != nil && failedClean() {
			cleanStop.Store(true)
			return
		}
		// the first wrong result ends the run (stale replies cascade from here on; one concrete input is enough)
		cleanStop.Store(true)
		broken.Store(true)
		if cerr != nil {
			fail("error/"+kind+"/after-abandoned-request", fmt.Sprintf("%s: %s (k=%d) returned an error although its own request was answered successfully: %v  [%s]", who, kind, k, cerr, after), map[string]any{"k": k, "err": cerr.Error()})
		} else {
			fail("misrouted/"+kind+"/after-abandoned-request", fmt.Sprintf("%s: %s (k=%d) did not return the result built for its own request  [%s]", who, kind, k, after), map[string]any{"k": k, "got": got, "want": want})
		}
	}
	call := func(who string, rng *rand.Rand, k uint64, after string) bool {
		var kind, got, want string
		var cerr error
		if !cliWithin(cliDeadline, func() { kind, got, want, cerr = c03OneCall(client, shared, rng, k, cs.MaxPacket) }) {
			hung.Store(true)
			fail("hang/after-abandoned-request", who+": a call did not return within 20 s although its request is answered", cliDescribe(cliGoroutines2()))
			return false
		}
		check(who, kind, got, want, cerr, k, after)
		return !cleanStop.Load()
	}

	// ---- concurrent bystanders ----
	stop := make(chan struct{})
	var wg sync.WaitGroup
	for c := 1; c <= cs.Callers; c++ {
		wg.Add(1)
		go func(c int) {
			defer wg.Done()
			rng := rand.New(rand.NewSource(cs.Seed + int64(c)*7919))
			for i := 0; i < 90000; i++ {
				select {
				case <-stop:
					return
				default:
				}
				if !call(fmt.Sprintf("bystander %d", c), rng, uint64(c*100000+i+1), "concurrent with the abandoned request") {
					return
				}
			}
		}(c)
	}

	// ---- the victim caller (caller 0) ----
	rng := rand.New(rand.NewSource(cs.Seed))
	k := uint64(0)
	next := func() uint64 { k++; return k }
	holds := []string{"opendir", "first", "second"}
	lates := []string{"name", "eof"}
	for round := 0; round < cs.Rounds && !hung.Load() && !cleanStop.Load(); round++ {
		st := &holdState{hold: cs.Hold, late: cs.Late, heldCh: make(chan struct{})}
		if st.hold == "" || st.hold == "any" {
			st.hold = holds[rng.Intn(3)]
		}
		if st.late == "" || st.late == "any" {
			st.late = lates[rng.Intn(2)]
		}
		nfollow := cs.K
		if nfollow <= 0 {
			nfollow = 1 + rng.Intn(6)
		}
		// replies to the victim that follow the hold: [CLOSE unless the OPENDIR is held] + one or more per follow-up call
		st.pos = rng.Intn(nfollow + 3)
		if cs.Pos >= 0 {
			st.pos = cs.Pos
		}
		dk := next()
		st.dir = fmt.Sprintf("dir%d", dk)
		hmu.Lock()
		cur = st
		hmu.Unlock()
		ctx, cancel := context.WithCancel(context.Background())
		go func() {
			select {
			case <-st.heldCh:
				// the request is outstanding (the peer has it and will not answer for now): abandon the call
				cancel()
			case <-time.After(cliCase.Load().Wait(cliDeadline)):
			}
		}()
		var fis []os.FileInfo
		var rerr error
		if !cliWithin(cliDeadline, func() { fis, rerr = client.ReadDirContext(ctx, st.dir) }) {
			hung.Store(true)
			fail("hang/ReadDirContext", "ReadDirContext did not return within 20 s after its context was cancelled", cliDescribe(cliGoroutines2()))
			break
		}
		cancel()
		count("readdir-ctx/hold=" + st.hold + "/late=" + st.late)
		var got string
		for _, fi := range fis {
			got += fmt.Sprintf("%s:%d ", fi.Name(), fi.Size())
		}
		want := ""
		if st.hold == "second" {
			want = fmt.Sprintf("e%d_0:%d e%d_1:%d ", dk, dk, dk, dk+1)
		}
		if !errors.Is(rerr, context.Canceled) || got != want {
			if rerr != nil && !errors.Is(rerr, context.Canceled) && failedClean() {
				cleanStop.Store(true)
				break
			}
			fail("ctx/readdir-result", "ReadDirContext cancelled while its request was outstanding did not return (entries so far, context.Canceled)", map[string]any{"hold": st.hold, "err": cliErrStr(rerr), "got": got, "want": want})
		}
		after := fmt.Sprintf("round %d: %s of %s abandoned, late %s injected at position %d", round, st.hold, st.dir, st.late, st.pos)
		ok := true
		for i := 0; i < nfollow && ok; i++ {
			ok = call("victim", rng, next(), after)
		}
		// not injected yet: every other call of this caller has completed — answer the abandoned request now
		hmu.Lock()
		inject(st, "after all follow-up calls completed")
		hmu.Unlock()
		fmu.Lock()
		res.Reordered++
		res.Batches[fmt.Sprintf("%d", min(st.pos, nfollow+2))]++
		fmu.Unlock()
		// later calls must not be corrupted by it
		for i := 0; i < 3 && ok; i++ {
			ok = call("victim", rng, next(), after+"; trailing call")
		}
		hmu.Lock()
		cur = nil
		hmu.Unlock()
	}
	close(stop)
	if !cliWithin(cliDeadline+5*time.Second, wg.Wait) {
		hung.Store(true)
	}
	if hung.Load() {
		res.ExitNow = true
		peer.Shutdown()
		return
	}
	if broken.Load() {
		// already reported
	} else if cleanStop.Load() {
		res.OpHist["connection-failed-cleanly-after-late-reply"]++
	} else if n := sftp.VerifInflight(client); n != 0 {
		fail("inflight-not-empty", fmt.Sprintf("%d entries remain in clientConn.inflight after every call returned and every request (the abandoned ones included) was answered", n), nil)
	}
	closed := make(chan struct{})
	go func() { client.Close(); close(closed) }()
	select {
	case <-peerDone:
	case <-cliCase.Load().After(cliDeadline):
		cliCase.Load().Fired()
		fail("tie/peer", "scripted peer did not finish", nil)
		res.ExitNow = true
	}
	peer.Shutdown()
	select {
	case <-closed:
	case <-cliCase.Load().After(cliDeadline):
		cliCase.Load().Fired()
		fail("close-hang", "Client.Close did not return within 20 s", cliDescribe(cliGoroutines2()))
		res.ExitNow = true
	}
	res.Trace = trace
	if len(res.Fails) == 0 && len(evs) > 0 && !cleanStop.Load() {
		known := map[uint32]string{}
		for _, e := range evs {
			known[e.ID] = "reply"
			if abandonedIDs[e.ID] {
				known[e.ID] = "abandoned"
			}
		}
		l := connObs{Events: evs, Base: evs[0].ID - 1, Known: known}.build()
		res.Conn = &l
		k := &chanClassifier{victims: abandonedIDs}
		res.ChanObs = chanObsTokens(evs, evs[0].ID-1, nil, k)
		res.ChanClass = k.Counts
	}
	// one process per run of this family: whatever a late reply may have left behind in package-level state
	// (a pooled channel holding a stale result, say) must not leak into the next case's attribution
	res.ExitNow = true
	return
}
