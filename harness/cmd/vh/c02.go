package main

// C02: every request is answered once, with its id, in arrival order — for any mix of
// pipelined requests and any order in which the pool workers and the command worker finish.

import (
	"encoding/json"
	"fmt"
	"math/rand"
	"os"
	"sort"
	"strings"
	"time"

	"verifharness/lib"
	"verifharness/peers"
	"verifharness/wire"
)

func init() { register("c02", checkC02) }

// c02Cfg is replaced at the start of checkC02/checkC14 by the token regenerated from the source (gCurCfg).
var c02Cfg = "100-11111-8-1"

// ---- program generator ----

type c02Gen struct {
	rng     *rand.Rand
	server  string
	nextOff map[string]int
	state   map[string]string // handle → open | closing | stale
	used    map[string]bool
	misUsed map[string]bool
	noMis   bool // leave out requests whose type does not fit their handle (C18 streams)
	noTime  bool // leave out requests whose reply shows times or file-system counters that change between two runs (C18, os-backed)
	// big (C02 only): one request in five is one whose REPLY is as large as the server's configuration lets it be
	// (see bigOp); cfg is the configuration the program will run under.
	big bool
	cfg c02SrvCfg
	// opt: the options the program will run under. A read-only server opens read and directory handles only, and the
	// WRITEs of the program then go to those (every one of them is refused); with a working / start directory every
	// path is sent in its relative form, one in four in its absolute form nonetheless; with handlers that lack
	// optional interfaces one request in four is of a kind whose handling depends on them.
	opt   c02Opt
	alloc bool // WithAllocator / WithRSAllocator (programs outside the big-reply family, whose configuration is cfg)
	// pred: the family of programs that name handles BEFORE their HANDLE reply was received. Both servers number
	// their handles 1, 2, 3 …, so a pipelining client can name the handle an OPEN is going to get right behind that
	// OPEN — or before it, or a number that is never handed out (gOp.Nx). One request in four is an OPEN / OPENDIR
	// inside the pipeline (of an object of its own, gPredObj; existing, missing, of the wrong kind) or a READ, WRITE,
	// FSTAT, FSETSTAT, READDIR, CLOSE on such a number; nOpens counts the OPENs drawn so far.
	pred   bool
	nOpens int
}

func c02IsOpen(k string) bool { return k == "open" || k == "openrw" || k == "openw" || k == "opendir" }

// predOp draws a request of the pred family.
func (g *c02Gen) predOp(i int) (gOp, bool) {
	if g.nOpens == 0 || g.rng.Intn(3) == 0 {
		k := []string{"open", "open", "openrw", "openw", "opendir"}[g.rng.Intn(5)]
		p := fmt.Sprintf("q%d", i)
		switch {
		case g.rng.Intn(4) == 0:
			p = fmt.Sprintf("missingq%d", i)
		case k == "opendir" && g.rng.Intn(4) != 0:
			p = fmt.Sprintf("dq%d", i)
		}
		return gOp{K: k, P: p}, true
	}
	o := gOp{K: []string{"read", "read", "write", "write", "fstat", "fsetstat", "readdir", "close"}[g.rng.Intn(8)], Nx: 1 + g.rng.Intn(g.nOpens+1)}
	switch o.K {
	case "read":
		o.Off, o.Len = int64(i)*1001, []uint32{0, 1, 300, 4096}[g.rng.Intn(4)]
	case "write":
		o.Off, o.Len = int64(i)*4096, []uint32{0, 1, 100}[g.rng.Intn(3)]
	case "fsetstat":
		o.AF = []uint32{0, wire.APerm}[g.rng.Intn(2)]
	}
	return o, true
}

// c02Opt is what a server is started with besides c02SrvCfg: ReadOnly() (os-backed), WithServerWorkingDirectory /
// WithStartDirectory, and (request server) the optional interfaces the handlers do not implement.
type c02Opt struct {
	ReadOnly bool
	WorkDir  bool
	Ifaces   gIfaces
}

func (o c02Opt) zero() bool { return o == c02Opt{} }

func (o c02Opt) tokens() []string {
	var t []string
	if o.ReadOnly {
		t = append(t, "readonly")
	}
	if o.WorkDir {
		t = append(t, "workdir")
	}
	return append(t, o.Ifaces.tokens()...)
}

func (o c02Opt) text() string {
	if t := o.tokens(); len(t) > 0 {
		return strings.Join(t, "+")
	}
	return "none"
}

func (o c02Opt) apply(p *gProg) { p.ReadOnly, p.WorkDir, p.Ifaces = o.ReadOnly, o.WorkDir, o.Ifaces }

func c02OptOf(p gProg) c02Opt { return c02Opt{p.ReadOnly, p.WorkDir, p.Ifaces} }

// c02IfaceSets: every interface present; each one lacking alone; RealPath in its legacy form; all lacking (with
// no RealPath at all, and with the legacy one).
func c02IfaceSets(all bool) []gIfaces {
	if all { // the full product: 2^5 x 3
		var out []gIfaces
		for m := 0; m < 32; m++ {
			for _, rp := range []string{"", "legacy", "none"} {
				out = append(out, gIfaces{NoStatVFS: m&1 != 0, NoPosixRename: m&2 != 0, NoLstat: m&4 != 0, NoOpenFile: m&8 != 0, NoReadlink: m&16 != 0, RealPath: rp})
			}
		}
		return out
	}
	return []gIfaces{{}, {NoStatVFS: true}, {NoPosixRename: true}, {NoLstat: true}, {NoOpenFile: true}, {NoReadlink: true}, {RealPath: "none"}, {RealPath: "legacy"},
		{NoStatVFS: true, NoPosixRename: true, NoLstat: true, NoOpenFile: true, NoReadlink: true, RealPath: "none"},
		{NoStatVFS: true, NoPosixRename: true, NoLstat: true, NoOpenFile: true, NoReadlink: true, RealPath: "legacy"}}
}

// c02Opts lists the option combinations of a server: os-backed ReadOnly x working directory; request server start
// directory x handler sets (the ten of c02IfaceSets, or all 96).
func c02Opts(server string, allIfaces bool) []c02Opt {
	var out []c02Opt
	if server == "os" {
		for _, ro := range []bool{false, true} {
			for _, wd := range []bool{false, true} {
				out = append(out, c02Opt{ReadOnly: ro, WorkDir: wd})
			}
		}
		return out
	}
	for _, wd := range []bool{false, true} {
		for _, i := range c02IfaceSets(allIfaces) {
			out = append(out, c02Opt{WorkDir: wd, Ifaces: i})
		}
	}
	return out
}

// c02Deck deals (option combination, allocator) pairs: every pair once, in PRNG order, then again.
type c02Deck struct {
	rng  *rand.Rand
	all  []c02Deal
	left []c02Deal
}

type c02Deal struct {
	Opt   c02Opt
	Alloc bool
}

// newC02Deck: keep (when not nil) says which option combinations take part.
func newC02Deck(rng *rand.Rand, server string, allIfaces bool, keep func(c02Opt) bool) *c02Deck {
	d := &c02Deck{rng: rng}
	for _, o := range c02Opts(server, allIfaces) {
		if keep != nil && !keep(o) {
			continue
		}
		d.all = append(d.all, c02Deal{o, false}, c02Deal{o, true})
	}
	return d
}

func (d *c02Deck) next() c02Deal {
	if len(d.left) == 0 {
		d.left = append([]c02Deal(nil), d.all...)
		d.rng.Shuffle(len(d.left), func(a, b int) { d.left[a], d.left[b] = d.left[b], d.left[a] })
	}
	x := d.left[0]
	d.left = d.left[1:]
	return x
}

// c02SrvCfg is a server configuration: WithAllocator / WithRSAllocator and WithMaxTxPacket / WithRSMaxTxPacket.
type c02SrvCfg struct {
	Alloc bool
	MaxTx uint32 // 0 = default (32768)
}

func (c c02SrvCfg) text() string {
	return fmt.Sprintf("alloc=%s/max-tx=%s", map[bool]string{false: "off", true: "on"}[c.Alloc], c02TxName(c.MaxTx))
}

func c02TxName(v uint32) string {
	if v == 0 {
		return "default"
	}
	return fmt.Sprintf("%06d", v)
}

// Sizes that matter for a reply: c02FrameMax is the largest frame length the package's own reader accepts
// (maxMsgLength) and the size of an allocator page; a DATA reply has 9 bytes in front of its payload within the
// frame (type, id, length) and 13 within a page (those and the frame length), a NAME reply with one entry whose name
// is given twice has 21 bytes around the two copies.
const (
	c02FrameMax  = 256 * 1024
	c02DataAtMax = c02FrameMax - 9         // payload of the longest DATA reply a frame of c02FrameMax takes
	c02DataPage  = c02FrameMax - 13        // payload of the longest DATA reply built inside one allocator page
	c02NameAtMax = (c02FrameMax - 21) / 2  // path length of the longest one-entry NAME reply that fits such a frame (131061)
	c02PathMax   = c02FrameMax - 9 - 4 - 2 // about the longest path a REALPATH request frame can carry
)

// c02MaxTxValues: default, a middle value, the values at which the longest DATA reply just fits / no longer fits an
// allocator page and a frame of c02FrameMax, the "natural" 256 KiB, and twice that.
var c02MaxTxValues = []uint32{0, 65536, c02DataPage, c02DataPage + 1, c02DataAtMax, c02DataAtMax + 1, c02FrameMax, 2 * c02FrameMax}

func c02AllCfgs() []c02SrvCfg {
	var out []c02SrvCfg
	for _, a := range []bool{false, true} {
		for _, m := range c02MaxTxValues {
			out = append(out, c02SrvCfg{a, m})
		}
	}
	return out
}

// c02BigHandles are opened in addition to c02AllHandles by programs of the big-reply family only.
var c02BigHandles = []gHandle{
	{Name: "dh", Kind: "dir", Path: "dhuge"}, // request server: 120 names of 1400 bytes
	{Name: "dw", Kind: "dir", Path: "dwide"}, // 130 names of 250 bytes (what a file system takes)
}

func c02BigDir(server string) string {
	if server == "rs" {
		return "dh"
	}
	return "dw"
}

func (c c02SrvCfg) effTx() uint32 {
	if c.MaxTx == 0 {
		return 32768
	}
	return c.MaxTx
}

// bigReadLens: lengths around every size that matters, and around what this server will cut a READ down to.
func (c c02SrvCfg) bigReadLens() []uint32 {
	e := c.effTx()
	return []uint32{e - 1, e, e, e + 1, c02DataPage, c02DataPage + 1, c02DataAtMax, c02DataAtMax + 1, c02FrameMax, 300000, 0xFFFFFFFF}
}

var c02LongPaths = []uint32{c02NameAtMax - 1, c02NameAtMax, c02NameAtMax + 1, 140000, 200000, c02PathMax}

// bigOp draws a request whose reply is of the largest size its kind can have under the configuration: READ of the
// longest length on the 600000-byte file, READDIR of a directory with many long names, REALPATH / READLINK of very
// long paths (the NAME reply carries the resolved path twice, so it outgrows every request).
func (g *c02Gen) bigOp(i int) (gOp, bool) {
	switch r := g.rng.Intn(10); {
	case r < 5:
		if g.state["r0"] != "open" {
			return gOp{}, false
		}
		k := g.nextOff["r0/r"]
		g.nextOff["r0/r"]++
		lens := g.cfg.bigReadLens()
		return gOp{K: "read", H: "r0", Off: int64(k)*33001 + int64(g.rng.Intn(7)), Len: lens[g.rng.Intn(len(lens))]}, true
	case r < 7:
		h := c02BigDir(g.server)
		if g.state[h] != "open" {
			return gOp{}, false
		}
		return gOp{K: "readdir", H: h}, true
	case r < 9:
		return gOp{K: "realpath", P: "s0", Pad: c02LongPaths[g.rng.Intn(len(c02LongPaths))]}, true
	default:
		if g.server == "rs" {
			return gOp{K: "readlink", P: "lnk", Pad: c02LongPaths[g.rng.Intn(len(c02LongPaths))]}, true
		}
		return gOp{K: "readlink", P: "lnkmax"}, true
	}
}

var c02AllHandles = []gHandle{
	{Name: "r0", Kind: "get", Path: "f0"}, {Name: "r1", Kind: "get", Path: "f1"},
	{Name: "w0", Kind: "put", Path: "g0"}, {Name: "x0", Kind: "rw", Path: "x0"},
	{Name: "d0", Kind: "dir", Path: "d0"}, {Name: "d2", Kind: "dir", Path: "d2"},
	{Name: "stale", Kind: "get", Path: "f2", Closed: true},
	{Name: "mr", Kind: "get", Path: "f3"}, {Name: "mw", Kind: "put", Path: "g3"}, {Name: "md", Kind: "dir", Path: "d3"}, {Name: "mx", Kind: "rw", Path: "x3"},
}

func newC02Gen(rng *rand.Rand, server string) *c02Gen {
	g := &c02Gen{rng: rng, server: server, nextOff: map[string]int{}, state: map[string]string{}, used: map[string]bool{}, misUsed: map[string]bool{}}
	for _, h := range c02AllHandles {
		g.state[h.Name] = "open"
	}
	g.state["stale"] = "stale"
	return g
}

// newC02OptGen: the generator of programs for a server started with opt.
func newC02OptGen(rng *rand.Rand, server string, opt c02Opt) *c02Gen {
	g := newC02Gen(rng, server)
	g.setOpt(opt)
	return g
}

func (g *c02Gen) setOpt(opt c02Opt) {
	g.opt = opt
	if opt.ReadOnly { // handles opened for writing do not exist
		for _, h := range c02AllHandles {
			if h.Kind == "put" || h.Kind == "rw" {
				g.state[h.Name] = "absent"
			}
		}
	}
}

// newC02BigGen: the generator of the big-reply family, for a server that will run with cfg.
func newC02BigGen(rng *rand.Rand, server string, cfg c02SrvCfg) *c02Gen {
	g := newC02Gen(rng, server)
	g.big, g.cfg = true, cfg
	g.state[c02BigDir(server)] = "open"
	return g
}

func (g *c02Gen) pick(names ...string) string {
	var open []string
	for _, n := range names {
		if g.state[n] == "open" {
			open = append(open, n)
		}
	}
	if len(open) == 0 {
		return ""
	}
	return open[g.rng.Intn(len(open))]
}

func (g *c02Gen) readOp(h string) gOp {
	k := g.nextOff[h+"/r"]
	g.nextOff[h+"/r"]++
	lens := []uint32{0, 1, 17, 4096, 32768, 40000, 300}
	o := gOp{K: "read", H: h, Len: lens[g.rng.Intn(len(lens))]}
	if h == "x0" {
		o.Off = int64(k) * 4099
		if o.Len > 4096 {
			o.Len = 4096
		}
		if o.Off+int64(o.Len) > 65536 {
			o.Off = 65536 + int64(k) // harmless: an own, never written byte range is not guaranteed here, so read nothing
			o.Len = 0
		}
	} else {
		o.Off = int64(k)*33001 + int64(g.rng.Intn(7))
	}
	return o
}

func (g *c02Gen) writeOp(h string) gOp {
	k := g.nextOff[h+"/w"]
	g.nextOff[h+"/w"]++
	lens := []uint32{0, 1, 100, 4096, 32768}
	o := gOp{K: "write", H: h, Len: lens[g.rng.Intn(len(lens))], Off: int64(k) * 33000}
	if h == "x0" {
		o.Off += 70000
	}
	if g.opt.ReadOnly { // far from every offset that is read, so that a WriteAt that does happen has a key of its own
		o.Off += 1_000_000
	}
	return o
}

// afterCmd: a command request has gone through the command worker, so earlier CLOSEs have completed.
func (g *c02Gen) afterCmd(except string) {
	for k, v := range g.state {
		if v == "closing" && k != except {
			g.state[k] = "stale"
		}
	}
}

func (g *c02Gen) op(i int) gOp {
	for {
		o, ok := g.try(i)
		if ok {
			if g.opt.WorkDir && o.P != "" && g.rng.Intn(4) == 0 {
				o.Abs = true
			}
			if o.H != "" && o.H != "bogus" {
				g.used[o.H] = true
			}
			if g.pred && c02IsOpen(o.K) {
				// every OPEN of such a program is given an object of its own: which requests reach the handle it hands
				// out is left to the schedule
				switch {
				case gPredObj(o.P) || strings.HasPrefix(o.P, "missingq"):
				case gIsMissing(o.P):
					o.P = fmt.Sprintf("missingq%d", i)
				case o.K == "opendir" && o.P == "sd":
					o.P = fmt.Sprintf("dq%d", i)
				default:
					o.P = fmt.Sprintf("q%d", i)
				}
				g.nOpens++
			}
			if gSimKind(o.K) != 'w' {
				ex := ""
				if o.K == "close" {
					ex = o.H
				}
				g.afterCmd(ex)
			}
			return o
		}
	}
}

func (g *c02Gen) badHandle() string {
	if g.rng.Intn(2) == 0 {
		return "bogus"
	}
	for _, h := range c02AllHandles { // fixed order: the draw must depend on the seed only
		if g.state[h.Name] == "stale" && h.Name != "stale" && g.rng.Intn(2) == 0 {
			return h.Name
		}
	}
	return "stale"
}

func (g *c02Gen) try(i int) (gOp, bool) {
	if g.big && g.rng.Intn(5) == 0 {
		return g.bigOp(i)
	}
	if !g.opt.Ifaces.zero() && g.rng.Intn(4) == 0 {
		return g.ifaceOp(i)
	}
	if g.pred && g.rng.Intn(4) == 0 {
		return g.predOp(i)
	}
	r := g.rng.Intn(104)
	miss := g.rng.Intn(4) == 0
	name := func(prefix string) string {
		if miss {
			return fmt.Sprintf("missing%d", i)
		}
		return fmt.Sprintf("%s%d", prefix, i)
	}
	switch {
	case r < 24:
		h := g.pick("r0", "r1", "x0")
		if h == "" {
			return gOp{}, false
		}
		return g.readOp(h), true
	case r < 38:
		h := g.pick("w0", "x0")
		if g.opt.ReadOnly {
			h = g.pick("r0", "r1", "d0")
		}
		if h == "" {
			return gOp{}, false
		}
		return g.writeOp(h), true
	case r < 44:
		h := g.pick("r0", "r1", "w0", "x0", "d0", "d2")
		if h == "" {
			return gOp{}, false
		}
		g.state[h] = "closing"
		return gOp{K: "close", H: h}, true
	case r < 49:
		if g.noTime {
			return gOp{}, false
		}
		h := g.pick("r0", "r1", "w0", "x0", "d0")
		if h == "" {
			return gOp{}, false
		}
		return gOp{K: "fstat", H: h}, true
	case r < 54:
		h := g.pick("d0", "d2")
		if h == "" {
			return gOp{}, false
		}
		return gOp{K: "readdir", H: h}, true
	case r < 57:
		h := g.pick("r0", "r1", "w0", "x0")
		if h == "" || (g.noTime && !g.opt.ReadOnly) { // a read-only server refuses it: nothing changes
			return gOp{}, false
		}
		return gOp{K: "fsetstat", H: h, AF: []uint32{0, wire.APerm}[g.rng.Intn(2)]}, true
	case r < 63:
		p := []string{"s0", "s1", "sd", "lnk"}[g.rng.Intn(4)]
		if miss {
			p = fmt.Sprintf("missing%d", i)
		}
		return gOp{K: "stat", P: p}, true
	case r < 66:
		p := []string{"s0", "sd", "lnk"}[g.rng.Intn(3)]
		if g.noTime && p == "lnk" {
			p = "s1"
		}
		if miss {
			p = fmt.Sprintf("missing%d", i)
		}
		return gOp{K: "lstat", P: p}, true
	case r < 68:
		p := []string{"sd", "s0"}[g.rng.Intn(2)]
		if miss {
			p = fmt.Sprintf("missing%d", i)
		}
		return gOp{K: "opendir", P: p}, true
	case r < 70:
		p := "s1"
		if miss {
			p = fmt.Sprintf("missing%d", i)
		}
		return gOp{K: "open", P: p}, true
	case r < 73:
		return gOp{K: "realpath", P: []string{"s0", "sd/../s1", "missing/x"}[g.rng.Intn(3)]}, true
	case r < 75:
		p := "lnk"
		if miss {
			p = fmt.Sprintf("missing%d", i)
		}
		return gOp{K: "readlink", P: p}, true
	case r < 77:
		return gOp{K: "setstat", P: name("ss"), AF: wire.APerm}, true
	case r < 79:
		return gOp{K: "mkdir", P: fmt.Sprintf("mk%d", i)}, true
	case r < 80:
		return gOp{K: "rmdir", P: name("rd")}, true
	case r < 82:
		return gOp{K: "remove", P: name("rm")}, true
	case r < 84:
		return gOp{K: "rename", P: name("rn"), P2: fmt.Sprintf("rn%d.to", i)}, true
	case r < 85:
		return gOp{K: "symlink", P: "s0", P2: fmt.Sprintf("sl%d", i)}, true
	case r < 87:
		p := "s0"
		if miss || g.noTime { // the os-backed server reports the live free-block counts of the host file system
			p = fmt.Sprintf("missing%d", i)
		}
		return gOp{K: "statvfs", P: p}, true
	case r < 88:
		return gOp{K: "posixrename", P: name("pr"), P2: fmt.Sprintf("pr%d.to", i)}, true
	case r < 89:
		return gOp{K: "hardlink", P: name("hl"), P2: fmt.Sprintf("hl%d.to", i)}, true
	case r < 90:
		return gOp{K: "extunknown"}, true
	case r < 91:
		h := g.pick("r0", "w0")
		if h == "" {
			h = "bogus"
		}
		return gOp{K: "fsync", H: h}, true
	case r >= 100: // OPEN for reading and writing / for writing with creation, inside the pipeline
		if r < 102 {
			p := "s1"
			if miss {
				p = fmt.Sprintf("missing%d", i)
			}
			return gOp{K: "openrw", P: p}, true
		}
		return gOp{K: "openw", P: fmt.Sprintf("ow%d", i)}, true
	case r < 96:
		k := []string{"read", "write", "close", "fstat", "readdir", "fsetstat"}[g.rng.Intn(6)]
		o := gOp{K: k, H: g.badHandle(), Len: 10}
		if (k == "fstat" || k == "fsetstat") && g.noTime {
			o.K = "read"
		}
		return o, true
	default:
		if g.noMis {
			return gOp{}, false
		}
		// a request whose type does not fit the kind of its handle; one per handle and program
		type mm struct{ k, h string }
		all := []mm{{"read", "mw"}, {"read", "md"}, {"write", "mr"}, {"write", "md"}, {"readdir", "mr"}, {"readdir", "mw"}, {"readdir", "mx"}}
		m := all[g.rng.Intn(len(all))]
		if g.misUsed[m.h] || g.state[m.h] != "open" {
			return gOp{}, false
		}
		g.misUsed[m.h] = true
		return gOp{K: m.k, H: m.h, Off: 0, Len: 16}, true
	}
}

// ifaceOp draws a request of a kind whose handling depends on an optional handler interface.
func (g *c02Gen) ifaceOp(i int) (gOp, bool) {
	miss := g.rng.Intn(4) == 0
	pth := func(p string) string {
		if miss {
			return fmt.Sprintf("missing%d", i)
		}
		return p
	}
	switch g.rng.Intn(8) {
	case 0:
		return gOp{K: "statvfs", P: pth("s0")}, true
	case 1:
		return gOp{K: "posixrename", P: pth(fmt.Sprintf("pr%d", i)), P2: fmt.Sprintf("pr%d.to", i)}, true
	case 2:
		return gOp{K: "lstat", P: pth([]string{"s0", "sd", "lnk"}[g.rng.Intn(3)])}, true
	case 3:
		return gOp{K: "readlink", P: pth("lnk")}, true
	case 4:
		return gOp{K: "realpath", P: []string{"s0", "sd/../s1", "missing/x"}[g.rng.Intn(3)]}, true
	case 5:
		return gOp{K: "openrw", P: pth("s1")}, true
	case 6:
		if g.state["x0"] != "open" {
			return gOp{}, false
		}
		return g.readOp("x0"), true
	default:
		if g.state["x0"] != "open" {
			return gOp{}, false
		}
		return g.writeOp("x0"), true
	}
}

// parallelProgram draws n requests none of which has to wait for another: reads and writes on open handles plus at
// most one request for the command worker; every completion order (n!) can be forced.
func (g *c02Gen) parallelProgram(n int, idStyle string) gProg {
	p := gProg{Server: g.server}
	cmdAt := -1
	if g.rng.Intn(3) > 0 {
		cmdAt = g.rng.Intn(n)
	}
	for i := 0; i < n; i++ {
		var o gOp
		switch {
		case i == cmdAt && g.server == "rs":
			o = []gOp{{K: "stat", P: "s0"}, {K: "lstat", P: fmt.Sprintf("missing%d", i)}, {K: "mkdir", P: fmt.Sprintf("mk%d", i)}, {K: "fstat", H: "r0"},
				{K: "readdir", H: "d0"}, {K: "open", P: "s1"}, {K: "statvfs", P: "s0"}, {K: "realpath", P: "s0"}, {K: "fsetstat", H: "w0", AF: wire.APerm},
				{K: "lstat", P: "s0"}, {K: "posixrename", P: fmt.Sprintf("pr%d", i), P2: fmt.Sprintf("pr%d.to", i)}, {K: "readlink", P: "lnk"}, {K: "openrw", P: "s1"}}[g.rng.Intn(13)]
		case i == cmdAt:
			fs := gOp{K: "fsetstat", H: "w0", AF: wire.APerm}
			if g.opt.ReadOnly {
				fs.H = "r0"
			}
			o = []gOp{{K: "fstat", H: "r0"}, {K: "readdir", H: "d2"}, fs, {K: "readdir", H: "r1"}}[g.rng.Intn(4)]
		case g.rng.Intn(5) < 3:
			o = g.readOp(g.pick("r0", "r1", "x0"))
		case g.opt.ReadOnly:
			o = g.writeOp(g.pick("r0", "r1"))
		default:
			o = g.writeOp(g.pick("w0", "x0"))
		}
		if g.opt.WorkDir && o.P != "" && g.rng.Intn(4) == 0 {
			o.Abs = true
		}
		p.Ops = append(p.Ops, o)
	}
	gAssignIDs(&p, g.rng, idStyle)
	p.Handles = gUsedHandles(p)
	g.opt.apply(&p)
	p.Alloc = g.alloc
	return p
}

// program draws a random program of n requests; idStyle: "seq", "rand", "same".
func (g *c02Gen) program(n int, idStyle string) gProg {
	p := gProg{Server: g.server}
	for i := 0; i < n; i++ {
		p.Ops = append(p.Ops, g.op(i))
	}
	gAssignIDs(&p, g.rng, idStyle)
	p.Handles = gUsedHandles(p)
	p.Alloc = g.alloc
	if g.big {
		p.Alloc, p.MaxTx = g.cfg.Alloc, g.cfg.MaxTx
	}
	g.opt.apply(&p)
	return p
}

func gAssignIDs(p *gProg, rng *rand.Rand, style string) {
	seen := map[uint32]bool{}
	for i := range p.Ops {
		switch style {
		case "same":
			p.Ops[i].ID = 7
		case "rand":
			for {
				id := rng.Uint32()
				if !seen[id] && id < 0xF0000000 {
					seen[id] = true
					p.Ops[i].ID = id
					break
				}
			}
		case "desc":
			p.Ops[i].ID = uint32(1000 - i)
		default:
			p.Ops[i].ID = uint32(i + 1)
		}
	}
}

func gUsedHandles(p gProg) []gHandle {
	used := map[string]bool{}
	for _, o := range p.Ops {
		used[o.H] = true
	}
	var hs []gHandle
	for _, h := range c02AllHandles {
		if used[h.Name] {
			hs = append(hs, h)
		}
	}
	for _, h := range c02BigHandles {
		if used[h.Name] {
			hs = append(hs, h)
		}
	}
	return hs
}

// c02BigFixed are hand-written pipelines around requests with replies of the largest size, for a server configured
// with cfg: every one of them has small requests before and behind the large ones, and all their completion orders
// are forced. Lengths are chosen from the configuration, so the same five programs probe, configuration by
// configuration, a DATA payload just inside / outside an allocator page and a frame of c02FrameMax.
func c02BigFixed(server string, cfg c02SrvCfg) []gProg {
	mk := func(ops ...gOp) gProg {
		p := gProg{Server: server, Alloc: cfg.Alloc, MaxTx: cfg.MaxTx, Ops: ops}
		for i := range p.Ops {
			p.Ops[i].ID = uint32(0x52000000 + 17*(len(ops)-i))
		}
		p.Handles = gUsedHandles(p)
		return p
	}
	e := cfg.effTx()
	dir := c02BigDir(server)
	link := gOp{K: "readlink", P: "lnkmax"}
	if server == "rs" {
		link = gOp{K: "readlink", P: "lnk", Pad: 140000}
	}
	return []gProg{
		// small READ, the longest READ the server serves, a command
		mk(gOp{K: "read", H: "r0", Off: 0, Len: 4096}, gOp{K: "read", H: "r0", Off: 4096, Len: e}, gOp{K: "fstat", H: "r0"}),
		// four READs asking for more than the server serves, by one byte … by 4 GiB
		mk(gOp{K: "read", H: "r0", Off: 1, Len: e + 1}, gOp{K: "read", H: "r0", Off: 70000, Len: 0xFFFFFFFF}, gOp{K: "read", H: "r1", Off: 5, Len: e}, gOp{K: "read", H: "r0", Off: 300000, Len: e - 1}),
		// a path whose NAME reply is larger than any request can be, among reads and a write
		mk(gOp{K: "read", H: "r1", Off: 0, Len: 10}, gOp{K: "realpath", P: "s0", Pad: 140000}, gOp{K: "write", H: "w0", Off: 0, Len: 100}, gOp{K: "read", H: "r0", Off: 9, Len: e}),
		// the longest one-entry NAME reply that fits a frame of c02FrameMax, and the one that is two bytes longer
		mk(gOp{K: "realpath", P: "s0", Pad: c02NameAtMax}, gOp{K: "read", H: "r0", Off: 0, Len: 1}, gOp{K: "realpath", P: "s1", Pad: c02NameAtMax + 1}, link),
		// listings with many long names: full batch, rest, end of the listing, then CLOSE
		mk(gOp{K: "readdir", H: dir}, gOp{K: "read", H: "r0", Off: 33, Len: e}, gOp{K: "readdir", H: dir}, gOp{K: "readdir", H: dir}, gOp{K: "close", H: dir}),
	}
}

// c02Fixed are hand-written depth-4 pipelines whose four calls are all held at once (24 completion orders each,
// fewer where two of them share the command worker).
func c02Fixed(server string) []gProg {
	mk := func(ops ...gOp) gProg {
		p := gProg{Server: server, Ops: ops}
		for i := range p.Ops {
			p.Ops[i].ID = uint32(0x51000000 + 13*(4-i))
		}
		p.Handles = gUsedHandles(p)
		return p
	}
	out := []gProg{
		mk(gOp{K: "read", H: "r0", Off: 0, Len: 32768}, gOp{K: "read", H: "r0", Off: 32768, Len: 32768}, gOp{K: "read", H: "r1", Off: 5, Len: 1}, gOp{K: "read", H: "r0", Off: 599990, Len: 100}),
		mk(gOp{K: "read", H: "r0", Off: 100, Len: 4096}, gOp{K: "write", H: "w0", Off: 0, Len: 4096}, gOp{K: "read", H: "x0", Off: 0, Len: 512}, gOp{K: "write", H: "x0", Off: 70000, Len: 512}),
		mk(gOp{K: "read", H: "r0", Off: 7, Len: 300}, gOp{K: "fstat", H: "r1"}, gOp{K: "write", H: "w0", Off: 33000, Len: 10}, gOp{K: "read", H: "r1", Off: 99990, Len: 100}),
		mk(gOp{K: "write", H: "w0", Off: 0, Len: 100}, gOp{K: "readdir", H: "d0"}, gOp{K: "read", H: "r0", Off: 1, Len: 1}, gOp{K: "close", H: "d0"}),
	}
	// one request whose type does not fit the kind of its handle, alone in the stream: the request server must refuse
	// it without calling a handler, on the os-backed server the kernel refuses the operation; an error STATUS is the
	// only legal reply (regression inputs for the former defect F13)
	var single []gProg
	for _, m := range [][2]string{{"read", "mw"}, {"write", "mr"}, {"read", "md"}, {"write", "md"}, {"readdir", "mr"}, {"readdir", "mw"}, {"readdir", "mx"}} {
		single = append(single, mk(gOp{K: m[0], H: m[1], Len: 16}))
	}
	out = append(single, out...)
	if server == "rs" {
		out = append(out,
			mk(gOp{K: "stat", P: "s0"}, gOp{K: "read", H: "r0", Off: 64, Len: 64}, gOp{K: "write", H: "w0", Off: 0, Len: 64}, gOp{K: "read", H: "r1", Off: 0, Len: 0}),
			mk(gOp{K: "read", H: "r0", Off: 64, Len: 64}, gOp{K: "stat", P: "missing1"}, gOp{K: "read", H: "r1", Off: 3, Len: 9}, gOp{K: "mkdir", P: "mk3"}),
		)
	}
	return out
}

// c02FixedRO are hand-written pipelines for an os-backed server started with ReadOnly(): requests the server
// refuses by itself stand between READs (and other served requests) whose calls are held, so that the refusal is
// ready long before the replies in front of it; then every refused kind alone in the stream.
func c02FixedRO() []gProg {
	mk := func(ops ...gOp) gProg {
		p := gProg{Server: "os", ReadOnly: true, Ops: ops}
		for i := range p.Ops {
			p.Ops[i].ID = uint32(0x53000000 + 11*(len(ops)-i))
		}
		p.Handles = gUsedHandles(p)
		return p
	}
	far := int64(1_000_000)
	out := []gProg{
		mk(gOp{K: "read", H: "r0", Off: 0, Len: 4096}, gOp{K: "write", H: "r0", Off: far, Len: 100}, gOp{K: "read", H: "r1", Off: 5, Len: 1}, gOp{K: "mkdir", P: "mk3"}),
		mk(gOp{K: "fsetstat", H: "r0", AF: wire.APerm}, gOp{K: "read", H: "r0", Off: 7, Len: 300}, gOp{K: "readdir", H: "d0"}, gOp{K: "remove", P: "rm3"}),
		mk(gOp{K: "write", H: "bogus", Off: far, Len: 10}, gOp{K: "read", H: "r0", Off: 64, Len: 64}, gOp{K: "fstat", H: "r1"}, gOp{K: "rename", P: "rn3", P2: "rn3.to"}),
		mk(gOp{K: "openw", P: "ow0"}, gOp{K: "read", H: "r0", Off: 1, Len: 1}, gOp{K: "openrw", P: "s1"}, gOp{K: "open", P: "s1"}),
		mk(gOp{K: "read", H: "r0", Off: 3, Len: 9}, gOp{K: "setstat", P: "ss1", AF: wire.APerm}, gOp{K: "symlink", P: "s0", P2: "sl2"}, gOp{K: "read", H: "r1", Off: 0, Len: 32768},
			gOp{K: "posixrename", P: "pr4", P2: "pr4.to"}, gOp{K: "hardlink", P: "hl5", P2: "hl5.to"}, gOp{K: "read", H: "r0", Off: 599990, Len: 100}),
		mk(gOp{K: "write", H: "r0", Off: far, Len: 32768}, gOp{K: "write", H: "d0", Off: far, Len: 1}, gOp{K: "read", H: "r0", Off: 100, Len: 4096}, gOp{K: "write", H: "stale", Off: far, Len: 1},
			gOp{K: "rmdir", P: "rd4"}, gOp{K: "close", H: "r0"}),
	}
	single := []gOp{{K: "write", H: "r0", Off: far, Len: 16}, {K: "fsetstat", H: "r0"}, {K: "setstat", P: "ss0", AF: wire.APerm}, {K: "remove", P: "rm0"}, {K: "mkdir", P: "mk0"}, {K: "rmdir", P: "rd0"},
		{K: "rename", P: "rn0", P2: "rn0.to"}, {K: "symlink", P: "s0", P2: "sl0"}, {K: "posixrename", P: "pr0", P2: "pr0.to"}, {K: "hardlink", P: "hl0", P2: "hl0.to"}, {K: "openrw", P: "s1"}, {K: "openw", P: "ow0"}}
	for _, o := range single {
		out = append(out, mk(o))
	}
	return out
}

// c02FixedIfaces are hand-written pipelines for a request server whose handlers may lack optional interfaces:
// the requests whose handling depends on them, among READs and WRITEs whose calls are held.
func c02FixedIfaces() []gProg {
	mk := func(ops ...gOp) gProg {
		p := gProg{Server: "rs", Ops: ops}
		for i := range p.Ops {
			p.Ops[i].ID = uint32(0x54000000 + 7*(len(ops)-i))
		}
		p.Handles = gUsedHandles(p)
		return p
	}
	return []gProg{
		mk(gOp{K: "statvfs", P: "s0"}, gOp{K: "read", H: "r0", Off: 0, Len: 4096}, gOp{K: "posixrename", P: "pr2", P2: "pr2.to"}, gOp{K: "read", H: "r1", Off: 5, Len: 1}),
		mk(gOp{K: "lstat", P: "s0"}, gOp{K: "write", H: "w0", Off: 0, Len: 100}, gOp{K: "readlink", P: "lnk"}, gOp{K: "read", H: "r0", Off: 7, Len: 300}),
		mk(gOp{K: "realpath", P: "s0"}, gOp{K: "read", H: "x0", Off: 0, Len: 512}, gOp{K: "write", H: "x0", Off: 70000, Len: 512}, gOp{K: "openrw", P: "s1"}),
		mk(gOp{K: "lstat", P: "missing0"}, gOp{K: "stat", P: "s0"}, gOp{K: "read", H: "r0", Off: 64, Len: 64}, gOp{K: "statvfs", P: "missing3"}),
		mk(gOp{K: "readlink", P: "missing0"}, gOp{K: "realpath", P: "missing/x"}, gOp{K: "read", H: "r1", Off: 3, Len: 9}, gOp{K: "posixrename", P: "missing3", P2: "pr3.to"}),
		mk(gOp{K: "read", H: "r0", Off: 1, Len: 1}, gOp{K: "lstat", P: "lnk"}, gOp{K: "stat", P: "lnk"}, gOp{K: "rename", P: "rn3", P2: "rn3.to"}, gOp{K: "posixrename", P: "rn3", P2: "rn3.to2"}, gOp{K: "write", H: "w0", Off: 33000, Len: 10}),
	}
}

// c02FixedPred are hand-written pipelines that name a handle before its HANDLE reply was received: the number the
// OPEN / OPENDIR in front of them is about to be given (requests sent one by one: the READ / WRITE arrives at a
// read/write worker while the command worker is inside the handler of that OPEN — succeeding or failing), a number
// given later in the pipeline, a number never given.
func c02FixedPred(server string) []gProg {
	mk := func(ops ...gOp) gProg {
		p := gProg{Server: server, Ops: ops}
		for i := range p.Ops {
			p.Ops[i].ID = uint32(0x55000000 + 5*(len(ops)-i))
		}
		p.Handles = gUsedHandles(p)
		return p
	}
	rd := func(nx int, off int64) gOp { return gOp{K: "read", Nx: nx, Off: off, Len: 64} }
	wr := func(nx int, off int64) gOp { return gOp{K: "write", Nx: nx, Off: off, Len: 10} }
	return []gProg{
		mk(gOp{K: "open", P: "q0"}, rd(1, 0), wr(1, 4096), rd(1, 64)),
		mk(gOp{K: "openw", P: "q0"}, wr(1, 0), rd(1, 0), wr(1, 4096)),
		mk(gOp{K: "openrw", P: "q0"}, rd(1, 0), wr(1, 70000)),
		mk(gOp{K: "open", P: "missingq0"}, rd(1, 0), wr(1, 0), gOp{K: "close", Nx: 1}),
		mk(gOp{K: "openw", P: "missingq0"}, wr(1, 0), rd(1, 0)),
		mk(gOp{K: "opendir", P: "dq0"}, rd(1, 0), gOp{K: "readdir", Nx: 1}, gOp{K: "close", Nx: 1}, gOp{K: "readdir", Nx: 1}),
		mk(gOp{K: "open", P: "q0"}, gOp{K: "fstat", Nx: 1}, gOp{K: "fsetstat", Nx: 1, AF: wire.APerm}, rd(1, 0), gOp{K: "close", Nx: 1}, rd(1, 64)),
		mk(rd(1, 0), gOp{K: "open", P: "q1"}, rd(1, 64), gOp{K: "openw", P: "q3"}, wr(2, 0), rd(1, 128), gOp{K: "close", Nx: 2}, gOp{K: "close", Nx: 1}),
		mk(gOp{K: "read", H: "r0", Off: 0, Len: 100}, gOp{K: "open", P: "q1"}, rd(1, 0), rd(2, 0), gOp{K: "write", H: "w0", Off: 0, Len: 10}, wr(1, 0)),
		mk(gOp{K: "stat", P: "s0"}, gOp{K: "opendir", P: "missingq1"}, gOp{K: "readdir", Nx: 1}, rd(1, 0), gOp{K: "open", P: "q4"}, rd(2, 0), rd(1, 0)),
	}
}

// c02WithOpt is p for a server started with d (paths relative where there is a working directory, every fourth
// path request in the absolute form nonetheless).
func c02WithOpt(p gProg, d c02Deal) gProg {
	q := p
	q.Ops = append([]gOp(nil), p.Ops...)
	q.Alloc = d.Alloc
	d.Opt.apply(&q)
	if d.Opt.WorkDir {
		k := 0
		for i := range q.Ops {
			if q.Ops[i].P != "" {
				if k%4 == 3 {
					q.Ops[i].Abs = true
				}
				k++
			}
		}
	}
	return q
}

type c02Job struct {
	Case   gCase `json:"case"`
	Orders int   `json:"orders,omitempty"` // number of feasible orders of the program (0 = not enumerated)
	All    bool  `json:"all,omitempty"`
	First  bool  `json:"first,omitempty"` // first order of its program (the program is counted once)
	// Churn, when not nil: the job is a churn case (c02_churn.go) instead of a program for gExec.
	Churn *c02Churn `json:"churn,omitempty"`
	// Rel, when not nil: the job is a relation case (c02_rel.go).
	Rel *c02Rel `json:"rel,omitempty"`
}

// MarshalJSON leaves the (empty) program out of a churn case, so that its replay input is the churn alone.
func (j c02Job) MarshalJSON() ([]byte, error) {
	if j.Churn != nil {
		return json.Marshal(struct {
			Churn *c02Churn `json:"churn"`
		}{j.Churn})
	}
	if j.Rel != nil {
		return json.Marshal(struct {
			Rel *c02Rel `json:"rel"`
		}{j.Rel})
	}
	type plain c02Job
	return json.Marshal(plain(j))
}

func c02Orders(p gProg, limit int) ([][]int, bool) {
	return feasibleOrders(gSimReqs(p), limit)
}

func c02RandomOrder(p gProg, rng *rand.Rand, style string) []int {
	return randomOrder(gSimReqs(p), rng, style)
}

func init() {
	gSummarisers["c02"] = func(raw json.RawMessage, modelOK bool, scratch string) gSummary {
		var job c02Job
		if err := json.Unmarshal(raw, &job); err != nil {
			return gSummary{Text: string(raw), Fails: []lib.Failure{{Kind: "tie", Key: "harness/job", What: err.Error()}}}
		}
		if job.Churn != nil {
			return c02ChurnRun(*job.Churn, job, scratch)
		}
		if job.Rel != nil {
			return c02RelRun(*job.Rel, job, scratch)
		}
		return c02Summarise(gExec(&job.Case), job, modelOK)
	}
}

func c02Summarise(run *gRun, job c02Job, modelOK bool) gSummary {
	var s gSummary
	cs := run.Case
	p := cs.Prog
	held := 0
	failing := false
	for k, rt := range run.Routes {
		if rt.Sim.Gate != "" {
			held++
		}
		if rt.HKind == "bogus" || rt.HKind == "stale" || rt.HKind == "predicted" || rt.Mismatch || rt.Denied || rt.WantCode != 0 || gIsMissing(p.Ops[k].P) {
			failing = true
		}
	}
	s.Text = p.shape() + fmt.Sprint(cs.Order, cs.Mode)
	cfg := c02SrvCfg{p.Alloc, p.MaxTx}
	if cfg != (c02SrvCfg{}) {
		s.Text = cfg.text() + " " + s.Text
		for _, o := range p.Ops {
			if o.K == "read" {
				s.Text += fmt.Sprint(" ", o.Len)
			}
		}
	}
	opt := c02OptOf(p)
	if !opt.zero() {
		s.Text = opt.text() + " " + s.Text
	}
	s.Nontrivial = held >= 2 || failing
	hist := func(k string) { s.Hist = append(s.Hist, k) }
	hist("server=" + p.Server)
	hist("config=" + p.Server + "/" + cfg.text())
	hist("options=" + p.Server + "/" + opt.text())
	for _, t := range opt.tokens() {
		hist("option=" + p.Server + "/" + t + "/alloc=" + map[bool]string{false: "off", true: "on"}[p.Alloc])
	}
	hist(fmt.Sprintf("depth=%02d", len(p.Ops)))
	hist("mode=" + cs.Mode + "/" + cs.Tag)
	hist(fmt.Sprintf("held-calls=%02d", held))
	for k, o := range p.Ops {
		kind := o.K
		switch {
		case run.Routes != nil && run.Routes[k].Denied:
			kind += "/refused-by-read-only-server"
		case run.Routes != nil && run.Routes[k].NoCall != "":
			kind += "/handlers-lack-" + run.Routes[k].NoCall
		case run.Routes != nil && run.Routes[k].Fallback != "":
			kind += "/served-by-" + run.Routes[k].Fallback
		case run.Routes != nil && run.Routes[k].Mismatch:
			kind += "/wrong-kind-handle"
		case run.Routes != nil && (run.Routes[k].HKind == "bogus" || run.Routes[k].HKind == "stale"):
			kind += "/" + run.Routes[k].HKind + "-handle"
		case o.Nx > 0:
			kind += "/handle-named-before-its-HANDLE-reply"
		case c02IsOpen(o.K) && gPredObj(o.P):
			kind += "/inside-the-pipeline-with-requests-naming-its-handle-in-advance"
		case gIsMissing(o.P):
			kind += "/missing-path"
		case o.Pad > 0:
			kind += "/long-path"
		}
		hist("request=" + kind)
	}
	if cs.Mode == "gated" {
		heldBefore := false
		for k, rt := range run.Routes {
			switch {
			case rt.Sim.Gate != "" && (cs.Hold == nil):
				heldBefore = true
			case heldBefore && rt.Denied:
				hist("answered-by-the-server-itself-behind-a-held-call=read-only-refusal/" + p.Ops[k].K)
			case heldBefore && rt.NoCall != "":
				hist("answered-by-the-server-itself-behind-a-held-call=no-" + rt.NoCall + "/" + p.Ops[k].K)
			}
		}
	}
	if job.First && job.Orders > 0 {
		hist(fmt.Sprintf("programs-with-all-orders-forced/orders=%03d%s", job.Orders, map[bool]string{true: "", false: "(cut)"}[job.All]))
	}
	for _, f := range gCheckCommon(run) {
		if run.Fault != nil {
			f.Input = map[string]any{"case": cs, "model_trace_so_far": run.Trace}
		}
		if f.Key == "rs/handle-method-mismatch" {
			shape := f.What
			if i := strings.Index(shape, " answered with "); i > 0 {
				reply := strings.Fields(shape[i+len(" answered with "):])
				shape = shape[:i] + " -> " + reply[0]
				if len(reply) > 2 && reply[0] == "STATUS" {
					shape += " " + reply[2]
				}
			}
			hist("known-F13/" + shape)
		}
		s.Fails = append(s.Fails, f)
	}
	if run.Fault == nil {
		large := 0
		for _, fr := range run.Frames {
			hist("reply=" + gTypeName(fr.Typ))
			b := c02SizeBucket(len(fr.Body) + 1)
			hist("reply-frame-length=" + b)
			if fr.Typ != wire.Status {
				hist("reply-frame-length/" + gTypeName(fr.Typ) + "=" + b)
			}
			if len(fr.Body)+1 > 32768+9 {
				large++
			}
		}
		for k, o := range p.Ops {
			if o.Nx > 0 {
				fr := run.Frames[k]
				t := gTypeName(fr.Typ)
				if fr.Typ == wire.Status {
					st := gParseStatus(fr)
					msg := st.Msg
					if i := strings.Index(msg, " /"); i >= 0 { // "read <scratch path>: <reason>"
						if j := strings.LastIndex(msg, ": "); j > i {
							msg = msg[:i] + " <path>" + msg[j:]
						}
					}
					t += fmt.Sprintf("/code=%d/%s", st.Code, msg)
				}
				hist("handle-named-before-its-HANDLE-reply/" + p.Server + "/" + o.K + "->" + t)
			}
		}
		if large > 0 && len(p.Ops) > 1 {
			s.Nontrivial = true // a reply larger than any a default server sends, among other replies
		}
		if cs.Mode == "gated" {
			if held >= 3 && len(p.Ops) <= 6 {
				s.Sample = map[string]any{"program": p.text(), "completion_order": cs.Order, "model_trace": run.Trace, "replies": c02Replies(run)}
			}
			if modelOK {
				s.Lines = []string{"c02.run " + c02Cfg + " " + run.Trace}
				s.Impl = []string{c02ImplSent(run)}
			}
		}
	}
	return s
}

// c02SizeBucket names the range a reply's frame length (the value of its length field) falls into.
func c02SizeBucket(n int) string {
	switch {
	case n <= 1024:
		return "a:up-to-1KiB"
	case n <= 32768+9:
		return "b:up-to-default-DATA(32777)"
	case n <= 65536+9:
		return "c:up-to-64KiB+9"
	case n < c02FrameMax-4:
		return "d:below-256KiB-4"
	case n < c02FrameMax:
		return "e:256KiB-4…256KiB-1"
	case n == c02FrameMax:
		return "f:exactly-256KiB"
	case n <= c02FrameMax+9:
		return "g:256KiB+1…256KiB+9"
	}
	return "h:above-256KiB+9"
}

func checkC02(c *lib.Ctx) {
	r := c.R
	r.Rule = "options: every program is generated for and run on a server started with an option combination dealt from a shuffled deck — os-backed: ReadOnly() x WithServerWorkingDirectory x WithAllocator; request server: WithStartDirectory x WithRSAllocator x handler set, where the handler set lacks optional interfaces (quick: none, each of StatVFSFileCmder / PosixRenameFileCmder / LstatFileLister / OpenFileWriter / ReadlinkFileLister / RealPathFileLister alone, RealPath in its legacy signature, all lacking; thorough: all 96 combinations). On a read-only server handles are opened for reading only, the WRITEs go to those, and every modifying request (WRITE, SETSTAT, FSETSTAT, REMOVE, MKDIR, RMDIR, RENAME, SYMLINK, posix-rename, hardlink, OPEN with write/creat/trunc) must be answered PERMISSION_DENIED, once, in its turn, without any modifying call on an opened file, while the calls of the served requests around it are held; with a working / start directory the paths are sent relative (one in four absolute); without StatVFSFileCmder statvfs must be answered OP_UNSUPPORTED without a handler call, without the other interfaces the request must reach exactly the fallback method (Filecmd as Rename, Filelist as Stat / Readlink, Filewrite) once and its reply must follow that call's result; hand-written pipelines for read-only servers (18, under working directory x allocator) and for the ten handler sets (6, all orders up to 12 / 120). programs: hand-written depth-4 pipelines, PRNG pipelines of 4…6 mutually independent requests (all 24/120/720 completion orders) and PRNG-drawn pipelines (depth 1…30) over 27 request kinds on open, closed-before, never-issued and wrong-kind handles and on existing/missing paths, ids sequential, descending, random or all equal; every instrumented call (request server: all handler methods; os-backed server: ReadAt/WriteAt/Stat/Readdir/Chmod of the opened files) is held on a gate and the harness opens the gates in a chosen order: ALL feasible completion orders for the small programs, PRNG-chosen orders (uniform, fifo, lifo, earliest-held-longest) for the deep ones, plus un-gated pipelined runs. Big-reply family: servers started with WithAllocator / WithRSAllocator on or off and WithMaxTxPacket / WithRSMaxTxPacket in {default, 65536, 262131, 262132 (longest DATA payload inside / outside an allocator page), 262135, 262136 (DATA reply frame of exactly / one over 256 KiB), 262144, 524288}; five hand-written pipelines per configuration (all completion orders in thorough, the first 6 in quick, on 8 of the 16 configurations) and PRNG pipelines on all 16 in which one request in five has a reply of the largest size: READ of max-tx-1, max-tx, max-tx+1, the page/frame boundary lengths, 300000 and 2^32-1 bytes on a 600000-byte file, READDIR of 120 names of 1400 bytes (request server) / 130 names of 250 bytes (os-backed), REALPATH and READLINK of paths of 131060, 131061 (NAME reply just fits 256 KiB), 131062, 140000, 200000 and 262129 bytes, READLINK of a 4000-byte target, mixed with the ordinary requests. Handles named before their HANDLE reply: both servers number their handles 1, 2, 3 …, so requests (READ, WRITE, FSTAT, FSETSTAT, READDIR, CLOSE) name the number that an OPEN / OPENDIR of the same pipeline is about to be given, one given later, or one never given — behind succeeding and failing OPENs of every kind, each on an object of its own; ten hand-written pipelines (requests sent one by one, so that the READ / WRITE reaches a read/write worker while the command worker is inside the held handler of that OPEN; first 6 / all orders) and PRNG pipelines (one request in four of this family; three in four sent one by one), gated and un-gated. For such a request nothing but the count, id, order and legal type of its reply is judged (the calls it may make on the freshly opened object are logged, never held, never counted); a crash of the server is reported with the case. Volume (churn): per server, with the allocator off and on, ONE un-gated session kept busy for 4 s (thorough: 40 s) with batch after batch of 8…24 READs (1…4096 bytes, content checked) and WRITEs on long-lived handles and 1…3 command requests among them — OPEN, OPENDIR and CLOSE of other handles, FSTAT, STAT — every reply of a batch awaited (count, order, id, legal type, success) before the next batch; tens of thousands of crossings of the read/write lane and the command lane, for races between them whose window is a few instructions wide; these cases run side by side with the others. Argument relations: un-gated programs of 1…14 requests whose arguments stand in a RELATION — the two paths of RENAME / posix-rename / SYMLINK / hardlink in 20 relations (the same string, the same object relative and absolute / in two spellings / through a symbolic link, new inside old, old inside new, through a file, file onto file / directory, directory onto file / empty / non-empty directory, missing source, both missing, fresh target, missing parent, the empty string, a symbolic link — dangling, to itself — as source, the root of the tree, a name of 256 bytes), 24 single-path kinds (STAT, LSTAT, OPENDIR, READLINK, REALPATH, statvfs, REMOVE, RMDIR, MKDIR, SETSTAT with no attribute / size 0 / size / mode / times / owner / all, OPEN with eight flag sets) on 19 kinds of object (files and directories that a handle of the session is open on, entries of the open directory, links, missing paths, paths below a file, the tree root, the empty string, an over-long name) in ten spellings (./p, p/, p/., dir/../p, p//q, absolute, …), and every handle request (READ with length 0, at / across / beyond the end, longer than max-tx, offsets 2^63-1, 2^63, 2^64-1; WRITE with length 0, at and beyond the end; FSTAT, FSETSTAT with each attribute set and with none, READDIR, fsync, CLOSE) on read, write, read-write, append, through-a-link, directory, empty-directory, closed, never-issued, empty and over-long handles; every (kind, relation / object / handle and edge value) at least once per server and working-directory setting, shuffled into programs, 23 hand-written sequences (the object of an open handle removed, renamed, truncated; double CLOSE; MKDIR twice; READDIR past the end; links in a circle …), and PRNG mixes; on a fresh os-backed Server (tree of its own inside the scratch area) and a fresh RequestServer (sftp.InMemHandler, same tree), with / without working or start directory, allocator on / off, sent in one write or frame by frame; behind every program a REALPATH, a STAT, the CLOSE of all seven handles and an LSTAT; judged: one reply per request, in order, with its id, of a legal type, nothing more, Serve returns; a failing program is re-run reduced to the request at fault. A case = (server, configuration, program, completion order); non-trivial = at least two calls were held at the same time, a failing request is in the stream, a reply longer than a default server's longest stands among other replies, or the case is a relation case; distinct by (configuration, options, program shape, read lengths, order)"
	thorough := c.Tier == "thorough"
	c02Cfg = gCurCfg(c, "pipe", c02Cfg)
	modelOK := gProbeModel(c, "c02.run "+c02Cfg+" -")
	if !modelOK {
		r.Skip("model comparison skipped: driver op `c02.run <cfg> <trace>` (lean/Sftp/Driver/C02.lean) is not served by the driver binary given with --model; the forced schedule of every case is recorded as a model trace in samples and failure inputs")
	}
	describe := func(raw json.RawMessage) (string, any) {
		var j c02Job
		json.Unmarshal(raw, &j)
		if j.Churn != nil {
			return j.Churn.Server, j
		}
		if j.Rel != nil {
			return j.Rel.Server, j
		}
		return j.Case.Prog.Server, j.Case
	}

	if c.Replay != "" {
		var in struct {
			gCase
			Case     *gCase    `json:"case"`
			Requests string    `json:"requests"`
			Churn    *c02Churn `json:"churn"`
			Rel      *c02Rel   `json:"rel"`
		}
		if err := lib.ReadReplay(c.Replay, &in); err != nil {
			r.Fail(lib.Failure{Kind: "tie", Key: "replay", What: err.Error()})
			return
		}
		if in.Requests != "" { // the end-of-stream observation (F5)
			c02EndOfStream(c, modelOK)
			return
		}
		cs := in.gCase
		if in.Case != nil {
			cs = *in.Case
		}
		one := c02Job{Case: cs}
		if in.Churn != nil {
			one = c02Job{Churn: in.Churn}
		}
		if in.Rel != nil {
			one = c02Job{Rel: in.Rel}
		}
		sums := gRunBatches(c, "c02", []json.RawMessage{gJSON(one)}, 1, modelOK, describe)
		lines, impl := gMerge(r, sums, 4)
		if modelOK {
			c.Compare("c02", lines, impl)
		}
		return
	}

	var jobs []json.RawMessage
	nProg, nOrders := 0, 0
	addAll := func(p gProg, limit int, tag string) {
		ords, complete := c02Orders(p, limit)
		nProg++
		nOrders += len(ords)
		for k, o := range ords {
			jobs = append(jobs, gJSON(c02Job{Case: gCase{Prog: p, Mode: "gated", Order: o, Tag: tag}, Orders: len(ords), All: complete, First: k == 0}))
		}
	}
	addAllStaged := func(p gProg, limit int, tag string) {
		ords, complete := c02Orders(p, limit)
		nProg++
		nOrders += len(ords)
		for k, o := range ords {
			jobs = append(jobs, gJSON(c02Job{Case: gCase{Prog: p, Mode: "gated", Order: o, Staged: true, Tag: tag}, Orders: len(ords), All: complete, First: k == 0}))
		}
	}
	idStyles := []string{"seq", "rand", "desc", "same"}
	// VOLUME (c02_churn.go): one session per server and allocator setting kept busy with un-gated batches for a fixed
	// time; they go first and run side by side with everything below.
	churnMs := 4000
	if thorough {
		churnMs = 40000
	}
	for _, server := range []string{"rs", "os"} {
		for _, alloc := range []bool{false, true} {
			jobs = append(jobs, gJSON(c02Job{Churn: &c02Churn{Server: server, Alloc: alloc, Ms: churnMs, Seed: c.Rand.Int63()}}))
		}
	}
	// ARGUMENT RELATIONS (c02_rel.go): request kinds x how their arguments relate to each other and to the session.
	{
		reps, allSpellings, nRandom := 2, false, 150
		if thorough {
			reps, allSpellings, nRandom = 12, true, 6000
		}
		for _, server := range []string{"os", "rs"} {
			for _, rl := range c02RelJobs(c.Rand, server, reps, allSpellings, nRandom) {
				rl := rl
				jobs = append(jobs, gJSON(c02Job{Rel: &rl}))
			}
		}
	}
	for _, server := range []string{"rs", "os"} {
		// Options: every program is generated for, and run on, a server started with an option combination dealt
		// from a shuffled deck (os-backed: ReadOnly x working directory x allocator; request server: start directory
		// x allocator x handler set). The hand-written programs of c02Fixed write through their handles and are
		// dealt the combinations without ReadOnly; c02FixedRO are the ones for read-only servers.
		deck := newC02Deck(c.Rand, server, thorough, nil)
		deckRW := newC02Deck(c.Rand, server, false, func(o c02Opt) bool { return !o.ReadOnly })
		gen := func() *c02Gen {
			d := deck.next()
			g := newC02OptGen(c.Rand, server, d.Opt)
			g.alloc = d.Alloc
			return g
		}
		for _, p := range c02Fixed(server) {
			if thorough {
				for _, d := range deckRW.all {
					addAll(c02WithOpt(p, d), 24, "fixed-4")
				}
			} else {
				addAll(c02WithOpt(p, deckRW.next()), 24, "fixed-4")
			}
		}
		if server == "os" {
			for _, p := range c02FixedRO() {
				for _, d := range []c02Deal{{c02Opt{ReadOnly: true}, false}, {c02Opt{ReadOnly: true}, true}, {c02Opt{ReadOnly: true, WorkDir: true}, false}, {c02Opt{ReadOnly: true, WorkDir: true}, true}} {
					addAll(c02WithOpt(p, d), 24, "fixed-read-only")
				}
			}
		} else {
			limit := 12
			if thorough {
				limit = 120
			}
			pairs := [][2]bool{{false, false}, {true, true}, {false, true}, {true, false}} // (start directory, allocator)
			k := 0
			for _, ifc := range c02IfaceSets(false) {
				for _, p := range c02FixedIfaces() {
					for j, wa := range pairs {
						if thorough || j == k%4 { // quick: one of the four pairs, in rotation
							addAll(c02WithOpt(p, c02Deal{c02Opt{WorkDir: wa[0], Ifaces: ifc}, wa[1]}), limit, "fixed-handler-interfaces")
						}
					}
					k++
				}
			}
		}
		nSmall, nPar4, nPar5, nPar6, nMid, nDeep, nFree := 20, 6, 2, 0, 250, 60, 80
		if thorough {
			nSmall, nPar4, nPar5, nPar6, nMid, nDeep, nFree = 60, 20, 15, 8, 6000, 2000, 1000
		}
		for k := 0; k < nSmall; k++ {
			addAll(gen().program(4, idStyles[k%4]), 24, "random-4")
		}
		for k := 0; k < nPar4; k++ {
			addAll(gen().parallelProgram(4, idStyles[k%4]), 24, "independent-4")
		}
		for k := 0; k < nPar5; k++ {
			addAll(gen().parallelProgram(5, idStyles[k%4]), 120, "independent-5")
		}
		for k := 0; k < nPar6; k++ {
			addAll(gen().parallelProgram(6, idStyles[k%4]), 720, "independent-6")
		}
		if thorough {
			for k := 0; k < 15; k++ {
				addAll(gen().program(5, idStyles[k%4]), 120, "random-5")
				addAll(gen().program(6, idStyles[k%4]), 720, "random-6")
			}
		}
		styles := []string{"uniform", "uniform", "fifo", "lifo", "first-last"}
		for k := 0; k < nMid; k++ {
			p := gen().program(1+c.Rand.Intn(12), idStyles[c.Rand.Intn(4)])
			for j := 0; j < 2; j++ {
				jobs = append(jobs, gJSON(c02Job{Case: gCase{Prog: p, Mode: "gated", Order: c02RandomOrder(p, c.Rand, styles[c.Rand.Intn(len(styles))]), Tag: "random-order"}}))
			}
		}
		for k := 0; k < nDeep; k++ {
			p := gen().program(13+c.Rand.Intn(18), idStyles[c.Rand.Intn(4)])
			jobs = append(jobs, gJSON(c02Job{Case: gCase{Prog: p, Mode: "gated", Order: c02RandomOrder(p, c.Rand, styles[c.Rand.Intn(len(styles))]), Tag: "random-order-deep"}}))
		}
		for k := 0; k < nFree; k++ {
			p := gen().program(1+c.Rand.Intn(30), idStyles[c.Rand.Intn(4)])
			jobs = append(jobs, gJSON(c02Job{Case: gCase{Prog: p, Mode: "free", Tag: "ungated"}}))
		}

		// ---- handles named before their HANDLE reply was received ----
		{
			limit, nPred, nPredFree := 6, 70, 30
			if thorough {
				limit, nPred, nPredFree = 120, 4000, 1000
			}
			for _, p := range c02FixedPred(server) {
				if thorough {
					for _, d := range deckRW.all {
						addAllStaged(c02WithOpt(p, d), limit, "handle-before-reply-fixed")
					}
				} else {
					addAllStaged(c02WithOpt(p, deckRW.next()), limit, "handle-before-reply-fixed")
					addAllStaged(c02WithOpt(p, deckRW.next()), limit, "handle-before-reply-fixed")
				}
			}
			predGen := func() *c02Gen {
				g := gen()
				g.pred = true
				return g
			}
			for k := 0; k < nPred; k++ {
				p := predGen().program(2+c.Rand.Intn(13), idStyles[c.Rand.Intn(4)])
				jobs = append(jobs, gJSON(c02Job{Case: gCase{Prog: p, Mode: "gated", Order: c02RandomOrder(p, c.Rand, styles[c.Rand.Intn(len(styles))]), Staged: k%4 != 3, Tag: "handle-before-reply-random-order"}}))
			}
			for k := 0; k < nPredFree; k++ {
				p := predGen().program(2+c.Rand.Intn(29), idStyles[c.Rand.Intn(4)])
				jobs = append(jobs, gJSON(c02Job{Case: gCase{Prog: p, Mode: "free", Tag: "handle-before-reply-ungated"}}))
			}
		}

		// ---- servers with non-default options, requests with replies of the largest size ----
		all := c02AllCfgs()
		fixedCfgs, fixedLimit, nBig, nBigFree := all, 24, 3, 2 // per configuration
		if !thorough {
			// a handful: the page and frame boundaries with the allocator on and off; the random programs below
			// visit all sixteen configurations
			fixedCfgs = []c02SrvCfg{{false, c02FrameMax}, {true, c02FrameMax}, {true, c02DataPage}, {false, c02DataPage + 1}, {false, c02DataAtMax}, {true, c02DataAtMax + 1}, {true, 0}, {false, 2 * c02FrameMax}}
			fixedLimit = 6
		} else {
			nBig, nBigFree = 120, 40
		}
		for _, cfg := range fixedCfgs {
			for _, p := range c02BigFixed(server, cfg) {
				d := deckRW.next()
				d.Alloc = cfg.Alloc
				addAll(c02WithOpt(p, d), fixedLimit, "big-reply-fixed")
			}
		}
		bigGen := func(cfg c02SrvCfg) *c02Gen {
			g := newC02BigGen(c.Rand, server, cfg)
			g.setOpt(deck.next().Opt)
			return g
		}
		for _, cfg := range all {
			for k := 0; k < nBig; k++ {
				p := bigGen(cfg).program(2+c.Rand.Intn(11), idStyles[c.Rand.Intn(4)])
				jobs = append(jobs, gJSON(c02Job{Case: gCase{Prog: p, Mode: "gated", Order: c02RandomOrder(p, c.Rand, styles[c.Rand.Intn(len(styles))]), Tag: "big-reply-random-order"}}))
			}
			for k := 0; k < nBigFree; k++ {
				p := bigGen(cfg).program(2+c.Rand.Intn(29), idStyles[c.Rand.Intn(4)])
				jobs = append(jobs, gJSON(c02Job{Case: gCase{Prog: p, Mode: "free", Tag: "big-reply-ungated"}}))
			}
		}
	}
	sums := gRunBatches(c, "c02", jobs, 2000, modelOK, describe)
	lines, impl := gMerge(r, sums, 4)
	if modelOK {
		c.Compare("c02", lines, impl)
	}
	r.Note("every option combination is replayed in the pipeline model: a request the server refuses or answers by itself (read-only refusal, lacking handler interface) is a request whose handler returns without being held")
	r.Note("%d programs had all their feasible completion orders enumerated and forced (%d orders in total)", nProg, nOrders)

	c02EndOfStream(c, modelOK)
}

func c02Replies(run *gRun) []string {
	var out []string
	for _, f := range run.Frames {
		out = append(out, gFrameText(f))
	}
	return out
}

// c02ImplSent renders what the server wrote in the format of the model driver: position:id:kind … count.
func c02ImplSent(run *gRun) string {
	var p []string
	for i, f := range run.Frames {
		p = append(p, fmt.Sprintf("%d:%d:%c", i+1, f.ID(), run.Routes[i].Sim.Kind))
	}
	s := "-"
	if len(p) > 0 {
		s = strings.Join(p, ",")
	}
	return fmt.Sprintf("%s %d", s, len(run.Case.Prog.Ops))
}

// c02EndOfStream: the input ends right after five pipelined STATs; every one of them must still be answered
// (regression oracle for the former defect F5: the controller's select took the fini branch with replies queued).
func c02EndOfStream(c *lib.Ctx, modelOK bool) {
	r := c.R
	const runs, depth = 200, 5
	type obs struct {
		Server    string         `json:"server"`
		Runs      int            `json:"runs"`
		RunsLost  int            `json:"runs_with_lost_replies"`
		LostHist  map[string]int `json:"replies_received_histogram"`
		BadPrefix int            `json:"runs_where_received_replies_were_not_a_prefix"`
	}
	var all []obs
	lostSeen := map[int]bool{}
	for _, server := range []string{"os", "rs"} {
		o := obs{Server: server, Runs: runs, LostHist: map[string]int{}}
		kase := lib.NewCase("c02/end-of-stream/" + server)
		for k := 0; k < runs; k++ {
			if c.StopN(kase.Class(), runs-k) {
				break
			}
			var srv *peers.Srv
			if server == "os" {
				var err error
				srv, err = peers.StartOS()
				if err != nil {
					r.Fail(lib.Failure{Kind: "tie", Key: "harness/server-start", What: err.Error()})
					return
				}
			} else {
				g := &gRS{hub: newHub(false), obj: map[string]*gRSFile{}}
				srv = peers.StartRS(g.handlers(gIfaces{}))
			}
			if _, err := hHandshake(srv, kase); err != nil {
				r.Fail(lib.Failure{Kind: "tie", Key: "harness/handshake", What: err.Error()})
				return
			}
			// (the os-backed server is asked about the process directory, which lies in the scratch area — not about
			// the host's root; the request server's handlers work on a tree in memory)
			statPath := "/"
			if server == "os" {
				if wd, err := os.Getwd(); err == nil {
					statPath = wd
				}
			}
			var stream []byte
			for i := 0; i < depth; i++ {
				stream = append(stream, wire.Req(wire.Stat, uint32(i+1), wire.B{}.Str(statPath))...)
			}
			srv.Send(stream)
			srv.CloseInput()
			if _, ok := hWaitSrv(srv, kase, gDeadline); !ok {
				r.Fail(lib.Failure{Kind: "oracle", Key: "shutdown/serve-did-not-return/" + server, What: "Serve still running 20 s after the end of the input",
					Input: map[string]any{"server": server, "requests": "5 x STAT /, then end of input"}})
				break
			}
			got := srv.Drain(2 * time.Second)
			prefix := true
			for i, f := range got {
				if f.ID() != uint32(i+1) {
					prefix = false
				}
			}
			if !prefix {
				o.BadPrefix++
			}
			o.LostHist[fmt.Sprintf("%d-of-%d", len(got), depth)]++
			if len(got) < depth {
				o.RunsLost++
				lostSeen[depth-len(got)] = true
			}
			r.Case(fmt.Sprintf("end-of-stream %s got=%d", server, len(got)), true)
			r.Hist("end-of-stream/" + server + fmt.Sprintf("/replies=%d", len(got)))
		}
		all = append(all, o)
		if o.BadPrefix > 0 {
			r.Fail(lib.Failure{Kind: "oracle", Key: "order/id-mismatch/" + server, What: "replies received before the end of the stream were not the replies to a prefix of the requests",
				Input: map[string]any{"server": server, "requests": "5 x STAT / (ids 1…5), then end of input"}, Actual: o})
		}
	}
	lost := 0
	for _, o := range all {
		lost += o.RunsLost
	}
	r.Note("end of stream right after %d pipelined STATs, %d runs per server: %+v", depth, runs, all)
	if lost > 0 {
		r.Fail(lib.Failure{Kind: "oracle", Key: "shutdown/trailing-responses-lost",
			What:     "requests received before the end of the input stream were never answered: Serve returned with replies still queued",
			Input:    map[string]any{"requests": "5 x STAT / (ids 1…5) written in one piece, input closed right after", "runs_per_server": runs},
			Expected: "5 replies in every run", Actual: all})
	}
	if modelOK {
		// the model has the same transition: replay "controller takes fini with j replies still in its inbox"
		var lines, impl []string
		var js []int
		for j := range lostSeen {
			js = append(js, j)
		}
		sort.Ints(js)
		for _, j := range js {
			var t, sent []string
			for i := 1; i <= depth; i++ {
				t = append(t, fmt.Sprintf("r%do", i))
			}
			for i := 1; i <= depth; i++ {
				t = append(t, "d", "q", "ct", "ch", "cr")
				if i <= depth-j {
					t = append(t, "p")
					sent = append(sent, fmt.Sprintf("%d:%d:o", i, i))
				}
			}
			t = append(t, "x", "s", "f")
			s := "-"
			if len(sent) > 0 {
				s = strings.Join(sent, ",")
			}
			lines = append(lines, "c02.run "+c02Cfg+" "+strings.Join(t, ","))
			impl = append(impl, fmt.Sprintf("%s %d", s, depth))
		}
		c.Compare("c02/end-of-stream", lines, impl)
	}
}
