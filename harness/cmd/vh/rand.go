package main

import "math/rand"

func newRand(seed int64) *rand.Rand { return rand.New(rand.NewSource(seed)) }
