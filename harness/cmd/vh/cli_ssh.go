package main

// sftp.NewClient — the constructor real programs use — differs from NewClientPipe in three ways the
// connection-loss property can see: the writer is an SSH session's stdin (its Close sends a channel EOF), the
// remote stderr is copied by a goroutine the package starts (CopyStderrTo), and Client.Wait asks the session
// for the remote exit status. This file runs a real x/crypto/ssh client/server pair inside the process
// (loopback TCP, no authentication, an ed25519 host key made on the spot); the server side of the "sftp"
// subsystem channel is a scripted peer with the same surface as faultPeer, so C04's scenario runner drives
// both. The session ends the way SSH servers end it: exit-status 0 / exit-status 3 / no exit status and a
// channel close (fault "cut"), the TCP connection dropped (fault "err"), the channel closed while requests are
// still being written (fault "failinput").

import (
	"crypto/ed25519"
	"crypto/rand"
	"encoding/binary"
	"fmt"
	"io"
	"net"
	"sync"
	"time"

	"github.com/pkg/sftp"
	"golang.org/x/crypto/ssh"

	"verifharness/peers"
	"verifharness/wire"
)

// c04Peer is what C04's scenario runner needs from the server end of the client's transport.
type c04Peer interface {
	Requests() <-chan wire.Pkt
	Reply(b []byte) error
	CutOutput()
	FailOutput(err error)
	FailInput(err error)
	Shutdown()
	WriteCounts() (calls, failed int)
}

func (s *faultPeer) Requests() <-chan wire.Pkt { return s.Reqs }
func (s *faultPeer) WriteCounts() (int, int)   { return s.W.counts() }

type sshPeer struct {
	reqs     chan wire.Pkt
	ch       ssh.Channel
	tcpSrv   net.Conn
	tcpCli   net.Conn
	client   *ssh.Client
	exit     string // exit0 | exit3 | "" (no exit status)
	wmu      sync.Mutex
	once     sync.Once
	shutOnce sync.Once
}

var (
	sshSignerOnce sync.Once
	sshSigner     ssh.Signer
	sshSignerErr  error
)

func sshHostKey() (ssh.Signer, error) {
	sshSignerOnce.Do(func() {
		_, priv, err := ed25519.GenerateKey(rand.Reader)
		if err != nil {
			sshSignerErr = err
			return
		}
		sshSigner, sshSignerErr = ssh.NewSignerFromKey(priv)
	})
	return sshSigner, sshSignerErr
}

// newSSHClient creates a Client with sftp.NewClient over an in-process SSH connection. stderrText is written
// to the session's stderr by the server before the version reply.
func newSSHClient(versionFrame []byte, exit, stderrText string, opts ...sftp.ClientOption) (*sftp.Client, *sshPeer, error) {
	signer, err := sshHostKey()
	if err != nil {
		return nil, nil, err
	}
	ln, err := net.Listen("tcp", "127.0.0.1:0")
	if err != nil {
		return nil, nil, fmt.Errorf("loopback listener: %w", err)
	}
	defer ln.Close()
	sp := &sshPeer{reqs: make(chan wire.Pkt, 65536), exit: exit}
	srvReady := make(chan error, 1)
	go func() {
		conn, err := ln.Accept()
		if err != nil {
			srvReady <- err
			return
		}
		sp.tcpSrv = conn
		cfg := &ssh.ServerConfig{NoClientAuth: true}
		cfg.AddHostKey(signer)
		_, chans, greqs, err := ssh.NewServerConn(conn, cfg)
		if err != nil {
			srvReady <- err
			return
		}
		go ssh.DiscardRequests(greqs)
		first := true
		for nc := range chans {
			if nc.ChannelType() != "session" || !first {
				nc.Reject(ssh.Prohibited, "one session only")
				continue
			}
			first = false
			ch, reqs, err := nc.Accept()
			if err != nil {
				srvReady <- err
				return
			}
			sp.ch = ch
			go func() {
				for rq := range reqs {
					ok := rq.Type == "subsystem" && len(rq.Payload) >= 4 && string(rq.Payload[4:]) == "sftp"
					if rq.WantReply {
						rq.Reply(ok, nil)
					}
					if ok {
						srvReady <- nil
						go sp.serve(versionFrame, stderrText)
					}
				}
			}()
		}
	}()
	tcp, err := net.Dial("tcp", ln.Addr().String())
	if err != nil {
		return nil, nil, err
	}
	sp.tcpCli = tcp
	cc, cchans, creqs, err := ssh.NewClientConn(tcp, "loopback", &ssh.ClientConfig{User: "verif", HostKeyCallback: ssh.InsecureIgnoreHostKey(), Timeout: 20 * time.Second})
	if err != nil {
		tcp.Close()
		return nil, nil, err
	}
	sp.client = ssh.NewClient(cc, cchans, creqs)
	type res struct {
		c   *sftp.Client
		err error
	}
	done := make(chan res, 1)
	go func() {
		c, err := sftp.NewClient(sp.client, opts...)
		done <- res{c, err}
	}()
	select {
	case r := <-done:
		if r.err != nil {
			sp.Shutdown()
			return nil, sp, r.err
		}
		select {
		case err := <-srvReady:
			if err != nil {
				sp.Shutdown()
				return nil, sp, err
			}
		case <-cliCase.Load().After(20 * time.Second):
			cliCase.Load().Fired()
			sp.Shutdown()
			return nil, sp, peers.ErrTimeout
		}
		return r.c, sp, nil
	case <-cliCase.Load().After(20 * time.Second):
		cliCase.Load().Fired()
		sp.Shutdown()
		return nil, sp, peers.ErrTimeout
	}
}

func (s *sshPeer) serve(versionFrame []byte, stderrText string) {
	if stderrText != "" {
		io.WriteString(s.ch.Stderr(), stderrText)
	}
	first := true
	for {
		p, err := wire.ReadFrame(s.ch)
		if err != nil {
			close(s.reqs)
			io.Copy(io.Discard, s.ch)
			return
		}
		if first && p.Typ == wire.Init {
			first = false
			if versionFrame != nil {
				s.Reply(versionFrame)
			}
			continue
		}
		first = false
		s.reqs <- p
	}
}

func (s *sshPeer) Requests() <-chan wire.Pkt { return s.reqs }
func (s *sshPeer) WriteCounts() (int, int)   { return 0, 0 }

func (s *sshPeer) Reply(b []byte) error {
	s.wmu.Lock()
	defer s.wmu.Unlock()
	errc := make(chan error, 1)
	go func() { _, err := s.ch.Write(b); errc <- err }()
	select {
	case err := <-errc:
		return err
	case <-cliCase.Load().After(20 * time.Second):
		cliCase.Load().Fired()
		return peers.ErrTimeout
	}
}

// CutOutput ends the session as a server process that exits does: exit status (or none), then channel close.
func (s *sshPeer) CutOutput() {
	s.once.Do(func() {
		s.wmu.Lock()
		defer s.wmu.Unlock()
		switch s.exit {
		case "exit0", "exit3":
			var code [4]byte
			if s.exit == "exit3" {
				binary.BigEndian.PutUint32(code[:], 3)
			}
			s.ch.SendRequest("exit-status", false, code[:])
		}
		s.ch.Close()
	})
}

// FailOutput drops the TCP connection under the SSH transport (err is not transmitted: the client's reads
// fail with whatever x/crypto/ssh makes of a dead connection).
func (s *sshPeer) FailOutput(err error) {
	s.once.Do(func() { s.tcpSrv.Close() })
}

// FailInput closes the channel: the client's later writes fail (x/crypto/ssh answers io.EOF), its reads end.
func (s *sshPeer) FailInput(err error) {
	s.once.Do(func() {
		s.wmu.Lock()
		defer s.wmu.Unlock()
		s.ch.Close()
	})
}

func (s *sshPeer) Shutdown() {
	s.shutOnce.Do(func() {
		if s.client != nil {
			s.client.Close()
		}
		if s.tcpCli != nil {
			s.tcpCli.Close()
		}
		if s.tcpSrv != nil {
			s.tcpSrv.Close()
		}
	})
}
