package main

// C11, part "objfault" — handler OBJECTS whose METHODS FAIL.
//
// The session runs of srvsession_*.go count every reader, writer and lister a request server obtains from its
// handlers, but their methods always succeed (apart from the first Close).  A real backend fails later than at
// open time: ListAt returns (0, err), (n > 0, err), (0, io.EOF), (n, io.EOF) or (0, nil); ReadAt / WriteAt return
// (0, err) or (n > 0, err); Close fails; the handler method itself (Filelist, Lstat, Fileread, Filewrite, OpenFile,
// Readlink) fails.  C11 says about all of them the same thing: whatever its methods returned, every object obtained
// from a handler has been closed exactly once by the time Serve returns (at CLOSE for an object behind a handle), the
// transfer-error notification reaches exactly the readers / writers whose handle was still open, and the context
// handed to an open / directory-open handler is cancelled once its handle is closed or the session ends.
//
// This part crosses
//
//	counting objects  x  per-method outcome schedules  x  every request kind that obtains an object
//
// Request kinds: STAT, LSTAT (FileLister with / without LstatFileLister), READLINK (with / without
// ReadlinkFileLister: without, the link is read through a lister), FSTAT on a handle of every kind (reader, writer,
// read-write, directory) — these four obtain a lister that belongs to no handle, so nothing but the request itself
// can release it —, OPENDIR + READDIR (List), OPEN for reading (Get), for writing (Put), for reading and writing
// (Open through OpenFileWriter, Put without it), with READ / WRITE / FSTAT / FSETSTAT on the handles, CLOSE, a second
// CLOSE, use after CLOSE, and handler-less requests in between.
//
// Outcome schedules (ofObjSpec, fixed when the object is handed out; the n-th call of a method takes the n-th
// entry, calls beyond the schedule succeed): ListAt {ok, (0,err), (n>0,err), (0,EOF), (n>0,EOF), (0,nil)},
// ReadAt {ok, (0,err), (n>0,err), (0,EOF), (n>0,EOF)}, WriteAt {ok, (0,err), (n>0,err)}, Close {nil, err}, with
// err from ofErrNames (os / syscall / io / package error values, a wrapped io.EOF, a PathError); the handler
// method fails with each of them and with io.EOF.  Objects come with / without io.Closer and with / without
// TransferError (type variants by embedding, verified by type assertion when built), the server with / without
// allocator.  The session ends by CLOSE of every handle + EOF, CLOSE twice + EOF, EOF with the handles open,
// a transport error with the handles open, or EOF right after the last request without reading its reply.
//
// Families: A — one attribute request (every kind x every ListAt outcome x every error value x Close nil / err),
// followed (or preceded) by the same request served faultlessly; B — one handle object (every kind x method x
// outcome x error value x fault at the 1st / 2nd call x Close nil / err x end), and every handler-method error;
// C — PRNG sessions with several handles open at once, every object with its own PRNG schedule.
// E / O — the ways a session ends x handle populations, request server / os-backed server (c11_ends.go).
//
// Every case runs on a fresh RequestServer over in-memory pipes inside a child process (`vh child c11of`,
// a batch per child, one result line per case, so that a panic of the package costs one case); the handler is
// purely in memory: no file is touched.  Requests are sent one at a time (the reply is read before the next
// request goes out), so "which request does this handler call belong to" is known exactly.
//
// Keys: rs/objfault/closed-<n>-times/<HandlerMethod>/<request>/<first faulty method outcome>[+close-error],
// rs/objfault/not-closed-at-close-reply/…, rs/objfault/transfer-error-count/…, rs/objfault/transfer-error-after-close,
// rs/objfault/context-alive-after-close | -at-end/…, rs/objfault/used-after-close/…, rs/objfault/no-reply/<request>,
// rs/objfault/serve-hang, rs/objfault/child-died/….

import (
	"bufio"
	"bytes"
	"context"
	"encoding/json"
	"errors"
	"fmt"
	"io"
	"math/rand"
	"os"
	"os/exec"
	"runtime"
	"sort"
	"strings"
	"sync"
	"sync/atomic"
	"syscall"
	"time"

	"github.com/pkg/sftp"

	"verifharness/lib"
	"verifharness/wire"
)

func init() { children["c11of"] = ofChildMain }

const ofClass = "c11/objfault"

// ---------- case description (replayable) ----------

type ofCfg struct {
	Lstat    bool `json:"lstat"`        // FileList implements LstatFileLister
	Readlink bool `json:"readlink"`     // FileList implements ReadlinkFileLister
	OpenFile bool `json:"openfile"`     // FilePut implements OpenFileWriter
	Alloc    bool `json:"alloc"`        // WithRSAllocator()
	OS       bool `json:"os,omitempty"` // family O (c11_ends.go): the os-backed Server on a scratch tree instead of the request server (Alloc: WithAllocator())
}

func (c ofCfg) String() string {
	b := func(v bool) byte {
		if v {
			return '1'
		}
		return '0'
	}
	if c.OS {
		return "os-backed,alloc=" + string(b(c.Alloc))
	}
	return "lstat=" + string(b(c.Lstat)) + ",readlink=" + string(b(c.Readlink)) + ",openfile=" + string(b(c.OpenFile)) + ",alloc=" + string(b(c.Alloc))
}

// ofOut is what one call of ListAt / ReadAt / WriteAt returns.
type ofOut struct {
	Mode string `json:"mode"`          // ok | 0err | nerr | 0eof | neof | 0nil
	Err  string `json:"err,omitempty"` // name in ofErrs (0err, nerr)
}

func (o ofOut) String() string {
	if o.Err != "" {
		return o.Mode + ":" + o.Err
	}
	return o.Mode
}

// ofObjSpec: the object a handler hands out for this step.
type ofObjSpec struct {
	NoCloser bool     `json:"no_closer,omitempty"`
	NoTE     bool     `json:"no_transfer_error,omitempty"`
	List     []ofOut  `json:"list,omitempty"`  // outcomes of its successive ListAt calls
	Read     []ofOut  `json:"read,omitempty"`  // … ReadAt
	Write    []ofOut  `json:"write,omitempty"` // … WriteAt
	Close    []string `json:"close,omitempty"` // error names of its successive Close calls ("" = nil)
}

type ofStep struct {
	Op   string     `json:"op"`             // stat lstat readlink fstat fsetstat opendir readdir open read write close setstat mkdir remove realpath
	Path string     `json:"path,omitempty"` // path requests
	Mode string     `json:"mode,omitempty"` // open: r | w | rw
	H    int        `json:"h,omitempty"`    // handle requests: index of the step that opened the handle
	HErr string     `json:"handler_err,omitempty"`
	Obj  *ofObjSpec `json:"obj,omitempty"` // steps that obtain an object (nil: everything succeeds, Close and TransferError present)
}

type ofCase struct {
	Family string   `json:"family"`
	Cfg    ofCfg    `json:"cfg"`
	Steps  []ofStep `json:"steps"`
	End    string   `json:"end"` // close-eof | close2-eof | eof | break | noreply | the ends of c11_ends.go (ofEndKinds)
	// parameters of the session ends of c11_ends.go
	EndErr string `json:"end_err,omitempty"` // transport error value (name in ofTrErrs): break-err, break-mid, write-fail*
	EndOff int    `json:"end_off,omitempty"` // eof-mid / break-mid: bytes of the following frame sent (<= 0: all but the last); srv-close-inflight: 1 = Close() once the server has read the requests
	EndN   int    `json:"end_n,omitempty"`   // srv-close-inflight / srv-close-held / write-fail*: number of requests sent and not answered before the end
	EndBad string `json:"end_bad,omitempty"` // badpkt: which malformed packet (ofBadKinds)
}

// class: the hang-budget class of the case (a request kind that hangs stops the cases of its own shape only).
func (cs ofCase) class() string {
	switch cs.Family {
	case "A":
		for _, st := range cs.Steps {
			if st.Obj != nil || st.HErr != "" {
				return ofClass + "/A/" + st.Op
			}
		}
	case "B":
		if len(cs.Steps) > 1 {
			return ofClass + "/B/" + cs.Steps[0].Op + cs.Steps[0].Mode + "-" + cs.Steps[1].Op
		}
	case "E", "O":
		return ofClass + "/" + cs.Family + "/" + cs.End
	}
	return ofClass + "/" + cs.Family
}

type ofInput struct {
	Part string  `json:"part"` // "objfault"
	Case *ofCase `json:"case"`
}

// ---------- error values ----------

var ofErrs = map[string]error{
	"EPERM":          os.ErrPermission,
	"ENOENT":         os.ErrNotExist,
	"EIO":            syscall.EIO,
	"ENOSPC":         syscall.ENOSPC,
	"EACCES-path":    &os.PathError{Op: "lstat", Path: "/d/f0", Err: syscall.EACCES},
	"custom":         errors.New("backend: injected fault"),
	"wrapped-EOF":    fmt.Errorf("backend read: %w", io.EOF),
	"unexpected-EOF": io.ErrUnexpectedEOF,
	"closed-pipe":    io.ErrClosedPipe,
	"ctx-canceled":   context.Canceled,
	"fx-failure":     sftp.ErrSSHFxFailure,
	"fx-unsupported": sftp.ErrSSHFxOpUnsupported,
	"fx-no-conn":     sftp.ErrSSHFxNoConnection,
	"EOF":            io.EOF, // handler-method and Close errors only (as a method outcome it is the mode 0eof / neof)
}

// ofErrNames: the values a failing ListAt / ReadAt / WriteAt returns (io.EOF itself is a mode of its own).
var ofErrNames = func() []string {
	var l []string
	for k := range ofErrs {
		if k != "EOF" {
			l = append(l, k)
		}
	}
	sort.Strings(l)
	return l
}()

func ofErr(name string) error {
	if name == "" {
		return nil
	}
	if e, ok := ofErrs[name]; ok {
		return e
	}
	return errors.New("backend: " + name)
}

// ---------- the counting, fault-injecting handler ----------

type ofObj struct {
	ID       int      `json:"id"`
	Step     int      `json:"step"`
	Kind     string   `json:"kind"` // statlister dirlister reader writer readwriter
	Via      string   `json:"via"`  // handler method / request, e.g. Filelist/fstat
	Path     string   `json:"path"`
	HasClose bool     `json:"has_close"`
	HasTE    bool     `json:"has_transfer_error"`
	NList    int      `json:"list_at_calls"`
	NRead    int      `json:"read_at_calls"`
	NWrite   int      `json:"write_at_calls"`
	Closed   int      `json:"closed"`
	TE       int      `json:"transfer_errors"`
	Faults   []string `json:"faults_delivered"`
	CloseErr bool     `json:"close_failed"`
	TEAfter  bool     `json:"transfer_error_after_close"`
	TEErrs   []string `json:"transfer_error_values,omitempty"` // the error each TransferError call carried ("<nil>" for nil)
	TENil    bool     `json:"transfer_error_nil,omitempty"`
	UseAfter string   `json:"used_after_close,omitempty"`

	spec ofObjSpec
	fs   *ofFS
}

type ofOpenCall struct {
	Step   int
	Method string
	Failed bool
	ctx    context.Context
}

type ofFS struct {
	mu    sync.Mutex
	cs    *ofCase
	cur   atomic.Int32
	objs  []*ofObj
	opens []*ofOpenCall
	tie   []string

	// end "srv-close-held": while hold is set, ListAt / ReadAt / WriteAt report their entry and wait for release
	hold    atomic.Bool
	entered chan struct{}
	release chan struct{}
	relOnce sync.Once
}

func (f *ofFS) holdPoint() {
	if f.hold.Load() {
		select {
		case f.entered <- struct{}{}:
		default:
		}
		<-f.release
	}
}

func (f *ofFS) releaseHeld() { f.relOnce.Do(func() { f.hold.Store(false); close(f.release) }) }

func (f *ofFS) step() (int, ofStep) {
	i := int(f.cur.Load())
	if i < 0 || i >= len(f.cs.Steps) {
		return i, ofStep{Op: "end-request"} // a request of the session END (c11_ends.go): not a step of the case
	}
	return i, f.cs.Steps[i]
}

// obtain: the handler method `method` is called for the current step; it fails or hands out a new object.
func (f *ofFS) obtain(method, kind string, r *sftp.Request) (*ofObj, error) {
	f.mu.Lock()
	defer f.mu.Unlock()
	i, st := f.step()
	switch r.Method {
	case "Get", "Put", "Open", "List":
		f.opens = append(f.opens, &ofOpenCall{Step: i, Method: method, Failed: st.HErr != "", ctx: r.Context()})
	}
	if st.HErr != "" {
		return nil, ofErr(st.HErr)
	}
	o := &ofObj{ID: len(f.objs), Step: i, Kind: kind, Via: method + "/" + st.Op, Path: r.Filepath, HasClose: true, HasTE: true, fs: f}
	if st.Obj != nil {
		o.spec = *st.Obj
		o.HasClose, o.HasTE = !st.Obj.NoCloser, !st.Obj.NoTE
	}
	if kind == "statlister" || kind == "dirlister" {
		o.HasTE = false // a ListerAt is never told; its variants do not have the method
	}
	f.objs = append(f.objs, o)
	return o, nil
}

type ofInfo struct {
	name string
	dir  bool
}

func (i ofInfo) Name() string { return i.name }
func (i ofInfo) Size() int64  { return 64 }
func (i ofInfo) Mode() os.FileMode {
	if i.dir {
		return os.ModeDir | 0o755
	}
	return 0o644
}
func (i ofInfo) ModTime() time.Time { return time.Unix(1_000_000_000, 0) }
func (i ofInfo) IsDir() bool        { return i.dir }
func (i ofInfo) Sys() any           { return nil }

func ofBase(p string) string {
	if i := strings.LastIndexByte(p, '/'); i >= 0 && i+1 < len(p) {
		return p[i+1:]
	}
	return "/"
}

func (o *ofObj) entries() []os.FileInfo {
	if o.Kind == "statlister" {
		return []os.FileInfo{ofInfo{name: ofBase(o.Path), dir: strings.HasPrefix(o.Path, "/d")}}
	}
	var l []os.FileInfo
	for i := 0; i < 5; i++ {
		l = append(l, ofInfo{name: fmt.Sprintf("f%d", i)})
	}
	return l
}

func ofPlan(plan []ofOut, n int) ofOut {
	if n < len(plan) && plan[n].Mode != "" {
		return plan[n]
	}
	return ofOut{Mode: "ok"}
}

func (o *ofObj) called(method string, out ofOut) {
	if o.Closed > 0 && o.UseAfter == "" {
		o.UseAfter = method
	}
	if out.Mode != "ok" {
		o.Faults = append(o.Faults, method+":"+out.Mode)
	}
}

func (o *ofObj) listAt(ls []os.FileInfo, off int64) (int, error) {
	o.fs.holdPoint()
	o.fs.mu.Lock()
	defer o.fs.mu.Unlock()
	out := ofPlan(o.spec.List, o.NList)
	o.NList++
	o.called("ListAt", out)
	ents := o.entries()
	n := 0
	if off >= 0 && off < int64(len(ents)) {
		n = copy(ls, ents[off:])
	}
	some := func() int {
		if n == 0 && len(ls) > 0 {
			ls[0] = ents[0]
			return 1
		}
		return n
	}
	switch out.Mode {
	case "0err":
		return 0, ofErr(out.Err)
	case "nerr":
		return some(), ofErr(out.Err)
	case "0eof":
		return 0, io.EOF
	case "neof":
		return some(), io.EOF
	case "0nil":
		return 0, nil
	}
	if n < len(ls) {
		return n, io.EOF
	}
	return n, nil
}

var ofData = func() []byte {
	b := make([]byte, 64)
	for i := range b {
		b[i] = byte('A' + i%26)
	}
	return b
}()

func (o *ofObj) readAt(p []byte, off int64) (int, error) {
	o.fs.holdPoint()
	o.fs.mu.Lock()
	defer o.fs.mu.Unlock()
	out := ofPlan(o.spec.Read, o.NRead)
	o.NRead++
	o.called("ReadAt", out)
	n := 0
	if off >= 0 && off < int64(len(ofData)) {
		n = copy(p, ofData[off:])
	}
	some := func() int {
		if len(p) == 0 {
			return 0
		}
		if n == 0 {
			n = copy(p, ofData)
		}
		return (n + 1) / 2
	}
	switch out.Mode {
	case "0err":
		return 0, ofErr(out.Err)
	case "nerr":
		return some(), ofErr(out.Err)
	case "0eof":
		return 0, io.EOF
	case "neof":
		return some(), io.EOF
	}
	if n < len(p) {
		return n, io.EOF
	}
	return n, nil
}

func (o *ofObj) writeAt(p []byte, off int64) (int, error) {
	o.fs.holdPoint()
	o.fs.mu.Lock()
	defer o.fs.mu.Unlock()
	out := ofPlan(o.spec.Write, o.NWrite)
	o.NWrite++
	o.called("WriteAt", out)
	switch out.Mode {
	case "0err":
		return 0, ofErr(out.Err)
	case "nerr":
		return len(p) / 2, ofErr(out.Err)
	}
	return len(p), nil
}

func (o *ofObj) close() error {
	o.fs.mu.Lock()
	defer o.fs.mu.Unlock()
	var err error
	if o.Closed < len(o.spec.Close) {
		err = ofErr(o.spec.Close[o.Closed])
	}
	o.Closed++
	if err != nil {
		o.CloseErr = true
	}
	return err
}

func (o *ofObj) transferError(err error) {
	o.fs.mu.Lock()
	defer o.fs.mu.Unlock()
	o.TE++
	if err == nil {
		o.TENil = true
		o.TEErrs = append(o.TEErrs, "<nil>")
	} else {
		o.TEErrs = append(o.TEErrs, err.Error())
	}
	if o.Closed > 0 {
		o.TEAfter = true
	}
}

// method parts and the type variants built from them
type (
	ofRdP struct{ o *ofObj }
	ofWrP struct{ o *ofObj }
	ofLsP struct{ o *ofObj }
	ofClP struct{ o *ofObj }
	ofTEP struct{ o *ofObj }
)

func (x ofRdP) ReadAt(p []byte, off int64) (int, error)        { return x.o.readAt(p, off) }
func (x ofWrP) WriteAt(p []byte, off int64) (int, error)       { return x.o.writeAt(p, off) }
func (x ofLsP) ListAt(l []os.FileInfo, off int64) (int, error) { return x.o.listAt(l, off) }
func (x ofClP) Close() error                                   { return x.o.close() }
func (x ofTEP) TransferError(err error)                        { x.o.transferError(err) }

// seal checks that the value handed out implements exactly what the object says.
func (o *ofObj) seal(v any) {
	_, c := v.(io.Closer)
	_, t := v.(sftp.TransferError)
	if c != o.HasClose || t != o.HasTE {
		o.fs.mu.Lock()
		o.fs.tie = append(o.fs.tie, fmt.Sprintf("%s object: io.Closer %v (wanted %v), TransferError %v (wanted %v)", o.Kind, c, o.HasClose, t, o.HasTE))
		o.fs.mu.Unlock()
	}
}

func (o *ofObj) reader() (v io.ReaderAt) {
	defer func() { o.seal(v) }()
	switch {
	case o.HasClose && o.HasTE:
		return struct {
			ofRdP
			ofClP
			ofTEP
		}{ofRdP{o}, ofClP{o}, ofTEP{o}}
	case o.HasClose:
		return struct {
			ofRdP
			ofClP
		}{ofRdP{o}, ofClP{o}}
	case o.HasTE:
		return struct {
			ofRdP
			ofTEP
		}{ofRdP{o}, ofTEP{o}}
	}
	return ofRdP{o}
}

func (o *ofObj) writer() (v io.WriterAt) {
	defer func() { o.seal(v) }()
	switch {
	case o.HasClose && o.HasTE:
		return struct {
			ofWrP
			ofClP
			ofTEP
		}{ofWrP{o}, ofClP{o}, ofTEP{o}}
	case o.HasClose:
		return struct {
			ofWrP
			ofClP
		}{ofWrP{o}, ofClP{o}}
	case o.HasTE:
		return struct {
			ofWrP
			ofTEP
		}{ofWrP{o}, ofTEP{o}}
	}
	return ofWrP{o}
}

func (o *ofObj) readWriter() (v sftp.WriterAtReaderAt) {
	defer func() { o.seal(v) }()
	switch {
	case o.HasClose && o.HasTE:
		return struct {
			ofRdP
			ofWrP
			ofClP
			ofTEP
		}{ofRdP{o}, ofWrP{o}, ofClP{o}, ofTEP{o}}
	case o.HasClose:
		return struct {
			ofRdP
			ofWrP
			ofClP
		}{ofRdP{o}, ofWrP{o}, ofClP{o}}
	case o.HasTE:
		return struct {
			ofRdP
			ofWrP
			ofTEP
		}{ofRdP{o}, ofWrP{o}, ofTEP{o}}
	}
	return struct {
		ofRdP
		ofWrP
	}{ofRdP{o}, ofWrP{o}}
}

func (o *ofObj) lister() (v sftp.ListerAt) {
	defer func() { o.seal(v) }()
	if o.HasClose {
		return struct {
			ofLsP
			ofClP
		}{ofLsP{o}, ofClP{o}}
	}
	return ofLsP{o}
}

// handlers and their variants
type (
	ofGetH      struct{ f *ofFS }
	ofPutH      struct{ f *ofFS }
	ofOpenFileP struct{ f *ofFS }
	ofCmdH      struct{ f *ofFS }
	ofListH     struct{ f *ofFS }
	ofLstatP    struct{ f *ofFS }
	ofReadlinkP struct{ f *ofFS }
)

func (h ofGetH) Fileread(r *sftp.Request) (io.ReaderAt, error) {
	o, err := h.f.obtain("Fileread", "reader", r)
	if err != nil {
		return nil, err
	}
	return o.reader(), nil
}

func (h ofPutH) Filewrite(r *sftp.Request) (io.WriterAt, error) {
	o, err := h.f.obtain("Filewrite", "writer", r)
	if err != nil {
		return nil, err
	}
	return o.writer(), nil
}

func (h ofOpenFileP) OpenFile(r *sftp.Request) (sftp.WriterAtReaderAt, error) {
	o, err := h.f.obtain("OpenFile", "readwriter", r)
	if err != nil {
		return nil, err
	}
	return o.readWriter(), nil
}

func (h ofCmdH) Filecmd(r *sftp.Request) error {
	h.f.mu.Lock()
	defer h.f.mu.Unlock()
	_, st := h.f.step()
	return ofErr(st.HErr)
}

func (h ofListH) Filelist(r *sftp.Request) (sftp.ListerAt, error) {
	kind := "statlister"
	if r.Method == "List" {
		kind = "dirlister"
	}
	o, err := h.f.obtain("Filelist", kind, r)
	if err != nil {
		return nil, err
	}
	return o.lister(), nil
}

func (h ofLstatP) Lstat(r *sftp.Request) (sftp.ListerAt, error) {
	o, err := h.f.obtain("Lstat", "statlister", r)
	if err != nil {
		return nil, err
	}
	return o.lister(), nil
}

func (h ofReadlinkP) Readlink(p string) (string, error) {
	h.f.mu.Lock()
	defer h.f.mu.Unlock()
	_, st := h.f.step()
	if st.HErr != "" {
		return "", ofErr(st.HErr)
	}
	return "/a.txt", nil
}

func ofHandlers(f *ofFS, cfg ofCfg) (h sftp.Handlers, tie string) {
	h.FileGet = ofGetH{f}
	h.FileCmd = ofCmdH{f}
	h.FilePut = ofPutH{f}
	if cfg.OpenFile {
		h.FilePut = struct {
			ofPutH
			ofOpenFileP
		}{ofPutH{f}, ofOpenFileP{f}}
	}
	switch {
	case cfg.Lstat && cfg.Readlink:
		h.FileList = struct {
			ofListH
			ofLstatP
			ofReadlinkP
		}{ofListH{f}, ofLstatP{f}, ofReadlinkP{f}}
	case cfg.Lstat:
		h.FileList = struct {
			ofListH
			ofLstatP
		}{ofListH{f}, ofLstatP{f}}
	case cfg.Readlink:
		h.FileList = struct {
			ofListH
			ofReadlinkP
		}{ofListH{f}, ofReadlinkP{f}}
	default:
		h.FileList = ofListH{f}
	}
	_, a := h.FileList.(sftp.LstatFileLister)
	_, b := h.FileList.(sftp.ReadlinkFileLister)
	_, c := h.FilePut.(sftp.OpenFileWriter)
	if a != cfg.Lstat || b != cfg.Readlink || c != cfg.OpenFile {
		tie = fmt.Sprintf("handlers implement LstatFileLister=%v ReadlinkFileLister=%v OpenFileWriter=%v, configuration %s", a, b, c, cfg)
	}
	return h, tie
}

// ---------- running one case ----------

type ofFinding struct {
	Key      string `json:"key"`
	What     string `json:"what"`
	Expected string `json:"expected,omitempty"`
	Actual   string `json:"actual,omitempty"`
}

type ofResult struct {
	I        int         `json:"i"`
	Findings []ofFinding `json:"findings,omitempty"`
	Hist     []string    `json:"hist,omitempty"`
	Objects  int         `json:"objects"`
	Hung     bool        `json:"hung,omitempty"`
}

type ofConn struct {
	io.Reader
	io.Writer
	close func()
}

func (c ofConn) Close() error { c.close(); return nil }

func (st ofStep) obtains() bool {
	switch st.Op {
	case "stat", "lstat", "readlink", "fstat", "opendir", "open":
		return true
	}
	return false
}

// ofFaultTag names what the methods of an object delivered: its first non-ok method outcome and whether Close failed.
func (o *ofObj) faultTag() string {
	t := "no-method-fault"
	if len(o.Faults) > 0 {
		t = o.Faults[0]
	}
	if o.CloseErr {
		t += "+close-error"
	}
	return t
}

func ofRun(cs ofCase) (res ofResult) {
	k := lib.NewCase(cs.class())
	add := func(f ofFinding) {
		if (cs.Family == "E" || cs.Family == "O") && strings.HasPrefix(f.Key, "rs/objfault/") {
			f.Key += "/end=" + cs.End // the way the session ended is the dimension of this family: part of the signature
		}
		res.Findings = append(res.Findings, f)
	}
	if cs.Cfg.OS {
		return ofRunOS(cs) // the os-backed server and the ways its session ends (c11_ends.go)
	}
	fs := &ofFS{cs: &cs, entered: make(chan struct{}, 64), release: make(chan struct{})}
	defer fs.releaseHeld()
	fs.cur.Store(-1)
	h, tie := ofHandlers(fs, cs.Cfg)
	if tie != "" {
		add(ofFinding{Key: "tie/objfault/handler-variant-selftest", What: tie})
		return
	}
	c2sR, c2sW := io.Pipe()
	s2cR, s2cW := io.Pipe()
	var opts []sftp.RequestServerOption
	if cs.Cfg.Alloc {
		opts = append(opts, sftp.WithRSAllocator())
	}
	rs := sftp.NewRequestServer(ofConn{Reader: c2sR, Writer: s2cW, close: func() { c2sR.Close(); s2cW.Close() }}, h, opts...)
	done := make(chan error, 1)
	stopped := make(chan struct{})
	go func() {
		err := rs.Serve()
		s2cW.Close()
		c2sR.Close()
		close(stopped)
		done <- err
	}()
	frames := make(chan wire.Pkt, 256)
	go func() {
		defer close(frames)
		for {
			p, err := wire.ReadFrame(s2cR)
			if err != nil {
				io.Copy(io.Discard, s2cR)
				return
			}
			frames <- p
		}
	}()
	send := func(b []byte) bool {
		ec := make(chan error, 1)
		go func() { _, err := c2sW.Write(b); ec <- err }()
		err, ok := lib.WaitCase(k, hangDeadline, ec)
		return ok && err == nil
	}
	recv := func() (wire.Pkt, bool) {
		p, ok := lib.WaitCase(k, hangDeadline, frames)
		return p, ok && p.Typ != 0
	}
	abort := func() {
		e := errors.New("connection reset by peer")
		c2sW.CloseWithError(e)
		s2cR.CloseWithError(e)
		if _, ok := lib.WaitCleanup(cs.class(), 3*time.Second, done); !ok {
			res.Hung = true
		}
	}
	if !send(wire.Frame(wire.Init, wire.B{}.U32(3))) {
		add(ofFinding{Key: "rs/objfault/no-reply/init", What: "the server did not read INIT"})
		abort()
		return
	}
	if p, ok := recv(); !ok || p.Typ != wire.Version {
		add(ofFinding{Key: "rs/objfault/no-reply/init", What: "no VERSION in reply to INIT"})
		abort()
		return
	}

	handles := map[int]string{} // opening step -> handle string (HANDLE reply received)
	closeSent := map[int]bool{} // opening step -> a CLOSE went out
	answered := map[int]byte{}  // step -> type of its reply
	objsOf := func(step int) (l []*ofObj) {
		fs.mu.Lock()
		defer fs.mu.Unlock()
		for _, o := range fs.objs {
			if o.Step == step {
				l = append(l, o)
			}
		}
		return
	}
	snapshot := func(o *ofObj) string {
		fs.mu.Lock()
		defer fs.mu.Unlock()
		b, _ := json.Marshal(o)
		return string(b)
	}
	afterClose := func(open int) {
		// the handle died with its CLOSE reply: its object is closed (once) and the handler's context cancelled
		for _, o := range objsOf(open) {
			fs.mu.Lock()
			n, has := o.Closed, o.HasClose
			fs.mu.Unlock()
			if has && n != 1 {
				add(ofFinding{Key: fmt.Sprintf("rs/objfault/not-closed-at-close-reply/closed-%d-times/%s/%s", min(n, 2), o.Via, o.faultTag()),
					What:     fmt.Sprintf("the reply to CLOSE has arrived and the %s obtained by step %d has been closed %d times", o.Kind, o.Step, n),
					Expected: "closed == 1", Actual: snapshot(o)})
			}
		}
		fs.mu.Lock()
		defer fs.mu.Unlock()
		for _, oc := range fs.opens {
			if oc.Step == open && oc.ctx.Err() == nil {
				add(ofFinding{Key: "rs/objfault/context-alive-after-close/" + oc.Method, What: fmt.Sprintf("the context handed to %s (step %d) is still alive after the reply to the CLOSE of its handle", oc.Method, oc.Step)})
			}
		}
	}
	doClose := func(open int, id uint32) bool {
		hs := handles[open]
		first := !closeSent[open]
		closeSent[open] = true
		if !send(wire.Req(wire.Close, id, wire.B{}.Str(hs))) {
			add(ofFinding{Key: "rs/objfault/no-reply/close", What: "the server did not read a CLOSE request"})
			return false
		}
		if _, ok := recv(); !ok {
			add(ofFinding{Key: "rs/objfault/no-reply/close", What: fmt.Sprintf("no reply to CLOSE of handle %q within %v", hs, hangDeadline)})
			return false
		}
		if first {
			afterClose(open)
		}
		return true
	}

	dead := false
	for i, st := range cs.Steps {
		res.Hist = append(res.Hist, "objfault/op/"+st.Op)
		id := uint32(i + 1)
		var body wire.B
		hs, hasH := handles[st.H]
		needH := false
		switch st.Op {
		case "stat", "lstat", "readlink", "opendir", "remove", "realpath":
			body = wire.B{}.Str(st.Path)
		case "setstat", "mkdir":
			body = wire.B{}.Str(st.Path).U32(0)
		case "open":
			pf := uint32(wire.FRead)
			switch st.Mode {
			case "w":
				pf = wire.FWrite | wire.FCreat
			case "rw":
				pf = wire.FRead | wire.FWrite
			}
			body = wire.B{}.Str(st.Path).U32(pf).U32(0)
		case "fstat", "readdir", "close":
			body, needH = wire.B{}.Str(hs), true
		case "fsetstat":
			body, needH = wire.B{}.Str(hs).U32(0), true
		case "read":
			body, needH = wire.B{}.Str(hs).U64(uint64(8*(i%5))).U32(16), true
		case "write":
			body, needH = wire.B{}.Str(hs).U64(uint64(8*(i%5))).Bytes(ofData[:16]), true
		default:
			add(ofFinding{Key: "tie/objfault/generator", What: "unknown step " + st.Op})
			continue
		}
		if needH && !hasH {
			res.Hist = append(res.Hist, "objfault/step-not-run/its-handle-was-not-issued")
			continue
		}
		typ := map[string]byte{"stat": wire.Stat, "lstat": wire.Lstat, "readlink": wire.Readlink, "opendir": wire.Opendir, "remove": wire.Remove, "realpath": wire.Realpath,
			"setstat": wire.Setstat, "mkdir": wire.Mkdir, "open": wire.Open, "fstat": wire.Fstat, "readdir": wire.Readdir, "close": wire.Close, "fsetstat": wire.Fsetstat,
			"read": wire.Read, "write": wire.Write}[st.Op]
		fs.cur.Store(int32(i))
		if st.Op == "close" {
			if !doClose(st.H, id) {
				dead = true
				break
			}
			continue
		}
		if !send(wire.Req(typ, id, body)) {
			add(ofFinding{Key: "rs/objfault/no-reply/" + st.Op, What: fmt.Sprintf("the server did not read request %d (%s)", i, st.Op)})
			dead = true
			break
		}
		if cs.End == "noreply" && i == len(cs.Steps)-1 {
			break
		}
		p, ok := recv()
		if !ok {
			add(ofFinding{Key: "rs/objfault/no-reply/" + st.Op, What: fmt.Sprintf("no reply to request %d (%s) within %v", i, st.Op, hangDeadline), Actual: strings.Join(ssPkgGoroutines(), "\n\n")})
			dead = true
			break
		}
		answered[i] = p.Typ
		if p.ID() != id {
			add(ofFinding{Key: "rs/objfault/reply-id/" + st.Op, What: fmt.Sprintf("the reply to request %d (%s) carries id %d", id, st.Op, p.ID())})
		}
		if (st.Op == "open" || st.Op == "opendir") && p.Typ == wire.Handle {
			d := wire.D{B: p.Body}
			d.U32()
			handles[i] = d.Str()
		}
	}
	var afterServe func()
	if dead {
		abort()
	} else {
		switch cs.End {
		case "close-eof", "close2-eof":
			var open []int
			for s := range handles {
				if !closeSent[s] {
					open = append(open, s)
				}
			}
			sort.Ints(open)
			id := uint32(len(cs.Steps) + 1)
		closing:
			for rep := 0; rep < 2; rep++ {
				for _, s := range open {
					id++
					if !doClose(s, id) {
						dead = true
						break closing
					}
				}
				if cs.End != "close2-eof" {
					break
				}
			}
			c2sW.Close()
		case "break":
			e := errors.New("connection reset by peer")
			c2sW.CloseWithError(e)
			s2cR.CloseWithError(e)
		case "eof", "noreply":
			c2sW.Close()
		default: // the ways a session ends of c11_ends.go
			env := &ofEndEnv{cs: &cs, k: k, fs: fs, closeApp: rs.Close, c2sW: c2sW, s2cR: s2cR, send: send, recv: recv, stopped: stopped,
				handles: handles, closeSent: closeSent, hist: &res.Hist, add: add, kind: "rs"}
			if !ofEndDrive(env) {
				add(ofFinding{Key: "tie/objfault/generator", What: "unknown session end " + cs.End})
				c2sW.Close()
			}
			afterServe = env.after
		}
		if dead {
			abort()
		} else if serr, ok := lib.WaitCase(k, hangDeadline, done); !ok {
			fs.releaseHeld()
			add(ofFinding{Key: "rs/objfault/serve-hang", What: fmt.Sprintf("Serve did not return within %v after the session ended (%s)", hangDeadline, ofEndText(&cs)), Actual: strings.Join(ssPkgGoroutines(), "\n\n")})
			res.Hung = true
			return
		} else {
			res.Hist = append(res.Hist, "objfault/serve-returned/"+cs.End+"/"+ofErrClass(serr))
			if afterServe != nil {
				afterServe()
			}
		}
	}
	if res.Hung {
		return
	}

	// ---- after Serve has returned ----
	fs.mu.Lock()
	objs := append([]*ofObj(nil), fs.objs...)
	opens := append([]*ofOpenCall(nil), fs.opens...)
	ties := fs.tie
	fs.mu.Unlock()
	for _, t := range ties {
		add(ofFinding{Key: "tie/objfault/object-variant-selftest", What: t})
	}
	res.Objects = len(objs)
	for _, o := range objs {
		snap := snapshot(o)
		tag := o.faultTag()
		res.Hist = append(res.Hist, fmt.Sprintf("objfault/object/%s/closer=%v/transfer-error=%v", o.Via, o.HasClose, o.HasTE))
		for _, f := range o.Faults {
			res.Hist = append(res.Hist, "objfault/delivered/"+o.Kind+"/"+f)
		}
		if o.CloseErr {
			res.Hist = append(res.Hist, "objfault/delivered/"+o.Kind+"/Close:err")
		}
		want := 0
		if o.HasClose {
			want = 1
		}
		if o.Closed != want {
			add(ofFinding{Key: fmt.Sprintf("rs/objfault/closed-%d-times/%s/%s", min(o.Closed, 2), o.Via, tag),
				What: fmt.Sprintf("the %s the handler handed out for step %d (%s %s; its methods delivered %v) was closed %d times by the time Serve returned (session end: %s)",
					o.Kind, o.Step, ofStepOp(&cs, o.Step), o.Path, o.Faults, o.Closed, ofEndText(&cs)),
				Expected: fmt.Sprintf("closed == %d", want), Actual: snap})
		}
		if o.UseAfter != "" {
			add(ofFinding{Key: "rs/objfault/used-after-close/" + o.Via + "/" + o.UseAfter, What: fmt.Sprintf("%s of the %s of step %d was called after its Close", o.UseAfter, o.Kind, o.Step), Actual: snap})
		}
		if o.TEAfter {
			add(ofFinding{Key: "rs/objfault/transfer-error-after-close/" + o.Via, What: fmt.Sprintf("the %s of step %d received TransferError after Close", o.Kind, o.Step), Actual: snap})
		}
		// the transfer-error notification: exactly the readers / writers whose handle was still open at the end
		wantTE, certain := 0, true
		if o.Kind != "statlister" && o.Kind != "dirlister" {
			_, issued := handles[o.Step]
			typ, ans := answered[o.Step]
			switch {
			case issued && !closeSent[o.Step]:
				wantTE = 1
			case !ans && !dead:
				wantTE = 1 // the unanswered last OPEN (end "noreply"): it was served, its handle is open when the session ends
			case ans && typ != wire.Handle:
				certain = false // an object was handed out and the open refused all the same: not this oracle's business
			}
			if dead {
				certain = false
			}
		}
		if !o.HasTE {
			wantTE = 0
		}
		for _, v := range o.TEErrs {
			res.Hist = append(res.Hist, "objfault/transfer-error-value/"+cs.End+"/"+ofErrTextClass(v))
		}
		if o.TENil {
			add(ofFinding{Key: "rs/objfault/transfer-error-nil/" + o.Via,
				What:     fmt.Sprintf("the %s of step %d was told TransferError(nil): the notification carries no error (session end: %s)", o.Kind, o.Step, ofEndText(&cs)),
				Expected: "a non-nil error", Actual: snap})
		}
		if wantTE == 1 && certain {
			res.Hist = append(res.Hist, fmt.Sprintf("objfault/open-at-end/%s/%s", cs.End, o.Kind))
		}
		if certain && o.TE != wantTE {
			add(ofFinding{Key: fmt.Sprintf("rs/objfault/transfer-error-count/%s/%s", o.Via, tag),
				What:     fmt.Sprintf("the %s of step %d (handle open at the end of the session: %v) received TransferError %d times (session end: %s)", o.Kind, o.Step, wantTE == 1 || (!o.HasTE && !closeSent[o.Step]), o.TE, ofEndText(&cs)),
				Expected: fmt.Sprint(wantTE), Actual: snap})
		}
	}
	for _, oc := range opens {
		if oc.ctx.Err() == nil {
			add(ofFinding{Key: fmt.Sprintf("rs/objfault/context-alive-at-end/%s/handler-failed=%v", oc.Method, oc.Failed),
				What: fmt.Sprintf("the context handed to %s at step %d (handler failed: %v) is still alive after Serve returned", oc.Method, oc.Step, oc.Failed)})
		}
		if oc.Failed {
			res.Hist = append(res.Hist, "objfault/handler-error/"+oc.Method)
		}
	}
	return res
}

// ---------- child process ----------

type ofJob struct {
	I    int    `json:"i"`
	Case ofCase `json:"case"`
}

// ofChildMain: jobs (one JSON value per line) on stdin, one result line per job on stdout.
func ofChildMain(args []string) {
	in := bufio.NewReaderSize(os.Stdin, 1<<20)
	dec := json.NewDecoder(in)
	out := bufio.NewWriter(os.Stdout)
	for {
		var j ofJob
		if err := dec.Decode(&j); err != nil {
			break
		}
		res := ofRun(j.Case)
		res.I = j.I
		b, _ := json.Marshal(res)
		out.Write(b)
		out.WriteByte('\n')
		out.Flush()
		if res.Hung {
			// goroutines of the package are left behind: the following cases get a fresh process
			break
		}
	}
}

// ofRunBatch runs jobs in one child; results come back through done (in order); it returns the index (into jobs)
// of the job the child died or stopped at, or len(jobs).
func ofRunBatch(jobs []ofJob, done func(ofJob, ofResult)) (stoppedAt int, stderr string, timeout, leftAfterHang bool) {
	var in bytes.Buffer
	enc := json.NewEncoder(&in)
	for _, j := range jobs {
		enc.Encode(j)
	}
	cmd := exec.Command(os.Args[0], "child", "c11of")
	cmd.Stdin = &in
	tail := &ssTail{}
	cmd.Stderr = tail
	so, err := cmd.StdoutPipe()
	if err != nil {
		return 0, err.Error(), false, false
	}
	if err := cmd.Start(); err != nil {
		return 0, err.Error(), false, false
	}
	n := 0
	fin := make(chan struct{})
	go func() {
		defer close(fin)
		sc := bufio.NewScanner(so)
		sc.Buffer(make([]byte, 1<<20), 1<<26)
		for sc.Scan() {
			var r ofResult
			if json.Unmarshal(sc.Bytes(), &r) != nil || n >= len(jobs) || r.I != jobs[n].I {
				continue
			}
			done(jobs[n], r)
			n++
			lib.Touch()
			if r.Hung {
				leftAfterHang = true
				return
			}
		}
	}()
	// every wait inside the child has its hang deadline; this bounds the child as a whole
	if _, ok := lib.WaitHang(ofClass, 150*time.Second, fin); !ok {
		timeout = true
	}
	cmd.Process.Kill()
	cmd.Wait()
	<-fin
	return n, tail.String(), timeout, leftAfterHang
}

// ---------- generators ----------

func ofErrOutcomes(modes []string, errs []string) (l []ofOut) {
	for _, m := range modes {
		if m == "0err" || m == "nerr" {
			for _, e := range errs {
				l = append(l, ofOut{Mode: m, Err: e})
			}
		} else {
			l = append(l, ofOut{Mode: m})
		}
	}
	return
}

var (
	ofListModes  = []string{"ok", "0err", "nerr", "0eof", "neof", "0nil"}
	ofReadModes  = []string{"ok", "0err", "nerr", "0eof", "neof"}
	ofWriteModes = []string{"ok", "0err", "nerr"}
	ofEnds       = []string{"close-eof", "eof", "break", "noreply", "close2-eof"}
)

func ofHErrNames() []string { return append(append([]string(nil), ofErrNames...), "EOF") }

// ofGenA: one attribute request whose lister (or handler) fails, next to the same request served without a fault.
func ofGenA(thorough bool) (out []ofCase) {
	type kind struct {
		op   string
		open string // fstat: how the handle was opened ("dir" = OPENDIR)
		cfgs []ofCfg
	}
	kinds := []kind{
		{op: "stat", cfgs: []ofCfg{{}, {Lstat: true, Readlink: true, OpenFile: true, Alloc: true}}},
		{op: "lstat", cfgs: []ofCfg{{Lstat: true}, {Lstat: false, Alloc: true}}},
		{op: "readlink", cfgs: []ofCfg{{Readlink: false}, {Readlink: false, Lstat: true, Alloc: true}}},
		{op: "fstat", open: "r", cfgs: []ofCfg{{}, {Alloc: true, Lstat: true}}},
		{op: "fstat", open: "w", cfgs: []ofCfg{{Alloc: true}, {Readlink: true}}},
		{op: "fstat", open: "rw", cfgs: []ofCfg{{OpenFile: true}, {OpenFile: false, Alloc: true}}},
		{op: "fstat", open: "dir", cfgs: []ofCfg{{}, {Alloc: true, Lstat: true, Readlink: true}}},
	}
	n := 0
	mk := func(k kind, fault ofStep, cfg ofCfg) {
		n++
		end := ofEnds[n%len(ofEnds)]
		good := ofStep{Op: k.op, Path: fault.Path}
		var steps []ofStep
		if k.op == "fstat" {
			o := ofStep{Op: "open", Path: "/a.txt", Mode: k.open}
			if k.open == "dir" {
				o = ofStep{Op: "opendir", Path: "/d"}
			}
			steps = append(steps, o)
			// (H = 0: the first step)
		}
		if end == "noreply" {
			steps = append(steps, good, fault)
		} else {
			steps = append(steps, fault, good)
		}
		out = append(out, ofCase{Family: "A", Cfg: cfg, Steps: steps, End: end})
	}
	outs := ofErrOutcomes(ofListModes, ofErrNames)
	for _, k := range kinds {
		path := map[string]string{"stat": "/a.txt", "lstat": "/ln", "readlink": "/ln", "fstat": ""}[k.op]
		for oi, o := range outs {
			for ci, cl := range [][]string{nil, {"custom"}, {"EIO", "EIO"}} {
				if ci == 2 && !thorough && oi%4 != 0 {
					continue
				}
				for vi, cfg := range k.cfgs {
					if !thorough && (oi+ci+vi)%2 == 1 && k.op != "lstat" {
						continue // quick: the two handler configurations alternate (LSTAT meets both: they are different code paths)
					}
					spec := &ofObjSpec{List: []ofOut{o}, Close: cl, NoCloser: ci == 0 && oi%7 == 6}
					mk(k, ofStep{Op: k.op, Path: path, Obj: spec}, cfg)
				}
			}
		}
		for _, e := range ofHErrNames() {
			mk(k, ofStep{Op: k.op, Path: path, HErr: e}, k.cfgs[n%2])
		}
	}
	// READLINK answered by a ReadlinkFileLister: no object at all, with and without a handler error
	for _, e := range append([]string{""}, ofHErrNames()...) {
		mk(kind{op: "readlink"}, ofStep{Op: "readlink", Path: "/ln", HErr: e}, ofCfg{Readlink: true, Lstat: n%2 == 0})
	}
	return out
}

// ofGenB: one handle object of every kind whose method fails at its first or second call.
func ofGenB(thorough bool) (out []ofCase) {
	type kind struct {
		name   string
		open   ofStep
		cfg    ofCfg
		method string // read write readdir
	}
	kinds := []kind{
		{"Get", ofStep{Op: "open", Path: "/a.txt", Mode: "r"}, ofCfg{}, "read"},
		{"Put", ofStep{Op: "open", Path: "/b.bin", Mode: "w"}, ofCfg{OpenFile: true}, "write"},
		{"Open", ofStep{Op: "open", Path: "/a.txt", Mode: "rw"}, ofCfg{OpenFile: true}, "read"},
		{"Open", ofStep{Op: "open", Path: "/a.txt", Mode: "rw"}, ofCfg{OpenFile: true, Lstat: true}, "write"},
		{"Put-rw", ofStep{Op: "open", Path: "/a.txt", Mode: "rw"}, ofCfg{OpenFile: false}, "write"},
		{"List", ofStep{Op: "opendir", Path: "/d"}, ofCfg{Readlink: true}, "readdir"},
	}
	n := 0
	for _, k := range kinds {
		var outs []ofOut
		switch k.method {
		case "read":
			outs = ofErrOutcomes(ofReadModes, ofErrNames)
		case "write":
			outs = ofErrOutcomes(ofWriteModes, ofErrNames)
		default:
			outs = ofErrOutcomes(ofListModes, ofErrNames)
		}
		ends := ofEnds
		for _, o := range outs {
			for pos := 0; pos < 2; pos++ {
				for ci, cl := range [][]string{nil, {"custom"}} {
					var use []string
					if thorough {
						use = ends
					} else {
						n++
						use = []string{ends[n%len(ends)]}
					}
					for _, end := range use {
						n++
						plan := make([]ofOut, pos+1)
						plan[pos] = o
						spec := &ofObjSpec{Close: cl, NoCloser: n%11 == 10, NoTE: n%5 == 4}
						switch k.method {
						case "read":
							spec.Read = plan
						case "write":
							spec.Write = plan
						default:
							spec.List = plan
						}
						open := k.open
						open.Obj = spec
						steps := []ofStep{open}
						for c := 0; c <= pos; c++ {
							steps = append(steps, ofStep{Op: k.method, H: 0})
						}
						if end != "noreply" {
							steps = append(steps, ofStep{Op: k.method, H: 0}) // one more use after the failure
						}
						if ci == 1 && end != "noreply" && n%3 == 0 {
							steps = append(steps, ofStep{Op: "close", H: 0}, ofStep{Op: k.method, H: 0}) // … CLOSE in the session, use after close
						}
						cfg := k.cfg
						cfg.Alloc = n%2 == 0
						out = append(out, ofCase{Family: "B", Cfg: cfg, Steps: steps, End: end})
					}
				}
			}
		}
		// the handler method fails: no object, no handle, the context cancelled all the same
		for _, e := range ofHErrNames() {
			n++
			open := k.open
			open.HErr = e
			out = append(out, ofCase{Family: "B", Cfg: k.cfg, Steps: []ofStep{open, {Op: "stat", Path: "/a.txt"}, k.open, {Op: k.method, H: 2}}, End: ofEnds[n%len(ofEnds)]})
		}
	}
	return out
}

// ofGenC: a PRNG session; several handles open at once, every object with a PRNG schedule.
func ofGenC(rng *rand.Rand) ofCase {
	cs := ofCase{Family: "C", Cfg: ofCfg{Lstat: rng.Intn(2) == 0, Readlink: rng.Intn(3) == 0, OpenFile: rng.Intn(3) != 0, Alloc: rng.Intn(2) == 0}, End: ofEnds[rng.Intn(len(ofEnds))]}
	errName := func() string { return ofErrNames[rng.Intn(len(ofErrNames))] }
	plan := func(modes []string, n int) (l []ofOut) {
		for i := 0; i < n; i++ {
			o := ofOut{Mode: "ok"}
			if rng.Intn(100) < 40 {
				o.Mode = modes[1+rng.Intn(len(modes)-1)]
				if o.Mode == "0err" || o.Mode == "nerr" {
					o.Err = errName()
				}
			}
			l = append(l, o)
		}
		return
	}
	spec := func() *ofObjSpec {
		s := &ofObjSpec{NoCloser: rng.Intn(100) < 12, NoTE: rng.Intn(100) < 20,
			List: plan(ofListModes, 4), Read: plan(ofReadModes, 4), Write: plan(ofWriteModes, 4)}
		if rng.Intn(100) < 30 {
			s.Close = []string{ofHErrNames()[rng.Intn(len(ofErrNames)+1)]}
		}
		return s
	}
	herr := func() string {
		if rng.Intn(100) < 12 {
			return ofHErrNames()[rng.Intn(len(ofErrNames)+1)]
		}
		return ""
	}
	type hnd struct {
		step   int
		kind   string // r w rw dir
		closed bool
	}
	var hs []*hnd
	paths := []string{"/a.txt", "/b.bin", "/d", "/d/f0", "/ln", "/missing"}
	nSteps := 6 + rng.Intn(19)
	for len(cs.Steps) < nSteps {
		i := len(cs.Steps)
		live := 0
		for _, h := range hs {
			if !h.closed {
				live++
			}
		}
		x := rng.Intn(100)
		switch {
		case x < 14 && live < 6:
			m := []string{"r", "w", "rw"}[rng.Intn(3)]
			st := ofStep{Op: "open", Path: paths[rng.Intn(2)], Mode: m, HErr: herr(), Obj: spec()}
			cs.Steps = append(cs.Steps, st)
			if st.HErr == "" {
				hs = append(hs, &hnd{step: i, kind: m})
			}
		case x < 22 && live < 6:
			st := ofStep{Op: "opendir", Path: "/d", HErr: herr(), Obj: spec()}
			cs.Steps = append(cs.Steps, st)
			if st.HErr == "" {
				hs = append(hs, &hnd{step: i, kind: "dir"})
			}
		case x < 46:
			op := []string{"stat", "lstat", "readlink"}[rng.Intn(3)]
			cs.Steps = append(cs.Steps, ofStep{Op: op, Path: paths[rng.Intn(len(paths))], HErr: herr(), Obj: spec()})
		case x < 52:
			op := []string{"setstat", "mkdir", "remove", "realpath"}[rng.Intn(4)]
			cs.Steps = append(cs.Steps, ofStep{Op: op, Path: paths[rng.Intn(len(paths))], HErr: herr()})
		case len(hs) == 0:
			continue
		default:
			h := hs[rng.Intn(len(hs))]
			if h.closed && rng.Intn(4) != 0 {
				continue // (use after close: now and then)
			}
			switch y := rng.Intn(100); {
			case y < 22:
				cs.Steps = append(cs.Steps, ofStep{Op: "fstat", H: h.step, HErr: herr(), Obj: spec()})
			case y < 28:
				cs.Steps = append(cs.Steps, ofStep{Op: "fsetstat", H: h.step, HErr: herr()})
			case y < 42:
				cs.Steps = append(cs.Steps, ofStep{Op: "close", H: h.step})
				h.closed = true
			default:
				op := map[string][]string{"r": {"read"}, "w": {"write"}, "rw": {"read", "write"}, "dir": {"readdir"}}[h.kind]
				if rng.Intn(10) == 0 {
					op = []string{"read", "write", "readdir"} // a request that may not fit the kind of its handle
				}
				cs.Steps = append(cs.Steps, ofStep{Op: op[rng.Intn(len(op))], H: h.step})
			}
		}
	}
	return cs
}

// ---------- the part of the check ----------

const ofRule = " PART objfault (c11_objfault.go): request server with a counting, FAULT-INJECTING in-memory handler — every object a handler hands out (listers for STAT / LSTAT with and without LstatFileLister / READLINK without ReadlinkFileLister / FSTAT on reader, writer, read-write and directory handles; directory listers; readers; writers; OpenFile objects) carries a schedule of method outcomes: ListAt {ok, (0,err), (n>0,err), (0,EOF), (n>0,EOF), (0,nil)}, ReadAt {ok, (0,err), (n>0,err), (0,EOF), (n>0,EOF)}, WriteAt {ok, (0,err), (n>0,err)}, Close {nil, err}, err from 13 values (os / syscall / io / package errors, wrapped io.EOF, PathError), and the handler methods (Filelist, Lstat, Fileread, Filewrite, OpenFile, Readlink, Filecmd) fail with each of them and io.EOF; objects with / without io.Closer and TransferError, server with / without allocator; families A (one attribute request x every ListAt outcome x every error value x Close nil / err / err twice, next to the same request without a fault), B (one handle object x method x outcome x error value x fault at the 1st / 2nd call x Close nil / err; thorough: x 5 session ends, quick: ends rotating) and C (PRNG sessions of 6-24 requests, up to 6 handles open at once, every planned call faulty with 40 %); session ends: CLOSE of every handle + EOF, CLOSE twice + EOF, EOF / transport error with the handles open, EOF after the last request without reading its reply. Oracle after Serve returned: every closeable object closed exactly once whatever its methods returned, closed at the reply to its CLOSE, TransferError exactly once on readers / writers whose handle was still open and never after Close, no method call after Close, every context handed to an open / opendir handler (also a failing one) cancelled at the CLOSE reply resp. at the end. Non-trivial: the handler handed out at least one object" + ofEndsRule

// checkC11ObjFault runs the part (only != nil: exactly that case, for --replay).
func checkC11ObjFault(c *lib.Ctx, only *ofCase) {
	r := c.R
	thorough := c.Tier == "thorough"
	var cases []ofCase
	if only != nil {
		cases = []ofCase{*only}
	} else {
		cases = append(cases, ofGenA(thorough)...)
		cases = append(cases, ofGenB(thorough)...)
		nC := 600
		if thorough {
			nC = 60000
		}
		for i := 0; i < nC; i++ {
			cases = append(cases, ofGenC(c.Rand))
		}
		// families E / O (c11_ends.go): every handle population x every way the session ends, request server / os-backed server
		cases = append(cases, ofGenE(thorough, c.Rand, false)...)
		cases = append(cases, ofGenE(thorough, c.Rand, true)...)
	}
	t0 := time.Now()
	workers := min(runtime.NumCPU(), 8)
	if len(cases) < 64 {
		workers = 1
	}
	// batches of consecutive cases, dealt out to the workers; a batch that loses its child goes on in a new one
	const batch = 200
	type span struct{ lo, hi int }
	var spans []span
	for lo := 0; lo < len(cases); lo += batch {
		spans = append(spans, span{lo, min(lo+batch, len(cases))})
	}
	var mu sync.Mutex
	type death struct {
		i       int
		stderr  string
		timeout bool
	}
	var deaths []death
	notRun := 0
	record := func(j ofJob, res ofResult) {
		cs := j.Case
		b, _ := json.Marshal(cs)
		mu.Lock()
		defer mu.Unlock()
		r.Case("objfault "+string(b), res.Objects > 0)
		r.Hist("objfault/family/" + cs.Family)
		r.Hist("objfault/end/" + cs.End)
		if cs.Family == "E" || cs.Family == "O" {
			r.Hist("objfault/ends/" + cs.Family + "/" + ofEndText(&cs))
		}
		r.Hist("objfault/cfg/" + cs.Cfg.String())
		for _, h := range res.Hist {
			r.Hist(h)
		}
		for _, st := range cs.Steps {
			if st.HErr != "" {
				r.Hist("objfault/handler-error-value/" + st.HErr)
			}
		}
		for _, f := range res.Findings {
			kind := "oracle"
			if strings.HasPrefix(f.Key, "tie/") {
				kind = "tie"
			}
			r.Fail(lib.Failure{Kind: kind, Key: f.Key, What: f.What, Input: ofInput{Part: "objfault", Case: &cs}, Expected: f.Expected, Actual: f.Actual})
		}
	}
	next := make(chan span, len(spans))
	for _, s := range spans {
		next <- s
	}
	close(next)
	var wg sync.WaitGroup
	for w := 0; w < workers; w++ {
		wg.Add(1)
		go func() {
			defer wg.Done()
			for s := range next {
				lo := s.lo
				skipped := map[int]bool{}
				for lo < s.hi {
					var jobs []ofJob
					for i := lo; i < s.hi; i++ {
						if skipped[i] {
							continue
						}
						if lib.Stop(cases[i].class()) {
							skipped[i] = true
							mu.Lock()
							notRun++
							mu.Unlock()
							continue
						}
						jobs = append(jobs, ofJob{I: i, Case: cases[i]})
					}
					if len(jobs) == 0 {
						break
					}
					n, stderr, timeout, left := ofRunBatch(jobs, record)
					if n >= len(jobs) {
						break
					}
					lo = jobs[n].I
					// (a child that answered a case that hung is given up on purpose: the next case gets a new one)
					if !left {
						mu.Lock()
						deaths = append(deaths, death{i: lo, stderr: stderr, timeout: timeout})
						mu.Unlock()
						lo++ // the case the child died at is judged below, alone
					}
				}
			}
		}()
	}
	wg.Wait()
	// a child that died: the case it was serving, confirmed alone in a fresh child
	seen := map[string]int{}
	for _, d := range deaths {
		cs := cases[d.i]
		key, head := ofCrashKey(d.stderr, d.timeout)
		if seen[key]++; seen[key] <= 2 && !lib.Stopped(cs.class()) {
			var got *ofResult
			_, stderr2, to2, _ := ofRunBatch([]ofJob{{I: d.i, Case: cs}}, func(j ofJob, res ofResult) { got = &res; record(j, res) })
			if got != nil {
				head += " (not reproduced by re-running the case alone in a fresh process: a delayed panic of an earlier case of the batch?)"
				key = "rs/objfault/child-died/not-reproducible"
			} else if k2, _ := ofCrashKey(stderr2, to2); k2 == key {
				head += " (reproduced by re-running the case alone in a fresh process)"
			}
		}
		r.Hist("objfault/child-died")
		r.Fail(lib.Failure{Kind: "oracle", Key: key, What: "the process serving this session died: " + head, Input: ofInput{Part: "objfault", Case: &cs}, Expected: "no panic, Serve returns", Actual: ssTrim(d.stderr, 3000)})
	}
	if only == nil {
		r.Note("part objfault: %d cases (A+B systematic, C PRNG), %d children at a time, %d child deaths, %d not run (budget), %.1f s", len(cases), workers, len(deaths), notRun, time.Since(t0).Seconds())
	}
}

func ofCrashKey(stderr string, timeout bool) (key, head string) {
	if timeout {
		return "rs/objfault/child-timeout", "the child process did not finish its batch within 150 s"
	}
	fn := "unknown"
	if m := ssPanicFn.FindStringSubmatch(stderr); m != nil {
		fn = m[1]
	}
	head = stderr
	if i := strings.Index(head, "panic:"); i >= 0 {
		head = head[i:]
	} else if i := strings.Index(head, "fatal error:"); i >= 0 {
		head = head[i:]
	}
	if i := strings.IndexByte(head, '\n'); i >= 0 {
		head = head[:i]
	}
	return "rs/objfault/child-died/" + fn, head
}
