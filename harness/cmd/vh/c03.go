package main

// C03 — each client call gets the reply to its own request.
//
// 1…16 caller goroutines share one real Client (and one File; each also owns a File) and issue a PRNG mix of
// operations whose requests are self-identifying (the k-th operation of the run stats "p<k>", reads at offset
// k·2^20, …). The scripted peer builds every reply from the CONTENT of the request it answers, collects the
// requests outstanding at a moment and answers them in a PRNG permutation / strictly reversed / one by one
// with delays. Oracles: every call returns exactly the result built for its own request; ids of requests
// outstanding at the same time are pairwise distinct; the complete client→server byte stream splits into
// whole frames with no tail, each decoding strictly as a request some caller issued (multiset equality).

import (
	"bytes"
	"encoding/json"
	"errors"
	"fmt"
	"io"
	"math/rand"
	"os"
	"runtime"
	"sort"
	"strings"
	"sync"
	"sync/atomic"
	"time"

	"github.com/pkg/sftp"

	"verifharness/lib"
	"verifharness/peers"
	"verifharness/wire"
)

func init() {
	register("c03", checkC03)
	children["c03"] = func(args []string) { cliChildLoop(false, c03Child) }
}

type c03Case struct {
	Callers   int    `json:"callers"`
	Mode      string `json:"mode"` // perm | reverse | delay | fifo
	Seed      int64  `json:"seed"`
	Ops       int    `json:"ops_per_caller"`
	MaxPacket int    `json:"max_packet"`
	ConcW     bool   `json:"concurrent_writes"`
	Big       bool   `json:"big_writes"` // every caller mostly issues multi-chunk writes of 3·MaxPacket bytes
	WrapID    bool   `json:"wrap_id"`    // start the id counter just below 2^32

	// client options beyond MaxPacket / UseConcurrentWrites ("" / 0 = the option is not passed at all)
	MPOpt  string `json:"max_packet_option,omitempty"`     // "" MaxPacketUnchecked | checked (MaxPacketChecked) | alias (MaxPacket)
	MaxReq int    `json:"max_requests_per_file,omitempty"` // MaxConcurrentRequestsPerFile: 1 | 2 | 0 = default 64
	Reads  string `json:"concurrent_reads,omitempty"`      // UseConcurrentReads: off | on | "" = default on
	Fstat  string `json:"use_fstat,omitempty"`             // UseFstat: on | off | "" = default off
	// Xfer: the callers also run File.WriteTo, File.ReadFrom (readers with Len / Size / Stat / *io.LimitedReader /
	// none of them) and File.ReadFromWithConcurrency, on fresh Files and on the Files all callers share (those
	// hold the File's exclusive lock while other callers' ReadAt / WriteAt / Stat on the same File wait)
	Xfer bool `json:"transfers,omitempty"`
	// Status: the mix also holds calls whose request the peer answers with a per-request STATUS of a PRNG code out of
	// 0…9, 255, 256 (code 0 only where STATUS is the regular reply) while other requests are outstanding: Stat, Lstat,
	// ReadLink, RealPath, StatVFS, OpenFile, Mkdir, RemoveDirectory, Rename, Chmod, and File.Stat / single-chunk
	// ReadAt / WriteAt on a file opened for the purpose. The code is part of the request's path ("st<code>x<k>",
	// handle "h:sf<code>x<k>"), so the reply is still built from the content of the request alone.
	Status bool `json:"status_replies,omitempty"`

	// family "ctx" (cli_c03ctx.go): a ReadDirContext is cancelled with a request outstanding, answered late
	Kind   string `json:"kind,omitempty"`   // "" (permuting peer) | "ctx"
	Hold   string `json:"hold,omitempty"`   // opendir | first | second (READDIR) | any
	Late   string `json:"late,omitempty"`   // name (the regular reply) | eof (a STATUS) | any
	Pos    int    `json:"pos,omitempty"`    // late reply goes before this follow-up reply of the same caller; -1 PRNG per round
	K      int    `json:"k,omitempty"`      // follow-up calls per round; 0 PRNG 1…6
	Rounds int    `json:"rounds,omitempty"` // abandoned requests per run

	// peer I/O disciplines (cli_iopeer.go): Transport sync | buf64 | buf4096 | buf1m (both directions; "" with Peer ""
	// = the historical io.Pipe + eagerly reading peer), Peer eager | batch1 | batch2 | batch3 | batch8 | slow | bytewise
	Transport string `json:"transport,omitempty"`
	Peer      string `json:"peer,omitempty"`

	ConnCap int `json:"conn_cap,omitempty"` // the first ConnCap requests of the run (and their replies) are replayed in the Lean connection model

	// family "close" (c03_close.go): the session is ended while a Write call of a request is held at a chosen position
	// of the frame (Hold: start-entry | start-half | start-full | cont-entry | cont-half | end-full | after | none)
	Op        string `json:"op,omitempty"`         // the API call whose request is the target (c03CloseOps)
	Closer    string `json:"closer,omitempty"`     // client-close | peer-eof | read-error | unknown-id | long-frame | both
	Silent    bool   `json:"silent,omitempty"`     // the target request is not answered (it is outstanding when the session ends)
	SlowClose bool   `json:"slow_close,omitempty"` // the transport's Close takes a moment
	Yield     bool   `json:"yield,omitempty"`      // the transport reschedules inside every Write
	Size      int    `json:"size,omitempty"`       // payload bytes of a single-chunk WRITE / READ length
	GraceMs   int    `json:"grace_ms,omitempty"`   // how long a held Write waits for the transport's Close before it is released

	// family "names" (c03_names.go): every request kind × length of its path / server-chosen handle × payload size
	Group string        `json:"group,omitempty"` // the kinds of the session's calls (hang class)
	Calls []c03NameCall `json:"calls,omitempty"`
}

type c03Res struct {
	Calls       int             `json:"calls"`
	Requests    int             `json:"requests"`
	Batches     map[string]int  `json:"batches"` // batch size -> count
	Reordered   int             `json:"reordered_batches"`
	MaxOut      int             `json:"max_outstanding"`
	OpHist      map[string]int  `json:"ops"`
	Wrapped     bool            `json:"wrapped"`
	Speculative int             `json:"speculative_reads,omitempty"` // READs of a concurrent WriteTo beyond the chunk that reported EOF
	Trace       []string        `json:"trace,omitempty"`
	Conn        *connLine       `json:"conn,omitempty"`     // the recorded schedule as conn.run tokens + observed outcomes
	ChanObs     []string        `json:"chan_obs,omitempty"` // the same window for chan.run: a<sid>/<channel class>, r<sid>:<tag> (cli_chan.go)
	ChanClass   map[string]int  `json:"chan_classes,omitempty"`
	CloseObs    *c03CloseObs    `json:"close_obs,omitempty"`  // family "close"
	MinInputs   map[int]c03Case `json:"min_inputs,omitempty"` // family "names": index into Fails → the one-call session that fails the same way
	Fails       []c20Fail       `json:"fails,omitempty"`
	ExitNow     bool            `json:"-"`
}

func c03Child(idx int, raw json.RawMessage) (any, bool) {
	var cs c03Case
	if err := json.Unmarshal(raw, &cs); err != nil {
		return c03Res{Fails: []c20Fail{{Key: "tie/case", What: err.Error()}}}, false
	}
	var res c03Res
	switch cs.Kind {
	case "ctx":
		res = c03RunCtx(cs)
	case "close":
		res = c03RunClose(cs)
	case "names":
		res = c03RunNames(cs)
	default:
		res = c03Run(cs)
	}
	return res, res.ExitNow
}

const c03Stride = 1 << 20

// c03Canon is the canonical text of a request, used for the multiset comparison issued vs. on the wire.
func c03Canon(q cliReq) string {
	switch q.Typ {
	case wire.Read:
		return fmt.Sprintf("read %s %d %d", q.Handle, q.Off, q.Len)
	case wire.Write:
		ok := bytes.Equal(q.Data, cliPatternBytes(q.Handle, q.Off, len(q.Data)))
		return fmt.Sprintf("write %s %d %d payload-ok=%v", q.Handle, q.Off, len(q.Data), ok)
	case wire.Open:
		return fmt.Sprintf("open %s %d", q.Path, q.Pflags)
	case wire.Close, wire.Fstat, wire.Readdir:
		return fmt.Sprintf("t%d %s", q.Typ, q.Handle)
	case wire.Rename:
		return fmt.Sprintf("rename %s %s", q.Path, q.Path2)
	case wire.Extended:
		return fmt.Sprintf("ext %s %s %s", q.Ext, q.Path, q.Handle)
	}
	return fmt.Sprintf("t%d %s", q.Typ, q.Path)
}

func c03Num(s string) uint64 {
	var n uint64
	for i := 0; i < len(s); i++ {
		if s[i] >= '0' && s[i] <= '9' {
			n = n*10 + uint64(s[i]-'0')
		}
	}
	return n
}

// c03Opts builds the client options of a run.
func c03Opts(cs c03Case) []sftp.ClientOption {
	var opts []sftp.ClientOption
	switch cs.MPOpt {
	case "checked":
		opts = append(opts, sftp.MaxPacketChecked(cs.MaxPacket))
	case "alias":
		opts = append(opts, sftp.MaxPacket(cs.MaxPacket))
	default:
		opts = append(opts, sftp.MaxPacketUnchecked(cs.MaxPacket))
	}
	if cs.ConcW {
		opts = append(opts, sftp.UseConcurrentWrites(true))
	}
	switch cs.Reads {
	case "off":
		opts = append(opts, sftp.UseConcurrentReads(false))
	case "on":
		opts = append(opts, sftp.UseConcurrentReads(true))
	}
	switch cs.Fstat {
	case "on":
		opts = append(opts, sftp.UseFstat(true))
	case "off":
		opts = append(opts, sftp.UseFstat(false))
	}
	if cs.MaxReq > 0 {
		opts = append(opts, sftp.MaxConcurrentRequestsPerFile(cs.MaxReq))
	}
	return opts
}

// Transfer files: a path "xfer_…_s<N>" names a regular file of N bytes (STAT, FSTAT and READ agree on N; READ
// honours the end of the file), whose content is the pattern of its handle.
func c03IsXfer(s string) bool {
	return strings.HasPrefix(s, "xfer_") || strings.HasPrefix(s, "h:xfer_")
}

func c03XferSize(s string) uint64 {
	i := strings.LastIndex(s, "_s")
	if i < 0 {
		return 0
	}
	return c03Num(s[i+2:])
}

// c03WriteToReads lists the READ requests File.WriteTo issues for a file of `size` bytes from offset o with
// chunk size mp: the ones it must issue (canonical texts) and, on the concurrent path, the offset from which
// further speculative reads (every mp bytes, mp long) may or may not have been sent when it returns (-1: none).
func c03WriteToReads(h string, o, size uint64, mp int, sequential bool) (required []string, optFrom int64) {
	m := uint64(mp)
	rd := func(off uint64, n uint64) { required = append(required, fmt.Sprintf("read %s %d %d", h, off, n)) }
	if sequential {
		// readChunkAt fills a buffer of mp bytes: a short DATA is followed by a READ for the rest, answered EOF
		for pos := o; ; pos += m {
			rd(pos, m)
			if pos >= size {
				return required, -1
			}
			if l := min(m, size-pos); l < m {
				rd(pos+l, m-l)
				return required, -1
			}
		}
	}
	pos := o
	for ; pos < size; pos += m {
		rd(pos, m)
	}
	rd(pos, m) // the chunk that is answered EOF ends the transfer
	return required, int64(pos + m)
}

// c03OptTail is a set of READ requests that may appear on the wire without having been "issued" by a caller's
// bookkeeping: the speculative tail of a concurrent WriteTo.
type c03OptTail struct {
	H    string
	From int64
	MP   int
}

func (t c03OptTail) matches(canon string) bool {
	var h string
	var off, n int64
	if k, _ := fmt.Sscanf(canon, "read %s %d %d", &h, &off, &n); k != 3 {
		return false
	}
	return h == t.H && n == int64(t.MP) && off >= t.From && (off-t.From)%int64(t.MP) == 0
}

// c03Server builds replies from request content only.
type c03Server struct {
	mu       sync.Mutex
	dirReads map[string]int
}

// c03StatusCodes: the codes of the protocol (0…8), the first one beyond it, and two values a switch over the known
// codes or a byte-sized table does not expect.
var c03StatusCodes = []uint32{1, 2, 3, 4, 5, 6, 7, 8, 9, 255, 256, 0}

// c03StatusOf: does the request ask (by its content) for a STATUS verdict, and of which code.
func c03StatusOf(q cliReq) (code uint32, tag string, ok bool) {
	name := ""
	switch q.Typ {
	case wire.Read, wire.Write, wire.Fstat, wire.Fsetstat:
		if !strings.HasPrefix(q.Handle, "h:sf") {
			return 0, "", false
		}
		name = q.Handle[4:]
	case wire.Close, wire.Readdir:
		return 0, "", false
	default:
		if !strings.HasPrefix(q.Path, "st") {
			return 0, "", false
		}
		name = q.Path[2:]
	}
	i := strings.IndexByte(name, 'x')
	if i <= 0 {
		return 0, "", false
	}
	for _, ch := range name[:i] {
		if ch < '0' || ch > '9' {
			return 0, "", false
		}
	}
	return uint32(c03Num(name[:i])), "verdict-" + name, true
}

// c03StatusWant: what a call returns whose request got a STATUS of this code (the package maps EOF, NO_SUCH_FILE and
// PERMISSION_DENIED to the sentinel values of io and os, OK to nil, and hands out every other code in a *StatusError).
func c03StatusWant(code uint32) string {
	switch code {
	case 0:
		return "nil"
	case 1:
		return "EOF"
	case 2:
		return "file does not exist"
	case 3:
		return "permission denied"
	}
	return fmt.Sprintf("status %d", code)
}

func c03StatusGot(err error, tag string) string {
	// (RemoveDirectory wraps the verdict in an *os.PathError: "an error carrying that code" is asked through errors.Is / As)
	switch {
	case err == nil:
		return "nil"
	case errors.Is(err, io.EOF):
		return "EOF"
	case errors.Is(err, os.ErrNotExist):
		return "file does not exist"
	case errors.Is(err, os.ErrPermission):
		return "permission denied"
	}
	var se *sftp.StatusError
	if errors.As(err, &se) {
		if !strings.Contains(se.Error(), tag) {
			return fmt.Sprintf("status %d with the message of another request: %v", se.Code, se)
		}
		return fmt.Sprintf("status %d", se.Code)
	}
	return "another error: " + err.Error()
}

func (s *c03Server) reply(q cliReq) []byte {
	id := q.ID
	if code, tag, ok := c03StatusOf(q); ok {
		return wire.Frame(wire.Status, wire.B{}.U32(id).U32(code).Str(tag).Str("en"))
	}
	switch q.Typ {
	case wire.Open:
		return wire.HandleFrame(id, "h:"+q.Path)
	case wire.Opendir:
		return wire.HandleFrame(id, "d:"+q.Path)
	case wire.Close:
		return wire.StatusFrame(id, wire.OK, "")
	case wire.Stat:
		if strings.HasPrefix(q.Path, "missing") {
			return wire.StatusFrame(id, wire.NoSuchFile, "no "+q.Path)
		}
		if c03IsXfer(q.Path) {
			return wire.AttrsFrame(id, wire.St{Flags: wire.ASize | wire.APerm, Size: c03XferSize(q.Path), Perm: 0o100644})
		}
		return wire.AttrsFrame(id, wire.St{Flags: wire.ASize | wire.APerm, Size: c03Num(q.Path), Perm: 0o100644})
	case wire.Lstat:
		return wire.AttrsFrame(id, wire.St{Flags: wire.ASize | wire.APerm, Size: c03Num(q.Path) + 7, Perm: 0o120777})
	case wire.Fstat:
		if c03IsXfer(q.Handle) {
			return wire.AttrsFrame(id, wire.St{Flags: wire.ASize | wire.APerm, Size: c03XferSize(q.Handle), Perm: 0o100600})
		}
		return wire.AttrsFrame(id, wire.St{Flags: wire.ASize | wire.APerm, Size: c03Num(q.Handle) + 1000, Perm: 0o100600})
	case wire.Readlink:
		return wire.NameFrame(id, []wire.NameEnt{{Name: "t" + q.Path[1:], Long: "x"}})
	case wire.Realpath:
		return wire.NameFrame(id, []wire.NameEnt{{Name: "/abs/" + q.Path, Long: "x"}})
	case wire.Mkdir:
		if c03Num(q.Path)%2 == 1 {
			return wire.StatusFrame(id, wire.Failure, "no "+q.Path)
		}
		return wire.StatusFrame(id, wire.OK, "")
	case wire.Rename:
		return wire.StatusFrame(id, wire.Failure, q.Path+">"+q.Path2)
	case wire.Readdir:
		s.mu.Lock()
		s.dirReads[q.Handle]++
		n := s.dirReads[q.Handle]
		s.mu.Unlock()
		if n == 1 {
			k := c03Num(q.Handle)
			return wire.NameFrame(id, []wire.NameEnt{
				{Name: fmt.Sprintf("e%d_0", k), Long: "l", A: wire.St{Flags: wire.ASize, Size: k}},
				{Name: fmt.Sprintf("e%d_1", k), Long: "l", A: wire.St{Flags: wire.ASize, Size: k + 1}}})
		}
		return wire.StatusFrame(id, wire.EOF, "EOF")
	case wire.Read:
		if c03IsXfer(q.Handle) {
			size := c03XferSize(q.Handle)
			if q.Off >= size {
				return wire.StatusFrame(id, wire.EOF, "EOF")
			}
			return wire.DataFrame(id, cliPatternBytes(q.Handle, q.Off, int(min(uint64(q.Len), size-q.Off))))
		}
		return wire.DataFrame(id, cliPatternBytes(q.Handle, q.Off, int(q.Len)))
	case wire.Write:
		if !bytes.Equal(q.Data, cliPatternBytes(q.Handle, q.Off, len(q.Data))) {
			return wire.StatusFrame(id, wire.Failure, fmt.Sprintf("payload of write at %d is not what any caller sent", q.Off))
		}
		return wire.StatusFrame(id, wire.OK, "")
	case wire.Extended:
		if q.Ext == "statvfs@openssh.com" {
			b := wire.B{}.U32(id).U64(c03Num(q.Path))
			for i := 0; i < 10; i++ {
				b = b.U64(uint64(i))
			}
			return wire.Frame(wire.ExtendedReply, b)
		}
	}
	return wire.StatusFrame(id, wire.OpUnsupported, "unsupported")
}

func c03Run(cs c03Case) (res c03Res) {
	res.Batches = map[string]int{}
	res.OpHist = map[string]int{}
	var fmu sync.Mutex
	fail := func(key, what string, act any) {
		fmu.Lock()
		res.Fails = append(res.Fails, c20Fail{key, what, act})
		fmu.Unlock()
	}
	var client *sftp.Client
	var peer interface {
		Reply(b []byte) error
		RawIn() []byte
		Shutdown()
	}
	var reqs <-chan wire.Pkt
	var iop *ioPeer
	var err error
	hangSuffix := ""
	if cs.Peer == "" && cs.Transport == "" {
		var ss *peers.ScriptedServer
		client, ss, err = peers.NewClient(cliVersion(), c03Opts(cs)...)
		peer, reqs = ss, ss.Reqs
	} else {
		client, iop, err = newIOClient(cliVersion(), cs.Transport, cs.Peer, cs.Seed, c03Opts(cs)...)
		peer = iop
		if iop != nil {
			reqs = iop.Reqs
			if iop.Serial {
				hangSuffix = "/serial-peer" // a peer that does not read while it writes
			}
		}
	}
	if err != nil {
		fail("tie/new-client", err.Error(), nil)
		return
	}
	if cs.WrapID {
		sftp.VerifSetNextID(client, 0xffffffff-uint32(rand.New(rand.NewSource(cs.Seed)).Intn(40)))
	}
	srv := &c03Server{dirReads: map[string]int{}}
	prng := rand.New(rand.NewSource(cs.Seed ^ 0x7f4a7c15))

	// ---- the peer ----
	type outReq struct {
		q   cliReq
		seq int
	}
	var wireCanon []string // canonical text of every request in arrival order
	var evs []connEv       // arrivals and replies in the order the peer saw / sent them (window of ConnCap requests)
	evCanon := map[uint32]string{}
	evStop := cs.ConnCap <= 0
	arrivals := 0
	var trace []string
	var peerDoing atomic.Value // what the peer is doing right now (for the report of a hang)
	peerDoing.Store("reading")
	peerDone := make(chan struct{})
	go func() {
		defer close(peerDone)
		var out []outReq
		byID := map[uint32]bool{}
		seq := 0
		add := func(p wire.Pkt) {
			q, derr := cliDecodeReq(p)
			if derr != nil {
				fail("framing/undecodable-request", "a frame of the client→server stream does not decode as a request: "+derr.Error(), lib.Hex(append([]byte{p.Typ}, p.Body...)))
				return
			}
			if byID[q.ID] {
				fail("id-duplicate-in-flight", fmt.Sprintf("request id %d is used by two requests outstanding at the same time", q.ID), c03Canon(q))
			}
			if q.ID == 0 {
				res.Wrapped = true
			}
			byID[q.ID] = true
			seq++
			out = append(out, outReq{q, seq})
			wireCanon = append(wireCanon, c03Canon(q))
			if arrivals++; arrivals > cs.ConnCap {
				evStop = true
			}
			if !evStop {
				evs = append(evs, connEv{K: "a", ID: q.ID})
				evCanon[q.ID] = c03Canon(q)
			}
			if len(trace) < 64 {
				trace = append(trace, fmt.Sprintf("send#%d %s", q.ID, c03Canon(q)))
			}
			if len(out) > res.MaxOut {
				res.MaxOut = len(out)
			}
		}
		answer := func(idxs []int) {
			// idxs index into out; answer in that order, then drop them
			inOrder := sort.IntsAreSorted(idxs)
			if (len(idxs) > 1 && !inOrder) || (len(idxs) == 1 && idxs[0] != 0) {
				res.Reordered++ // a younger request is answered while an older one stays outstanding
			}
			swap := map[int]int{}
			if cs.Mode == "selftest-swap" {
				// harness self-test: answer two requests of the same type with each other's content (own ids)
				for a := 0; a+1 < len(idxs); a += 2 {
					if out[idxs[a]].q.Typ == out[idxs[a+1]].q.Typ {
						swap[idxs[a]], swap[idxs[a+1]] = idxs[a+1], idxs[a]
					}
				}
			}
			res.Batches[fmt.Sprint(min(len(idxs), 17))]++
			drop := map[int]bool{}
			for _, i := range idxs {
				o := out[i]
				delete(byID, o.q.ID)
				if len(trace) < 64 {
					trace = append(trace, fmt.Sprintf("reply#%d", o.q.ID))
				}
				q := o.q
				if j, ok := swap[i]; ok {
					q = out[j].q
					q.ID = o.q.ID
				}
				frame := srv.reply(q)
				if !evStop {
					evs = append(evs, connEv{K: "r", ID: q.ID, T: connTok(frame)})
				}
				peerDoing.Store(fmt.Sprintf("writing the reply to request #%d (reply %d of a batch of %d; %d requests read and not yet answered); it reads again when the batch is written", q.ID, len(drop)+1, len(idxs), len(out)-len(drop)))
				peer.Reply(frame)
				drop[i] = true
			}
			peerDoing.Store("reading")
			var rest []outReq
			for i, o := range out {
				if !drop[i] {
					rest = append(rest, o)
				}
			}
			out = rest
		}
		quiet := 150 * time.Microsecond
		if iop != nil && iop.Serial {
			// ONE thread: read up to k requests, then write the replies chosen by the reply mode — not reading while
			// writing —, then return to reading. It waits for a request as long as it takes only while it owes no reply.
			for {
				want := iop.BatchSize()
				for len(out) < want {
					iop.Pause()
					d := quiet
					if len(out) == 0 {
						d = -1
					}
					p, ok, rerr := iop.ReadFrame(d)
					if rerr != nil {
						return // the client closed its writer (or the run was shut down)
					}
					if !ok {
						break
					}
					add(p)
				}
				iop.Pause()
				var idxs []int
				switch cs.Mode {
				case "reverse":
					for i := len(out) - 1; i >= 0; i-- {
						idxs = append(idxs, i)
					}
				case "fifo":
					for i := range out {
						idxs = append(idxs, i)
					}
				case "delay":
					time.Sleep(time.Duration(prng.Intn(120)) * time.Microsecond)
					idxs = []int{prng.Intn(len(out))}
				default: // perm: a PRNG-sized subset in a PRNG order
					idxs = prng.Perm(len(out))[:1+prng.Intn(len(out))]
				}
				answer(idxs)
			}
		}
		for {
			if len(out) == 0 {
				p, ok := <-reqs
				if !ok {
					return
				}
				add(p)
			}
			closed := false
			if cs.Mode == "delay" {
				// no barrier: take what has arrived, answer ONE PRNG-chosen request after a PRNG delay
				for more := true; more; {
					select {
					case p, ok := <-reqs:
						if !ok {
							closed, more = true, false
						} else {
							add(p)
						}
					default:
						more = false
					}
				}
				if len(out) > 0 {
					time.Sleep(time.Duration(prng.Intn(120)) * time.Microsecond)
					answer([]int{prng.Intn(len(out))})
				}
			} else {
				// gather until no request has arrived for a while: then every caller is blocked on its reply
				t := time.NewTimer(quiet)
				for gathering := true; gathering; {
					select {
					case p, ok := <-reqs:
						if !ok {
							closed, gathering = true, false
							break
						}
						add(p)
						if !t.Stop() {
							select {
							case <-t.C:
							default:
							}
						}
						t.Reset(quiet)
					case <-t.C:
						gathering = false
					}
				}
				t.Stop()
				if len(out) > 0 {
					var idxs []int
					switch cs.Mode {
					case "reverse":
						for i := len(out) - 1; i >= 0; i-- {
							idxs = append(idxs, i)
						}
					case "fifo":
						for i := range out {
							idxs = append(idxs, i)
						}
					default: // perm: a PRNG-sized subset in a PRNG order
						idxs = prng.Perm(len(out))[:1+prng.Intn(len(out))]
					}
					answer(idxs)
				}
			}
			if closed {
				return
			}
		}
	}()

	// ---- setup: the files ----
	hung := false
	within := func(name string, f func()) bool {
		if !cliWithin(cliDeadline, f) {
			hung = true
			fail("hang/"+name+hangSuffix, name+" did not return within 20 s although every request is answered", cliDescribe(cliGoroutines2()))
			return false
		}
		return true
	}
	var issuedMu sync.Mutex
	var issued []string
	issue := func(s ...string) {
		issuedMu.Lock()
		issued = append(issued, s...)
		issuedMu.Unlock()
	}
	// how the result channels of multi-request calls are obtained (cli_chan.go): work items of the concurrent
	// paths take pooled channels, the sequential loops re-use one channel
	chanPool := map[string]int{}
	var chanSeq [][]string
	issuePool := func(s ...string) {
		issue(s...)
		issuedMu.Lock()
		for _, x := range s {
			chanPool[x]++
		}
		issuedMu.Unlock()
	}
	issueSeq := func(s ...string) {
		issue(s...)
		if len(s) > 0 {
			issuedMu.Lock()
			chanSeq = append(chanSeq, s)
			issuedMu.Unlock()
		}
	}
	var shared, xsh *sftp.File
	var smu, xmu sync.Mutex // Seek+transfer on a shared File is one step of ONE caller (the offset is the File's)
	var optTails []c03OptTail
	mp := cs.MaxPacket
	xrng := rand.New(rand.NewSource(cs.Seed ^ 0x3c6ef372)) // (prng belongs to the peer goroutine)
	xshSize := uint64(mp*(2+xrng.Intn(5)) + xrng.Intn(mp))
	xshPath := fmt.Sprintf("xfer_sh_s%d", xshSize)
	own := make([]*sftp.File, cs.Callers)
	if !within("Open", func() {
		shared, err = client.OpenFile("shared", os.O_RDWR)
		issue(fmt.Sprintf("open shared %d", wire.FRead|wire.FWrite))
		if cs.Xfer && err == nil {
			xsh, err = client.OpenFile(xshPath, os.O_RDWR)
			issue(fmt.Sprintf("open %s %d", xshPath, wire.FRead|wire.FWrite))
		}
		for c := 0; c < cs.Callers && err == nil; c++ {
			own[c], err = client.OpenFile(fmt.Sprintf("own%d", c), os.O_RDWR)
			issue(fmt.Sprintf("open own%d %d", c, wire.FRead|wire.FWrite))
		}
	}) || err != nil {
		fail("error/setup-open", fmt.Sprint("opening the files failed although every OPEN was answered with a handle: ", err), nil)
		res.ExitNow = true
		return
	}

	// ---- the callers ----
	chunks := func(handle string, kind string, off uint64, n int) []string {
		var out []string
		for done := 0; done < n; done += mp {
			l := min(mp, n-done)
			if kind == "read" {
				out = append(out, fmt.Sprintf("read %s %d %d", handle, off+uint64(done), l))
			} else {
				out = append(out, fmt.Sprintf("write %s %d %d payload-ok=true", handle, off+uint64(done), l))
			}
		}
		return out
	}
	// a multi-chunk ReadAt takes pooled channels unless concurrent reads are off (then every chunk is a sync call);
	// a multi-chunk WriteAt takes pooled channels with concurrent writes, else it is a loop with one reusable channel
	issueReadAt := func(h string, off uint64, n int) {
		if n > mp && cs.Reads != "off" {
			issuePool(chunks(h, "read", off, n)...)
		} else {
			issue(chunks(h, "read", off, n)...)
		}
	}
	issueWriteAt := func(h string, off uint64, n int) {
		switch {
		case n <= mp:
			issue(chunks(h, "write", off, n)...)
		case cs.ConcW:
			issuePool(chunks(h, "write", off, n)...)
		default:
			issueSeq(chunks(h, "write", off, n)...)
		}
	}
	var wg sync.WaitGroup
	var cmu sync.Mutex
	for c := 0; c < cs.Callers; c++ {
		wg.Add(1)
		go func(c int) {
			defer wg.Done()
			rng := rand.New(rand.NewSource(cs.Seed + int64(c)*7919))
			for i := 0; i < cs.Ops; i++ {
				k := uint64(c*100000 + i + 1)
				kinds := []string{"stat", "stat-missing", "lstat", "readlink", "realpath", "mkdir", "rename", "readdir", "statvfs", "open-close", "fstat-own",
					"readat-shared", "readat-own", "readat-shared-multi", "writeat-shared", "writeat-own", "writeat-shared-multi", "write-read-own"}
				if cs.Xfer {
					kinds = append(kinds, "writeto-fresh", "writeto-xsh", "readfrom-fresh", "readfrom-shared", "readfromconc-fresh", "readfromconc-shared",
						"readat-xsh", "writeat-xsh", "fstat-xsh", "fstat-shared")
				}
				if cs.Status {
					kinds = append(kinds, "st-stat", "st-lstat", "st-readlink", "st-realpath", "st-statvfs", "st-open", "st-mkdir", "st-rmdir", "st-rename", "st-chmod",
						"st-fstat", "st-readat", "st-writeat")
				}
				kind := kinds[rng.Intn(len(kinds))]
				if cs.Big && rng.Intn(4) != 0 {
					kind = "writeat-shared-multi"
				}
				var got, want string
				var opErr error
				stCode := -1 // the code of the STATUS this call's request is answered with (st-… kinds)
				off := k * c03Stride
				run := func() {
					switch kind {
					case "stat":
						fi, err := client.Stat(fmt.Sprintf("p%d", k))
						issue(fmt.Sprintf("t%d p%d", wire.Stat, k))
						want = fmt.Sprintf("p%d %d -rw-r--r--", k, k)
						if opErr = err; err == nil {
							got = fmt.Sprintf("%s %d %v", fi.Name(), fi.Size(), fi.Mode())
						}
					case "stat-missing":
						_, err := client.Stat(fmt.Sprintf("missing%d", k))
						issue(fmt.Sprintf("t%d missing%d", wire.Stat, k))
						want = "file does not exist"
						got = cliErrStr(err)
					case "lstat":
						fi, err := client.Lstat(fmt.Sprintf("l%d", k))
						issue(fmt.Sprintf("t%d l%d", wire.Lstat, k))
						want = fmt.Sprintf("l%d %d Lrwxrwxrwx", k, k+7)
						if opErr = err; err == nil {
							got = fmt.Sprintf("%s %d %v", fi.Name(), fi.Size(), fi.Mode())
						}
					case "readlink":
						got, opErr = client.ReadLink(fmt.Sprintf("r%d", k))
						issue(fmt.Sprintf("t%d r%d", wire.Readlink, k))
						want = fmt.Sprintf("t%d", k)
					case "realpath":
						got, opErr = client.RealPath(fmt.Sprintf("q%d", k))
						issue(fmt.Sprintf("t%d q%d", wire.Realpath, k))
						want = fmt.Sprintf("/abs/q%d", k)
					case "mkdir":
						err := client.Mkdir(fmt.Sprintf("m%d", k))
						issue(fmt.Sprintf("t%d m%d", wire.Mkdir, k))
						got = cliErrStr(err)
						want = "nil"
						if k%2 == 1 {
							want = fmt.Sprintf("sftp: \"no m%d\" (SSH_FX_FAILURE)", k)
						}
					case "rename":
						err := client.Rename(fmt.Sprintf("a%d", k), fmt.Sprintf("b%d", k))
						issue(fmt.Sprintf("rename a%d b%d", k, k))
						got = cliErrStr(err)
						want = fmt.Sprintf("sftp: \"a%d>b%d\" (SSH_FX_FAILURE)", k, k)
					case "readdir":
						fis, err := client.ReadDir(fmt.Sprintf("dir%d", k))
						issue(fmt.Sprintf("t%d dir%d", wire.Opendir, k), fmt.Sprintf("t%d d:dir%d", wire.Readdir, k), fmt.Sprintf("t%d d:dir%d", wire.Readdir, k), fmt.Sprintf("t%d d:dir%d", wire.Close, k))
						opErr = err
						for _, fi := range fis {
							got += fmt.Sprintf("%s:%d ", fi.Name(), fi.Size())
						}
						want = fmt.Sprintf("e%d_0:%d e%d_1:%d ", k, k, k, k+1)
					case "statvfs":
						v, err := client.StatVFS(fmt.Sprintf("v%d", k))
						issue(fmt.Sprintf("ext statvfs@openssh.com v%d ", k))
						if opErr = err; err == nil {
							got = fmt.Sprint(v.Bsize)
						}
						want = fmt.Sprint(k)
					case "open-close":
						f, err := client.Open(fmt.Sprintf("o%d", k))
						issue(fmt.Sprintf("open o%d %d", k, wire.FRead))
						if opErr = err; err == nil {
							opErr = f.Close()
							issue(fmt.Sprintf("t%d h:o%d", wire.Close, k)) // the CLOSE names the handle of THIS open
						}
					case "fstat-own":
						fi, err := own[c].Stat()
						issue(fmt.Sprintf("t%d h:own%d", wire.Fstat, c))
						if opErr = err; err == nil {
							got = fmt.Sprint(fi.Size())
						}
						want = fmt.Sprint(c + 1000)
					case "readat-shared", "readat-own", "readat-shared-multi":
						f, h := shared, "h:shared"
						if kind == "readat-own" {
							f, h = own[c], fmt.Sprintf("h:own%d", c)
						}
						n := 1 + rng.Intn(mp)
						if kind == "readat-shared-multi" {
							n = mp + 1 + rng.Intn(3*mp)
						}
						b := make([]byte, n)
						m, err := f.ReadAt(b, int64(off))
						issueReadAt(h, off, n)
						opErr = err
						if m != n {
							got = fmt.Sprintf("n=%d", m)
							want = fmt.Sprintf("n=%d", n)
						} else if !bytes.Equal(b, cliPatternBytes(h, off, n)) {
							got, want = "data of another request", "the pattern of this handle and offset"
						}
					case "writeat-shared", "writeat-own", "writeat-shared-multi":
						f, h := shared, "h:shared"
						if kind == "writeat-own" {
							f, h = own[c], fmt.Sprintf("h:own%d", c)
						}
						n := 1 + rng.Intn(mp)
						if kind == "writeat-shared-multi" {
							n = 3 * mp
							if !cs.Big {
								n = mp + 1 + rng.Intn(3*mp)
							}
						}
						m, err := f.WriteAt(cliPatternBytes(h, off, n), int64(off))
						issueWriteAt(h, off, n)
						opErr = err
						got, want = fmt.Sprint(m), fmt.Sprint(n)
					case "fstat-shared", "fstat-xsh":
						f, h, size := shared, "h:shared", uint64(1000)
						if kind == "fstat-xsh" {
							f, h, size = xsh, "h:"+xshPath, xshSize
						}
						fi, err := f.Stat()
						issue(fmt.Sprintf("t%d %s", wire.Fstat, h))
						if opErr = err; err == nil {
							got = fmt.Sprint(fi.Size())
						}
						want = fmt.Sprint(size)
					case "readat-xsh":
						h := "h:" + xshPath
						n := 1 + rng.Intn(int(min(uint64(3*mp), xshSize)))
						o := uint64(rng.Int63n(int64(xshSize) - int64(n) + 1))
						b := make([]byte, n)
						m, err := xsh.ReadAt(b, int64(o))
						issueReadAt(h, o, n)
						opErr = err
						if m != n {
							got, want = fmt.Sprintf("n=%d", m), fmt.Sprintf("n=%d", n)
						} else if !bytes.Equal(b, cliPatternBytes(h, o, n)) {
							got, want = "data of another request", "the pattern of this handle and offset"
						}
					case "writeat-xsh":
						h := "h:" + xshPath
						n := 1 + rng.Intn(3*mp)
						m, err := xsh.WriteAt(cliPatternBytes(h, off, n), int64(off))
						issueWriteAt(h, off, n)
						opErr = err
						got, want = fmt.Sprint(m), fmt.Sprint(n)
					case "writeto-fresh", "writeto-xsh":
						// File.WriteTo from offset o to the end of a file of `size` bytes
						var f *sftp.File
						var path string
						var o, size uint64
						if kind == "writeto-xsh" {
							f, path, size = xsh, xshPath, xshSize
							o = []uint64{0, uint64(rng.Int63n(int64(size))), uint64(mp * rng.Intn(int(size)/mp+1)), size, size + uint64(mp) + 3}[rng.Intn(5)]
							xmu.Lock()
							defer xmu.Unlock()
							if _, opErr = f.Seek(int64(o), io.SeekStart); opErr != nil {
								return
							}
						} else {
							size = []uint64{0, 1, uint64(mp) - 1, uint64(mp), uint64(mp) + 1, uint64(3 * mp), uint64(3*mp + 1), uint64(mp*(1+rng.Intn(8)) + rng.Intn(mp))}[rng.Intn(8)]
							path = fmt.Sprintf("xfer_k%d_s%d", k, size)
							var err error
							f, err = client.Open(path)
							issue(fmt.Sprintf("open %s %d", path, wire.FRead))
							if opErr = err; err != nil {
								return
							}
						}
						h := "h:" + path
						var sink cliSink
						n, err := f.WriteTo(&sink)
						sequential := cs.Reads == "off" || size <= uint64(mp)
						if cs.Reads != "off" {
							if cs.Fstat == "on" {
								issue(fmt.Sprintf("t%d %s", wire.Fstat, h))
							} else {
								issue(fmt.Sprintf("t%d %s", wire.Stat, path))
							}
						}
						reads, optFrom := c03WriteToReads(h, o, size, mp, sequential)
						if sequential {
							issueSeq(reads...) // writeToSequential: one reusable channel
						} else {
							issuePool(reads...)
						}
						if optFrom >= 0 {
							issuedMu.Lock()
							optTails = append(optTails, c03OptTail{h, optFrom, mp})
							issuedMu.Unlock()
						}
						opErr = err
						wantN := uint64(0)
						if o < size {
							wantN = size - o
						}
						switch {
						case uint64(n) != wantN || uint64(len(sink.b)) != wantN:
							got, want = fmt.Sprintf("n=%d, %d bytes written", n, len(sink.b)), fmt.Sprintf("n=%d", wantN)
						case !bytes.Equal(sink.b, cliPatternBytes(h, o, int(wantN))):
							got, want = "data of another request (or chunks out of order)", "the pattern of this handle from the start offset to the end of the file"
						}
						if kind == "writeto-fresh" && err == nil {
							opErr = f.Close()
							issue(fmt.Sprintf("t%d %s", wire.Close, h))
						}
					case "readfrom-fresh", "readfrom-shared", "readfromconc-fresh", "readfromconc-shared":
						// File.ReadFrom / ReadFromWithConcurrency of n pattern bytes at offset o
						var f *sftp.File
						var h string
						var o uint64
						n := []int{0, 1, mp - 1, mp, mp + 1, 3 * mp, 3*mp + 1, mp*(1+rng.Intn(8)) + rng.Intn(mp)}[rng.Intn(8)]
						if strings.HasSuffix(kind, "-shared") {
							f, h, o = shared, "h:shared", off
							smu.Lock()
							defer smu.Unlock()
							if _, opErr = f.Seek(int64(o), io.SeekStart); opErr != nil {
								return
							}
						} else {
							path := fmt.Sprintf("xfer_k%d_s0", k)
							h = "h:" + path
							var err error
							f, err = client.Create(path)
							issue(fmt.Sprintf("open %s %d", path, wire.FRead|wire.FWrite|wire.FCreat|wire.FTrunc))
							if opErr = err; err != nil {
								return
							}
						}
						data := cliPatternBytes(h, o, n)
						var src io.Reader
						rk := rng.Intn(5)
						switch rk {
						case 0:
							src = bytes.NewReader(data) // Len()
						case 1:
							src = cliSized{cliSrc{bytes.NewReader(data)}, int64(n)}
						case 2:
							src = &io.LimitedReader{R: cliSrc{bytes.NewReader(append(data, 0xEE, 0xEE, 0xEE))}, N: int64(n)}
						case 3:
							src = cliStatted{cliSrc{bytes.NewReader(data)}, int64(n)}
						default:
							src = cliSrc{bytes.NewReader(data)}
						}
						var m int64
						var err error
						if strings.HasPrefix(kind, "readfromconc") {
							m, err = f.ReadFromWithConcurrency(src, []int{0, 1, 2, 3, 100}[rng.Intn(5)])
						} else {
							m, err = f.ReadFrom(src)
						}
						if strings.HasPrefix(kind, "readfromconc") || (cs.ConcW && rk <= 3 && n > mp) {
							issuePool(chunks(h, "write", o, n)...) // readFromWithConcurrency
						} else {
							issueSeq(chunks(h, "write", o, n)...) // ReadFrom's loop: one reusable channel
						}
						opErr = err
						got, want = fmt.Sprint(m), fmt.Sprint(n)
						if strings.HasSuffix(kind, "-fresh") && err == nil {
							opErr = f.Close()
							issue(fmt.Sprintf("t%d %s", wire.Close, h))
						}
					case "st-stat", "st-lstat", "st-readlink", "st-realpath", "st-statvfs", "st-open", "st-mkdir", "st-rmdir", "st-rename", "st-chmod":
						// one request, answered with a STATUS of a PRNG code: the call returns THAT verdict
						statusOnly := kind == "st-mkdir" || kind == "st-rmdir" || kind == "st-rename" || kind == "st-chmod"
						codes := c03StatusCodes
						if !statusOnly {
							codes = codes[:len(codes)-1] // STATUS OK is not a reply to these requests (C20's subject)
						}
						code := codes[rng.Intn(len(codes))]
						stCode = int(code)
						path := fmt.Sprintf("st%dx%d", code, k)
						var err error
						switch kind {
						case "st-stat":
							_, err = client.Stat(path)
							issue(fmt.Sprintf("t%d %s", wire.Stat, path))
						case "st-lstat":
							_, err = client.Lstat(path)
							issue(fmt.Sprintf("t%d %s", wire.Lstat, path))
						case "st-readlink":
							_, err = client.ReadLink(path)
							issue(fmt.Sprintf("t%d %s", wire.Readlink, path))
						case "st-realpath":
							_, err = client.RealPath(path)
							issue(fmt.Sprintf("t%d %s", wire.Realpath, path))
						case "st-statvfs":
							_, err = client.StatVFS(path)
							issue(fmt.Sprintf("ext statvfs@openssh.com %s ", path))
						case "st-open":
							var f *sftp.File
							f, err = client.Open(path)
							issue(fmt.Sprintf("open %s %d", path, wire.FRead))
							if err == nil && f != nil {
								f.Close()
								issue(fmt.Sprintf("t%d h:%s", wire.Close, path))
							}
						case "st-mkdir":
							err = client.Mkdir(path)
							issue(fmt.Sprintf("t%d %s", wire.Mkdir, path))
						case "st-rmdir":
							err = client.RemoveDirectory(path)
							issue(fmt.Sprintf("t%d %s", wire.Rmdir, path))
						case "st-rename":
							err = client.Rename(path, fmt.Sprintf("to%d", k))
							issue(fmt.Sprintf("rename %s to%d", path, k))
						case "st-chmod":
							err = client.Chmod(path, 0o640)
							issue(fmt.Sprintf("t%d %s", wire.Setstat, path))
						}
						got, want = c03StatusGot(err, fmt.Sprintf("verdict-%dx%d", code, k)), c03StatusWant(code)
					case "st-fstat", "st-readat", "st-writeat":
						// a file opened for the purpose; the request on its handle is answered with a STATUS of a PRNG code
						codes := c03StatusCodes[:len(c03StatusCodes)-1]
						if kind == "st-writeat" {
							codes = c03StatusCodes
						}
						code := codes[rng.Intn(len(codes))]
						stCode = int(code)
						path := fmt.Sprintf("sf%dx%d", code, k)
						h := "h:" + path
						f, err := client.OpenFile(path, os.O_RDWR)
						issue(fmt.Sprintf("open %s %d", path, wire.FRead|wire.FWrite))
						if opErr = err; err != nil {
							return
						}
						n := 1 + rng.Intn(mp)
						switch kind {
						case "st-fstat":
							_, err = f.Stat()
							issue(fmt.Sprintf("t%d %s", wire.Fstat, h))
						case "st-readat":
							_, err = f.ReadAt(make([]byte, n), int64(off))
							issue(chunks(h, "read", off, n)...)
						case "st-writeat":
							_, err = f.WriteAt(cliPatternBytes(h, off, n), int64(off))
							issue(chunks(h, "write", off, n)...)
						}
						got, want = c03StatusGot(err, fmt.Sprintf("verdict-%dx%d", code, k)), c03StatusWant(code)
						opErr = f.Close()
						issue(fmt.Sprintf("t%d %s", wire.Close, h))
					case "write-read-own":
						// File.Seek+Write+Seek+Read on the caller's own file (offset bookkeeping is C12; routing here)
						f, h := own[c], fmt.Sprintf("h:own%d", c)
						n := 1 + rng.Intn(mp)
						f.Seek(int64(off), io.SeekStart)
						m, err := f.Write(cliPatternBytes(h, off, n))
						issue(chunks(h, "write", off, n)...)
						if opErr = err; err == nil {
							f.Seek(int64(off), io.SeekStart)
							b := make([]byte, n)
							var m2 int
							m2, opErr = io.ReadFull(f, b)
							issue(chunks(h, "read", off, n)...)
							if m != n || m2 != n || !bytes.Equal(b, cliPatternBytes(h, off, n)) {
								got, want = fmt.Sprintf("wrote %d read %d / other data", m, m2), fmt.Sprintf("%d bytes of this handle's pattern", n)
							}
						}
					}
				}
				if !cliWithin(cliDeadline, run) {
					fail("hang/"+kind+hangSuffix, kind+" did not return within 20 s although every request is answered", map[string]any{"peer_is": peerDoing.Load(), "goroutines": cliDescribe(cliGoroutines2())})
					cmu.Lock()
					hung = true
					cmu.Unlock()
					return
				}
				cmu.Lock()
				res.Calls++
				res.OpHist[kind]++
				if stCode >= 0 {
					res.OpHist[fmt.Sprintf("answered-with-status-code/%03d", stCode)]++
				}
				cmu.Unlock()
				if opErr != nil {
					fail("error/"+kind, fmt.Sprintf("%s (k=%d) returned an error although its own request was answered successfully: %v", kind, k, opErr), map[string]any{"caller": c, "k": k})
				} else if got != want {
					fail("misrouted/"+kind, fmt.Sprintf("%s (k=%d) did not return the result built for its own request", kind, k), map[string]any{"caller": c, "k": k, "got": got, "want": want})
				}
			}
		}(c)
	}
	wg.Wait()
	if hung {
		res.ExitNow = true
		peer.Shutdown()
		return
	}
	// a concurrent WriteTo may return with speculative READs still on their way; the peer answers them
	for t0 := time.Now(); cs.Xfer && sftp.VerifInflight(client) != 0 && time.Since(t0) < 5*time.Second; {
		time.Sleep(200 * time.Microsecond)
	}
	if n := sftp.VerifInflight(client); n != 0 {
		fail("inflight-not-empty", fmt.Sprintf("%d entries remain in clientConn.inflight after every call returned", n), nil)
	}
	// orderly end: the client closes its writer, the peer sees EOF and ends its output
	closed := make(chan struct{})
	go func() { client.Close(); close(closed) }()
	select {
	case <-peerDone:
	case <-cliCase.Load().After(cliDeadline):
		cliCase.Load().Fired()
		fail("tie/peer", "scripted peer did not finish", nil)
		res.ExitNow = true
	}
	peer.Shutdown()
	select {
	case <-closed:
	case <-cliCase.Load().After(cliDeadline):
		cliCase.Load().Fired()
		fail("close-hang", "Client.Close did not return within 20 s", cliDescribe(cliGoroutines2()))
		res.ExitNow = true
		return
	}

	// ---- the wire ----
	rawIn := peer.RawIn()
	frames, tail := wire.Split(rawIn)
	if len(tail) != 0 {
		fail("framing/tail", fmt.Sprintf("the client→server stream does not end on a frame boundary: %d stray bytes after %d frames", len(tail), len(frames)), lib.Hex(tail[:min(len(tail), 64)]))
	}
	var onWire []string
	for i, p := range frames {
		if i == 0 && p.Typ == wire.Init {
			continue
		}
		q, derr := cliDecodeReq(p)
		if derr != nil {
			fail("framing/undecodable-request", fmt.Sprintf("frame %d of the client→server stream does not decode as a request: %v", i, derr), lib.Hex(append([]byte{p.Typ}, p.Body[:min(len(p.Body), 64)]...)))
			continue
		}
		onWire = append(onWire, c03Canon(q))
	}
	res.Requests = len(onWire)
	a := append([]string(nil), onWire...)
	b := append([]string(nil), issued...)
	sort.Strings(a)
	sort.Strings(b)
	onlyWire, onlyIssued := diffMultiset(a, b)
	if len(optTails) > 0 {
		// the speculative tail of concurrent WriteTo calls: reads beyond the chunk that reported EOF
		var rest []string
		for _, w := range onlyWire {
			spec := false
			for _, t := range optTails {
				if t.matches(w) {
					spec = true
					break
				}
			}
			if spec {
				res.Speculative++
			} else {
				rest = append(rest, w)
			}
		}
		onlyWire = rest
	}
	if len(onlyWire)+len(onlyIssued) > 0 {
		fail("framing/requests-differ", "the requests on the wire are not exactly the requests the callers issued", map[string]any{"only_on_wire": head(onlyWire, 8), "only_issued": head(onlyIssued, 8)})
	}
	if len(wireCanon) != len(onWire) {
		fail("framing/count", fmt.Sprintf("peer received %d requests, stream holds %d", len(wireCanon), len(onWire)), nil)
	}
	res.Trace = trace
	if len(res.Fails) == 0 && len(evs) > 0 && cs.Mode != "selftest-swap" {
		// every call returned the result built for its own request (checked above): each request's outcome is
		// the reply the peer sent for its id
		known := map[uint32]string{}
		for _, e := range evs {
			known[e.ID] = "reply"
		}
		l := connObs{Events: evs, Base: evs[0].ID - 1, Known: known}.build()
		res.Conn = &l
		k := &chanClassifier{seq: chanSeq, pool: chanPool, tails: optTails}
		res.ChanObs = chanObsTokens(evs, evs[0].ID-1, evCanon, k)
		res.ChanClass = k.Counts
	}
	return
}

func equalStrings(a, b []string) bool {
	if len(a) != len(b) {
		return false
	}
	for i := range a {
		if a[i] != b[i] {
			return false
		}
	}
	return true
}

func diffMultiset(a, b []string) (onlyA, onlyB []string) {
	i, j := 0, 0
	for i < len(a) && j < len(b) {
		switch {
		case a[i] == b[j]:
			i++
			j++
		case a[i] < b[j]:
			onlyA = append(onlyA, a[i])
			i++
		default:
			onlyB = append(onlyB, b[j])
			j++
		}
	}
	return append(onlyA, a[i:]...), append(onlyB, b[j:]...)
}

func head(s []string, n int) []string {
	if len(s) > n {
		return s[:n]
	}
	return s
}

func checkC03(c *lib.Ctx) {
	r := c.R
	thorough := c.Tier == "thorough"
	r.Rule = "family 1: run = (callers 1…16, reply order perm|reverse|delay|fifo, seed, MaxPacket, concurrent writes on/off, big multi-chunk writes, id counter started just below 2^32): every caller issues a PRNG mix of 18 self-identifying operations (Stat/Lstat/ReadLink/RealPath/Mkdir/Rename/ReadDir/StatVFS/Open+Close/File.Stat/ReadAt and WriteAt single- and multi-chunk on a shared and an own File/Write+Read) on one Client; the peer answers the requests outstanding at a quiescent moment in a PRNG permutation of a PRNG subset, strictly reversed, one at a time with delays, or in order. Three runs in four add PER-REQUEST STATUS replies to the mix: Stat, Lstat, ReadLink, RealPath, StatVFS, OpenFile, Mkdir, RemoveDirectory, Rename, Chmod, and File.Stat / single-chunk ReadAt / WriteAt on a file opened for the purpose, whose request (by its content: the code is part of the path) the peer answers with a STATUS of a PRNG code out of 0…8, 9, 255, 256 (0 only where STATUS is the regular reply) while the other callers' requests are outstanding, in every reply order; the failing call must return an error carrying exactly that code (io.EOF / os.ErrNotExist / os.ErrPermission for 1 / 2 / 3, a *StatusError with the code and the message built for this request otherwise, nil for 0), every other call its own result. A run is non-trivial when at least one batch of ≥2 outstanding requests was answered out of arrival order; distinct by run parameters. Client options: the 72 combinations of MaxPacket constructor (MaxPacketUnchecked | MaxPacketChecked | the MaxPacket alias) × MaxConcurrentRequestsPerFile (1 | 2 | default) × UseConcurrentReads (not given | false | true) × UseFstat (not given | true | false) are dealt over the runs in rotation. Two runs in three add File transfers to the mix: File.WriteTo (from a PRNG offset to the end of a file of 0, 1, MaxPacket-1/+0/+1, 3·MaxPacket(+1) or PRNG bytes; sequential, or concurrent with its STAT/FSTAT and its speculative reads), File.ReadFrom (readers with Len, Size, Stat, *io.LimitedReader, or none of them) and File.ReadFromWithConcurrency (0, 1, 2, 3, 100) of the same sizes, each on a fresh File and on a File all callers share (the transfer holds the File's exclusive lock while other callers' ReadAt / WriteAt / Stat on the same File wait and must still get their own results); the wire must carry exactly the requests these calls imply (READs of a concurrent WriteTo beyond the chunk that reported EOF are allowed and counted). Family 3 (peer I/O disciplines, cli_iopeer.go): the family-1 mixes (3…16 callers, all reply modes, transfers in two runs of three, PRNG options) over a transport of chosen back-pressure — synchronous (a Write blocks until the other side has read all of it), 64-byte, 4 KiB, 1 MiB buffers, both directions — against a peer of a chosen I/O discipline: eager (reads in a goroutine of its own), batch1/2/3/8 (ONE thread: reads up to k requests — waiting as long as it takes only while it owes no reply, else 150 µs —, then writes the replies chosen by the reply mode, NOT reading while it writes, then returns to reading; it may stop reading in the middle of a frame), slow (k PRNG 1…4, think time ≤ 400 µs before every read and before writing), bytewise (batch2 reading and writing in pieces of 1…7 bytes); quick 56 runs, thorough 1344. Same oracles (nothing hangs within the hang budget, every call gets the reply to its own request, framing, Close returns). Family 4 (close, c03_close.go): over a recording transport that accepts every Write call in two halves and can hold the Write call at a chosen position of a chosen frame (entered / half accepted / fully accepted and not returned, for the call that starts the frame and for a further call of the same frame; fully accepted for the call that completes it; or nothing held and the frame complete), the session is ended by Client.Close on another goroutine, EOF on the read side, a read error, a reply with an unknown id, a reply with an absurd length, or Close and EOF together, while that call is held; the call is released when the transport's Close was entered or after a grace period. Targets: the first frame of every API that sends WRITE (WriteAt, Write, ReadFrom, ReadFromWithConcurrency, concurrent WriteAt), SETSTAT (Chmod, Chown, Chtimes, Truncate), FSETSTAT (File.Chmod, Chown, Truncate), OPEN (Open, Create, OpenFile) and of seven requests without payload; 0/2/5 bystanders keep sending WRITE / SETSTAT / FSETSTAT / STAT / READ requests; the target is answered or left outstanding; quick: packet kind × hold point × closer with the API dealt in rotation (210 runs) + 36 runs with nothing held (3…12 callers over a transport that yields inside every Write, ended after 1…60 frames); thorough: every API × hold point × closer four times (3696 runs) + 1500. Oracles: the bytes on the wire when the transport was closed split into whole frames; no Close entered while a Write call is in progress nor a Write call while a Close or another Write is; every frame decodes as an issued request. A run is non-trivial when a Write call was held, or requests were outstanding, when the session ended. Family 5 (names, c03_names.go): the LENGTH of the names a request carries: 32 operations (every request kind of the client API: Stat, Lstat, ReadLink, RealPath, Mkdir, RemoveDirectory, Remove, StatVFS, Rename, PosixRename, Symlink, Link with a long and a short name both ways, Open, Create, OpenFile, ReadDir, Chmod, Chown, Chtimes, Truncate, SetExtendedData on a path; File.Stat, ReadAt, Sync, READDIR+CLOSE of a directory handle, File.Chmod, Chown, Truncate, SetExtendedData, WriteAt, Write, ReadFrom on a handle) × path lengths 1…320 contiguous (thorough 1…4200) and 2^k-1, 2^k, 2^k+1 for k = 9…16 × lengths 1…256 of the handle the scripted peer hands out for the call's OPEN / OPENDIR × payload sizes (file data of 0, 1, 63, 64, 65, 255, 256, 257, MaxPacket, MaxPacket+1 bytes, thorough also 2, 31…33, 127…129, 511…513; attribute blocks of 4 and 8 bytes and, with extended attributes, of 15…257 bytes) × names of printable bytes in components of at most 199 bytes / of arbitrary bytes; the calls of a group of kinds in PRNG order in sessions of 192 calls, 1, 2, 3, 8 or 16 callers (mixed-kind sessions 5…16), replies in order / PRNG permutation of a PRNG subset / reversed, MaxPacket 32768, 1024 or 64, UseConcurrentWrites and a transport that yields inside every Write in rotation. The peer builds every reply from the bytes of the request it answers (sizes, names and STATUS verdicts are hashes of them). Oracles: the recorded stream splits into whole frames without a tail; every frame equals, the id aside, a frame the independent codec builds for the arguments of a call, every request of every completed call is on the wire; every call returns within the hang deadline (one deadline per session) with the result built for its own request; ids in flight pairwise distinct. Each call counts as one case. A failure attributed to a call is re-run alone in a one-call session, which becomes its input if it fails the same way; other failures of a concurrent session that fell out of step are keyed …/in-a-concurrent-session. Family 2 (abandoned request): ReadDirContext is cancelled while its OPENDIR, first READDIR or second READDIR is outstanding (the peer holds it); the deferred CLOSE, 1…6 self-identifying follow-up calls of the same caller and the calls of 0/1/3/8 concurrent callers run; the peer answers the abandoned request late (regular reply or STATUS) before the j-th follow-up reply, j PRNG incl. 0 = before the CLOSE reply, or after all calls completed; three more calls follow; 8 (quick) / 25 (thorough) abandoned requests per run."
	var cases []c03Case
	if c.Replay != "" {
		var one c03Case
		if err := lib.ReadReplay(c.Replay, &one); err != nil {
			r.Fail(lib.Failure{Kind: "tie", Key: "replay", What: err.Error()})
			return
		}
		cases = []c03Case{one}
	} else {
		seeds, ops := 4, 50
		if thorough {
			seeds, ops = 30, 150
		}
		// the option product MaxPacket constructor × MaxConcurrentRequestsPerFile × UseConcurrentReads × UseFstat (72 combinations)
		// is dealt over the runs in rotation (a seed round of 57 runs continues where the previous one stopped, after
		// a PRNG skip), together with PRNG UseConcurrentWrites: the cost of a tier does not depend on the number of
		// options; quick takes every combination 3 times, thorough 23 times
		var combos []c03Case
		for _, mpo := range []string{"", "checked", "alias"} {
			for _, mr := range []int{0, 1, 2} {
				for _, rd := range []string{"", "off", "on"} {
					for _, fs := range []string{"", "on", "off"} {
						if rd == "on" && fs == "off" {
							continue // both restate a default; ("on","") and ("","off") are taken
						}
						combos = append(combos, c03Case{MPOpt: mpo, MaxReq: mr, Reads: rd, Fstat: fs})
					}
				}
			}
		}
		ci := 0
		withOpts := func(cs c03Case) c03Case {
			o := combos[ci%len(combos)]
			ci++
			cs.MPOpt, cs.MaxReq, cs.Reads, cs.Fstat = o.MPOpt, o.MaxReq, o.Reads, o.Fstat
			return cs
		}
		for s := 0; s < seeds; s++ {
			ci += c.Rand.Intn(len(combos))
			for callers := 1; callers <= 16; callers++ {
				for _, mode := range []string{"perm", "reverse", "delay", "fifo"} {
					if mode == "fifo" && (s > 0 || callers%4 != 0) {
						continue
					}
					mps := []int{1 << 15, 1024, 64, 7}
					// two runs in three include the File transfers (WriteTo / ReadFrom / ReadFromWithConcurrency)
					cases = append(cases, withOpts(c03Case{Callers: callers, Mode: mode, Seed: c.Rand.Int63(), Ops: ops, MaxPacket: mps[c.Rand.Intn(len(mps))],
						ConcW: c.Rand.Intn(2) == 0, WrapID: c.Rand.Intn(3) == 0, Xfer: c.Rand.Intn(3) != 0, Status: c.Rand.Intn(4) != 0}))
				}
			}
			// 16 (and 2…15) concurrent writers with large WRITE payloads: header and payload are separate writes
			for _, callers := range []int{16, 8, 3} {
				for _, mode := range []string{"perm", "reverse", "delay"} {
					cases = append(cases, withOpts(c03Case{Callers: callers, Mode: mode, Seed: c.Rand.Int63(), Ops: ops / 4, MaxPacket: 1 << 15, ConcW: true, Big: true, WrapID: s%2 == 1, Status: true}))
				}
			}
		}
	}
	if c.Replay == "" {
		// abandoned requests: ReadDirContext cancelled with OPENDIR / first READDIR / second READDIR outstanding,
		// late reply (regular or STATUS) before the j-th follow-up reply or after all; 0…8 concurrent bystanders
		rounds, reps := 8, 2
		if thorough {
			rounds, reps = 25, 25
		}
		for rep := 0; rep < reps; rep++ {
			for _, hold := range []string{"opendir", "first", "second"} {
				for _, late := range []string{"name", "eof"} {
					for _, callers := range []int{0, 1, 3, 8} {
						cs := c03Case{Kind: "ctx", Hold: hold, Late: late, Callers: callers, Pos: -1, Rounds: rounds, Seed: c.Rand.Int63(), MaxPacket: 1024, Mode: "ctx"}
						cs.MPOpt, cs.MaxReq = []string{"", "checked", "alias"}[c.Rand.Intn(3)], []int{0, 1, 2}[c.Rand.Intn(3)]
						cs.Reads, cs.Fstat = []string{"", "off", "on"}[c.Rand.Intn(3)], []string{"", "on", "off"}[c.Rand.Intn(3)]
						cases = append(cases, cs)
					}
				}
			}
			// the two boundary positions, no bystanders: before the deferred CLOSE's reply; after every other call completed
			for _, pos := range []int{0, 1 << 20} {
				cases = append(cases, c03Case{Kind: "ctx", Hold: "any", Late: "any", Callers: 0, Pos: pos, Rounds: rounds, Seed: c.Rand.Int63(), MaxPacket: 1024, Mode: "ctx"})
			}
		}
	}
	if c.Replay == "" {
		// family "peer I/O disciplines" (cli_iopeer.go): the ordinary mixes with 3…16 callers against every transport
		// × every way a legal peer may do its I/O
		transports := []string{"sync", "buf64", "buf4096", "buf1m"}
		disciplines := []string{"eager", "batch1", "batch2", "batch3", "batch8", "slow", "bytewise"}
		modes := []string{"perm", "reverse", "delay", "fifo"}
		callerSets, nModes, seeds, ops := [][]int{{3, 8}, {5, 16}, {4, 12}}, 1, 1, 20
		if thorough {
			callerSets, nModes, seeds, ops = [][]int{{3, 4, 5, 8, 12, 16}}, 4, 2, 50
		}
		n := 0
		for s := 0; s < seeds; s++ {
			for ti, tr := range transports {
				for di, d := range disciplines {
					for _, callers := range callerSets[(ti+di)%len(callerSets)] {
						for m := 0; m < nModes; m++ {
							n++
							mps := []int{1 << 15, 1024, 64, 7}
							if d == "bytewise" {
								mps = []int{64, 7} // every piece of 1…7 bytes is a Read / Write of its own
							}
							cs := c03Case{Callers: callers, Mode: modes[(n+m)%len(modes)], Seed: c.Rand.Int63(), Ops: ops, MaxPacket: mps[c.Rand.Intn(len(mps))],
								ConcW: c.Rand.Intn(2) == 0, Xfer: c.Rand.Intn(3) != 0, Status: c.Rand.Intn(4) != 0, Transport: tr, Peer: d}
							cs.MPOpt, cs.MaxReq = []string{"", "checked", "alias"}[c.Rand.Intn(3)], []int{0, 1, 2}[c.Rand.Intn(3)]
							cs.Reads, cs.Fstat = []string{"", "off", "on"}[c.Rand.Intn(3)], []string{"", "on", "off"}[c.Rand.Intn(3)]
							cases = append(cases, cs)
						}
					}
				}
			}
		}
	}
	if c.Replay == "" {
		// family "close" (c03_close.go): the session is ended while a request is being written
		cases = append(cases, c03CloseCases(c.Rand, thorough)...)
	}
	if c.Replay == "" {
		// family "names" (c03_names.go): request kind × length of the path / of the server-chosen handle × payload size
		cases = append(cases, c03NamesCases(c.Rand, thorough)...)
	}
	if fam := os.Getenv("VH_C03_FAMILY"); fam != "" && c.Replay == "" {
		// debugging aid: only the peer-I/O-discipline family ("io"), only the close family ("close"), or everything else ("noio")
		var keep []c03Case
		for _, cs := range cases {
			if fam == "names" || cs.Kind == "names" {
				if (fam == "names") == (cs.Kind == "names") {
					keep = append(keep, cs)
				}
				continue
			}
			if fam == "close" || cs.Kind == "close" {
				if (fam == "close") == (cs.Kind == "close") {
					keep = append(keep, cs)
				}
				continue
			}
			if (cs.Peer != "" || cs.Transport != "") == (fam == "io") {
				keep = append(keep, cs)
			}
		}
		cases = keep
	}
	for i := range cases {
		if cases[i].ConnCap == 0 && cases[i].Kind != "close" && cases[i].Kind != "names" {
			cases[i].ConnCap = 150
			if thorough {
				cases[i].ConnCap = 300
			}
		}
	}
	selftest := -1
	if c.Replay == "" {
		// harness self-test: a peer that answers two requests with each other's content must be caught
		selftest = len(cases)
		cases = append(cases, c03Case{Callers: 8, Mode: "selftest-swap", Seed: 1, Ops: 30, MaxPacket: 1024})
	}
	raws := make([]json.RawMessage, len(cases))
	for i, cs := range cases {
		raws[i], _ = json.Marshal(cs)
	}
	workers := runtime.NumCPU() / 2 // each run is itself up to 16+ goroutines wide
	if workers > 8 {
		workers = 8
	}
	if workers < 1 {
		workers = 1
	}
	results, deaths, err := cliRunPoolC("c03", nil, raws, workers, 300*time.Second, nil, func(i int) string { return c03Class(cases[i]) })
	if err != nil {
		r.Fail(lib.Failure{Kind: "tie", Key: "child-start", What: err.Error()})
		return
	}
	calls, reqs, reordered, wrapped, abandoned, specReads, closeRuns := 0, 0, 0, 0, 0, 0, 0
	nameRuns, nameCalls, nameReqs := 0, 0, 0
	var connLines []connLine
	var connInputs []any
	connReqs := 0
	var chanObs [][]string
	var chanInputs []any
	var chanFam []string
	var ctxSample []string
	for i, cs := range cases {
		if deaths[i] == cliNotRun {
			continue
		}
		canon, _ := json.Marshal(cs)
		if d := deaths[i]; d != nil {
			r.Case(string(canon), true)
			r.Fail(lib.Failure{Kind: "oracle", Key: d.Why + "/" + d.Site, What: fmt.Sprintf("client process died (%s) in %s: %s", d.Why, d.Site, d.Head), Input: cs, Actual: d})
			continue
		}
		if results[i] == nil {
			r.Fail(lib.Failure{Kind: "tie", Key: "no-result", What: "no result", Input: cs})
			continue
		}
		var res c03Res
		json.Unmarshal(results[i], &res)
		if i == selftest {
			caught := false
			for _, f := range res.Fails {
				if strings.HasPrefix(f.Key, "misrouted/") {
					caught = true
				}
			}
			if !caught {
				r.Fail(lib.Failure{Kind: "tie", Key: "selftest/misrouting-not-detected", What: "a peer that deliberately answers requests with each other's content was not caught by the routing oracle", Input: cs})
			} else {
				r.Note("self-test passed: deliberately swapped reply contents were reported by the routing oracle (%d reports)", len(res.Fails))
			}
			continue
		}
		if cs.Kind == "close" {
			c03CloseTally(r, cs, res)
			closeRuns++
			reqs += res.Requests
			continue
		}
		if cs.Kind == "names" {
			c03NamesTally(r, cs, res)
			nameRuns++
			nameCalls += res.Calls
			nameReqs += res.Requests
			continue
		}
		r.Case(string(canon), res.Reordered > 0)
		if res.Conn != nil {
			connLines = append(connLines, *res.Conn)
			connInputs = append(connInputs, cs)
			connReqs += res.Conn.NReq
		}
		fam := map[bool]string{true: "shared-file-and-transfers", false: "shared-file"}[cs.Xfer]
		if cs.Kind == "ctx" {
			fam = "abandoned-request"
		}
		if len(res.ChanObs) > 0 {
			chanObs = append(chanObs, res.ChanObs)
			chanInputs = append(chanInputs, cs)
			chanFam = append(chanFam, fam)
			for k, v := range res.ChanClass {
				r.HistAdd("chan-model/request-class/"+k, v)
			}
		} else if len(res.Fails) > 0 {
			r.Hist("chan-model/skipped/run-failed-its-direct-oracle/" + fam)
		} else {
			r.Hist("chan-model/skipped/connection-failed-cleanly-or-no-window/" + fam)
		}
		calls += res.Calls
		reqs += res.Requests
		reordered += res.Reordered
		if res.Wrapped {
			wrapped++
		}
		r.Hist(fmt.Sprintf("callers/%02d", cs.Callers))
		r.Hist("mode/" + cs.Mode)
		if cs.Peer != "" || cs.Transport != "" {
			r.Hist("peer-io/transport/" + cs.Transport)
			r.Hist("peer-io/discipline/" + cs.Peer)
			r.Hist(fmt.Sprintf("peer-io/callers/%02d", cs.Callers))
		} else {
			r.Hist("peer-io/historical(io.Pipe,eager-reader-goroutine)")
		}
		dflt := func(s, d string) string {
			if s == "" {
				return d
			}
			return s
		}
		r.Hist("option/max-packet-constructor/" + dflt(cs.MPOpt, "unchecked"))
		r.Hist(fmt.Sprintf("option/max-requests-per-file/%s", dflt(fmt.Sprint(cs.MaxReq), "0")))
		r.Hist("option/concurrent-reads/" + dflt(cs.Reads, "not-given"))
		r.Hist("option/use-fstat/" + dflt(cs.Fstat, "not-given"))
		r.Hist(fmt.Sprintf("option/concurrent-writes/%v", cs.ConcW))
		if cs.Kind != "ctx" {
			r.Hist(fmt.Sprintf("transfers/%v", cs.Xfer))
			r.Hist(fmt.Sprintf("per-request-status-replies/%v", cs.Status))
			if cs.Xfer {
				r.Hist(fmt.Sprintf("transfers/reads=%s,fstat=%s,max-requests=%d", dflt(cs.Reads, "default"), dflt(cs.Fstat, "default"), cs.MaxReq))
			}
			specReads += res.Speculative
		}
		if cs.Kind == "ctx" {
			abandoned += res.Reordered
			for k, v := range res.Batches {
				r.HistAdd(fmt.Sprintf("ctx/late-reply-before-follow-up-reply/%02s", k), v)
			}
			if len(ctxSample) == 0 && cs.Callers == 0 {
				ctxSample = res.Trace
			}
		} else {
			r.Hist(fmt.Sprintf("max-outstanding/%02d", min(res.MaxOut, 40)/4*4))
			for k, v := range res.Batches {
				r.HistAdd(fmt.Sprintf("batch-size/%02s", k), v)
			}
		}
		for k, v := range res.OpHist {
			r.HistAdd("op/"+k, v)
		}
		if len(r.Samples) < 4 && cs.Callers >= 3 && i%7 == 0 {
			tr := res.Trace
			if len(tr) > 30 {
				tr = append(tr[:30:30], "…")
			}
			// abstract trace of the forced schedule: caller sends (send#id request) and the reply order (reply#id)
			r.Sample(map[string]any{"run": cs, "calls": res.Calls, "requests": res.Requests, "reordered_batches": res.Reordered, "trace_head": tr})
		}
		for _, f := range res.Fails {
			kind := "oracle"
			if strings.HasPrefix(f.Key, "tie/") {
				kind = "tie"
			}
			r.Fail(lib.Failure{Kind: kind, Key: f.Key, What: f.What, Input: cs, Actual: f.Act})
		}
	}
	if len(ctxSample) > 0 {
		if len(ctxSample) > 28 {
			ctxSample = append(ctxSample[:28:28], "…")
		}
		r.Sample(map[string]any{"family": "ctx", "trace_head": ctxSample})
	}
	r.Note("File transfers: %d speculative READs of concurrent WriteTo calls (beyond the chunk that reported EOF) were on the wire without a caller having to account for them", specReads)
	r.Note("close family: %d runs in which the session was ended (Client.Close on another goroutine, EOF / error / unusable reply on the read side) while a request was being written or outstanding; the recorded wire split into whole frames and the transport's Write and Close calls never overlapped; not expressible in conn.run tokens: a Close that is not an action of the lock holder BETWEEN its two writes is exactly what the model's critical section excludes, so there is no schedule token for it (the tie for that is the extractor's fact about conn.Close taking the lock)", closeRuns)
	r.Note("names family: %d sessions, %d completed calls, %d requests on the wire: every request kind of the client API × the length of its path(s) / of the handle the peer handed out × payload size. Oracles per session: the recorded client→server stream splits into whole frames with no tail; every frame is, the id aside, byte for byte a request the independent codec (harness/wire) builds for the arguments of some call, and every request of every completed call is there; every call returns within the hang deadline, with the result built for its own request. Not expressible in conn.run tokens: the model's packets have no sizes (a header/payload split that depends on the number of bytes is below its abstraction); the tie is the extractor's fact about the shape of sendPacket", nameRuns, nameCalls, nameReqs)
	r.Note("abandoned-request family: %d requests abandoned by context cancellation and answered late", abandoned)
	r.Note("%d calls and %d requests in %d runs; %d batches answered out of arrival order; %d runs crossed the id wrap-around 2^32-1 → 0", calls, reqs, len(cases), reordered, wrapped)
	n := connCompare(c, "c03", connLines, connInputs)
	r.Note("connection model: %d recorded schedules (%d requests with their replies in the order the peer saw and sent them; window = first %d requests of a run) replayed with conn.run and compared (enabledness, per-request outcome, wire, closed, framed, recv)", n, connReqs, cases[0].ConnCap)
	nch := chanCompare(c, "c03", chanObs, chanInputs, chanFam)
	r.Note("result-channel model: %d recorded schedules (the same windows) replayed with chan.run and compared: the model accepts the schedule; foreign=0; dead=0; every answered request's caller received exactly the reply to its own sid with the payload tag of the frame the peer sent; every abandoned request's caller received nothing and is in gaveup. Channel classes by the operation that issued the request: sync call (fresh channel, dropped), victim (fresh, abandoned at the cancel, late reply delivered to the orphan channel), pooled work item (Get: lowest pooled channel or fresh; Put after the receive), sequential loop (one channel, re-used after each receive, dropped at the end)", nch)
	r.Note("not expressible / not observable for chan.run: channel identities and the moments of Get / receive / Put inside the package (any assignment consistent with the wire and reply order is chosen: acquire+dispatch at the arrival, receive+release right after the reply); the per-invocation pools of the code (the model has one pool); which speculative READ of a concurrent WriteTo was orphaned by the feeder's cancel arm (all are replayed as received and Put); Put on a full pool; the part of a run beyond the window; runs whose connection failed cleanly after a late reply")
	r.Note("not expressible in conn.run tokens: the cancellation of a context (the abandoned caller is left waiting, outcome `pending`, and the late reply lands in its channel); the result channels SHARED by the chunks of File transfers (resChanPool; the model gives every request its own channel); the preset id counter near 2^32 (ids are renumbered from 1: the model's wrap-around needs 2^32 callers); the interleaving of putChannel/Lock between callers (chosen consistent with the observed wire order)")
}

var _ = peers.ErrTimeout

// c03Class is the hang class of a case (lib/budget.go): the family and the peer's reply mode.
func c03Class(cs c03Case) string {
	fam := "perm"
	if cs.Kind == "close" {
		return "c03/close/" + cs.Closer
	}
	if cs.Kind == "names" {
		return "c03/names/" + cs.Group
	}
	if cs.Kind != "" {
		fam = cs.Kind
	}
	if cs.Peer != "" || cs.Transport != "" {
		// a class of its own per transport and discipline: a discipline under which calls hang stops only itself
		return "c03/io/" + cs.Transport + "/" + cs.Peer
	}
	if cs.Xfer {
		fam += "+xfer"
	}
	return "c03/" + fam + "/" + cs.Mode
}
