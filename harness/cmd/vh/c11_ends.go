package main

// C11, part "objfault", families E and O — THE WAYS A SESSION ENDS.
//
// C11 speaks about the moment Serve returns, "whether after a clean close, EOF, or a connection broken at any point".
// A session ends in more ways than a client going away: the transport's reader fails with one of many error values,
// at a frame boundary or inside a frame; the APPLICATION stops the session from the server side
// (RequestServer.Close(); for the os-backed Server, which has no Close method, closing the ReadWriteCloser it was
// given) — while the session is idle, with handles open, with requests in flight (unanswered requests in the pipe; a
// handler method that is running while Close is called), twice, from two goroutines, together with a client EOF,
// after Serve has already returned; the transport's WRITER fails, so that replies cannot be sent, and the session
// goes on until its reader ends; the peer sends a malformed packet.  Whatever the way, afterwards: every object
// closed exactly once, TransferError — carrying a non-nil error — delivered exactly to the readers / writers /
// OpenFile objects whose handle was still open (and to none that was closed by CLOSE before, and to no lister), every
// context cancelled, no descriptor of the os-backed server left.
//
// Family E (request server, the counting in-memory handler of c11_objfault.go without method faults) crosses
//
//	handle population  x  way the session ends
//
// population: per kind (reader, writer, OpenFile object / rw through Filewrite, directory lister) 0..2 (thorough
// 0..3) handles left open and 0..1 handle opened and closed by CLOSE before the end; objects with / without
// io.Closer / TransferError, server with / without allocator.  Family O is the same cross on the os-backed Server
// over a scratch tree (oracle: one descriptor into the tree per live handle after every step, none after Serve).
//
// What Serve returned and which error value the notification carried go into the histogram
// (objfault/serve-returned/<end>/<error>, objfault/transfer-error-value/<end>/<error>).
//
// Keys: those of c11_objfault.go with the suffix /end=<end>; rs/objfault/transfer-error-nil/…;
// os/ends/descriptors-left-after-serve/end=…, os/ends/fd-count-mismatch/…, os/ends/serve-hang/end=….

import (
	"context"
	"errors"
	"fmt"
	"io"
	"math/rand"
	"net"
	"os"
	"path/filepath"
	"regexp"
	"sort"
	"strings"
	"sync"
	"syscall"
	"time"

	"github.com/pkg/sftp"

	"verifharness/lib"
	"verifharness/peers"
	"verifharness/wire"
)

const ofEndsRule = ". FAMILIES E / O (c11_ends.go) — THE WAYS A SESSION ENDS: handle population (per kind reader / writer / read-write [OpenFile object or Filewrite writer] / directory lister: 0..2 handles left open, thorough 0..3, and PRNG one more opened and closed by CLOSE before the end; half of the handles used; objects PRNG without TransferError 1/6, without io.Closer 1/8; allocator alternating) x way the session ends: CLOSE of everything + EOF, CLOSE twice + EOF, EOF at a frame boundary, EOF without reading the last reply, EOF inside the next frame (1, 3, 4, 5, 9 bytes, all but the last byte), the transport's reader failing at a frame boundary with each of 12 error values (io.EOF, io.ErrUnexpectedEOF, io.ErrClosedPipe, ECONNRESET, EPIPE, net.ErrClosed, os.ErrDeadlineExceeded, context.Canceled, a custom error, a wrapped io.EOF, *net.OpError, io.ErrNoProgress) and inside a frame (4 offsets, thorough x 12 values), both directions broken, the APPLICATION stopping the session (RequestServer.Close(); os-backed: Close of the ReadWriteCloser given to NewServer): once, twice, from two goroutines at once, followed by a client EOF, right after a client EOF, after Serve has returned, with 1 / 4 / 16 unanswered requests in the pipe (Close at once / once the server has read them), while a handler method is running (held until Close was called; request server only), the transport's WRITER failing (3 error values) with 1 / 3 further requests served unanswered and then EOF, with a CLOSE among them, followed by the application's Close, and a malformed last packet (length word 0 / 0xffffffff / over the limit, nothing after the type byte, OPEN with an id only, CLOSE whose string exceeds the frame, unknown type byte, WRITE on a live handle announcing more data than the frame holds, READ on a live handle cut inside the offset; the stream is closed once the server stopped or 3 s passed). Family E: request server, every combination (quick 81 populations x 59 ends); family O: os-backed server over a scratch tree, quick a rotating third of the ends per population. Oracles after Serve returned, the same for every end: every closeable object closed exactly once, TransferError exactly once — with a NON-NIL error — on exactly the readers / writers / OpenFile objects whose handle was still open (none on those closed by CLOSE, none on listers), never after Close, every context cancelled; os-backed: one descriptor into the tree per live handle after every step, none after Serve. What Serve returned and the error value the notification carried are recorded per end (objfault/serve-returned/…, objfault/transfer-error-value/…)"

// ---------- the values a failing transport returns ----------

var ofTrErrs = map[string]error{
	"EOF":            io.EOF, // as a read error at a frame boundary: the clean end
	"unexpected-EOF": io.ErrUnexpectedEOF,
	"closed-pipe":    io.ErrClosedPipe,
	"ECONNRESET":     syscall.ECONNRESET,
	"EPIPE":          syscall.EPIPE,
	"net-closed":     net.ErrClosed,
	"deadline":       os.ErrDeadlineExceeded,
	"ctx-canceled":   context.Canceled,
	"custom":         errors.New("connection reset by peer"),
	"wrapped-EOF":    fmt.Errorf("transport: %w", io.EOF),
	"op-error":       &net.OpError{Op: "read", Net: "tcp", Err: syscall.ETIMEDOUT},
	"no-progress":    io.ErrNoProgress,
}

var ofTrErrNames = func() []string {
	var l []string
	for k := range ofTrErrs {
		l = append(l, k)
	}
	sort.Strings(l)
	return l
}()

func ofTrErr(name string) error {
	if e, ok := ofTrErrs[name]; ok {
		return e
	}
	return errors.New("transport: " + name)
}

// malformed packets (end "badpkt"); those naming a handle name a LIVE one when there is one
var ofBadKinds = []string{"len-0", "len-huge", "len-over-max", "type-only", "open-id-only", "close-string-beyond-frame", "unknown-type", "write-live-data-beyond-frame", "read-live-cut-in-offset"}

func ofBadFrame(kind, h string) []byte {
	if h == "" {
		h = "1"
	}
	switch kind {
	case "len-0":
		return []byte{0, 0, 0, 0}
	case "len-huge":
		return []byte{0xff, 0xff, 0xff, 0xff, wire.Read, 0, 0, 0, 9}
	case "len-over-max":
		return append(wire.B{}.U32(256*1024+1+1024), wire.Frame(wire.Stat, wire.B{}.U32(9).Str("/a.txt"))[4:]...)
	case "type-only":
		return wire.Frame(wire.Read, nil)
	case "open-id-only":
		return wire.Frame(wire.Open, wire.B{}.U32(9001))
	case "close-string-beyond-frame":
		return wire.Frame(wire.Close, append(wire.B{}.U32(9002).U32(1000), h...))
	case "unknown-type":
		return wire.Frame(99, wire.B{}.U32(9003))
	case "write-live-data-beyond-frame":
		return wire.Frame(wire.Write, append(wire.B{}.U32(9004).Str(h).U64(0).U32(1<<20), "abcd"...))
	case "read-live-cut-in-offset":
		return wire.Frame(wire.Read, append(wire.B{}.U32(9005).Str(h), 0, 0, 0))
	}
	return nil
}

// ofEndKinds: every way a session of families E / O ends (the five of c11_objfault.go first).
var ofEndKinds = []string{"close-eof", "close2-eof", "eof", "break", "noreply",
	"eof-mid", "break-err", "break-mid",
	"srv-close", "srv-close2", "srv-close-conc", "srv-close-eof", "eof-srv-close", "srv-close-after", "srv-close-inflight", "srv-close-held",
	"write-fail", "write-fail-close", "write-fail-srv-close", "badpkt"}

func ofEndText(cs *ofCase) string {
	s := cs.End
	if cs.EndErr != "" {
		s += " err=" + cs.EndErr
	}
	if cs.EndOff != 0 {
		s += fmt.Sprint(" off=", cs.EndOff)
	}
	if cs.EndN != 0 {
		s += fmt.Sprint(" n=", cs.EndN)
	}
	if cs.EndBad != "" {
		s += " packet=" + cs.EndBad
	}
	return s
}

func ofStepOp(cs *ofCase, i int) string {
	if i >= 0 && i < len(cs.Steps) {
		return cs.Steps[i].Op
	}
	return "end-request"
}

var ofDigits = regexp.MustCompile(`[0-9]+`)

// ofErrTextClass: an error text as a histogram bucket (numbers folded).
func ofErrTextClass(s string) string {
	s = ofDigits.ReplaceAllString(s, "N")
	s = strings.Join(strings.Fields(s), "_")
	if len(s) > 90 {
		s = s[:90]
	}
	return s
}

func ofErrClass(err error) string {
	if err == nil {
		return "nil"
	}
	return ofErrTextClass(err.Error())
}

// ---------- driving the end ----------

type ofEndEnv struct {
	cs        *ofCase
	k         *lib.Case
	kind      string // rs | os
	fs        *ofFS  // rs
	root      string // os: the tree
	closeApp  func() error
	c2sW      *io.PipeWriter
	s2cR      *io.PipeReader
	send      func([]byte) bool
	recv      func() (wire.Pkt, bool)
	stopped   <-chan struct{}
	handles   map[int]string
	closeSent map[int]bool
	hist      *[]string
	add       func(ofFinding)
	after     func() // to be run once Serve has returned
}

// open: the opening steps of the handles that were issued and not closed, in step order.
func (e *ofEndEnv) open() []int {
	var l []int
	for s := range e.handles {
		if !e.closeSent[s] {
			l = append(l, s)
		}
	}
	sort.Ints(l)
	return l
}

// useFrame: the n-th further request on the handle opened by step s (it changes no handle table).
func (e *ofEndEnv) useFrame(s int, id uint32, n int) []byte {
	hs := e.handles[s]
	st := e.cs.Steps[s]
	if n%4 == 3 {
		return wire.Req(wire.Fstat, id, wire.B{}.Str(hs))
	}
	switch {
	case st.Op == "opendir":
		return wire.Req(wire.Readdir, id, wire.B{}.Str(hs))
	case st.Mode == "w", st.Mode == "rw" && (n%2 == 1 || (e.kind == "rs" && !e.cs.Cfg.OpenFile)): // (rw without OpenFileWriter is a write handle)
		return wire.Req(wire.Write, id, wire.B{}.Str(hs).U64(uint64(8*(n%5))).Bytes(ofData[:16]))
	}
	return wire.Req(wire.Read, id, wire.B{}.Str(hs).U64(uint64(8*(n%5))).U32(16))
}

func (e *ofEndEnv) statPath() string {
	if e.kind == "os" {
		return filepath.Join(e.root, "a.txt")
	}
	return "/a.txt"
}

// further: n requests on the open handles in turn (none open: STAT), ids from 5000.
func (e *ofEndEnv) further(n int) (fr [][]byte) {
	open := e.open()
	for j := 0; j < n; j++ {
		id := uint32(5000 + j)
		if len(open) == 0 || (j > 0 && j%5 == 4) {
			fr = append(fr, wire.Req(wire.Stat, id, wire.B{}.Str(e.statPath())))
			continue
		}
		fr = append(fr, e.useFrame(open[j%len(open)], id, j))
	}
	return
}

func (e *ofEndEnv) partial() []byte {
	f := e.further(1)[0]
	n := e.cs.EndOff
	if n <= 0 || n >= len(f) {
		n = len(f) - 1
	}
	return f[:n]
}

func (e *ofEndEnv) note(s string) { *e.hist = append(*e.hist, "objfault/ends/"+s) }

// setCur: requests of the END are no step of the case (the handler sees step index len(Steps)+j: no fault schedule).
func (e *ofEndEnv) setCur() {
	if e.fs != nil {
		e.fs.cur.Store(int32(len(e.cs.Steps)))
	}
}

// ofEndDrive ends the session in the way cs.End says; false: unknown end.  Serve's return is awaited by the caller.
func ofEndDrive(e *ofEndEnv) bool {
	cs := e.cs
	e.setCur()
	bg := func(f func()) <-chan struct{} {
		ch := make(chan struct{})
		go func() { defer close(ch); f() }()
		return ch
	}
	switch cs.End {
	case "eof-mid":
		e.send(e.partial())
		e.c2sW.Close()
	case "break-err":
		e.c2sW.CloseWithError(ofTrErr(cs.EndErr))
	case "break-mid":
		e.send(e.partial())
		e.c2sW.CloseWithError(ofTrErr(cs.EndErr))
	case "srv-close":
		e.closeApp()
	case "srv-close2":
		e.closeApp()
		e.closeApp()
	case "srv-close-conc":
		a, b := bg(func() { e.closeApp() }), bg(func() { e.closeApp() })
		for _, ch := range []<-chan struct{}{a, b} {
			if _, ok := lib.WaitCase(e.k, hangDeadline, ch); !ok {
				e.add(ofFinding{Key: e.kind + "/objfault/close-call-hang", What: "a Close() call of the application did not return within " + hangDeadline.String()})
			}
		}
	case "srv-close-eof":
		e.closeApp()
		e.c2sW.Close()
	case "eof-srv-close":
		e.c2sW.Close()
		e.closeApp()
	case "srv-close-after":
		e.c2sW.Close()
		e.after = func() { e.closeApp() }
	case "srv-close-inflight":
		// requests in the pipe, none answered: Close() at once (EndOff 0) or once the server has read them all (1)
		all := []byte{}
		for _, f := range e.further(max(cs.EndN, 1)) {
			all = append(all, f...)
		}
		w := bg(func() { e.c2sW.Write(all) })
		if cs.EndOff == 1 {
			if _, ok := lib.WaitCase(e.k, hangDeadline, w); !ok {
				e.add(ofFinding{Key: e.kind + "/objfault/no-reply/end-request", What: "the server did not read the pipelined requests of the session end within " + hangDeadline.String()})
			}
		}
		e.closeApp()
	case "srv-close-held":
		// a handler method is RUNNING while Close() is called (rs only)
		if e.fs == nil {
			return false
		}
		e.fs.hold.Store(true)
		all := []byte{}
		for _, f := range e.further(max(cs.EndN, 1)) {
			all = append(all, f...)
		}
		all = append(all, wire.Req(wire.Stat, 5800, wire.B{}.Str(e.statPath()))...) // (its lister is held, whatever the handles are)
		bg(func() { e.c2sW.Write(all) })
		if _, ok := lib.WaitCase(e.k, hangDeadline, e.fs.entered); !ok {
			e.add(ofFinding{Key: "rs/objfault/no-reply/end-request", What: "no handler method was entered for the requests of the session end within " + hangDeadline.String()})
		} else {
			e.note("close-called-while-a-handler-method-runs")
		}
		e.closeApp()
		e.fs.releaseHeld()
	case "write-fail", "write-fail-close", "write-fail-srv-close":
		// the replies cannot be sent any more; the session goes on until its reader ends
		e.s2cR.CloseWithError(ofTrErr(cs.EndErr))
		for _, f := range e.further(max(cs.EndN, 1)) {
			if !e.send(f) {
				e.note("write-fail/server-stopped-reading")
				break
			}
		}
		if open := e.open(); cs.End == "write-fail-close" && len(open) > 0 {
			// CLOSE of the first open handle: served (Serve waits for its workers), though nobody hears the answer
			if e.send(wire.Req(wire.Close, 5900, wire.B{}.Str(e.handles[open[0]]))) {
				e.closeSent[open[0]] = true
				e.note("write-fail/close-served-unanswered")
			}
		}
		if cs.End == "write-fail-srv-close" {
			e.closeApp()
		} else {
			e.c2sW.Close()
		}
	case "badpkt":
		h := ""
		if open := e.open(); len(open) > 0 {
			h = e.handles[open[len(open)/2]]
		}
		f := ofBadFrame(cs.EndBad, h)
		if f == nil {
			return false
		}
		e.send(f)
		// the server has to stop by itself (C07's subject); the stream is closed once it did or 3 s have passed
		select {
		case <-e.stopped:
			e.note("badpkt/" + cs.EndBad + "/server-stopped-by-itself")
		case <-time.After(e.k.Wait(3 * time.Second)):
			e.note("badpkt/" + cs.EndBad + "/server-did-not-stop-by-itself-within-3s")
		}
		e.c2sW.Close()
	default:
		return false
	}
	return true
}

// ---------- generator ----------

type ofEndVar struct {
	End, Err, Bad string
	Off, N        int
}

func ofEndVariants(thorough bool) (l []ofEndVar) {
	for _, e := range []string{"close-eof", "close2-eof", "eof", "break", "noreply"} {
		l = append(l, ofEndVar{End: e})
	}
	for _, o := range []int{1, 3, 4, 5, 9, 0} { // inside the length word, at the type byte, inside the id, inside a string, all but the last byte
		l = append(l, ofEndVar{End: "eof-mid", Off: o})
	}
	for _, n := range ofTrErrNames {
		l = append(l, ofEndVar{End: "break-err", Err: n})
	}
	for i, o := range []int{1, 4, 5, 0} {
		if thorough {
			for _, n := range ofTrErrNames {
				l = append(l, ofEndVar{End: "break-mid", Off: o, Err: n})
			}
		} else {
			l = append(l, ofEndVar{End: "break-mid", Off: o, Err: ofTrErrNames[(i*5+1)%len(ofTrErrNames)]})
		}
	}
	for _, e := range []string{"srv-close", "srv-close2", "srv-close-conc", "srv-close-eof", "eof-srv-close", "srv-close-after"} {
		l = append(l, ofEndVar{End: e})
	}
	for _, n := range []int{1, 4, 16} {
		for off := 0; off < 2; off++ {
			l = append(l, ofEndVar{End: "srv-close-inflight", N: n, Off: off})
		}
	}
	for _, n := range []int{1, 3} {
		l = append(l, ofEndVar{End: "srv-close-held", N: n})
	}
	for _, er := range []string{"EPIPE", "closed-pipe", "custom"} {
		for _, n := range []int{1, 3} {
			l = append(l, ofEndVar{End: "write-fail", Err: er, N: n})
		}
	}
	l = append(l, ofEndVar{End: "write-fail-close", Err: "EPIPE", N: 2}, ofEndVar{End: "write-fail-close", Err: "ECONNRESET", N: 5}, ofEndVar{End: "write-fail-srv-close", Err: "closed-pipe", N: 2})
	for _, b := range ofBadKinds {
		l = append(l, ofEndVar{End: "badpkt", Bad: b})
	}
	return
}

// ofGenE: every handle population x every way the session ends; os: family O on the os-backed server.
func ofGenE(thorough bool, rng *rand.Rand, osBacked bool) (out []ofCase) {
	maxOpen := 2
	if thorough {
		maxOpen = 3
	}
	vars := ofEndVariants(thorough)
	kinds := []string{"r", "w", "rw", "dir"}
	n := 0
	var cnt [4]int
	var rec func(k int)
	rec = func(k int) {
		if k < 4 {
			for c := 0; c <= maxOpen; c++ {
				cnt[k] = c
				rec(k + 1)
			}
			return
		}
		for vi, v := range vars {
			if osBacked && (v.End == "srv-close-held" || (!thorough && (vi+cnt[0]+cnt[1]+cnt[2]+cnt[3])%3 != 0)) {
				continue // family O, quick: every population meets a rotating third of the ends
			}
			n++
			cs := ofCase{Family: "E", End: v.End, EndErr: v.Err, EndOff: v.Off, EndN: v.N, EndBad: v.Bad,
				Cfg: ofCfg{OpenFile: n%3 != 0, Alloc: n%2 == 0, Lstat: n%5 == 0}}
			if osBacked {
				cs.Family, cs.Cfg = "O", ofCfg{OS: true, Alloc: n%2 == 0}
			}
			// the opens: cnt[k] handles of kind k stay open, and (PRNG, half of the kinds) one more is closed before the end
			type hd struct {
				kind  string
				close bool
			}
			var hs []hd
			for ki, kd := range kinds {
				for c := 0; c < cnt[ki]; c++ {
					hs = append(hs, hd{kd, false})
				}
				if rng.Intn(2) == 0 {
					hs = append(hs, hd{kd, true})
				}
			}
			rng.Shuffle(len(hs), func(a, b int) { hs[a], hs[b] = hs[b], hs[a] })
			var toClose []int
			for _, h := range hs {
				i := len(cs.Steps)
				st := ofStep{Op: "open", Path: map[string]string{"r": "/a.txt", "w": "/b.bin", "rw": "/a.txt"}[h.kind], Mode: h.kind}
				if h.kind == "dir" {
					st = ofStep{Op: "opendir", Path: "/d"}
				}
				if !osBacked {
					st.Obj = &ofObjSpec{NoTE: rng.Intn(6) == 0, NoCloser: rng.Intn(8) == 0}
				}
				cs.Steps = append(cs.Steps, st)
				if rng.Intn(2) == 0 { // the handle is used before the session ends
					op := map[string]string{"r": "read", "w": "write", "rw": []string{"read", "write"}[rng.Intn(2)], "dir": "readdir"}[h.kind]
					cs.Steps = append(cs.Steps, ofStep{Op: op, H: i})
				}
				if h.close {
					toClose = append(toClose, i)
				}
			}
			for _, i := range toClose {
				cs.Steps = append(cs.Steps, ofStep{Op: "close", H: i})
			}
			cs.Steps = append(cs.Steps, ofStep{Op: "stat", Path: "/a.txt"})
			out = append(out, cs)
		}
	}
	rec(0)
	return out
}

// ---------- family O: the os-backed server ----------

var (
	ofOSRootOnce sync.Once
	ofOSRoot     string
	ofOSRootErr  error
)

// ofOSTree: one scratch tree per (child) process, files rewritten before every case.
func ofOSTree() (string, error) {
	ofOSRootOnce.Do(func() {
		ofOSRoot, ofOSRootErr = lib.MkScratch("c11ends-*")
		if ofOSRootErr == nil {
			ofOSRoot, ofOSRootErr = filepath.EvalSymlinks(ofOSRoot)
		}
	})
	if ofOSRootErr != nil {
		return "", ofOSRootErr
	}
	root := ofOSRoot
	if err := os.MkdirAll(filepath.Join(root, "d"), 0o755); err != nil {
		return "", err
	}
	for _, f := range []string{"a.txt", "b.bin", "d/f0", "d/f1"} {
		if err := os.WriteFile(filepath.Join(root, f), ofData, 0o644); err != nil {
			return "", err
		}
	}
	return root, nil
}

func ofRunOS(cs ofCase) (res ofResult) {
	k := lib.NewCase(cs.class())
	add := func(f ofFinding) {
		if strings.HasPrefix(f.Key, "os/") {
			f.Key += "/end=" + cs.End
		}
		res.Findings = append(res.Findings, f)
	}
	root, err := ofOSTree()
	if err != nil {
		add(ofFinding{Key: "tie/objfault/scratch", What: err.Error()})
		return
	}
	if fds := ssFDs(root); len(fds) != 0 {
		add(ofFinding{Key: "tie/objfault/descriptors-before-the-case", What: strings.Join(fds, " ")})
		return
	}
	c2sR, c2sW := io.Pipe()
	s2cR, s2cW := io.Pipe()
	rwc := ofConn{Reader: c2sR, Writer: s2cW, close: func() { c2sR.Close(); s2cW.Close() }}
	var opts []sftp.ServerOption
	if cs.Cfg.Alloc {
		opts = append(opts, sftp.WithAllocator())
	}
	srv, err := peers.NewOSServer(rwc, opts...)
	if err != nil {
		add(ofFinding{Key: "tie/server-start", What: err.Error()})
		return
	}
	done := make(chan error, 1)
	stopped := make(chan struct{})
	go func() {
		err := srv.Serve()
		s2cW.Close()
		c2sR.Close()
		close(stopped)
		done <- err
	}()
	frames := make(chan wire.Pkt, 256)
	go func() {
		defer close(frames)
		for {
			p, err := wire.ReadFrame(s2cR)
			if err != nil {
				io.Copy(io.Discard, s2cR)
				return
			}
			frames <- p
		}
	}()
	send := func(b []byte) bool {
		ec := make(chan error, 1)
		go func() { _, err := c2sW.Write(b); ec <- err }()
		err, ok := lib.WaitCase(k, hangDeadline, ec)
		return ok && err == nil
	}
	recv := func() (wire.Pkt, bool) {
		p, ok := lib.WaitCase(k, hangDeadline, frames)
		return p, ok && p.Typ != 0
	}
	abort := func() {
		e := errors.New("connection reset by peer")
		c2sW.CloseWithError(e)
		s2cR.CloseWithError(e)
		if _, ok := lib.WaitCleanup(cs.class(), 3*time.Second, done); !ok {
			res.Hung = true
		}
	}
	if !send(wire.Frame(wire.Init, wire.B{}.U32(3))) {
		add(ofFinding{Key: "os/ends/no-reply/init", What: "the server did not read INIT"})
		abort()
		return
	}
	if p, ok := recv(); !ok || p.Typ != wire.Version {
		add(ofFinding{Key: "os/ends/no-reply/init", What: "no VERSION in reply to INIT"})
		abort()
		return
	}
	handles := map[int]string{}
	closeSent := map[int]bool{}
	live := func() int {
		n := 0
		for s := range handles {
			if !closeSent[s] {
				n++
			}
		}
		return n
	}
	dead := false
	for i, st := range cs.Steps {
		res.Hist = append(res.Hist, "objfault/os/op/"+st.Op)
		id := uint32(i + 1)
		hs, hasH := handles[st.H]
		p := filepath.Join(root, st.Path)
		var f []byte
		needH := false
		switch st.Op {
		case "stat":
			f = wire.Req(wire.Stat, id, wire.B{}.Str(p))
		case "opendir":
			f = wire.Req(wire.Opendir, id, wire.B{}.Str(p))
		case "open":
			pf := uint32(wire.FRead)
			switch st.Mode {
			case "w":
				pf = wire.FWrite | wire.FCreat
			case "rw":
				pf = wire.FRead | wire.FWrite
			}
			f = wire.Req(wire.Open, id, wire.B{}.Str(p).U32(pf).U32(0))
		case "fstat":
			f, needH = wire.Req(wire.Fstat, id, wire.B{}.Str(hs)), true
		case "readdir":
			f, needH = wire.Req(wire.Readdir, id, wire.B{}.Str(hs)), true
		case "close":
			f, needH = wire.Req(wire.Close, id, wire.B{}.Str(hs)), true
		case "read":
			f, needH = wire.Req(wire.Read, id, wire.B{}.Str(hs).U64(uint64(8*(i%5))).U32(16)), true
		case "write":
			f, needH = wire.Req(wire.Write, id, wire.B{}.Str(hs).U64(uint64(8*(i%5))).Bytes(ofData[:16])), true
		default:
			add(ofFinding{Key: "tie/objfault/generator", What: "family O: unknown step " + st.Op})
			continue
		}
		if needH && !hasH {
			res.Hist = append(res.Hist, "objfault/step-not-run/its-handle-was-not-issued")
			continue
		}
		if ok, why := lib.InScratch("", p); !ok {
			add(ofFinding{Key: "tie/objfault/path-outside-scratch", What: why})
			continue
		}
		if !send(f) {
			add(ofFinding{Key: "os/ends/no-reply/" + st.Op, What: fmt.Sprintf("the server did not read request %d (%s)", i, st.Op)})
			dead = true
			break
		}
		if st.Op == "close" {
			closeSent[st.H] = true
		}
		if cs.End == "noreply" && i == len(cs.Steps)-1 {
			break
		}
		rp, ok := recv()
		if !ok {
			add(ofFinding{Key: "os/ends/no-reply/" + st.Op, What: fmt.Sprintf("no reply to request %d (%s) within %v", i, st.Op, hangDeadline), Actual: strings.Join(ssPkgGoroutines(), "\n\n")})
			dead = true
			break
		}
		if (st.Op == "open" || st.Op == "opendir") && rp.Typ == wire.Handle {
			d := wire.D{B: rp.Body}
			d.U32()
			handles[i] = d.Str()
		}
		if fds := ssFDs(root); len(fds) != live() {
			add(ofFinding{Key: "os/ends/fd-count-mismatch/" + st.Op, What: fmt.Sprintf("after step %d (%s) the number of descriptors into the tree differs from the number of live handles", i, st.Op), Expected: fmt.Sprint(live()), Actual: strings.Join(fds, " ")})
		}
	}
	if dead {
		abort()
		return
	}
	res.Objects = len(handles)
	res.Hist = append(res.Hist, fmt.Sprintf("objfault/os/live-at-end/%d", live()))
	var afterServe func()
	switch cs.End {
	case "close-eof", "close2-eof":
		var open []int
		for s := range handles {
			if !closeSent[s] {
				open = append(open, s)
			}
		}
		sort.Ints(open)
		id := uint32(len(cs.Steps) + 1)
	closing:
		for rep := 0; rep < 2; rep++ {
			for _, s := range open {
				id++
				closeSent[s] = true
				if !send(wire.Req(wire.Close, id, wire.B{}.Str(handles[s]))) {
					break closing
				}
				if _, ok := recv(); !ok {
					add(ofFinding{Key: "os/ends/no-reply/close", What: fmt.Sprintf("no reply to CLOSE of handle %q within %v", handles[s], hangDeadline)})
					break closing
				}
			}
			if cs.End != "close2-eof" {
				break
			}
		}
		c2sW.Close()
	case "break":
		e := errors.New("connection reset by peer")
		c2sW.CloseWithError(e)
		s2cR.CloseWithError(e)
	case "eof", "noreply":
		c2sW.Close()
	default:
		env := &ofEndEnv{cs: &cs, k: k, kind: "os", root: root, closeApp: rwc.Close, c2sW: c2sW, s2cR: s2cR, send: send, recv: recv, stopped: stopped,
			handles: handles, closeSent: closeSent, hist: &res.Hist, add: add}
		if !ofEndDrive(env) {
			add(ofFinding{Key: "tie/objfault/generator", What: "family O: unknown session end " + cs.End})
			c2sW.Close()
		}
		afterServe = env.after
	}
	serr, ok := lib.WaitCase(k, hangDeadline, done)
	if !ok {
		add(ofFinding{Key: "os/ends/serve-hang", What: fmt.Sprintf("Serve did not return within %v after the session ended (%s)", hangDeadline, ofEndText(&cs)), Actual: strings.Join(ssPkgGoroutines(), "\n\n")})
		res.Hung = true
		return
	}
	res.Hist = append(res.Hist, "objfault/os/serve-returned/"+cs.End+"/"+ofErrClass(serr))
	if afterServe != nil {
		afterServe()
	}
	// every file the server opened is closed: no descriptor into the tree is left
	if fds := ssFDs(root); len(fds) != 0 {
		add(ofFinding{Key: "os/ends/descriptors-left-after-serve", What: fmt.Sprintf("Serve has returned (%s; it returned %v) and %d descriptors into the served tree are still open", ofEndText(&cs), serr, len(fds)),
			Expected: "none", Actual: strings.Join(fds, " ")})
		res.Hung = true // (the descriptors stay with this process: the following cases get a fresh one, as after a hang)
	}
	return res
}
