package main

import (
	"fmt"
	"os"
	"path/filepath"
	"time"

	"github.com/pkg/sftp"

	"verifharness/lib"
	"verifharness/peers"
	"verifharness/wire"
)

func init() { register("c09", checkC09) }

type c09Req struct {
	Desc   string `json:"desc"`
	Typ    int    `json:"typ"`
	Pflags uint32 `json:"pflags"`
	Ext    string `json:"ext"`
	Target string `json:"target"` // file | missing | dir | link | dlink
	AFlags uint32 `json:"attr_flags"`
	Handle string `json:"handle_from"` // "", "file" (READ-only open) or "dir" (opendir)
}

func c09Tree(root string) {
	os.RemoveAll(root)
	os.MkdirAll(filepath.Join(root, "dir"), 0o755)
	os.WriteFile(filepath.Join(root, "file"), []byte("hello world"), 0o644)
	os.WriteFile(filepath.Join(root, "dir", "inner"), []byte("x"), 0o600)
	os.Symlink("file", filepath.Join(root, "link"))
	os.Symlink("dir", filepath.Join(root, "dlink"))
	old := time.Unix(1_000_000_000, 0)
	for _, n := range []string{"dir/inner", "dir", "file"} {
		os.Chtimes(filepath.Join(root, n), old, old)
	}
	os.Chtimes(root, old, old)
}

// c09Frame builds the request frame for r against the tree at root; h is an open handle where needed.
func c09Frame(r c09Req, id uint32, root, h string) []byte {
	p := filepath.Join(root, r.Target)
	p2 := filepath.Join(root, "new-"+r.Target)
	attrs := wire.St{Flags: r.AFlags, Size: 3, UID: 1, GID: 1, Perm: 0o600, Atime: 12345, Mtime: 12345, Ext: [][2]string{{"a@b", "c"}}}
	switch r.Typ {
	case wire.Open:
		return wire.Req(wire.Open, id, wire.B{}.Str(p).U32(r.Pflags).Raw(attrs.Block()))
	case wire.Close, wire.Fstat, wire.Readdir:
		return wire.Req(byte(r.Typ), id, wire.B{}.Str(h))
	case wire.Read:
		return wire.Req(wire.Read, id, wire.B{}.Str(h).U64(0).U32(4))
	case wire.Write:
		return wire.Req(wire.Write, id, wire.B{}.Str(h).U64(0).Bytes([]byte("ZZZZ")))
	case wire.Lstat, wire.Opendir, wire.Remove, wire.Rmdir, wire.Realpath, wire.Stat, wire.Readlink:
		return wire.Req(byte(r.Typ), id, wire.B{}.Str(p))
	case wire.Setstat:
		return wire.Req(wire.Setstat, id, wire.B{}.Str(p).Raw(attrs.Block()))
	case wire.Fsetstat:
		return wire.Req(wire.Fsetstat, id, wire.B{}.Str(h).Raw(attrs.Block()))
	case wire.Mkdir:
		return wire.Req(wire.Mkdir, id, wire.B{}.Str(p2).U32(0))
	case wire.Rename:
		return wire.Req(wire.Rename, id, wire.B{}.Str(p).Str(p2))
	case wire.Symlink:
		return wire.Req(wire.Symlink, id, wire.B{}.Str(p).Str(p2))
	case wire.Extended:
		switch r.Ext {
		case "statvfs@openssh.com":
			return wire.Req(wire.Extended, id, wire.B{}.Str(r.Ext).Str(p))
		case "fsync@openssh.com":
			return wire.Req(wire.Extended, id, wire.B{}.Str(r.Ext).Str(h))
		default:
			return wire.Req(wire.Extended, id, wire.B{}.Str(r.Ext).Str(p).Str(p2))
		}
	}
	return wire.Req(byte(r.Typ), id, wire.B{}.Str(p))
}

func c09Cases(thorough bool) []c09Req {
	var out []c09Req
	targets := []string{"file", "missing", "dir", "link", "dlink"}
	for _, t := range targets {
		for pf := uint32(0); pf < 64; pf++ {
			out = append(out, c09Req{Desc: "open", Typ: wire.Open, Pflags: pf, Target: t, AFlags: wire.APerm})
		}
		for _, typ := range []int{wire.Lstat, wire.Opendir, wire.Remove, wire.Mkdir, wire.Rmdir, wire.Realpath, wire.Stat, wire.Rename, wire.Readlink, wire.Symlink} {
			out = append(out, c09Req{Desc: "path-request", Typ: typ, Target: t})
		}
		for _, e := range []string{"statvfs@openssh.com", "posix-rename@openssh.com", "hardlink@openssh.com", "fsync@openssh.com", "unknown@example.com", ""} {
			out = append(out, c09Req{Desc: "extended", Typ: wire.Extended, Ext: e, Target: t, Handle: "file"})
		}
		for _, af := range []uint32{0, 1, 2, 4, 8, 3, 5, 9, 6, 10, 12, 7, 11, 13, 14, 15, wire.AExt, wire.AExt | 15} {
			out = append(out, c09Req{Desc: "setstat", Typ: wire.Setstat, Target: t, AFlags: af})
		}
	}
	// through handles obtained read-only
	for _, hf := range []string{"file", "dir"} {
		for _, typ := range []int{wire.Read, wire.Write, wire.Fstat, wire.Readdir, wire.Close} {
			out = append(out, c09Req{Desc: "handle-request", Typ: typ, Handle: hf})
		}
		for _, af := range []uint32{0, 1, 2, 4, 8, 15, wire.AExt | 15} {
			out = append(out, c09Req{Desc: "fsetstat", Typ: wire.Fsetstat, Handle: hf, AFlags: af})
		}
	}
	// unknown type bytes (not dispatched; the session may end) are exercised by C07, not here
	return out
}

func checkC09(c *lib.Ctx) {
	r := c.R
	r.Rule = "exhaustive product: OPEN x 64 pflags x 5 targets (file, missing, dir, symlink, dir-symlink); every path request x 5 targets; SETSTAT/FSETSTAT x attribute-flag subsets; READ/WRITE/FSTAT/READDIR/CLOSE/FSETSTAT through handles obtained read-only; extended requests (3 served names, fsync, unknown, empty) against a real ReadOnly() server on a scratch tree with a full snapshot (names, modes, sizes, nlink, owners, contents, link texts, mtimes) before and after each request; non-trivial = request that may mutate per Spec, distinct by (type, pflags, ext, target, attr flags, handle kind)"
	r.Exhaustive = true
	cases := c09Cases(c.Tier == "thorough")
	if c.Replay != "" {
		var one c09Req
		if err := lib.ReadReplay(c.Replay, &one); err != nil {
			r.Fail(lib.Failure{Kind: "tie", Key: "replay", What: err.Error()})
			return
		}
		cases = []c09Req{one}
	}
	root, err := os.MkdirTemp("", "vh-c09-")
	if err != nil {
		r.Fail(lib.Failure{Kind: "tie", Key: "tmpdir", What: err.Error()})
		return
	}
	defer os.RemoveAll(root)
	tree := filepath.Join(root, "t")

	var srv *peers.Srv
	start := func() bool {
		var err error
		srv, err = peers.StartOS(sftp.ReadOnly())
		if err != nil {
			r.Fail(lib.Failure{Kind: "tie", Key: "server-start", What: err.Error()})
			return false
		}
		if _, err := srv.Handshake(); err != nil {
			r.Fail(lib.Failure{Kind: "tie", Key: "handshake", What: err.Error()})
			return false
		}
		return true
	}
	if !start() {
		return
	}
	defer func() { srv.CloseInput(); srv.Wait(5 * time.Second) }()

	var lines, impl []string
	id := uint32(100)
	c09Tree(tree)
	before := lib.Snapshot(tree, true)
	for _, q := range cases {
		id++
		h := ""
		if q.Handle != "" {
			// obtain a handle with a read-only request; this itself must not change anything
			var f []byte
			if q.Handle == "file" {
				f = wire.Req(wire.Open, id, wire.B{}.Str(filepath.Join(tree, "file")).U32(wire.FRead).U32(0))
			} else {
				f = wire.Req(wire.Opendir, id, wire.B{}.Str(filepath.Join(tree, "dir")))
			}
			p, err := srv.Call(f)
			if err != nil || p.Typ != wire.Handle {
				r.Fail(lib.Failure{Kind: "oracle", Key: "readonly-open-refused/" + q.Handle, What: fmt.Sprintf("read-only server did not hand out a handle for a pure read open: typ=%d err=%v", p.Typ, err), Input: q})
				continue
			}
			d := wire.D{B: p.Body[4:]}
			h = d.Str()
			id++
		}
		p, err := srv.Call(c09Frame(q, id, tree, h))
		after := lib.Snapshot(tree, true)
		key := fmt.Sprintf("typ%d/pf%d/ext=%s/%s/af%x/h=%s", q.Typ, q.Pflags, q.Ext, q.Target, q.AFlags, q.Handle)
		mut := c09MayMutate(q)
		r.Case(key, mut)
		r.Hist(q.Desc)
		if len(r.Samples) < 6 && (q.Pflags == 0x1a || q.Ext == "hardlink@openssh.com" || q.Typ == wire.Fsetstat) {
			r.Sample(q)
		}
		if err != nil {
			r.Fail(lib.Failure{Kind: "oracle", Key: "no-reply/" + key, What: "no reply from the read-only server: " + err.Error(), Input: q})
			srv.CloseInput()
			srv.Wait(5 * time.Second)
			if !start() {
				return
			}
			c09Tree(tree)
			before = lib.Snapshot(tree, true)
			continue
		}
		code, msg := uint32(0xffffffff), ""
		if p.Typ == wire.Status {
			d := wire.D{B: p.Body[4:]}
			code = d.U32()
			msg = d.Str()
		}
		// direct oracle 1: nothing changed
		if diff := lib.DiffSnap(before, after); len(diff) > 0 {
			r.Fail(lib.Failure{Kind: "oracle", Key: c09Key(q), What: "read-only server changed the file system", Input: q,
				Expected: "tree unchanged", Actual: diff})
			c09Tree(tree)
			before = lib.Snapshot(tree, true)
		} else if mut && !(p.Typ == wire.Status && code == wire.PermissionDenied) {
			// direct oracle 2: every modifying attempt is answered permission-denied
			r.Fail(lib.Failure{Kind: "oracle", Key: c09Key(q), What: "modifying request not answered with PERMISSION_DENIED by the read-only server", Input: q,
				Expected: "STATUS 3", Actual: fmt.Sprintf("type %d code %d %q", p.Typ, code, msg)})
		}
		// model correspondence: gate decision
		if q.Typ != wire.Close { // (a denied close would leak; CLOSE is read-only by Spec and checked by oracle 2's complement below)
			gateDenied := p.Typ == wire.Status && code == wire.PermissionDenied && msg == "operation not permitted"
			lines = append(lines, fmt.Sprintf("c09.gate %d %d %s", q.Typ, q.Pflags, lib.Hex([]byte(q.Ext))))
			if gateDenied {
				impl = append(impl, "deny")
			} else {
				impl = append(impl, "allow")
			}
		}
		if h != "" && q.Typ != wire.Close {
			id++
			srv.Call(wire.Req(wire.Close, id, wire.B{}.Str(h)))
		}
	}
	// purely reading requests keep working (spot oracle): STAT of the file answers ATTRS
	id++
	if p, err := srv.Call(wire.Req(wire.Stat, id, wire.B{}.Str(filepath.Join(tree, "file")))); err != nil || p.Typ != wire.Attrs {
		r.Fail(lib.Failure{Kind: "oracle", Key: "read-refused/stat", What: "STAT on a read-only server did not answer ATTRS", Actual: fmt.Sprint(p.Typ, err)})
	}
	c.Compare("c09", lines, impl)
}

// c09MayMutate is the harness's own (independent) reading of the property text.
func c09MayMutate(q c09Req) bool {
	switch q.Typ {
	case wire.Write, wire.Setstat, wire.Fsetstat, wire.Remove, wire.Mkdir, wire.Rmdir, wire.Rename, wire.Symlink:
		return true
	case wire.Open:
		return q.Pflags&(wire.FWrite|wire.FCreat|wire.FTrunc) != 0
	case wire.Extended:
		return q.Ext == "posix-rename@openssh.com" || q.Ext == "hardlink@openssh.com"
	}
	return false
}

// c09Key names the failing request shape (used to match known findings): type, and for OPEN the
// offending flag class, for extended requests the name.
func c09Key(q c09Req) string {
	switch q.Typ {
	case wire.Open:
		cls := ""
		if q.Pflags&wire.FWrite != 0 {
			cls += "W"
		}
		if q.Pflags&wire.FCreat != 0 {
			cls += "C"
		}
		if q.Pflags&wire.FTrunc != 0 {
			cls += "T"
		}
		return "open/" + cls
	case wire.Extended:
		return "extended/" + q.Ext
	}
	return fmt.Sprintf("type-%d", q.Typ)
}
