package main

import (
	"bytes"
	"fmt"
	"os"
	"path/filepath"
	"sort"
	"sync"
	"time"

	"github.com/pkg/sftp"

	"verifharness/lib"
	"verifharness/peers"
	"verifharness/wire"
)

func init() { register("c09", checkC09) }

// c09Cfg is the server configuration next to ReadOnly(): none of these options may open a way around the gate.
type c09Cfg struct {
	Alloc   bool   `json:"alloc"`   // WithAllocator()
	WorkDir string `json:"workdir"` // "" (option absent) | "tree" (WithServerWorkingDirectory(tree)) | "unclean" (tree written with ./, // and dir/..)
	MaxTx   uint32 `json:"max_tx"`  // 0 = option absent, else WithMaxTxPacket(MaxTx)
}

func (c c09Cfg) String() string {
	return fmt.Sprintf("alloc=%v,wd=%s,maxtx=%d", c.Alloc, c.WorkDir, c.MaxTx)
}

func (c c09Cfg) opts(tree string) []sftp.ServerOption {
	o := []sftp.ServerOption{sftp.ReadOnly()}
	if c.Alloc {
		o = append(o, sftp.WithAllocator())
	}
	switch c.WorkDir {
	case "tree":
		o = append(o, sftp.WithServerWorkingDirectory(tree))
	case "unclean":
		o = append(o, sftp.WithServerWorkingDirectory(tree+"/./dir/..//"))
	}
	if c.MaxTx != 0 {
		o = append(o, sftp.WithMaxTxPacket(c.MaxTx))
	}
	return o
}

// maxTx is the largest DATA payload the configuration allows.
func (c c09Cfg) maxTx() int {
	if c.MaxTx != 0 {
		return int(c.MaxTx)
	}
	return 32768
}

type c09Req struct {
	Desc   string `json:"desc"`
	Typ    int    `json:"typ"`
	Pflags uint32 `json:"pflags"`
	Ext    string `json:"ext"`
	Target string `json:"target"` // file | missing | dir | link | dlink | nodir/child (parent missing)
	AFlags uint32 `json:"attr_flags"`
	Handle string `json:"handle_from"` // "" | file (OPEN, read-only pflags) | link | dirfile (OPEN READ of a directory) | dir | dlink (OPENDIR) | bogus (no such handle)

	HPflags uint32   `json:"handle_pflags"` // pflags of the handle-obtaining OPEN (0 = READ)
	Var     int      `json:"variant"`       // which attribute values / write shape / second path
	Form    string   `json:"path_form"`     // "" or abs | rel | reldot | relup (relative forms need a working directory)
	Cfg     c09Cfg   `json:"cfg"`
	Reads   []string `json:"pipeline_reads,omitempty"` // non-empty: one pipelined burst  R0 X0 R1 X1 ... Rn  with X0 = this request
	More    []c09Req `json:"pipeline_more,omitempty"`  // X1, X2, ... (cycled with X0 when there are fewer than gaps)
}

const c09BigLen = 34000

func c09Big() []byte {
	b := make([]byte, c09BigLen)
	for i := range b {
		b[i] = byte(i*7 + i>>8)
	}
	return b
}

func c09Tree(root string) {
	os.RemoveAll(root)
	os.MkdirAll(filepath.Join(root, "dir"), 0o755)
	os.WriteFile(filepath.Join(root, "file"), []byte("hello world"), 0o644)
	os.WriteFile(filepath.Join(root, "big"), c09Big(), 0o644)
	os.WriteFile(filepath.Join(root, "dir", "inner"), []byte("x"), 0o600)
	os.Symlink("file", filepath.Join(root, "link"))
	os.Symlink("dir", filepath.Join(root, "dlink"))
	old := time.Unix(1_000_000_000, 0)
	for _, n := range []string{"dir/inner", "dir", "file", "big"} {
		os.Chtimes(filepath.Join(root, n), old, old)
	}
	os.Chtimes(root, old, old)
	os.Chtimes(filepath.Dir(root), old, old)
}

// c09Path writes the tree-relative name rel in the given form.
func c09Path(tree, form, rel string) string {
	switch form {
	case "rel":
		return rel
	case "reldot":
		return "./" + rel
	case "relup":
		return "dir/../" + rel
	}
	return filepath.Join(tree, rel)
}

// c09Second is the second path of two-path requests.
func c09Second(r c09Req) string {
	switch r.Var {
	case 1:
		return "dir/inner" // exists
	case 2:
		return "dir/new-" + r.Target
	}
	return "new-" + r.Target
}

// c09Attrs: every value differs from what the tree has, so applying any flagged field shows in the snapshot.
func c09Attrs(flags uint32, v int) wire.St {
	switch v {
	case 1:
		return wire.St{Flags: flags, Size: 0, UID: 65534, GID: 65534, Perm: 0o100777, Atime: 2_000_000_000, Mtime: 2_000_000_000, Ext: [][2]string{{"a@b", "c"}, {"", ""}}}
	case 2:
		return wire.St{Flags: flags, Size: 4096, UID: 0, GID: 7, Perm: 0, Atime: 1_000_000_000, Mtime: 1_000_000_001, Ext: nil}
	}
	return wire.St{Flags: flags, Size: 3, UID: 1, GID: 1, Perm: 0o600, Atime: 12345, Mtime: 12345, Ext: [][2]string{{"a@b", "c"}}}
}

// c09Frame builds the request frame for r against the tree at root; h is an open handle where needed.
func c09Frame(r c09Req, id uint32, root, h string) []byte {
	p := c09Path(root, r.Form, r.Target)
	p2 := c09Path(root, r.Form, c09Second(r))
	attrs := c09Attrs(r.AFlags, r.Var)
	switch r.Typ {
	case wire.Open:
		return wire.Req(wire.Open, id, wire.B{}.Str(p).U32(r.Pflags).Raw(attrs.Block()))
	case wire.Close, wire.Fstat, wire.Readdir:
		return wire.Req(byte(r.Typ), id, wire.B{}.Str(h))
	case wire.Read:
		return wire.Req(wire.Read, id, wire.B{}.Str(h).U64(0).U32(4))
	case wire.Write:
		switch r.Var {
		case 1:
			return wire.Req(wire.Write, id, wire.B{}.Str(h).U64(100).Bytes([]byte("Z")))
		case 2:
			return wire.Req(wire.Write, id, wire.B{}.Str(h).U64(0).Bytes(nil))
		}
		return wire.Req(wire.Write, id, wire.B{}.Str(h).U64(0).Bytes([]byte("ZZZZ")))
	case wire.Lstat, wire.Opendir, wire.Remove, wire.Rmdir, wire.Realpath, wire.Stat, wire.Readlink:
		return wire.Req(byte(r.Typ), id, wire.B{}.Str(p))
	case wire.Setstat:
		return wire.Req(wire.Setstat, id, wire.B{}.Str(p).Raw(attrs.Block()))
	case wire.Fsetstat:
		return wire.Req(wire.Fsetstat, id, wire.B{}.Str(h).Raw(attrs.Block()))
	case wire.Mkdir:
		return wire.Req(wire.Mkdir, id, wire.B{}.Str(p2).U32(0))
	case wire.Rename:
		return wire.Req(wire.Rename, id, wire.B{}.Str(p).Str(p2))
	case wire.Symlink:
		return wire.Req(wire.Symlink, id, wire.B{}.Str(p).Str(p2))
	case wire.Extended:
		switch r.Ext {
		case "statvfs@openssh.com":
			return wire.Req(wire.Extended, id, wire.B{}.Str(r.Ext).Str(p))
		case "fsync@openssh.com", "fstatvfs@openssh.com":
			return wire.Req(wire.Extended, id, wire.B{}.Str(r.Ext).Str(h))
		case "lsetstat@openssh.com":
			return wire.Req(wire.Extended, id, wire.B{}.Str(r.Ext).Str(p).Raw(c09Attrs(15, r.Var).Block()))
		default:
			return wire.Req(wire.Extended, id, wire.B{}.Str(r.Ext).Str(p).Str(p2))
		}
	}
	return wire.Req(byte(r.Typ), id, wire.B{}.Str(p))
}

var c09AFlags = []uint32{0, 1, 2, 4, 8, 3, 5, 9, 6, 10, 12, 7, 11, 13, 14, 15, wire.AExt, wire.AExt | 15, 0x40 | wire.APerm}

var c09ExtNames = []string{"statvfs@openssh.com", "posix-rename@openssh.com", "hardlink@openssh.com", "fsync@openssh.com", "unknown@example.com", "",
	"hardlink@openssh.com\x00", "HARDLINK@OPENSSH.COM", "posix-rename@openssh.co", "statvfs@openssh.com ", "fstatvfs@openssh.com", "lsetstat@openssh.com",
	"copy-data", "limits@openssh.com"}

type c09HKind struct {
	kind string
	pf   uint32
}

var c09HKinds = []c09HKind{{"file", 0}, {"file", wire.FRead | wire.FAppend}, {"file", wire.FRead | wire.FExcl}, {"file", wire.FRead | wire.FAppend | wire.FExcl},
	{"link", 0}, {"dirfile", 0}, {"dir", 0}, {"dlink", 0}, {"bogus", 0}}

// c09Base is the request product, independent of the server configuration (Cfg, Form, Var are filled in by the plan).
func c09Base() []c09Req {
	var out []c09Req
	targets := []string{"file", "missing", "dir", "link", "dlink", "nodir/child"}
	for _, t := range targets {
		for pf := uint32(0); pf < 64; pf++ {
			for _, af := range c09AFlags {
				out = append(out, c09Req{Desc: "open", Typ: wire.Open, Pflags: pf, Target: t, AFlags: af})
			}
		}
		for _, typ := range []int{wire.Lstat, wire.Opendir, wire.Remove, wire.Mkdir, wire.Rmdir, wire.Realpath, wire.Stat, wire.Rename, wire.Readlink, wire.Symlink} {
			out = append(out, c09Req{Desc: "path-request", Typ: typ, Target: t})
		}
		for _, e := range c09ExtNames {
			out = append(out, c09Req{Desc: "extended", Typ: wire.Extended, Ext: e, Target: t, Handle: "file"})
		}
		for _, af := range c09AFlags {
			out = append(out, c09Req{Desc: "setstat", Typ: wire.Setstat, Target: t, AFlags: af})
		}
	}
	// through handles obtained read-only
	for _, hk := range c09HKinds {
		for _, typ := range []int{wire.Read, wire.Write, wire.Fstat, wire.Readdir, wire.Close} {
			out = append(out, c09Req{Desc: "handle-request", Typ: typ, Handle: hk.kind, HPflags: hk.pf})
		}
		for _, af := range c09AFlags {
			out = append(out, c09Req{Desc: "fsetstat", Typ: wire.Fsetstat, Handle: hk.kind, HPflags: hk.pf, AFlags: af})
		}
	}
	// unknown type bytes (not dispatched; the session may end) are exercised by C07, not here
	return out
}

func c09Cfgs() []c09Cfg {
	var out []c09Cfg
	for _, mt := range []uint32{0, 32768, 1 << 20} {
		for _, wd := range []string{"", "tree", "unclean"} {
			for _, al := range []bool{false, true} {
				out = append(out, c09Cfg{Alloc: al, WorkDir: wd, MaxTx: mt})
			}
		}
	}
	return out
}

func c09Forms(c c09Cfg) []string {
	if c.WorkDir == "" {
		return []string{"abs"} // relative names would be resolved against the harness's own working directory
	}
	return []string{"abs", "rel", "reldot", "relup"}
}

type c09Combo struct {
	cfg  int
	form string
}

var c09ReadKinds = []string{"read0", "readmid", "readhuge", "readeof", "fstat", "stat", "lstat", "readlink", "realpath", "statmissing"}

// ---------- one server configuration ----------

type c09Out struct {
	fails     []lib.Failure
	gate      map[string]string // model line -> implementation decision
	gateOrder []string
	notes     []string
}

type c09Sess struct {
	cfg   c09Cfg
	dir   string // snapshot root: contains only the served tree t/
	tree  string
	srv   *peers.Srv
	id    uint32
	snap  []string
	out   *c09Out
	r     *lib.Result
	mu    *sync.Mutex
	big   []byte
	fatal bool
	rx    int       // bytes received from the current server
	kase  *lib.Case // hang account of the request being run (lib/budget.go)
}

func (s *c09Sess) fail(f lib.Failure) { s.out.fails = append(s.out.fails, f) }

func (s *c09Sess) start() bool {
	srv, err := peers.StartOS(s.cfg.opts(s.tree)...)
	if err != nil {
		s.fail(lib.Failure{Kind: "tie", Key: "server-start", What: err.Error(), Input: s.cfg})
		s.fatal = true
		return false
	}
	s.srv, s.rx = srv, 0
	if _, err := hHandshake(srv, s.kase); err != nil {
		s.fail(lib.Failure{Kind: "tie", Key: "handshake", What: err.Error(), Input: s.cfg})
		s.fatal = true
		return false
	}
	return true
}

func (s *c09Sess) stop() {
	if s.srv != nil {
		s.srv.CloseInput()
		hCleanupSrv(s.srv, "c09/server-exit", 5*time.Second)
	}
}

func (s *c09Sess) reset() {
	c09Tree(s.tree)
	s.snap = lib.Snapshot(s.dir, true)
}

func (s *c09Sess) restart() bool {
	s.stop()
	if !s.start() {
		return false
	}
	s.reset()
	return true
}

func (s *c09Sess) call(frame []byte) (wire.Pkt, error) {
	p, err := hCall(s.srv, s.kase, frame)
	s.rx += len(p.Body) + 5
	return p, err
}

func (s *c09Sess) nextID() uint32 { s.id++; return s.id }

func c09Status(p wire.Pkt) (uint32, string) {
	if p.Typ != wire.Status || len(p.Body) < 4 {
		return 0xffffffff, ""
	}
	d := wire.D{B: p.Body[4:]}
	code := d.U32()
	return code, d.Str()
}

func c09HandleOf(p wire.Pkt) string {
	if p.Typ != wire.Handle || len(p.Body) < 4 {
		return ""
	}
	d := wire.D{B: p.Body[4:]}
	return d.Str()
}

// obtain gets the handle a request needs with a purely reading request. must: the property promises it works.
func (s *c09Sess) obtain(kind string, pf uint32, form string) (h string, ok bool, err error) {
	var f []byte
	id := s.nextID()
	if pf == 0 {
		pf = wire.FRead
	}
	switch kind {
	case "bogus":
		return "nope", true, nil
	case "file", "big":
		f = wire.Req(wire.Open, id, wire.B{}.Str(c09Path(s.tree, form, kind)).U32(pf).U32(0))
	case "link":
		f = wire.Req(wire.Open, id, wire.B{}.Str(c09Path(s.tree, form, "link")).U32(wire.FRead).U32(0))
	case "dirfile":
		f = wire.Req(wire.Open, id, wire.B{}.Str(c09Path(s.tree, form, "dir")).U32(wire.FRead).U32(0))
	case "dlink":
		f = wire.Req(wire.Opendir, id, wire.B{}.Str(c09Path(s.tree, form, "dlink")))
	default: // "dir"
		f = wire.Req(wire.Opendir, id, wire.B{}.Str(c09Path(s.tree, form, "dir")))
	}
	p, err := s.call(f)
	if err != nil {
		return "", false, err
	}
	if p.Typ != wire.Handle {
		code, msg := c09Status(p)
		return fmt.Sprintf("typ=%d code=%d %q", p.Typ, code, msg), false, nil
	}
	return c09HandleOf(p), true, nil
}

func c09HandleMust(kind string, pf uint32) bool {
	switch kind {
	case "file", "big":
		return pf == 0 || pf == wire.FRead
	case "link", "dir", "dlink":
		return true
	}
	return false
}

func (s *c09Sess) closeH(h string) {
	if h != "" && h != "nope" {
		s.call(wire.Req(wire.Close, s.nextID(), wire.B{}.Str(h)))
	}
}

// c09Norm is what of a reply must be reproducible: type and body after the id; atime masked; statvfs numbers dropped.
func c09Norm(p wire.Pkt) string {
	if len(p.Body) < 4 {
		return fmt.Sprintf("%d:short", p.Typ)
	}
	body := p.Body[4:]
	switch p.Typ {
	case wire.Attrs:
		d := wire.D{B: body}
		st := d.St()
		st.Atime = 0
		return fmt.Sprintf("%d:%x", p.Typ, st.Block())
	case wire.ExtendedReply:
		return fmt.Sprintf("%d:len%d", p.Typ, len(body))
	case wire.Handle:
		return fmt.Sprintf("%d", p.Typ)
	}
	return fmt.Sprintf("%d:", p.Typ) + string(body)
}

func (s *c09Sess) gateLine(q c09Req, p wire.Pkt) {
	if q.Typ == wire.Close { // (a denied close would leak; CLOSE is read-only by Spec)
		return
	}
	code, msg := c09Status(p)
	line := fmt.Sprintf("c09.gate %d %d %s", q.Typ, q.Pflags, lib.Hex([]byte(q.Ext)))
	dec := "allow"
	if p.Typ == wire.Status && code == wire.PermissionDenied && msg == "operation not permitted" {
		dec = "deny"
	}
	if old, ok := s.out.gate[line]; !ok {
		s.out.gate[line] = dec
		s.out.gateOrder = append(s.out.gateOrder, line)
	} else if old != dec {
		s.fail(lib.Failure{Kind: "oracle", Key: "gate-unstable/" + c09Key(q), What: "the same request shape is once refused and once let through by the read-only gate of one server", Input: q, Expected: old, Actual: dec})
	}
}

func c09CaseKey(q c09Req) string {
	k := fmt.Sprintf("typ%d/pf%d/ext=%s/%s/af%x/h=%s.%d/v%d/%s/%s", q.Typ, q.Pflags, q.Ext, q.Target, q.AFlags, q.Handle, q.HPflags, q.Var, q.Form, q.Cfg)
	if len(q.Reads) > 0 {
		k += fmt.Sprintf("/pipe%v", q.Reads)
		for _, m := range q.More {
			k += "+" + c09CaseKey(m)
		}
	}
	return k
}

func (s *c09Sess) count(q c09Req, mut bool) {
	s.mu.Lock()
	defer s.mu.Unlock()
	r := s.r
	r.Case(c09CaseKey(q), mut)
	if len(q.Reads) > 0 {
		r.Hist("pipeline")
		r.Hist(fmt.Sprintf("pipeline-len-%d", 2*len(q.Reads)-1))
		for _, k := range q.Reads {
			r.Hist("pipe-read/" + k)
		}
	} else {
		r.Hist(q.Desc)
	}
	r.Hist("cfg/alloc=" + fmt.Sprint(q.Cfg.Alloc))
	r.Hist("cfg/workdir=" + q.Cfg.WorkDir)
	r.Hist(fmt.Sprintf("cfg/maxtx=%d", q.Cfg.MaxTx))
	r.Hist("form/" + q.Form)
	r.Hist(fmt.Sprintf("variant/%d", q.Var))
	if q.Typ == wire.Open {
		if c09MayMutate(q) {
			r.Hist("open/denied-pflags")
		} else {
			r.Hist(fmt.Sprintf("open/reading-pflags/af%x", q.AFlags))
		}
	}
	if q.Handle != "" && q.Typ != wire.Extended {
		r.Hist(fmt.Sprintf("handle/%s.%d", q.Handle, q.HPflags))
	}
}

func (s *c09Sess) noReply(q c09Req, err error) {
	s.fail(lib.Failure{Kind: "oracle", Key: "no-reply/" + c09Key(q), What: "no reply from the read-only server: " + err.Error(), Input: q})
	s.restart()
}

// checkTree is direct oracle 1: the whole served tree (and its parent) is as before.
func (s *c09Sess) checkTree(q c09Req, keyPrefix string) bool {
	after := lib.Snapshot(s.dir, true)
	if diff := lib.DiffSnap(s.snap, after); len(diff) > 0 {
		s.fail(lib.Failure{Kind: "oracle", Key: keyPrefix + c09Key(q), What: "read-only server changed the file system", Input: q,
			Expected: "tree unchanged", Actual: diff})
		s.reset()
		return false
	}
	return true
}

// runOne: obtain handle (if any) -> the request -> (for reading path requests in a relative form: the same in absolute form) -> close; snapshot.
func (s *c09Sess) runOne(q c09Req) {
	mut := c09MayMutate(q)
	s.count(q, mut)
	h := ""
	if q.Handle != "" {
		hh, ok, err := s.obtain(q.Handle, q.HPflags, q.Form)
		if err != nil {
			s.noReply(q, err)
			return
		}
		if !ok {
			if c09HandleMust(q.Handle, q.HPflags) {
				s.fail(lib.Failure{Kind: "oracle", Key: "readonly-open-refused/" + q.Handle, What: "read-only server did not hand out a handle for a pure read open: " + hh, Input: q})
			} else {
				s.mu.Lock()
				s.r.Hist("handle-unavailable/" + q.Handle)
				s.mu.Unlock()
				s.checkTree(q, "")
			}
			return
		}
		h = hh
	}
	p, err := s.call(c09Frame(q, s.nextID(), s.tree, h))
	if err != nil {
		s.noReply(q, err)
		return
	}
	code, msg := c09Status(p)
	var toClose []string
	if p.Typ == wire.Handle {
		toClose = append(toClose, c09HandleOf(p))
	}
	// reads keep working, whatever the spelling of the path: same answer as for the absolute spelling
	if !mut && q.Handle == "" && q.Form != "abs" && q.Form != "" {
		q2 := q
		q2.Form = "abs"
		p2, err := s.call(c09Frame(q2, s.nextID(), s.tree, ""))
		if err != nil {
			s.noReply(q, err)
			return
		}
		if p2.Typ == wire.Handle {
			toClose = append(toClose, c09HandleOf(p2))
		}
		if a, b := c09Norm(p), c09Norm(p2); a != b {
			s.fail(lib.Failure{Kind: "oracle", Key: fmt.Sprintf("read-differs-by-path-form/type-%d", q.Typ), What: "a purely reading request is answered differently for a relative path under the working directory than for the same absolute path", Input: q, Expected: c09Short(b), Actual: c09Short(a)})
		}
	}
	if q.Typ != wire.Close {
		toClose = append(toClose, h)
	}
	for _, x := range toClose {
		s.closeH(x)
	}
	if s.checkTree(q, "") && mut && !(p.Typ == wire.Status && code == wire.PermissionDenied) {
		// direct oracle 2: every modifying attempt is answered permission-denied
		s.fail(lib.Failure{Kind: "oracle", Key: c09Key(q), What: "modifying request not answered with PERMISSION_DENIED by the read-only server", Input: q,
			Expected: "STATUS 3", Actual: fmt.Sprintf("type %d code %d %q", p.Typ, code, msg)})
	}
	s.gateLine(q, p)
}

// readFrame builds one of the purely reading requests of a pipelined burst.
func (s *c09Sess) readFrame(kind string, id uint32, form, hf, hb string) []byte {
	switch kind {
	case "read0":
		return wire.Req(wire.Read, id, wire.B{}.Str(hf).U64(0).U32(4))
	case "readmid":
		return wire.Req(wire.Read, id, wire.B{}.Str(hb).U64(500).U32(40000))
	case "readhuge":
		return wire.Req(wire.Read, id, wire.B{}.Str(hb).U64(0).U32(300000))
	case "readeof":
		return wire.Req(wire.Read, id, wire.B{}.Str(hf).U64(1000).U32(10))
	case "fstat":
		return wire.Req(wire.Fstat, id, wire.B{}.Str(hf))
	case "stat":
		return wire.Req(wire.Stat, id, wire.B{}.Str(c09Path(s.tree, form, "file")))
	case "lstat":
		return wire.Req(wire.Lstat, id, wire.B{}.Str(c09Path(s.tree, form, "link")))
	case "readlink":
		return wire.Req(wire.Readlink, id, wire.B{}.Str(c09Path(s.tree, form, "link")))
	case "realpath":
		return wire.Req(wire.Realpath, id, wire.B{}.Str(c09Path(s.tree, form, "file")))
	}
	return wire.Req(wire.Stat, id, wire.B{}.Str(c09Path(s.tree, form, "missing")))
}

// readWrong says what is wrong with the reply to a reading request ("" = as the tree dictates).
func (s *c09Sess) readWrong(kind string, p wire.Pkt) string {
	if len(p.Body) < 4 {
		return "short reply"
	}
	d := wire.D{B: p.Body[4:]}
	data := func(want []byte) string {
		if p.Typ != wire.Data {
			code, msg := c09Status(p)
			return fmt.Sprintf("expected DATA, got type %d code %d %q", p.Typ, code, msg)
		}
		got := d.Bytes()
		if !bytes.Equal(got, want) {
			return fmt.Sprintf("DATA of %d bytes, expected the %d bytes of the file at that offset (equal prefix? %v)", len(got), len(want), len(got) <= len(want) && bytes.Equal(got, want[:len(got)]))
		}
		return ""
	}
	status := func(want uint32) string {
		if code, msg := c09Status(p); p.Typ != wire.Status || code != want {
			return fmt.Sprintf("expected STATUS %d, got type %d code %d %q", want, p.Typ, code, msg)
		}
		return ""
	}
	name := func(want string) string {
		if p.Typ != wire.Name {
			code, msg := c09Status(p)
			return fmt.Sprintf("expected NAME, got type %d code %d %q", p.Typ, code, msg)
		}
		if n := d.U32(); n != 1 {
			return fmt.Sprintf("NAME with %d entries", n)
		}
		if got := d.Str(); got != want {
			return fmt.Sprintf("NAME %q, expected %q", got, want)
		}
		return ""
	}
	attrs := func(size uint64, perm uint32) string {
		if p.Typ != wire.Attrs {
			code, msg := c09Status(p)
			return fmt.Sprintf("expected ATTRS, got type %d code %d %q", p.Typ, code, msg)
		}
		st := d.St()
		if st.Flags&wire.ASize == 0 || st.Size != size || st.Flags&wire.APerm == 0 || st.Perm != perm {
			return fmt.Sprintf("ATTRS flags %x size %d perm %o, expected size %d perm %o", st.Flags, st.Size, st.Perm, size, perm)
		}
		return ""
	}
	switch kind {
	case "read0":
		return data([]byte("hell"))
	case "readmid":
		return data(s.big[500 : 500+min(40000, s.cfg.maxTx(), c09BigLen-500)])
	case "readhuge":
		return data(s.big[:min(300000, s.cfg.maxTx(), c09BigLen)])
	case "readeof":
		return status(wire.EOF)
	case "fstat", "stat":
		return attrs(11, 0o100644)
	case "lstat":
		return attrs(4, 0o120777)
	case "readlink":
		return name("file")
	case "realpath":
		return name(filepath.Join(s.tree, "file"))
	}
	return status(wire.NoSuchFile)
}

// runPipe: one burst  R0 X0 R1 X1 ... Rn  written in a single write; the reads must be answered exactly as when sent alone.
func (s *c09Sess) runPipe(q c09Req) {
	xs := append([]c09Req{q}, q.More...)
	for i := range xs {
		xs[i].Form, xs[i].Cfg = q.Form, q.Cfg
	}
	anyMut := false
	for _, x := range xs {
		anyMut = anyMut || c09MayMutate(x)
	}
	s.count(q, anyMut)
	var opened []string
	defer func() {
		for _, h := range opened {
			s.closeH(h)
		}
	}()
	get := func(kind string, pf uint32) (string, bool) {
		h, ok, err := s.obtain(kind, pf, q.Form)
		if err != nil {
			s.noReply(q, err)
			opened = nil
			return "", false
		}
		if !ok {
			if c09HandleMust(kind, pf) {
				s.fail(lib.Failure{Kind: "oracle", Key: "readonly-open-refused/" + kind, What: "read-only server did not hand out a handle for a pure read open: " + h, Input: q})
			}
			return "", false
		}
		opened = append(opened, h)
		return h, true
	}
	hf, ok1 := get("file", 0)
	if !ok1 {
		return
	}
	hb, ok2 := get("big", 0)
	if !ok2 {
		return
	}
	hx := make([]string, len(xs))
	for i, x := range xs {
		if x.Handle != "" {
			h, ok := get(x.Handle, x.HPflags)
			if !ok {
				s.mu.Lock()
				s.r.Hist("handle-unavailable/" + x.Handle)
				s.mu.Unlock()
				s.checkTree(q, "pipeline/")
				return
			}
			hx[i] = h
		}
	}
	solo := func(judge bool) (map[string]string, bool) {
		m := map[string]string{}
		for _, k := range q.Reads {
			if _, ok := m[k]; ok {
				continue
			}
			p, err := s.call(s.readFrame(k, s.nextID(), q.Form, hf, hb))
			if err != nil {
				s.noReply(q, err)
				opened = nil
				return nil, false
			}
			if w := s.readWrong(k, p); judge && w != "" {
				s.fail(lib.Failure{Kind: "oracle", Key: "read-broken/" + k, What: "a purely reading request is not answered from the file system by the read-only server", Input: q, Actual: w})
			}
			m[k] = c09Norm(p)
		}
		return m, true
	}
	ref, ok := solo(true)
	if !ok {
		return
	}
	// the burst
	type slot struct {
		id   uint32
		read string
		x    int
	}
	var slots []slot
	var burst []byte
	for i, k := range q.Reads {
		id := s.nextID()
		slots = append(slots, slot{id: id, read: k, x: -1})
		burst = append(burst, s.readFrame(k, id, q.Form, hf, hb)...)
		if i+1 < len(q.Reads) {
			xi := i % len(xs)
			id := s.nextID()
			slots = append(slots, slot{id: id, x: xi})
			burst = append(burst, c09Frame(xs[xi], id, s.tree, hx[xi])...)
		}
	}
	if err := hSend(s.srv, s.kase, burst); err != nil {
		s.noReply(q, err)
		opened = nil
		return
	}
	replies := map[uint32]wire.Pkt{}
	for range slots {
		p, err := hRecv(s.srv, s.kase, 20*time.Second)
		s.rx += len(p.Body) + 5
		if err != nil {
			s.fail(lib.Failure{Kind: "oracle", Key: "pipeline/no-reply/" + c09Key(q), What: fmt.Sprintf("only %d of %d pipelined requests were answered by the read-only server: %v", len(replies), len(slots), err), Input: q})
			opened = nil
			s.restart()
			return
		}
		if _, dup := replies[p.ID()]; dup {
			s.fail(lib.Failure{Kind: "oracle", Key: "pipeline/duplicate-reply", What: "two replies with one id in a pipelined burst", Input: q, Actual: p.ID()})
		}
		replies[p.ID()] = p
	}
	for _, sl := range slots {
		if sl.x >= 0 {
			if p, ok := replies[sl.id]; ok && p.Typ == wire.Handle {
				opened = append(opened, c09HandleOf(p))
			}
		}
	}
	ref2, ok := solo(false) // (judged by comparison with the first)
	if !ok {
		return
	}
	for _, h := range opened {
		s.closeH(h)
	}
	opened = nil
	treeOK := true
	if diff := lib.DiffSnap(s.snap, lib.Snapshot(s.dir, true)); len(diff) > 0 {
		// which request of the burst did it? each one alone on a fresh tree; only if none does, the burst as a whole is reported
		treeOK = false
		s.reset()
		nf := len(s.out.fails)
		for _, x := range xs {
			x.Reads, x.More = nil, nil
			s.runOne(x)
		}
		if len(s.out.fails) == nf {
			s.fail(lib.Failure{Kind: "oracle", Key: "pipeline/" + c09Key(q), What: "read-only server changed the file system during a pipelined burst (none of its requests does so alone)", Input: q,
				Expected: "tree unchanged", Actual: diff})
		}
		return
	}
	for _, sl := range slots {
		p, ok := replies[sl.id]
		if !ok {
			s.fail(lib.Failure{Kind: "oracle", Key: "pipeline/unanswered", What: "a pipelined request got no reply of its own id", Input: q, Actual: fmt.Sprint(sl)})
			continue
		}
		if sl.x < 0 {
			if ref[sl.read] != ref2[sl.read] {
				s.out.notes = append(s.out.notes, "reference reply for "+sl.read+" not reproducible; burst not judged")
				continue
			}
			if got := c09Norm(p); got != ref[sl.read] {
				what := s.readWrong(sl.read, p)
				s.fail(lib.Failure{Kind: "oracle", Key: "pipeline/read-disturbed/" + sl.read, What: "a read pipelined around other requests is answered differently from the same read sent alone", Input: q,
					Expected: c09Short(ref[sl.read]), Actual: c09Short(got) + " " + what})
			}
			continue
		}
		x := xs[sl.x]
		code, msg := c09Status(p)
		if treeOK && c09MayMutate(x) && !(p.Typ == wire.Status && code == wire.PermissionDenied) {
			s.fail(lib.Failure{Kind: "oracle", Key: "pipeline/" + c09Key(x), What: "modifying request inside a pipelined burst not answered with PERMISSION_DENIED by the read-only server", Input: q,
				Expected: "STATUS 3", Actual: fmt.Sprintf("type %d code %d %q", p.Typ, code, msg)})
		}
		s.gateLine(x, p)
	}
}

func c09Short(s string) string {
	if len(s) > 64 {
		return fmt.Sprintf("%q…(%d bytes)", s[:64], len(s))
	}
	return fmt.Sprintf("%q", s)
}

func (s *c09Sess) run(q c09Req) {
	if s.fatal {
		return
	}
	// hang class: the request type (and the extended request's name): a server that does not answer one kind of
	// request stops that kind once the hang budget is used up, the others go on
	class := fmt.Sprintf("c09/type-%d", q.Typ)
	if q.Ext != "" {
		class += "/" + q.Ext
	}
	if lib.Stop(class) {
		return
	}
	s.kase = lib.NewCase(class)
	// containment (peers/guard.go): the generated names all lie in the served tree; a request (of a replay file,
	// of a future generator) whose paths leave the scratch directory is not sent to the os-backed server
	for _, x := range append([]c09Req{q}, q.More...) {
		x.Form, x.Cfg = q.Form, q.Cfg
		if ok, _ := s.srv.Contained(c09Frame(x, 1, s.tree, "0")); !ok {
			s.r.Hist(lib.NotRunBucket)
			return
		}
	}
	if len(q.Reads) > 0 {
		s.runPipe(q)
	} else {
		s.runOne(q)
	}
}

// ---------- the plan ----------

func checkC09(c *lib.Ctx) {
	r := c.R
	thorough := c.Tier == "thorough"
	r.Rule = "request product: OPEN x 64 pflags x 19 attribute-flag words (all 16 subsets of SIZE/UIDGID/PERMISSIONS/ACMODTIME, EXTENDED, unknown bit; every value differs from the tree) x 6 targets (file, missing, dir, symlink, dir-symlink, child of a missing directory); every path request x 6 targets; SETSTAT and FSETSTAT x 19 attribute-flag words; READ/WRITE/FSTAT/READDIR/CLOSE/FSETSTAT through handles obtained read-only (OPEN with each of the 4 reading pflags, OPEN of a symlink, OPEN of a directory, OPENDIR, OPENDIR of a symlink, unknown handle); extended requests (3 served names, 11 unknown/near-miss names). Configuration: ReadOnly() x WithAllocator{off,on} x WithServerWorkingDirectory{absent, tree, tree spelt unclean} x WithMaxTxPacket{absent, 32768, 1 MiB}, one real server and one scratch tree per configuration (run in parallel); path form {absolute; with a working directory also relative, ./relative, dir/../relative}; 3 value sets for attributes / WRITE shape / second path. thorough: the full product; quick: every request that the gate lets through (reading OPENs with every attribute word, reading path/handle requests) under every second (configuration, path form) pair (parity alternates with case index and seed), every other request under 4 of the 54 pairs rotated with the case index and the seed, value set rotated. Pipelined bursts R0 X R1 X' R2 (one write): reads (READ of 4, 40000, 300000 bytes and at EOF, FSTAT, STAT, LSTAT, READLINK, REALPATH, STAT missing) around every request of the product (+ PRNG bursts of up to 6 reads in thorough): reads must be answered byte-identically to the same read alone (atime masked) and as the tree dictates (READ length = min(len, max tx packet, rest of file)). Oracle: full snapshot (names, types+modes, sizes, nlink, owners, content hashes, link texts, mtimes) of the served tree and its parent before and after each case (handle open, request, absolute-form twin, close); modifying requests answered PERMISSION_DENIED; reading path requests answered the same for every path form. non-trivial = request that may mutate per Spec, distinct by (type, pflags, ext, target, attr flags, handle kind, variant, path form, configuration)"
	r.Exhaustive = thorough
	base := c09Base()
	cfgs := c09Cfgs()
	var combos []c09Combo
	for i, cf := range cfgs {
		for _, f := range c09Forms(cf) {
			combos = append(combos, c09Combo{i, f})
		}
	}
	nc := len(combos)
	seed := int(c.Seed % 1000)
	if seed < 0 {
		seed = -seed
	}

	// PRNG bursts are drawn up front (one generator); everything else is enumerated lazily per configuration.
	prng := make([][]c09Req, len(cfgs))
	var replay []c09Req
	if c.Replay != "" {
		var idIn c09IdInput
		if err := lib.ReadReplay(c.Replay, &idIn); err == nil && idIn.Family == "identity" {
			root, err := lib.MkScratch("vh-c09-")
			if err != nil {
				r.Fail(lib.Failure{Kind: "tie", Key: "tmpdir", What: err.Error()})
				return
			}
			defer os.RemoveAll(root)
			c09Identity(c, root, &idIn)
			return
		}
		var one c09Req
		if err := lib.ReadReplay(c.Replay, &one); err != nil {
			r.Fail(lib.Failure{Kind: "tie", Key: "replay", What: err.Error()})
			return
		}
		if one.Form == "" {
			one.Form = "abs"
		}
		cfgs = []c09Cfg{one.Cfg}
		replay = []c09Req{one}
	} else if thorough {
		for _, cb := range combos {
			for n := 0; n < 300; n++ {
				q := base[c.Rand.Intn(len(base))]
				q.Var = c.Rand.Intn(3)
				nr := 2 + c.Rand.Intn(5)
				for t := 0; t < nr; t++ {
					q.Reads = append(q.Reads, c09ReadKinds[c.Rand.Intn(len(c09ReadKinds))])
				}
				for t := c.Rand.Intn(nr); t > 0; t-- {
					m := base[c.Rand.Intn(len(base))]
					m.Var = c.Rand.Intn(3)
					q.More = append(q.More, m)
				}
				q.Cfg, q.Form = cfgs[cb.cfg], cb.form
				prng[cb.cfg] = append(prng[cb.cfg], q)
			}
		}
	}
	// gen enumerates the cases of configuration ci, in a fixed order.
	gen := func(ci int, emit func(c09Req)) {
		if replay != nil {
			for _, q := range replay {
				emit(q)
			}
			return
		}
		add := func(q c09Req, cb c09Combo) {
			if cb.cfg == ci {
				q.Cfg, q.Form = cfgs[cb.cfg], cb.form
				emit(q)
			}
		}
		for i, q := range base {
			usesVar := q.AFlags != 0 || q.Typ == wire.Write || q.Typ == wire.Rename || q.Typ == wire.Symlink || q.Typ == wire.Mkdir || q.Typ == wire.Extended
			every := !c09MayMutate(q)
			for j, cb := range combos {
				if cb.cfg != ci {
					continue
				}
				if thorough {
					nv := 1
					if usesVar {
						nv = 3
					}
					for v := 0; v < nv; v++ {
						q.Var = v
						add(q, cb)
					}
					continue
				}
				sel := every && (i+j+seed)%2 == 0
				for k := 0; k < 4 && !sel; k++ {
					sel = (i*7+seed*5+k*9)%nc == j
				}
				if sel {
					q.Var = 0
					if usesVar {
						q.Var = (i + j + seed) % 3
					}
					add(q, cb)
				}
			}
		}
		// pipelined bursts around every request of the product
		per := 1
		if thorough {
			per = 6
		}
		for i, q := range base {
			for k := 0; k < per; k++ {
				j := (i*11 + seed*3 + k*9) % nc
				if combos[j].cfg != ci {
					continue
				}
				q.Var = (i + k + seed) % 3
				q.Reads = nil
				for t := 0; t < 3; t++ {
					q.Reads = append(q.Reads, c09ReadKinds[(i+k*3+t*(1+i%7)+seed)%len(c09ReadKinds)])
				}
				q.More = []c09Req{base[(i*13+k+seed*17+1)%len(base)]}
				q.More[0].Var = (i + 1) % 3
				add(q, combos[j])
			}
		}
		for _, q := range prng[ci] {
			emit(q)
		}
	}

	root, err := lib.MkScratch("vh-c09-")
	if err != nil {
		r.Fail(lib.Failure{Kind: "tie", Key: "tmpdir", What: err.Error()})
		return
	}
	defer os.RemoveAll(root)

	// a few written-out cases
	for ci := range cfgs {
		if ci%4 != 3 || replay != nil {
			continue
		}
		taken := false
		gen(ci, func(q c09Req) {
			if taken {
				return
			}
			switch ci / 4 {
			case 0:
				taken = q.Pflags == 0x21 && q.AFlags == 5 && q.Form != "abs"
			case 1:
				taken = q.Ext == "hardlink@openssh.com"
			case 2:
				taken = q.Typ == wire.Fsetstat && q.Handle == "dirfile"
			default:
				taken = len(q.Reads) > 0
			}
			if taken {
				r.Sample(q)
			}
		})
	}

	// the host-identity family (c09_ident.go) runs in child processes next to the sessions below
	var idWG sync.WaitGroup
	if replay == nil {
		r.Rule += c09IdRule
		idWG.Add(1)
		go func() {
			defer idWG.Done()
			c09Identity(c, root, nil)
		}()
	}
	defer idWG.Wait()

	outs := make([]*c09Out, len(cfgs))
	var mu sync.Mutex
	var wg sync.WaitGroup
	big := c09Big()
	for ci := range cfgs {
		outs[ci] = &c09Out{gate: map[string]string{}}
		wg.Add(1)
		go func(ci int) {
			defer wg.Done()
			dir := filepath.Join(root, fmt.Sprintf("cfg%02d", ci))
			s := &c09Sess{cfg: cfgs[ci], dir: dir, tree: filepath.Join(dir, "t"), id: 100, out: outs[ci], r: r, mu: &mu, big: big}
			os.MkdirAll(dir, 0o755)
			c09Tree(s.tree)
			if !s.start() {
				return
			}
			defer s.stop()
			s.reset()
			n := 0
			gen(ci, func(q c09Req) {
				if n++; (n%5000 == 0 || s.rx > 4<<20) && !s.fatal {
					// a fresh server now and then (the raw peer keeps every byte the server ever wrote)
					s.restart()
				}
				s.run(q)
			})
			if s.fatal {
				return
			}
			// purely reading requests keep working (spot oracle at the end of the session): STAT of the file answers ATTRS
			if p, err := s.call(wire.Req(wire.Stat, s.nextID(), wire.B{}.Str(filepath.Join(s.tree, "file")))); err != nil || p.Typ != wire.Attrs {
				s.fail(lib.Failure{Kind: "oracle", Key: "read-refused/stat", What: "STAT on a read-only server did not answer ATTRS", Input: s.cfg, Actual: fmt.Sprint(p.Typ, err)})
			}
		}(ci)
	}
	wg.Wait()

	// merge, in configuration order
	gate := map[string]string{}
	var lines, impl []string
	notes := map[string]int{}
	for ci, o := range outs {
		for _, f := range o.fails {
			r.Fail(f)
		}
		for _, n := range o.notes {
			notes[n]++
		}
		for _, l := range o.gateOrder {
			if old, ok := gate[l]; !ok {
				gate[l] = o.gate[l]
				lines = append(lines, l)
				impl = append(impl, o.gate[l])
			} else if old != o.gate[l] {
				r.Fail(lib.Failure{Kind: "oracle", Key: "gate-depends-on-configuration", What: "the read-only gate decides the same request shape differently under different server options", Input: map[string]any{"op": l, "cfg": cfgs[ci]}, Expected: old, Actual: o.gate[l]})
			}
		}
	}
	var nk []string
	for n := range notes {
		nk = append(nk, n)
	}
	sort.Strings(nk)
	for _, n := range nk {
		r.Note("%s (x%d)", n, notes[n])
	}
	c.Compare("c09", lines, impl)
}

// c09MayMutate is the harness's own (independent) reading of the property text.
func c09MayMutate(q c09Req) bool {
	switch q.Typ {
	case wire.Write, wire.Setstat, wire.Fsetstat, wire.Remove, wire.Mkdir, wire.Rmdir, wire.Rename, wire.Symlink:
		return true
	case wire.Open:
		return q.Pflags&(wire.FWrite|wire.FCreat|wire.FTrunc) != 0
	case wire.Extended:
		return q.Ext == "posix-rename@openssh.com" || q.Ext == "hardlink@openssh.com"
	}
	return false
}

// c09Key names the failing request shape (used to match known findings): type, and for OPEN the
// offending flag class, for extended requests the name.
func c09Key(q c09Req) string {
	switch q.Typ {
	case wire.Open:
		cls := ""
		if q.Pflags&wire.FWrite != 0 {
			cls += "W"
		}
		if q.Pflags&wire.FCreat != 0 {
			cls += "C"
		}
		if q.Pflags&wire.FTrunc != 0 {
			cls += "T"
		}
		return "open/" + cls
	case wire.Extended:
		return "extended/" + q.Ext
	}
	return fmt.Sprintf("type-%d", q.Typ)
}
