package main

// Comparison of the schedules forced by the C03/C04 harnesses with the Lean connection model
// (lean/Sftp/Model/ClientConn.lean through the driver op `conn.run <cfgbits> <ncallers> <token>*`).
//
// One model "caller" is ONE request (one clientConn.sendPacket / dispatchRequest): the harness's calls are
// split into their requests. What the harness observes and how it becomes tokens:
//   * the order in which requests ARRIVED at the peer is the order of the wire writes: `p l h w` of that
//     request's caller, contiguous (the interleaving of put/lock between callers is not observable; any order
//     consistent with the wire order is a legal schedule of the model, this one is the simplest);
//   * the ids seen on the wire are the sids: `n<c>` tokens are issued in increasing sid order, as late as
//     possible (just before the first wire write that needs them). An id that never shows up on the wire
//     (its call was refused by putChannel or its write failed) becomes a "ghost" caller that only draws the id;
//   * every reply the peer delivered completely, in the order it sent them: `R<sid>:<token>` (token = 4-byte
//     hash of the reply frame: the model treats payloads as opaque), followed by `r<c>` unless the call had
//     been abandoned by its context (ctx cancellation has no action in the model: the caller simply never
//     takes the result, outcome `pending`);
//   * end/cut/read error of the reply stream, also in the middle of a reply (a partial reply is not
//     expressible: it is the E that follows it): `E`, and at the end of the log `C B` and `r<c>` for every
//     request still waiting (→ lost);
//   * calls that never reached the wire and whose error class is known: "failed to send packet" →
//     `n p l x f r` before `C` (→ senderr), "connection lost" → `n p r` after `B` (→ lost).
// Compared: the schedule is enabled (`ok`), the outcome of every caller whose outcome the harness knows,
// `wire=` (arrival order of whole frames), `closed=`, `framed=`, `recv=`.

import (
	"crypto/sha256"
	"encoding/hex"
	"fmt"
	"os"
	"os/exec"
	"runtime"
	"strings"
	"sync"

	"verifharness/lib"
)

type connEv struct {
	K  string `json:"k"` // a = request arrived, r = reply delivered completely, E = reply stream ended/failed
	ID uint32 `json:"id,omitempty"`
	T  string `json:"t,omitempty"` // reply token
}

func connTok(frame []byte) string {
	h := sha256.Sum256(frame)
	return hex.EncodeToString(h[:4])
}

// connObs is what a harness run observed.
type connObs struct {
	Events   []connEv
	Base     uint32            // id drawn before the first one of this session (0 unless the counter was preset)
	Known    map[uint32]string // on-wire request id -> reply | lost | senderr | abandoned | pending; absent = not observable
	OffWire  []string          // calls that never reached the wire: lost | senderr
	Shutdown bool              // the receiver terminated (C B follow the log)
}

// connLine is a schedule ready for the driver plus the harness's expectations.
type connLine struct {
	Rest   string   `json:"rest"`    // "<ncallers> <token>*"
	Out    []string `json:"out"`     // expected outcome per caller, "" = not observable
	Wire   string   `json:"wire"`    // expected wire
	Closed int      `json:"closed"`  // expected closed
	Recv   string   `json:"recv"`    // expected receiver state
	NReq   int      `json:"n_on_wire"`
}

func (o connObs) build() connLine {
	var toks []string
	var out []string
	var wire []string
	callerOf := map[uint32]int{} // model sid -> caller
	next := uint32(1)
	newCaller := func() int { out = append(out, ""); return len(out) - 1 }
	drawUpTo := func(s uint32) {
		for next <= s && next != 0 {
			c := newCaller()
			toks = append(toks, fmt.Sprintf("n%d", c))
			callerOf[next] = c
			next++
		}
	}
	waiting := map[int]uint32{} // caller -> real id, on the wire and not yet returned
	var order []int
	sawE := false
	nreq := 0
	for _, e := range o.Events {
		s := e.ID - o.Base
		switch e.K {
		case "a":
			drawUpTo(s)
			c, ok := callerOf[s]
			if !ok {
				continue // id outside the window (cannot happen with 32-bit arithmetic and < 2^31 requests)
			}
			toks = append(toks, fmt.Sprintf("p%d", c), fmt.Sprintf("l%d", c), fmt.Sprintf("h%d", c), fmt.Sprintf("w%d", c))
			wire = append(wire, fmt.Sprint(s))
			waiting[c] = e.ID
			order = append(order, c)
			nreq++
			if k, known := o.Known[e.ID]; known && k != "reply" && k != "abandoned" {
				out[c] = k
			}
		case "r":
			c, ok := callerOf[s]
			if !ok {
				continue
			}
			toks = append(toks, fmt.Sprintf("R%d:%s", s, e.T))
			switch o.Known[e.ID] {
			case "abandoned":
				out[c] = "pending" // the reply sits in the channel nobody reads any more
			case "reply":
				toks = append(toks, fmt.Sprintf("r%d", c))
				out[c] = fmt.Sprintf("reply:%d:%s", s, e.T)
			default:
				toks = append(toks, fmt.Sprintf("r%d", c))
				out[c] = "" // the request's own result is not observable (part of a multi-request call that failed)
			}
			delete(waiting, c)
		case "E":
			if !sawE {
				toks = append(toks, "E")
				sawE = true
			}
		}
	}
	line := connLine{Recv: "running", NReq: nreq}
	if o.Shutdown {
		// calls refused or failed without reaching the wire are all alike: 64 of each class are replayed
		nOff := map[string]int{}
		var off []string
		for _, k := range o.OffWire {
			if nOff[k]++; nOff[k] <= 64 {
				off = append(off, k)
			}
		}
		o.OffWire = off
		for _, k := range o.OffWire {
			if k != "senderr" {
				continue
			}
			c := newCaller()
			toks = append(toks, fmt.Sprintf("n%d", c), fmt.Sprintf("p%d", c), fmt.Sprintf("l%d", c), fmt.Sprintf("x%d", c), fmt.Sprintf("f%d", c), fmt.Sprintf("r%d", c))
			next++
			out[c] = "senderr"
		}
		if !sawE {
			toks = append(toks, "E")
		}
		toks = append(toks, "C", "B")
		for _, c := range order {
			if id, ok := waiting[c]; ok {
				toks = append(toks, fmt.Sprintf("r%d", c))
				if k := o.Known[id]; k == "lost" || k == "senderr" {
					out[c] = k
				} else if k == "reply" {
					out[c] = "reply:?" // the harness saw this call succeed although no reply was delivered
				} else {
					out[c] = ""
				}
			}
		}
		for _, k := range o.OffWire {
			if k != "lost" {
				continue
			}
			c := newCaller()
			toks = append(toks, fmt.Sprintf("n%d", c), fmt.Sprintf("p%d", c), fmt.Sprintf("r%d", c))
			out[c] = "lost"
		}
		line.Closed, line.Recv = 1, "stopped"
	} else {
		for c, id := range waiting {
			if k := o.Known[id]; k == "" || k == "pending" || k == "reply" || k == "abandoned" {
				out[c] = "pending"
			}
		}
	}
	line.Rest = fmt.Sprintf("%d %s", len(out), strings.Join(toks, " "))
	line.Out = out
	line.Wire = "-"
	if len(wire) > 0 {
		line.Wire = strings.Join(wire, ",")
	}
	return line
}

// connDiff compares one driver answer with the expectations; "" = agree.
func connDiff(l connLine, model string) string {
	f := strings.Fields(model)
	if len(f) == 0 {
		return "empty answer"
	}
	if f[0] != "ok" {
		return "the model rejects the schedule the implementation ran: " + f[0]
	}
	kv := map[string]string{}
	for _, x := range f[1:] {
		if i := strings.IndexByte(x, '='); i > 0 {
			kv[x[:i]] = x[i+1:]
		}
	}
	var diffs []string
	for c, want := range l.Out {
		if want == "" {
			continue
		}
		if got := kv[fmt.Sprintf("c%d", c)]; got != want {
			diffs = append(diffs, fmt.Sprintf("caller %d: implementation %s, model %s", c, want, got))
		}
	}
	if kv["wire"] != l.Wire {
		diffs = append(diffs, fmt.Sprintf("wire: implementation %s, model %s", cliTrim(l.Wire, 200), cliTrim(kv["wire"], 200)))
	}
	if kv["closed"] != fmt.Sprint(l.Closed) {
		diffs = append(diffs, fmt.Sprintf("closed: implementation %d, model %s", l.Closed, kv["closed"]))
	}
	if kv["framed"] != "1" {
		diffs = append(diffs, "framed: implementation 1 (the stream split into whole frames), model "+kv["framed"])
	}
	if kv["recv"] != l.Recv {
		diffs = append(diffs, fmt.Sprintf("recv: implementation %s, model %s", l.Recv, kv["recv"]))
	}
	if len(diffs) > 6 {
		diffs = append(diffs[:6], fmt.Sprintf("… %d more", len(diffs)-6))
	}
	return strings.Join(diffs, "; ")
}

// connCompare sends the schedules to the driver in batches and reports every difference.
// inputs[i] is the replayable case that produced lines[i].
func connCompare(c *lib.Ctx, prefix string, lines []connLine, inputs []any) (compared int) {
	if len(lines) == 0 {
		return 0
	}
	if c.ModelPath == "" {
		c.R.Skip("no model driver given (--model): %d recorded schedules were not compared with conn.run", len(lines))
		return 0
	}
	cfg := gCurCfg(c, "conn", "1111111")
	if o := os.Getenv("VH_CONN_CFG"); o != "" {
		cfg = o // debugging aid: replay the schedules in another configuration (expected to differ)
	}
	// the driver accepts at most 4096 callers per schedule
	var keptL []connLine
	var keptI []any
	for i, l := range lines {
		if len(l.Out) <= 4096 {
			keptL, keptI = append(keptL, l), append(keptI, inputs[i])
		}
	}
	if d := len(lines) - len(keptL); d > 0 {
		c.R.Note("%d schedules with more than 4096 requests were not replayed in the model (driver limit)", d)
	}
	lines, inputs = keptL, keptI
	in := make([]string, len(lines))
	for i, l := range lines {
		in[i] = "conn.run " + cfg + " " + l.Rest
	}
	out, err := connModel(c, in)
	if err != nil {
		c.R.Fail(lib.Failure{Kind: "tie", Key: prefix + "/model-driver", What: err.Error()})
		return 0
	}
	for i := range in {
		compared++
		if d := connDiff(lines[i], out[i]); d != "" {
			c.R.Fail(lib.Failure{Kind: "correspondence", Key: prefix + "/conn.run", What: "recorded schedule and connection model differ: " + d,
				Input: inputs[i], Expected: map[string]any{"model": cliTrim(out[i], 1500)},
				Actual: map[string]any{"schedule": cliTrim(in[i], 3000), "implementation_outcomes": lines[i].Out}})
		}
	}
	return compared
}

// connModel is lib.Ctx.Model run as several driver processes side by side (the connection model's state is
// built from closures: a schedule of n requests costs O(n²)); lines are dealt round-robin so that long
// schedules spread evenly.
func connModel(c *lib.Ctx, lines []string) ([]string, error) {
	workers := min(runtime.NumCPU(), 12, len(lines))
	out := make([]string, len(lines))
	errs := make([]error, workers)
	var wg sync.WaitGroup
	for w := 0; w < workers; w++ {
		wg.Add(1)
		go func(w int) {
			defer wg.Done()
			var idx []int
			var sb strings.Builder
			for i := w; i < len(lines); i += workers {
				idx = append(idx, i)
				sb.WriteString(lines[i])
				sb.WriteByte('\n')
			}
			cmd := exec.Command(c.ModelPath)
			cmd.Stdin = strings.NewReader(sb.String())
			cmd.Stderr = os.Stderr
			b, err := cmd.Output()
			if err != nil {
				errs[w] = fmt.Errorf("model driver: %w", err)
				return
			}
			got := strings.Split(strings.TrimRight(string(b), "\n"), "\n")
			if len(got) != len(idx) {
				errs[w] = fmt.Errorf("model driver returned %d lines for %d cases", len(got), len(idx))
				return
			}
			for k, i := range idx {
				out[i] = got[k]
			}
		}(w)
	}
	wg.Wait()
	for _, e := range errs {
		if e != nil {
			return nil, e
		}
	}
	c.R.ModelCases += len(lines)
	return out, nil
}

// connClass maps an error returned by a client call to the model's result classes.
func connClass(errText string) string {
	switch {
	case errText == "" || errText == "nil":
		return "reply"
	case strings.Contains(errText, "failed to send packet"):
		return "senderr"
	case errText == "connection lost":
		return "lost"
	}
	return ""
}
