package main

import (
	"bytes"
	"errors"
	"fmt"
	"os"
	"path/filepath"
	"time"

	"github.com/pkg/sftp"

	"verifharness/lib"
	"verifharness/peers"
	"verifharness/wire"
)

// Fifth part of C17: the outcome of a set-attributes request as a function of the PAIR
// (attributes the entry has on disk NOW, attributes the request carries) — not of the request alone.
//
// "A set-attributes request changes exactly the attributes whose flags it carries" must hold whatever the entry
// looks like before: a request that re-states a part of the current state and changes another part (same rwx bits,
// other setuid/setgid/sticky bits; same mtime, other atime; same uid, other gid; same size) is the ordinary request
// of a mirroring client, and the place where "nothing to do" shortcuts, masks and comparisons of the wrong bits live.
//
//   mode    every (current special bits x requested special bits) combination with equal and with different rwx
//           bits, on files, directories and through a symbolic link
//   size    requested = current, smaller, larger (0 and one-byte steps included), on files carrying special bits
//   times   equal / only atime differs / only mtime differs / both / swapped, one-second steps
//   owner   equal / only uid differs / only gid differs / both / swapped, on entries carrying setuid/setgid bits
//   combo   every assignment of {not flagged, flagged = current, flagged != current} to the four attributes
//
// through Client.Chmod/Chown/Chtimes/Truncate, File.Chmod/Chown/Truncate and raw SETSTAT / FSETSTAT packets (the
// permissions word with and without file-type bits) against the os-backed server.  Oracle: the file system — the
// entry is compared with a CONTROL entry that was created identically and received the same change directly through
// package os (os.Truncate, os.Chmod, os.Chown, os.Chtimes, in the order of the flag bits): st_mode, size, owner,
// atime, mtime and content are equal, and both changes succeed or both fail.  Comparing with a control (and not with
// constants) keeps what the kernel does on its own (chown clears setuid/setgid, …) out of the verdict.

type c17PState struct {
	Mode  uint32 `json:"mode"` // rwx and setuid/setgid/sticky bits, POSIX form (12 bits)
	Size  int64  `json:"size"`
	Atime int64  `json:"atime"`
	Mtime int64  `json:"mtime"`
	UID   uint32 `json:"uid"`
	GID   uint32 `json:"gid"`
}

type c17Pair struct {
	Attr     string    `json:"attr"` // mode | size | times | owner | combo
	API      string    `json:"api"`  // Client.Chmod … File.Truncate, raw-SETSTAT, raw-FSETSTAT
	Kind     string    `json:"kind"` // file | dir | link (a symbolic link to a file: the request names the link)
	Cur      c17PState `json:"current"`
	Flags    uint32    `json:"flags"`
	Req      c17PState `json:"requested"`
	TypeBits uint32    `json:"type_bits,omitempty"` // raw requests: the file-type nibble of the permissions word
}

func (p c17Pair) String() string {
	return fmt.Sprintf("pair %s %s %s cur{%#o %d %d %d %d:%d} flags=%d req{%#o %d %d %d %d:%d} type=%#x", p.Attr, p.API, p.Kind,
		p.Cur.Mode, p.Cur.Size, p.Cur.Atime, p.Cur.Mtime, p.Cur.UID, p.Cur.GID, p.Flags,
		p.Req.Mode, p.Req.Size, p.Req.Atime, p.Req.Mtime, p.Req.UID, p.Req.GID, p.TypeBits)
}

func c17PFileMode(m uint32) os.FileMode {
	fm := os.FileMode(m & 0o777)
	if m&0o4000 != 0 {
		fm |= os.ModeSetuid
	}
	if m&0o2000 != 0 {
		fm |= os.ModeSetgid
	}
	if m&0o1000 != 0 {
		fm |= os.ModeSticky
	}
	return fm
}

func c17PContent(n int64) []byte {
	b := make([]byte, n)
	for i := range b {
		b[i] = byte(i%251) + 1 // never zero: an extension with zeros is visible
	}
	return b
}

// c17PMake puts one entry into the state cur (content, owner, mode, times), creating it when it is not there (entries
// are used again by the following cases of their kind as long as no case fails: creating and removing directories
// and links dominates the cost otherwise); the request will name p (for kind link: a symbolic link to p+".t").
func c17PMake(p, kind string, cur c17PState) error {
	t := p
	if kind == "link" {
		t = p + ".t"
	}
	var err error
	if kind == "dir" {
		if err = os.Mkdir(t, 0o700); errors.Is(err, os.ErrExist) {
			err = nil
		}
	} else {
		err = os.WriteFile(t, c17PContent(cur.Size), 0o600)
	}
	if err != nil {
		return err
	}
	if err = os.Lchown(t, int(cur.UID), int(cur.GID)); err != nil {
		return err
	}
	if err = os.Chmod(t, c17PFileMode(cur.Mode)); err != nil { // after the chown, which clears setuid/setgid
		return err
	}
	if err = os.Chtimes(t, time.Unix(cur.Atime, 0), time.Unix(cur.Mtime, 0)); err != nil {
		return err
	}
	if kind == "link" {
		if err = os.Symlink(filepath.Base(t), p); errors.Is(err, os.ErrExist) {
			err = nil
		}
	}
	return err
}

func c17PRemove(p string) {
	os.Remove(p)
	os.RemoveAll(p + ".t")
}

type c17PObs struct {
	St      c17BVStat
	Link    c17BVStat // kind link: lstat of the link itself
	Content []byte
}

func c17PObserve(p, kind string, content bool) (o c17PObs, err error) {
	t := p
	if kind == "link" {
		t = p + ".t"
		if o.Link, err = c17BVLstat(p); err != nil {
			return o, err
		}
		o.Link.Atime, o.Link.Mtime = 0, 0
	}
	if o.St, err = c17BVLstat(t); err != nil { // before the content is read (atime)
		return o, err
	}
	if kind == "dir" {
		o.St.Size = 0
	} else if content {
		o.Content, err = os.ReadFile(t)
	}
	return o, err
}

// c17PApplyOS makes the change of the request directly through package os, in the order of the flag bits' handling
// (size, permissions, owner, times), stopping at the first error as a set-attributes request does.
func c17PApplyOS(p string, q c17Pair) error {
	if q.Flags&wire.ASize != 0 {
		if err := os.Truncate(p, q.Req.Size); err != nil {
			return err
		}
	}
	if q.Flags&wire.APerm != 0 {
		if err := os.Chmod(p, c17PFileMode(q.Req.Mode)); err != nil {
			return err
		}
	}
	if q.Flags&wire.AUIDGID != 0 {
		if err := os.Chown(p, int(q.Req.UID), int(q.Req.GID)); err != nil {
			return err
		}
	}
	if q.Flags&wire.ATime != 0 {
		return os.Chtimes(p, time.Unix(q.Req.Atime, 0), time.Unix(q.Req.Mtime, 0))
	}
	return nil
}

type c17PEnv struct {
	c     *lib.Ctx
	dir   string
	n     int
	cl    *sftp.Client
	raw   *peers.Srv
	pairs []*vhPair
	raws  []*peers.Srv
	id    uint32
	hung  map[string]bool
	cut   map[string]int // cases not run because their API hung before (or the run's budgets are used up)
	odd   map[string]int
}

// connect starts a fresh os-backed server with a real client resp. a raw peer; the previous one (whose server may be
// stuck in a request) is put aside and shut down at the end of the part.
func (e *c17PEnv) connect(raw bool) error {
	if raw {
		srv, err := peers.StartOS()
		if err != nil {
			return err
		}
		if _, err := hHandshake(srv, nil); err != nil {
			return err
		}
		e.raw = srv
		e.raws = append(e.raws, srv)
		return nil
	}
	pair, err := vhStartOS(nil)
	if err != nil {
		return err
	}
	e.cl = pair.Client
	e.pairs = append(e.pairs, pair)
	return nil
}

func (e *c17PEnv) reconnect(raw bool) {
	if err := e.connect(raw); err != nil { // nothing to talk to any more: the remaining cases of these APIs are cut
		for _, api := range []string{"Client.Chmod", "Client.Truncate", "Client.Chown", "Client.Chtimes", "File.Chmod", "File.Truncate", "File.Chown", "raw-SETSTAT", "raw-FSETSTAT"} {
			if c17PRaw(api) == raw {
				e.hung["c17/pair/"+api] = true
			}
		}
	}
}

func (e *c17PEnv) shutdown() {
	for _, p := range e.pairs {
		p.Close()
	}
	for _, s := range e.raws {
		s.CloseInput()
		hCleanupSrv(s, "c17/server-exit", 5*time.Second)
	}
}

func c17PIn(q c17Pair) c17In { return c17In{Part: "pair", Pair: &q} }

func (e *c17PEnv) class(q c17Pair) string { return "c17/pair/" + q.API }

// apply sends the request through q.API; ran is false when the call was not made or not answered (hang budget).
func (e *c17PEnv) apply(q c17Pair, p string) (err error, ran bool) {
	class := e.class(q)
	if e.c.Stop(class) || e.hung[class] {
		e.cut[q.API]++
		return nil, false
	}
	hang := func() {
		e.hung[class] = true
		e.reconnect(c17PRaw(q.API)) // the other APIs go on against a server that is not wedged by this request
		e.c.R.Fail(lib.Failure{Kind: "oracle", Key: "pair/" + q.Attr + "/" + q.API + "/hang", What: q.API + " was not answered within the hang deadline", Input: c17PIn(q)})
	}
	guarded := func(f func()) {
		if ran = lib.Within(class, hangDeadline, f); !ran {
			hang()
		}
	}
	withFile := func(f func(*sftp.File) error) {
		guarded(func() {
			var fh *sftp.File
			if q.Kind == "dir" {
				fh, err = e.cl.Open(p)
			} else {
				fh, err = e.cl.OpenFile(p, os.O_RDWR)
			}
			if err == nil {
				err = f(fh)
				fh.Close()
			}
		})
	}
	switch q.API {
	case "Client.Chmod":
		guarded(func() { err = e.cl.Chmod(p, c17PFileMode(q.Req.Mode)) })
	case "Client.Truncate":
		guarded(func() { err = e.cl.Truncate(p, q.Req.Size) })
	case "Client.Chown":
		guarded(func() { err = e.cl.Chown(p, int(q.Req.UID), int(q.Req.GID)) })
	case "Client.Chtimes":
		guarded(func() { err = e.cl.Chtimes(p, time.Unix(q.Req.Atime, 0), time.Unix(q.Req.Mtime, 0)) })
	case "File.Chmod":
		withFile(func(f *sftp.File) error { return f.Chmod(c17PFileMode(q.Req.Mode)) })
	case "File.Truncate":
		withFile(func(f *sftp.File) error { return f.Truncate(q.Req.Size) })
	case "File.Chown":
		withFile(func(f *sftp.File) error { return f.Chown(int(q.Req.UID), int(q.Req.GID)) })
	case "raw-SETSTAT", "raw-FSETSTAT":
		k := lib.NewCase(class)
		attrs := wire.St{Flags: q.Flags, Size: uint64(q.Req.Size), UID: q.Req.UID, GID: q.Req.GID, Perm: q.TypeBits | q.Req.Mode, Atime: uint32(q.Req.Atime), Mtime: uint32(q.Req.Mtime)}
		call := func(typ byte, body wire.B) (wire.Pkt, error) {
			e.id++
			pk, cerr := hCall(e.raw, k, wire.Req(typ, e.id, body))
			if cerr == nil && len(pk.Body) >= 4 {
				d := wire.D{B: pk.Body[:4]}
				if got := d.U32(); got != e.id {
					cerr = fmt.Errorf("response carries id %d, request %d", got, e.id)
				}
			}
			return pk, cerr
		}
		if q.API == "raw-SETSTAT" {
			err = c17BVStatusErr(call(wire.Setstat, wire.B{}.Str(p).Raw(attrs.Block())))
		} else {
			pflags := uint32(wire.FRead | wire.FWrite)
			if q.Kind == "dir" {
				pflags = wire.FRead
			}
			op, oerr := call(wire.Open, wire.B{}.Str(p).U32(pflags).U32(0))
			if oerr != nil || op.Typ != wire.Handle {
				err = fmt.Errorf("OPEN for FSETSTAT failed: %v type %d", oerr, op.Typ)
			} else {
				hd := wire.D{B: op.Body[4:]}
				h := hd.Str()
				err = c17BVStatusErr(call(wire.Fsetstat, wire.B{}.Str(h).Raw(attrs.Block())))
				call(wire.Close, wire.B{}.Str(h))
			}
		}
		if ran = k.Hung() == 0; !ran {
			hang()
		}
	default:
		return fmt.Errorf("unknown api %q", q.API), false
	}
	return err, ran
}

func c17PStText(s c17BVStat) string {
	return fmt.Sprintf("mode=%#o size=%d owner=%d:%d atime=%d mtime=%d", s.Mode, s.Size, s.UID, s.GID, s.Atime, s.Mtime)
}

// one runs one (current, requested) pair: entry and control created alike, changed through the package resp. through
// package os, compared through lstat(2).
func (e *c17PEnv) one(q c17Pair) {
	r := e.c.R
	e.n++
	sut, ctl := filepath.Join(e.dir, "s-"+q.Kind), filepath.Join(e.dir, "c-"+q.Kind)
	fails := r.NumFailures()
	reuse := false
	defer func() {
		if !reuse || r.NumFailures() != fails { // anything unusual: the next case starts from fresh entries
			c17PRemove(sut)
			c17PRemove(ctl)
		}
	}()
	if err := errors.Join(c17PMake(sut, q.Kind, q.Cur), c17PMake(ctl, q.Kind, q.Cur)); err != nil {
		e.odd["cannot-create: "+err.Error()]++
		return
	}
	before, err1 := c17PObserve(sut, q.Kind, false)
	cbefore, err2 := c17PObserve(ctl, q.Kind, false)
	if err1 != nil || err2 != nil || before.St != cbefore.St {
		e.odd["entry and control do not start alike"]++
		return
	}
	if before.St.Mode&0o7777 != q.Cur.Mode {
		e.odd[fmt.Sprintf("mode %#o is stored as %#o", q.Cur.Mode, before.St.Mode&0o7777)]++
	}
	t0 := time.Now().Unix()
	ctlErr := c17PApplyOS(ctl, q)
	err, ran := e.apply(q, sut)
	t1 := time.Now().Unix()
	if !ran {
		return
	}
	after, err1 := c17PObserve(sut, q.Kind, true)
	want, err2 := c17PObserve(ctl, q.Kind, true)
	r.Case(q.String(), q.Flags != 0)
	r.Hist("pair-" + q.Attr + "-" + q.API)
	r.Hist("pair-kind-" + q.Kind)
	if q.Flags&wire.APerm != 0 {
		h := "pair-mode-special-"
		switch cs, rs := before.St.Mode&0o7000, q.Req.Mode&0o7000; {
		case cs == rs:
			h += "kept"
		case cs&^rs == 0:
			h += "added"
		case rs&^cs == 0:
			h += "removed"
		default:
			h += "exchanged"
		}
		if before.St.Mode&0o777 == q.Req.Mode&0o777 {
			h += "-rwx-same"
		} else {
			h += "-rwx-different"
		}
		r.Hist(h)
	}
	fail := func(attr, what string, w, a any) {
		r.Fail(lib.Failure{Kind: "oracle", Key: "pair/" + q.Attr + "/" + q.API + "/" + attr, What: what, Input: c17PIn(q), Expected: w, Actual: a})
	}
	if err1 != nil || err2 != nil {
		fail("gone", "after a set-attributes request the entry (or the control) cannot be examined any more", fmt.Sprint(err2), fmt.Sprint(err1))
		return
	}
	if (err == nil) != (ctlErr == nil) {
		fail("status", "a set-attributes request and the same change made directly through package os do not both succeed / both fail", fmt.Sprint(ctlErr), fmt.Sprint(err))
	}
	msg := "after a set-attributes request on an entry in the state `current` the file system does not show exactly the flagged attributes changed to the values sent: the entry differs from a control entry, created alike, that was changed through package os (before: " + c17PStText(before.St) + ")"
	a, w := after.St, want.St
	if a.Mode != w.Mode {
		fail("mode", msg, fmt.Sprintf("%#o", w.Mode), fmt.Sprintf("%#o", a.Mode))
	}
	if a.Size != w.Size {
		fail("size", msg, w.Size, a.Size)
	}
	if a.UID != w.UID || a.GID != w.GID {
		fail("owner", msg, fmt.Sprint(w.UID, ":", w.GID), fmt.Sprint(a.UID, ":", a.GID))
	}
	if a.Atime != w.Atime {
		fail("atime", msg, time.Unix(w.Atime, 0).UTC().String(), time.Unix(a.Atime, 0).UTC().String())
	}
	if a.Mtime != w.Mtime {
		// a truncation (and nothing else) legitimately dates the file "now" when no times are sent; whether one to
		// the current size does is the file system's business
		now := q.Flags&wire.ASize != 0 && q.Flags&wire.ATime == 0 && (a.Mtime == before.St.Mtime || (a.Mtime >= t0-1 && a.Mtime <= t1+1)) &&
			(w.Mtime == before.St.Mtime || (w.Mtime >= t0-1 && w.Mtime <= t1+1))
		if !now {
			fail("mtime", msg, time.Unix(w.Mtime, 0).UTC().String(), time.Unix(a.Mtime, 0).UTC().String())
		}
	}
	if !bytes.Equal(after.Content, want.Content) {
		fail("content", msg+" — the content differs", fmt.Sprintf("%d bytes %x…", len(want.Content), c17PHead(want.Content)), fmt.Sprintf("%d bytes %x…", len(after.Content), c17PHead(after.Content)))
	}
	if q.Kind == "link" && after.Link != before.Link {
		fail("link", "a set-attributes request naming a symbolic link changed the link itself", c17PStText(before.Link), c17PStText(after.Link))
	}
	reuse = true
}

func c17PHead(b []byte) []byte {
	if len(b) > 16 {
		return b[:16]
	}
	return b
}

// ---------- generators ----------

var (
	c17PKinds    = []string{"file", "dir", "link"}
	c17PRwx      = []uint32{0o755, 0o644, 0o777, 0, 0o600, 0o750, 0o111, 0o444, 0o711, 0o664, 0o070, 0o007}
	c17PModeAPIs = []string{"Client.Chmod", "File.Chmod", "raw-SETSTAT", "raw-FSETSTAT"}
	c17PSizeAPIs = []string{"Client.Truncate", "File.Truncate", "raw-SETSTAT", "raw-FSETSTAT"}
	c17PTimeAPIs = []string{"Client.Chtimes", "raw-SETSTAT", "raw-FSETSTAT"}
	c17POwnAPIs  = []string{"Client.Chown", "File.Chown", "raw-SETSTAT", "raw-FSETSTAT"}
	c17PRawAPIs  = []string{"raw-SETSTAT", "raw-FSETSTAT"}
	c17PSpecial  = []uint32{0, 0o4755, 0o2755, 0o6711, 0o2644, 0o1777, 0o7000, 0o4644}
)

func c17PBase() c17PState {
	return c17PState{Mode: 0o644, Size: 10, Atime: c17BVOldAtime, Mtime: c17BVOldMtime, UID: c17BVOldUID, GID: c17BVOldGID}
}

func c17PRaw(api string) bool { return api == "raw-SETSTAT" || api == "raw-FSETSTAT" }

// c17PTypeBits: the file-type nibbles a raw request's permissions word is sent with: none (what Client.Chmod sends),
// the entry's own type (what a client echoing an ATTRS reply sends); thorough: also foreign ones.
func c17PTypeBits(api, kind string, deep bool) []uint32 {
	if !c17PRaw(api) {
		return []uint32{0}
	}
	own := uint32(0x8000)
	if kind == "dir" {
		own = 0x4000
	}
	if deep {
		return []uint32{0, own, 0xA000, 0x1000, 0xF000}
	}
	return []uint32{0, own}
}

// c17POtherRwx: rwx bits different from cur — another everyday value, one bit flipped, or anything else.
func c17POtherRwx(c *lib.Ctx, cur uint32, how int) uint32 {
	for {
		var v uint32
		switch how % 3 {
		case 0:
			v = c17BVPick(c, c17PRwx)
		case 1:
			v = cur ^ (1 << uint(c.Rand.Intn(9)))
		default:
			v = uint32(c.Rand.Intn(512))
		}
		if v != cur {
			return v
		}
	}
}

func c17PairCases(c *lib.Ctx) []c17Pair {
	deep := c.Tier == "thorough"
	var out []c17Pair
	add := func(q c17Pair, apis []string) {
		for _, api := range apis {
			q.API = api
			tbs := []uint32{0}
			if q.Flags&wire.APerm != 0 {
				tbs = c17PTypeBits(api, q.Kind, deep)
			}
			for _, tb := range tbs {
				q.TypeBits = tb
				out = append(out, q)
			}
		}
	}
	// modes: 8 x 8 special-bit combinations x {same, different rwx} on every kind
	reps := 1
	if deep {
		reps = 12
	}
	for _, kind := range c17PKinds {
		for cs := uint32(0); cs < 8; cs++ {
			for rs := uint32(0); rs < 8; rs++ {
				for _, same := range []bool{true, false} {
					for k := 0; k < reps; k++ {
						rwx := c17BVPick(c, c17PRwx)
						if k >= len(c17PRwx) || (k > 0 && k%2 == 1) {
							rwx = uint32(c.Rand.Intn(512))
						}
						q := c17Pair{Attr: "mode", Kind: kind, Flags: wire.APerm, Cur: c17PBase()}
						q.Cur.Mode = cs<<9 | rwx
						q.Req.Mode = rs<<9 | rwx
						if !same {
							q.Req.Mode = rs<<9 | c17POtherRwx(c, rwx, c.Rand.Intn(3))
						}
						add(q, c17PModeAPIs)
					}
				}
			}
		}
	}
	// sizes: equal, smaller, larger
	for _, kind := range []string{"file", "link"} {
		for i, cs := range []int64{0, 1, 10, 4096, 5000} {
			reqs := []int64{cs, 0, cs / 2, cs - 1, cs + 1, 2*cs + 7, cs + 4096}
			if deep {
				reqs = append(reqs, cs+int64(c.Rand.Intn(70000)), int64(c.Rand.Intn(int(cs)+1)), 1<<20+cs)
			}
			for j, rq := range c17BVDedup(reqs) {
				if rq < 0 {
					continue
				}
				q := c17Pair{Attr: "size", Kind: kind, Flags: wire.ASize, Cur: c17PBase()}
				q.Cur.Size, q.Req.Size = cs, rq
				q.Cur.Mode = c17PSpecial[(i+j)%len(c17PSpecial)]
				if q.Cur.Mode == 0 {
					q.Cur.Mode = 0o644
				}
				add(q, c17PSizeAPIs)
			}
		}
	}
	// times: equal / only atime / only mtime / both / swapped
	tcur := [][2]int64{{c17BVOldAtime, c17BVOldMtime}, {1_400_000_000, 1_400_000_000}, {1<<31 - 1, 1 << 31}, {0, 1}}
	for _, kind := range c17PKinds {
		for i, cu := range tcur {
			a0, m0 := cu[0], cu[1]
			reqs := [][2]int64{{a0, m0}, {a0 + 1, m0}, {a0, m0 + 1}, {a0 + 86400, m0}, {a0, m0 + 86400}, {a0 + 1, m0 + 1}, {m0, a0}, {m0, m0}, {a0, a0},
				{c.Rand.Int63n(1 << 32), m0}, {a0, c.Rand.Int63n(1 << 32)}, {c.Rand.Int63n(1 << 32), c.Rand.Int63n(1 << 32)}}
			if a0 > 0 && m0 > 0 {
				reqs = append(reqs, [2]int64{a0 - 1, m0}, [2]int64{a0, m0 - 1})
			}
			if deep {
				for k := 0; k < 40; k++ {
					reqs = append(reqs, [2]int64{c.Rand.Int63n(1 << 32), m0}, [2]int64{a0, c.Rand.Int63n(1 << 32)})
				}
			}
			for j, rq := range reqs {
				q := c17Pair{Attr: "times", Kind: kind, Flags: wire.ATime, Cur: c17PBase()}
				q.Cur.Atime, q.Cur.Mtime = a0, m0
				q.Req.Atime, q.Req.Mtime = rq[0], rq[1]
				if (i+j)%3 == 0 {
					q.Cur.Mode = c17PSpecial[(i+j)%len(c17PSpecial)] | 0o600
				}
				add(q, c17PTimeAPIs)
			}
		}
	}
	// owners: equal / only uid / only gid / both / swapped, on entries with and without setuid/setgid bits
	ocur := [][2]uint32{{c17BVOldUID, c17BVOldGID}, {0, 0}, {12, 12}, {65534, 65533}}
	for _, kind := range c17PKinds {
		for i, cu := range ocur {
			u0, g0 := cu[0], cu[1]
			reqs := [][2]uint32{{u0, g0}, {u0 + 1, g0}, {u0, g0 + 1}, {u0 + 1, g0 + 1}, {g0, u0}, {0, g0}, {u0, 0}, {g0, g0}, {u0, u0}}
			if deep {
				for k := 0; k < 24; k++ {
					reqs = append(reqs, [2]uint32{c.Rand.Uint32() >> 1, g0}, [2]uint32{u0, c.Rand.Uint32() >> 1}, [2]uint32{c.Rand.Uint32() >> 1, c.Rand.Uint32() >> 1})
				}
			}
			for j, rq := range reqs {
				for _, m := range []uint32{0o644, c17PSpecial[1+(i+j)%(len(c17PSpecial)-1)]} {
					q := c17Pair{Attr: "owner", Kind: kind, Flags: wire.AUIDGID, Cur: c17PBase()}
					q.Cur.UID, q.Cur.GID, q.Cur.Mode = u0, g0, m
					q.Req.UID, q.Req.GID = rq[0], rq[1]
					add(q, c17POwnAPIs)
				}
			}
		}
	}
	// combinations: every attribute independently not flagged / flagged with its current value / flagged with another
	reps = 2
	if deep {
		reps = 24
	}
	flagOf := []uint32{wire.ASize, wire.AUIDGID, wire.APerm, wire.ATime}
	for _, kind := range c17PKinds {
		for t := 0; t < 81; t++ {
			st := [4]int{t % 3, t / 3 % 3, t / 9 % 3, t / 27 % 3}
			if kind == "dir" && st[0] != 0 {
				continue // a directory has no size to set
			}
			for k := 0; k < reps; k++ {
				q := c17Pair{Attr: "combo", Kind: kind, Cur: c17PBase()}
				q.Cur.Mode = uint32(c.Rand.Intn(8))<<9 | c17BVPick(c, c17PRwx)
				q.Cur.Size = []int64{0, 10, 5000}[c.Rand.Intn(3)]
				q.Cur.UID, q.Cur.GID = uint32(c.Rand.Intn(3))*6, uint32(c.Rand.Intn(3))*17
				for a := 0; a < 4; a++ {
					if st[a] != 0 {
						q.Flags |= flagOf[a]
					}
				}
				q.Req = c17PState{}
				if st[0] != 0 {
					q.Req.Size = q.Cur.Size
					if st[0] == 2 {
						q.Req.Size = []int64{q.Cur.Size + 1, q.Cur.Size / 2, q.Cur.Size + 4097, 3}[c.Rand.Intn(4)]
					}
				}
				if st[1] != 0 {
					q.Req.UID, q.Req.GID = q.Cur.UID, q.Cur.GID
					if st[1] == 2 {
						switch c.Rand.Intn(3) {
						case 0:
							q.Req.UID++
						case 1:
							q.Req.GID++
						default:
							q.Req.UID, q.Req.GID = q.Req.UID+5, q.Req.GID+7
						}
					}
				}
				if st[2] != 0 {
					q.Req.Mode = q.Cur.Mode
					if st[2] == 2 {
						switch c.Rand.Intn(3) {
						case 0: // only special bits differ
							q.Req.Mode ^= uint32(1+c.Rand.Intn(7)) << 9
						case 1: // only rwx bits differ
							q.Req.Mode = q.Cur.Mode&0o7000 | c17POtherRwx(c, q.Cur.Mode&0o777, c.Rand.Intn(3))
						default:
							q.Req.Mode = uint32(c.Rand.Intn(8))<<9 | c17POtherRwx(c, q.Cur.Mode&0o777, c.Rand.Intn(3))
						}
					}
				}
				if st[3] != 0 {
					q.Req.Atime, q.Req.Mtime = q.Cur.Atime, q.Cur.Mtime
					if st[3] == 2 {
						switch c.Rand.Intn(3) {
						case 0:
							q.Req.Atime += 1 + c.Rand.Int63n(1000)
						case 1:
							q.Req.Mtime += 1 + c.Rand.Int63n(1000)
						default:
							q.Req.Atime, q.Req.Mtime = c.Rand.Int63n(1<<32), c.Rand.Int63n(1<<32)
						}
					}
				}
				add(q, c17PRawAPIs)
			}
		}
	}
	return out
}

func checkC17Pairs(c *lib.Ctx, only *c17Pair) {
	r := c.R
	dir, err := lib.MkScratch("vh-c17pair-")
	if err != nil {
		r.Fail(lib.Failure{Kind: "tie", Key: "tmpdir", What: err.Error()})
		return
	}
	defer os.RemoveAll(dir)
	var cases []c17Pair
	if only != nil {
		cases = []c17Pair{*only}
	} else {
		cases = c17PairCases(c)
	}
	e := &c17PEnv{c: c, dir: dir, id: 1000, hung: map[string]bool{}, cut: map[string]int{}, odd: map[string]int{}}
	defer e.shutdown()
	if err := errors.Join(e.connect(false), e.connect(true)); err != nil {
		r.Fail(lib.Failure{Kind: "tie", Key: "os-start", What: err.Error()})
		return
	}
	sampled := map[string]bool{}
	for _, q := range cases {
		e.one(q)
		if only == nil && !sampled[q.Attr] && q.API == "raw-SETSTAT" && q.Cur.Mode&0o7000 != 0 && r.NumSamples() < 16 {
			sampled[q.Attr] = true
			r.Sample(c17PIn(q))
		}
	}
	for k, n := range e.odd {
		r.Skip("pairs: %s (%d cases) on this host", k, n)
	}
	for api, n := range e.cut {
		r.Note("pairs: %d cases through %s were not run (the API did not answer earlier, or the run's time budget is used up)", n, api)
	}
	if only == nil {
		c.R.Rule += "; (current, requested) pairs: set-attributes requests against entries PRE-SET to a state, on files, directories and through a symbolic link — modes: all 8x8 (current x requested) setuid/setgid/sticky combinations with equal and with different rwx bits; sizes: requested = current, smaller, larger (0, one-byte steps); times: equal / only atime / only mtime / both / swapped (one-second steps, 2^31); owners: equal / only uid / only gid / both / swapped on entries with setuid/setgid bits; every assignment of {not flagged, flagged = current, flagged != current} to the four attributes — through Client.Chmod/Chown/Chtimes/Truncate, File.Chmod/Chown/Truncate and raw SETSTAT/FSETSTAT (permissions word with and without type bits) against the os-backed server (oracle: lstat(2) and content of the entry equal those of a control entry, created alike, changed through os.Truncate/Chmod/Chown/Chtimes; both succeed or both fail)"
	}
}
