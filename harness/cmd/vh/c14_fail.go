package main

// C14, handler calls that FAIL. The cases of c14.go / c14_deep.go hold handler calls at gates, but every call, once
// let go, succeeds. Here a chosen subset of the ReadAt / WriteAt calls of a pipeline returns an error (EOF, errno
// values, the package's own status errors, a custom error type), a short count, or both, while the other calls of
// the pipeline sit on their gates — and then the CLOSE arrives (or the end of the session, for a handle that the
// stream never closes). The statement is the one of every other C14 case: Close of the object is entered only after
// every handler call of a request that precedes the CLOSE on the wire has returned; every such request was handed to
// the handler (or refused by the server for a reason that its place in the stream explains: a READ on a handle that
// takes writes only); Close is entered once, by the CLOSE or by the sweep at the end of the session, never by
// anything in between.
//
// Both servers: on the request server the handler objects are this file's own (with and without io.Closer, with and
// without TransferError; handles of the methods Get, Put, Open, and Put for a read-write OPEN when the handlers lack
// OpenFile); on the os-backed server the opened file is wrapped, chosen calls fail without reaching the file, and
// requests that the descriptor's mode forbids (READ on a write-only descriptor, WRITE on a read-only one) are
// passed to the file and refused by the kernel.

import (
	"bytes"
	"errors"
	"fmt"
	"io"
	"math/rand"
	"os"
	"path"
	"path/filepath"
	"sort"
	"strings"
	"sync"
	"sync/atomic"
	"syscall"
	"time"

	"github.com/pkg/sftp"

	"verifharness/lib"
	"verifharness/peers"
	"verifharness/wire"
)

type c14fOp struct {
	K   string `json:"k"` // read | write | close
	H   int    `json:"h"` // number of the handle (from 0)
	Off int64  `json:"off,omitempty"`
	Len uint32 `json:"len,omitempty"`
	// Out: what the handler call of this request returns ("" = it does its work and succeeds); see c14fOutcomes.
	Out string `json:"out,omitempty"`
	ID  uint32 `json:"id"`
}

type c14fHandle struct {
	Kind string `json:"kind"` // get | put | rw
	// request server: the optional interfaces of the object the open handler returns
	Closer bool `json:"closer,omitempty"`
	TErr   bool `json:"transfer_error,omitempty"`
}

type c14fCase struct {
	Server string `json:"server"`
	Opt    c14Opt `json:"options"`
	// NoOpenFile (request server): FilePut is not an OpenFileWriter, a read-write OPEN is served by Filewrite (method Put)
	NoOpenFile bool         `json:"no_open_file,omitempty"`
	Handles    []c14fHandle `json:"handles"`
	Ops        []c14fOp     `json:"ops"`
	Mode       string       `json:"mode"`            // gated | sleep | free
	Order      []int        `json:"order,omitempty"` // gated: the order in which the held calls return
	Grace      int          `json:"grace_ms,omitempty"`
	// EndInput (> 0): the client ends its request stream once the server has taken all of it in and EndInput-1 gates
	// have been opened (unforced modes: right after the last byte).
	EndInput int    `json:"end_input,omitempty"`
	Seed     int64  `json:"seed,omitempty"`
	Tag      string `json:"tag,omitempty"`
}

// c14fErr is an error type of the handler's own.
type c14fErr struct{ what string }

func (e *c14fErr) Error() string { return e.what }

// c14fOutcomes: the results a handler call can be told to return. n is the length of the buffer it was given.
// part: the call first does its work on the first n/2 bytes.
var c14fOutcomes = map[string]struct {
	part bool
	err  error
}{
	"":                  {false, nil},
	"short":             {true, nil},                                                              // short count, no error
	"eof":               {false, io.EOF},                                                          // (0, EOF)
	"eof-part":          {true, io.EOF},                                                           // (n/2, EOF): for a read not a failure
	"enospc":            {false, &os.PathError{Op: "write", Path: "object", Err: syscall.ENOSPC}}, // (0, no space left on device)
	"edquot":            {false, syscall.EDQUOT},
	"eio-part":          {true, syscall.EIO},      // (n/2, EIO)
	"short-write":       {true, io.ErrShortWrite}, // (n/2, short write)
	"custom":            {false, &c14fErr{"quota exceeded"}},
	"wrapped":           {false, fmt.Errorf("backend: %w", errors.New("temporarily unavailable"))},
	"not-exist":         {false, os.ErrNotExist},
	"permission":        {false, os.ErrPermission},
	"closed":            {false, os.ErrClosed},
	"unexpected-eof":    {false, io.ErrUnexpectedEOF},
	"fx-failure":        {false, sftp.ErrSSHFxFailure},
	"fx-op-unsupported": {false, sftp.ErrSSHFxOpUnsupported},
	"fx-eof":            {false, sftp.ErrSSHFxEOF},
}

var c14fFailNames = func() []string {
	var out []string
	for k, v := range c14fOutcomes {
		if v.err != nil {
			out = append(out, k)
		}
	}
	sort.Strings(out)
	return out
}()

func (o c14fOp) fails() bool { return c14fOutcomes[o.Out].err != nil }

func (o c14fOp) text() string {
	if o.K == "close" {
		return fmt.Sprintf("close(h%d)#%d", o.H, o.ID)
	}
	s := fmt.Sprintf("%s(h%d@%d+%d)#%d", o.K, o.H, o.Off, o.Len, o.ID)
	if o.Out != "" {
		s += "→" + o.Out
	}
	return s
}

func (cs *c14fCase) text() string {
	var b strings.Builder
	fmt.Fprintf(&b, "fail %s options=%s", cs.Server, cs.Opt.text())
	if cs.NoOpenFile {
		b.WriteString(" no-OpenFile")
	}
	b.WriteString(" |")
	for i, h := range cs.Handles {
		fmt.Fprintf(&b, " h%d=%s", i, h.Kind)
		if h.Closer {
			b.WriteString("+Closer")
		}
		if h.TErr {
			b.WriteString("+TransferError")
		}
	}
	b.WriteString(" |")
	for _, o := range cs.Ops {
		b.WriteString(" " + o.text())
	}
	fmt.Fprintf(&b, " | %s order=%v end=%d seed=%d", cs.Mode, cs.Order, cs.EndInput, cs.Seed)
	return b.String()
}

func c14fObjName(i int, kind string) string {
	return fmt.Sprintf("%s%d", map[string]string{"get": "f", "put": "g", "rw": "x"}[kind], i+1)
}

func (cs *c14fCase) valid() error {
	if cs.Server != "os" && cs.Server != "rs" {
		return fmt.Errorf("fail case: server %q", cs.Server)
	}
	if cs.Opt.ReadOnly {
		return fmt.Errorf("fail case: read-only server")
	}
	if len(cs.Handles) == 0 || len(cs.Handles) > 8 || len(cs.Ops) > 4000 {
		return fmt.Errorf("fail case: %d handles, %d requests", len(cs.Handles), len(cs.Ops))
	}
	for _, h := range cs.Handles {
		if h.Kind != "get" && h.Kind != "put" && h.Kind != "rw" {
			return fmt.Errorf("fail case: handle kind %q", h.Kind)
		}
	}
	if cs.Mode != "gated" && cs.Mode != "sleep" && cs.Mode != "free" {
		return fmt.Errorf("fail case: mode %q", cs.Mode)
	}
	closed := map[int]bool{}
	offs := map[string]bool{}
	ids := map[uint32]bool{}
	for _, o := range cs.Ops {
		if o.H < 0 || o.H >= len(cs.Handles) {
			return fmt.Errorf("fail case: handle number %d", o.H)
		}
		if closed[o.H] {
			return fmt.Errorf("fail case: request on h%d behind its CLOSE", o.H)
		}
		if ids[o.ID] {
			return fmt.Errorf("fail case: request id %d twice", o.ID)
		}
		ids[o.ID] = true
		switch o.K {
		case "close":
			closed[o.H] = true
		case "read", "write":
			if _, ok := c14fOutcomes[o.Out]; !ok {
				return fmt.Errorf("fail case: outcome %q", o.Out)
			}
			k := fmt.Sprint(o.H, ":", o.Off)
			if offs[k] || o.Off < 0 || o.Len == 0 || o.Len > 30000 { // one call per (object, offset)
				return fmt.Errorf("fail case: %s", o.text())
			}
			offs[k] = true
		default:
			return fmt.Errorf("fail case: request kind %q", o.K)
		}
	}
	return nil
}

// c14fRoute: what request i must reach.
type c14fRoute struct {
	Gate     string // key of its ReadAt / WriteAt call; "" none
	Refused  bool   // request server: the request does not fit the method of its handle, the server refuses it by itself
	CloseKey string // CLOSE of a handle whose object has a Close method
	Obj      string
}

func (cs *c14fCase) effKind(h int) string {
	if cs.Server == "rs" && cs.NoOpenFile && cs.Handles[h].Kind == "rw" {
		return "put"
	}
	return cs.Handles[h].Kind
}

func (cs *c14fCase) closer(h int) bool { return cs.Server == "os" || cs.Handles[h].Closer }

func (cs *c14fCase) routes(objs []string) []c14fRoute {
	out := make([]c14fRoute, len(cs.Ops))
	for i, o := range cs.Ops {
		r := c14fRoute{Obj: objs[o.H]}
		switch o.K {
		case "close":
			if cs.closer(o.H) {
				r.CloseKey = "close:" + objs[o.H]
			}
		default:
			k := cs.effKind(o.H)
			fits := (o.K == "read" && k != "put") || (o.K == "write" && k != "get")
			if cs.Server == "rs" && !fits {
				r.Refused = true
			} else { // (the os-backed server passes every request to the file; the kernel refuses what the descriptor's mode forbids)
				r.Gate = fmt.Sprintf("rw:%s:%d", objs[o.H], o.Off)
			}
		}
		out[i] = r
	}
	return out
}

// ---- the instrumented objects ----

// c14fCore does the reads and writes of one object: announces the call to the hub (where it is held, in gated mode),
// then returns what the plan says for this offset.
type c14fCore struct {
	hub     *gHub
	obj     string
	plan    map[string]string // call key → outcome
	backend func(read bool, b []byte, off int64) (int, error)
}

func (c *c14fCore) do(read bool, b []byte, off int64) (int, error) {
	op := "WriteAt"
	if read {
		op = "ReadAt"
	}
	key := fmt.Sprintf("rw:%s:%d", c.obj, off)
	call := c.hub.enter(op, c.obj, key, false, off, b, true)
	var in []byte
	if !read {
		in = append([]byte(nil), b...)
	}
	oc := c14fOutcomes[c.plan[key]]
	n, err := 0, oc.err
	switch {
	case oc.part:
		var e2 error
		n, e2 = c.backend(read, b[:len(b)/2], off)
		if e2 != nil && (err == nil || e2 != io.EOF) { // (the object's own refusal comes first)
			err = e2
		}
	case oc.err == nil:
		n, err = c.backend(read, b, off)
	}
	if read {
		c.hub.leave(call, n, err, b[:n])
	} else {
		c.hub.leave(call, n, err, in)
	}
	return n, err
}

func (c *c14fCore) ReadAt(b []byte, off int64) (int, error)  { return c.do(true, b, off) }
func (c *c14fCore) WriteAt(b []byte, off int64) (int, error) { return c.do(false, b, off) }

func (c *c14fCore) logClose() {
	call := c.hub.enter("Close", c.obj, "close:"+c.obj, false, 0, nil, false)
	c.hub.leave(call, 0, nil, nil)
}

func (c *c14fCore) logTransferError(err error) {
	call := c.hub.enter("TransferError", c.obj, "terr:"+c.obj, false, 0, nil, false)
	c.hub.leave(call, 0, err, nil)
}

// the four shapes of a handler object
type (
	c14fPlain  struct{ *c14fCore }
	c14fCloser struct{ *c14fCore }
	c14fTErr   struct{ *c14fCore }
	c14fBoth   struct{ *c14fCore }
)

func (o c14fCloser) Close() error          { o.logClose(); return nil }
func (o c14fBoth) Close() error            { o.logClose(); return nil }
func (o c14fTErr) TransferError(err error) { o.logTransferError(err) }
func (o c14fBoth) TransferError(err error) { o.logTransferError(err) }

func c14fShape(c *c14fCore, h c14fHandle) sftp.WriterAtReaderAt {
	switch {
	case h.Closer && h.TErr:
		return c14fBoth{c}
	case h.Closer:
		return c14fCloser{c}
	case h.TErr:
		return c14fTErr{c}
	}
	return c14fPlain{c}
}

// c14fRS: the handlers of the request server.
type c14fRS struct {
	hub  *gHub
	plan map[string]string
	spec map[string]c14fHandle // by the path the handler sees
	mu   sync.Mutex
	made map[string]int
}

func (g *c14fRS) open(r *sftp.Request) (sftp.WriterAtReaderAt, error) {
	h, ok := g.spec[r.Filepath]
	if !ok {
		return nil, os.ErrNotExist
	}
	g.mu.Lock()
	g.made[r.Filepath]++
	g.mu.Unlock()
	name := path.Base(r.Filepath)
	core := &c14fCore{hub: g.hub, obj: r.Filepath, plan: g.plan}
	core.backend = func(read bool, b []byte, off int64) (int, error) {
		if !read {
			return len(b), nil
		}
		size := gSize(name)
		if off >= size {
			return 0, io.EOF
		}
		n := copy(b, gContent(name, off, int(min(int64(len(b)), size-off))))
		if n < len(b) {
			return n, io.EOF
		}
		return n, nil
	}
	return c14fShape(core, h), nil
}

func (g *c14fRS) Fileread(r *sftp.Request) (io.ReaderAt, error)           { return g.open(r) }
func (g *c14fRS) Filewrite(r *sftp.Request) (io.WriterAt, error)          { return g.open(r) }
func (g *c14fRS) OpenFile(r *sftp.Request) (sftp.WriterAtReaderAt, error) { return g.open(r) }
func (g *c14fRS) Filecmd(r *sftp.Request) error                           { return sftp.ErrSSHFxOpUnsupported }
func (g *c14fRS) Filelist(r *sftp.Request) (sftp.ListerAt, error) {
	return nil, sftp.ErrSSHFxOpUnsupported
}

type c14fFilewriteOnly interface {
	Filewrite(*sftp.Request) (io.WriterAt, error)
}

// c14fOSFile wraps the opened file of the os-backed server.
type c14fOSFile struct {
	sftp.VerifFile
	core *c14fCore
}

func (w *c14fOSFile) ReadAt(b []byte, off int64) (int, error)  { return w.core.do(true, b, off) }
func (w *c14fOSFile) WriteAt(b []byte, off int64) (int, error) { return w.core.do(false, b, off) }
func (w *c14fOSFile) Close() error {
	call := w.core.hub.enter("Close", w.core.obj, "close:"+w.core.obj, false, 0, nil, false)
	err := w.VerifFile.Close()
	w.core.hub.leave(call, 0, err, nil)
	return err
}

// ---- running a case ----

type c14fRun struct {
	Case     *c14fCase
	Routes   []c14fRoute
	Objs     []string
	Frames   []wire.Pkt
	Extra    []wire.Pkt
	Calls    []gCall
	Fault    *gFault
	Early    string // a Close that the pipeline cannot have reached was entered while calls were held
	Unforced string // gated mode: why the schedule of the case was given up (every call was then let go; the log is judged all the same)
	PipeEnd  int64
	// Unexpected: a call reached its gate that the pipeline cannot have started with the gates opened so far
	Unexpected         string
	HeldAtFirstFailure int // calls sitting on gates when the first failing call was let go (-1: none was)
	ServeErr           string
	Final              map[int][]byte // os-backed server: content of the files behind put / rw handles after Serve returned
	Initial            map[int][]byte
	Problems           []string
}

// c14fSoftHits: settle waits of this process that ran out (see c14fSoft).
var c14fSoftHits atomic.Int32

// c14fSoft is how long the harness waits for the calls that the pipeline must start next to reach their gates before
// it gives the forced schedule up. No verdict hangs on it (the case is then run to its end with every gate open and
// judged on its log), so it is not a hang deadline and is kept below the second from which hub.wait charges one.
func c14fSoft() time.Duration {
	if c14fSoftHits.Load() >= 4 {
		return 250 * time.Millisecond
	}
	return 900 * time.Millisecond
}

func c14fExec(cs *c14fCase) *c14fRun {
	run := &c14fRun{Case: cs, Final: map[int][]byte{}, Initial: map[int][]byte{}, HeldAtFirstFailure: -1}
	hub := newHub(false)
	k := lib.NewCase(gClass(gChildProp, cs.Server))
	hub.kase = k
	n := len(cs.Ops)

	// objects
	root := ""
	prog := cs.Opt.prog(cs.Server) // (for the tree builder and the naming rules shared with the other C14 cases)
	names := make([]string, len(cs.Handles))
	for i, h := range cs.Handles {
		names[i] = c14fObjName(i, h.Kind)
		prog.Handles = append(prog.Handles, gHandle{Name: fmt.Sprintf("h%d", i), Kind: h.Kind, Path: names[i]})
	}
	if cs.Server == "os" {
		d, err := lib.MkScratch("vh-c14f-")
		if err != nil {
			run.Fault = &gFault{Key: "harness/tmpdir", What: err.Error()}
			return run
		}
		root = d
		defer os.RemoveAll(d)
		if err := gBuildTree(root, prog); err != nil {
			run.Fault = &gFault{Key: "harness/tree", What: err.Error()}
			return run
		}
	}
	gc := &gCase{Prog: prog}
	abs, openName := gc.abs(root), gc.openName(root)
	run.Objs = make([]string, len(names))
	for i := range names {
		run.Objs[i] = abs(names[i])
	}
	run.Routes = cs.routes(run.Objs)
	plan := map[string]string{}
	for i, o := range cs.Ops {
		if run.Routes[i].Gate != "" && o.Out != "" {
			plan[run.Routes[i].Gate] = o.Out
		}
	}

	// server
	var srv *peers.Srv
	if cs.Server == "os" {
		var opts []sftp.ServerOption
		if cs.Opt.Alloc {
			opts = append(opts, sftp.WithAllocator())
		}
		if cs.Opt.MaxTx != 0 {
			opts = append(opts, sftp.WithMaxTxPacket(cs.Opt.MaxTx))
		}
		if cs.Opt.WorkDir {
			opts = append(opts, sftp.WithServerWorkingDirectory(root))
		}
		var err error
		if srv, err = peers.StartOS(opts...); err != nil {
			run.Fault = &gFault{Key: "harness/server-start", What: err.Error()}
			return run
		}
	} else {
		g := &c14fRS{hub: hub, plan: plan, spec: map[string]c14fHandle{}, made: map[string]int{}}
		for i, h := range cs.Handles {
			g.spec[run.Objs[i]] = h
		}
		var opts []sftp.RequestServerOption
		if cs.Opt.Alloc {
			opts = append(opts, sftp.WithRSAllocator())
		}
		if cs.Opt.MaxTx != 0 {
			opts = append(opts, sftp.WithRSMaxTxPacket(cs.Opt.MaxTx))
		}
		if cs.Opt.WorkDir {
			opts = append(opts, sftp.WithStartDirectory(gRSStartDir))
		}
		hs := sftp.Handlers{FileGet: g, FilePut: g, FileCmd: g, FileList: g}
		if cs.NoOpenFile {
			hs.FilePut = struct{ c14fFilewriteOnly }{g}
		}
		if _, has := hs.FilePut.(sftp.OpenFileWriter); has == cs.NoOpenFile {
			run.Fault = &gFault{Key: "harness/handler-set", What: "FilePut has the wrong shape"}
			return run
		}
		srv = peers.StartRS(hs, opts...)
	}
	finished := false
	shutdown := func() {
		if finished {
			return
		}
		finished = true
		hub.releaseAll()
		srv.CloseInput()
		if err, ok := hWaitSrv(srv, k, gDeadline); ok && err != nil {
			run.ServeErr = err.Error()
		} else if !ok && run.Fault == nil {
			run.Fault = &gFault{Key: "shutdown/serve-did-not-return/" + cs.Server, What: "Serve still running 20 s after the end of the input"}
		}
		run.Calls, run.Problems = hub.snapshot()
	}
	defer shutdown()
	fault := func(key, what string, step int) *c14fRun {
		if run.Fault == nil {
			run.Fault = &gFault{Key: key, What: what, Step: step}
		}
		return run
	}
	if v, err := hHandshake(srv, k); err != nil || v.Typ != wire.Version {
		return fault("harness/handshake", fmt.Sprint(err, v.Typ), -1)
	}

	// ---- set-up: open the handles one by one ----
	handles := make([]string, len(cs.Handles))
	sid := uint32(0xF0000000)
	for i, h := range cs.Handles {
		sid++
		fl := map[string]uint32{"get": wire.FRead, "put": wire.FWrite | wire.FCreat | wire.FTrunc, "rw": wire.FRead | wire.FWrite}[h.Kind]
		r, err := hCall(srv, k, wire.Req(wire.Open, sid, wire.B{}.Str(openName(names[i])).U32(fl).U32(0)))
		if err != nil || r.Typ != wire.Handle || r.ID() != sid {
			return fault("harness/setup-open", fmt.Sprintf("opening h%d (%s): type %d err %v", i, h.Kind, r.Typ, err), -1)
		}
		d := wire.D{B: r.Body[4:]}
		handles[i] = d.Str()
		if cs.Server == "os" {
			obj := run.Objs[i]
			if b, err := os.ReadFile(obj); err == nil {
				run.Initial[i] = b
			}
			if !sftp.VerifSwapFile(srv.OS, handles[i], func(f sftp.VerifFile) sftp.VerifFile {
				core := &c14fCore{hub: hub, obj: obj, plan: plan}
				core.backend = func(read bool, b []byte, off int64) (int, error) {
					if read {
						return f.ReadAt(b, off)
					}
					return f.WriteAt(b, off)
				}
				return &c14fOSFile{VerifFile: f, core: core}
			}) {
				return fault("harness/swap", "handle "+handles[i]+" not in the server's table", -1)
			}
		}
	}
	rng := rand.New(rand.NewSource(cs.Seed))
	hub.mu.Lock()
	hub.hold = cs.Mode == "gated"
	if cs.Mode == "sleep" { // a refused call returns fast, the others take their time
		hub.sleep = func(key string, _ int) time.Duration {
			if c14fOutcomes[plan[key]].err != nil {
				return time.Duration(rng.Intn(200)) * time.Microsecond
			}
			return time.Duration(rng.Intn(3000)) * time.Microsecond
		}
	}
	hub.mu.Unlock()

	// ---- the pipeline ----
	reqs := make([]simReq, n)
	var stream []byte
	for i, o := range cs.Ops {
		switch o.K {
		case "close":
			reqs[i] = simReq{Kind: 'c', ID: o.ID}
			stream = append(stream, wire.Req(wire.Close, o.ID, wire.B{}.Str(handles[o.H]))...)
		case "read":
			reqs[i] = simReq{Kind: 'w', ID: o.ID, Gate: run.Routes[i].Gate}
			stream = append(stream, wire.Req(wire.Read, o.ID, wire.B{}.Str(handles[o.H]).U64(uint64(o.Off)).U32(o.Len))...)
		case "write":
			reqs[i] = simReq{Kind: 'w', ID: o.ID, Gate: run.Routes[i].Gate}
			stream = append(stream, wire.Req(wire.Write, o.ID, wire.B{}.Str(handles[o.H]).U64(uint64(o.Off)).Bytes(gWriteData(names[o.H], o.Off, int(o.Len))))...)
		}
	}
	recvUpTo := func(want int) error {
		for len(run.Frames) < want {
			f, err := hRecv(srv, k, gDeadline)
			if err != nil {
				return fmt.Errorf("reply %d of %d did not arrive: %v", len(run.Frames)+1, n, err)
			}
			run.Frames = append(run.Frames, f)
		}
		return nil
	}
	sendErr := make(chan error, 1)
	go func() { sendErr <- srv.Send(stream) }()
	sentDone := false
	awaitSent := func() error {
		if sentDone {
			return nil
		}
		err, ok := lib.WaitCase(k, gDeadline, sendErr)
		if !ok {
			return errors.New("the server did not take in the request stream")
		}
		sentDone = true
		return err
	}
	ended := false
	if cs.Mode == "gated" {
		sim := newSim(reqs)
		// due: the Close calls the pipeline can have made with the gates opened so far
		var due map[string]bool
		// swept: the Close calls owed by the sweep (handles the stream does not close); they are due once the input has
		// been closed and every request of the stream has been handled
		swept := map[string]bool{}
		for h := range cs.Handles {
			swept["close:"+run.Objs[h]] = cs.closer(h)
		}
		for _, rt := range run.Routes {
			if rt.CloseKey != "" {
				swept[rt.CloseKey] = false
			}
		}
		sweepDue := false
		early := func() error { // (hub locked)
			for _, c := range hub.closes {
				if !due[c.Key] && !(sweepDue && swept[c.Key]) {
					return fmt.Errorf("%s was entered", c.Key)
				}
			}
			return nil
		}
		unforced := func(why string) {
			c14fSoftHits.Add(1)
			run.Unforced = why
		}
		justFailed, graces := false, 0 // a call that fails was let go at the previous step
	loop:
		for step := 0; ; step++ {
			st := sim.started()
			var keys, closes []string
			for _, i := range st {
				keys = append(keys, reqs[i].Gate)
			}
			for _, i := range sim.handled {
				if ck := run.Routes[i].CloseKey; ck != "" {
					closes = append(closes, ck)
				}
			}
			hub.mu.Lock()
			due = map[string]bool{}
			for _, ck := range closes {
				due[ck] = true
			}
			sweepDue = ended && len(sim.handled) == n
			hub.mu.Unlock()
			held := func() string {
				hub.mu.Lock()
				defer hub.mu.Unlock()
				return strings.Join(hub.blockedLocked(), " ")
			}
			// the calls the pipeline must have started by now sit on their gates — and nothing was closed on the way
			if err := hub.waitBlockedUnless(keys, c14fSoft(), early); err != nil {
				hub.mu.Lock()
				e := early()
				hub.mu.Unlock()
				if e != nil {
					run.Early = fmt.Sprintf("%v with %d gates opened; calls held at that moment: [%s]", e, step, held())
					break loop
				}
				if strings.HasPrefix(err.Error(), "unexpected call") { // (the case runs to its end all the same, and its log is judged)
					run.Unexpected = fmt.Sprintf("with %d gates opened: %v", step, err)
					break loop
				}
				unforced(fmt.Sprintf("with %d gates opened the calls [%s] did not all reach their gates (held: [%s])", step, strings.Join(keys, " "), held()))
				break loop
			}
			if err := hub.wait(c14fSoft(), func() (bool, error) {
				for _, ck := range closes {
					cl := hub.byKey[ck]
					if len(cl) == 0 || cl[len(cl)-1].Fin == 0 {
						return false, nil
					}
				}
				return true, nil
			}); err != nil {
				unforced(fmt.Sprintf("with %d gates opened the Close calls [%s] are due", step, strings.Join(closes, " ")))
				break loop
			}
			if sim.nextRecv == n && sim.recvHold < 0 {
				if err := awaitSent(); err != nil {
					return fault("input/send-blocked/"+cs.Server, err.Error(), step)
				}
				if cs.EndInput > 0 && !ended && step >= cs.EndInput-1 {
					ended = true
					hub.mu.Lock()
					sweepDue = len(sim.handled) == n
					hub.mu.Unlock()
					srv.CloseInput()
				}
			}
			// grace: with calls held, give a Close that does not wait for them time to show
			if len(st) > 0 && cs.Grace > 0 && (step == 0 || (justFailed && graces < 4) || (ended && graces < 4)) {
				graces++
				if _, _, err := hub.holdFor(time.Duration(cs.Grace)*time.Millisecond, early); err != nil {
					run.Early = fmt.Sprintf("%v with %d gates opened, during the %d ms that followed; calls held at that moment: [%s]", err, step, cs.Grace, held())
					break loop
				}
			}
			if err := recvUpTo(len(sim.sent)); err != nil {
				return fault("count/missing-response/"+cs.Server, fmt.Sprintf("with %d gates opened the first %d replies are due: %v", step, len(sim.sent), err), step)
			}
			if step >= len(cs.Order) {
				if len(st) != 0 {
					return fault("harness/order-too-short", fmt.Sprintf("order ends with calls %v still held", st), step)
				}
				break
			}
			i := cs.Order[step]
			if i < 0 || i >= n || !sim.isStarted(i) {
				return fault("harness/order-infeasible", fmt.Sprintf("request %d cannot return at step %d (running: %v)", i, step, st), step)
			}
			justFailed = cs.Ops[i].fails()
			if justFailed && run.HeldAtFirstFailure < 0 {
				run.HeldAtFirstFailure = len(st) - 1
			}
			if err := hub.release(reqs[i].Gate, gWait(k)); err != nil {
				return fault("schedule/held-call-did-not-return/"+cs.Server, err.Error(), step)
			}
			sim.finish(i)
		}
		hub.mu.Lock()
		due = nil
		hub.mu.Unlock()
	}
	// every gate open from here on (a case whose schedule was given up runs to its end like an unforced one)
	hub.releaseAll()
	if err := awaitSent(); err != nil {
		return fault("input/send-blocked/"+cs.Server, err.Error(), -1)
	}
	if cs.EndInput > 0 && !ended {
		ended = true
		srv.CloseInput()
	}
	if err := recvUpTo(n); err != nil {
		return fault("count/missing-response/"+cs.Server, err.Error(), -1)
	}
	if f, err := srv.Recv(500 * time.Microsecond); err == nil {
		run.Extra = append(run.Extra, f)
	}
	hub.mu.Lock()
	run.PipeEnd = hub.seq
	hub.mu.Unlock()
	// the end of the session: handles that the stream did not close are closed by the sweep
	srv.CloseInput()
	serr, ok := hWaitSrv(srv, k, gDeadline)
	finished = true
	if !ok {
		run.Calls, run.Problems = hub.snapshot()
		return fault("shutdown/serve-did-not-return/"+cs.Server, "Serve still running 20 s after the end of the input", -1)
	}
	if serr != nil {
		run.ServeErr = serr.Error()
	}
	run.Extra = append(run.Extra, srv.Drain(200*time.Millisecond)...)
	run.Calls, run.Problems = hub.snapshot()
	if cs.Server == "os" {
		for i, h := range cs.Handles {
			if h.Kind == "get" {
				continue
			}
			if fi, err := os.Stat(run.Objs[i]); err == nil && fi.Size() <= 1<<26 {
				if b, err := os.ReadFile(filepath.Clean(run.Objs[i])); err == nil {
					run.Final[i] = b
				}
			}
		}
	}
	return run
}

// ---- the oracles ----

func c14fCheck(run *c14fRun, input any) (fails []lib.Failure, inflight int) {
	cs := run.Case
	srv := cs.Server
	seen := map[string]bool{}
	fail := func(key, what string, exp, act any) {
		if seen[key] { // one failure per key and case
			return
		}
		seen[key] = true
		fails = append(fails, lib.Failure{Kind: "oracle", Key: key, What: what + " (handler calls told to fail: " + cs.failText() + "; server options: " + cs.Opt.text() + ")", Input: input, Expected: exp, Actual: act})
	}
	if run.Early != "" {
		fail("close/entered-during-hold/"+srv, "Close of the object was entered while reads/writes of requests that precede its CLOSE were held on their gates or had not been started", "Close not entered", run.Early)
	}
	if run.Unexpected != "" {
		fail("schedule/blocked-set-differs/"+srv, "a call was started that the pipeline cannot have started while the calls of the earlier requests are held: "+run.Unexpected, "the calls of the requests in stream order", run.Unexpected)
	}
	if f := run.Fault; f != nil {
		var got []string
		for _, fr := range run.Frames {
			got = append(got, gFrameText(fr))
		}
		kind := "oracle"
		if strings.HasPrefix(f.Key, "harness/") {
			kind = "tie"
		}
		fails = append(fails, lib.Failure{Kind: kind, Key: f.Key, What: f.What, Input: input, Actual: map[string]any{"replies_so_far": got, "step": f.Step}})
		if len(run.Calls) == 0 {
			return
		}
	}
	for _, pr := range run.Problems {
		fail("alloc/buffer-lent-twice/"+srv, pr, "buffers of concurrently running calls are disjoint", pr)
	}
	byKey := map[string][]gCall{}
	for _, c := range run.Calls {
		byKey[c.Key] = append(byKey[c.Key], c)
	}
	// every request that fits its handle was handed to the handler, once
	for i, o := range cs.Ops {
		rt := run.Routes[i]
		if run.Fault != nil {
			break
		}
		switch {
		case rt.Gate != "":
			cl := byKey[rt.Gate]
			if len(cl) == 0 {
				reply := "no reply"
				if i < len(run.Frames) {
					reply = gFrameText(run.Frames[i])
				}
				fail("close/call-missing/"+srv, fmt.Sprintf("request %d (%s), which precedes the CLOSE of its handle on the wire, was never handed to the handler", i, o.text()), "one "+map[string]string{"read": "ReadAt", "write": "WriteAt"}[o.K]+" call", "no call; reply: "+reply)
			} else if len(cl) > 1 {
				fail("calls/count/"+srv, fmt.Sprintf("request %d (%s) made %d calls", i, o.text(), len(cl)), 1, len(cl))
			}
		case rt.Refused:
			if len(byKey[fmt.Sprintf("rw:%s:%d", rt.Obj, o.Off)]) > 0 {
				fail("rs/handle-method-mismatch", fmt.Sprintf("request %d (%s) does not fit the method of its handle and was passed to the object all the same", i, o.text()), "no call", "call made")
			}
		}
	}
	// Close of an object: entered once, by its CLOSE (before the CLOSE is answered) or, for a handle the stream does
	// not close, by the sweep at the end of the session; and only after every call of the requests before it returned
	for h := range cs.Handles {
		if !cs.closer(h) {
			continue
		}
		ic := -1
		for i, o := range cs.Ops {
			if o.K == "close" && o.H == h {
				ic = i
			}
		}
		closes := byKey["close:"+run.Objs[h]]
		if run.Fault != nil && len(closes) == 0 {
			continue
		}
		who := fmt.Sprintf("the sweep at the end of the session (the stream does not close h%d)", h)
		if ic >= 0 {
			who = fmt.Sprintf("its CLOSE (request %d)", ic)
		}
		switch {
		case len(closes) == 0:
			fail("close/object-not-closed/"+srv, fmt.Sprintf("Close of the object of h%d was never entered; it is owed by %s", h, who), 1, 0)
			continue
		case len(closes) > 1:
			fail("close/object-closed-by-another-request/"+srv, fmt.Sprintf("Close of the object of h%d was entered %d times; it is owed once, by %s", h, len(closes), who), 1, len(closes))
		}
		C := closes[0]
		if ic < 0 && run.Fault == nil && cs.EndInput == 0 && C.Start <= run.PipeEnd { // (the input was still open when the last reply was read)
			fail("close/object-closed-by-another-request/"+srv, fmt.Sprintf("Close of the object of h%d was entered while the pipeline ran, and the stream holds no CLOSE for it", h), "entered by the sweep, after the last reply", "entered before the last reply was read")
		}
		lim := ic
		if lim < 0 {
			lim = len(cs.Ops)
		}
		fl := 0
		var running, late []string
		for j := 0; j < lim; j++ {
			if cs.Ops[j].H != h || run.Routes[j].Gate == "" {
				continue
			}
			cl := byKey[run.Routes[j].Gate]
			if len(cl) == 0 {
				continue
			}
			switch G := cl[0]; {
			case G.Start > C.Start:
				late = append(late, cs.Ops[j].text())
			case G.Fin == 0 || G.Fin > C.Start:
				fl++
				running = append(running, cs.Ops[j].text())
			}
		}
		inflight = max(inflight, fl)
		if fl > 0 {
			fail("close/entered-with-calls-in-flight/"+srv, fmt.Sprintf("when Close of the object of h%d (owed by %s) was entered, %d calls of requests that precede it on the wire were still running", h, who, fl), 0, running)
		}
		if len(late) > 0 {
			fail("close/call-started-after-close/"+srv, fmt.Sprintf("calls of requests that precede %s on the wire started after Close of the object of h%d had been entered", who, h), "none", late)
		}
	}
	if run.Fault != nil {
		return
	}
	// the replies: one per request, in order, each following what the call of ITS request returned
	if len(run.Extra) > 0 {
		var ex []string
		for _, f := range run.Extra {
			ex = append(ex, gFrameText(f))
		}
		fail("count/extra-response/"+srv, "the server wrote more replies than it received requests", len(cs.Ops), ex)
	}
	for i, o := range cs.Ops {
		f := run.Frames[i]
		rt := run.Routes[i]
		if f.ID() != o.ID {
			fail("order/id-mismatch/"+srv, fmt.Sprintf("reply number %d does not carry the id of request number %d", i+1, i+1), o.ID, f.ID())
			break
		}
		okStatus := f.Typ == wire.Status && gParseStatus(f).Code == wire.OK
		switch {
		case o.K == "close":
			if !okStatus {
				fail("legal-type/"+srv+"/close-failed", fmt.Sprintf("CLOSE of the open handle h%d was not answered OK", o.H), "STATUS 0", gFrameText(f))
			}
		case rt.Refused:
			if f.Typ != wire.Status || okStatus {
				fail("rs/handle-method-mismatch", fmt.Sprintf("request %d (%s) does not fit the method of its handle", i, o.text()), "an error STATUS", gFrameText(f))
			}
		default:
			cl := byKey[rt.Gate]
			if len(cl) != 1 {
				continue
			}
			c := cl[0]
			want := fmt.Sprintf("the call returned n=%d err=%q", c.N, c.Err)
			if o.K == "read" {
				wantData := c.ErrNil || (c.Err == "EOF" && c.N > 0)
				if wantData != (f.Typ == wire.Data) || (f.Typ != wire.Data && f.Typ != wire.Status) {
					fail("data/read-outcome/"+srv, fmt.Sprintf("the reply to request %d (%s) does not follow the result of its ReadAt call", i, o.text()), want, gFrameText(f))
					continue
				}
				if f.Typ == wire.Data {
					d := wire.D{B: f.Body[4:]}
					if got := d.Bytes(); d.Err != nil || !bytes.Equal(got, c.Data) {
						fail("data/wrong-payload/"+srv, fmt.Sprintf("DATA reply %d (%s) is not what the ReadAt call of this request returned", i+1, o.text()), gDigest(c.Data), gDigest(got))
					}
					continue
				}
			} else {
				if sent := gWriteData(c14fObjName(o.H, cs.Handles[o.H].Kind), o.Off, int(o.Len)); !bytes.Equal(sent, c.Data) {
					fail("data/wrong-write-data/"+srv, fmt.Sprintf("the WriteAt call of request %d (%s) was not given the bytes the request carries", i, o.text()), gDigest(sent), gDigest(c.Data))
				}
				if f.Typ != wire.Status || c.ErrNil != okStatus {
					fail("data/status-outcome/"+srv, fmt.Sprintf("the reply to request %d (%s) does not follow the result of its WriteAt call", i, o.text()), want, gFrameText(f))
					continue
				}
			}
			// a refusal is reported with the code and the words of the error the call returned
			if oc := c14fOutcomes[o.Out]; f.Typ == wire.Status && oc.err != nil && c.Err == oc.err.Error() {
				code, msg := sftp.VerifStatusFromError(oc.err)
				if st := gParseStatus(f); st.Code != code || st.Msg != msg {
					fail("data/status-of-error/"+srv, fmt.Sprintf("the status reply to request %d (%s) is not the one of the error its call returned", i, o.text()), fmt.Sprintf("code=%d %q", code, msg), gFrameText(f))
				}
			}
		}
	}
	// os-backed server: the files hold what the calls wrote
	for h, got := range run.Final {
		want := append([]byte(nil), run.Initial[h]...)
		if cs.Handles[h].Kind == "put" {
			want = nil
		}
		for _, c := range run.Calls {
			if c.Op != "WriteAt" || c.Obj != run.Objs[h] || c.N <= 0 {
				continue
			}
			if need := int(c.Off) + c.N; need > len(want) {
				want = append(want, make([]byte, need-len(want))...)
			}
			copy(want[c.Off:], c.Data[:c.N])
		}
		if !bytes.Equal(want, got) {
			fail("close/final-content/"+srv, fmt.Sprintf("the file behind h%d does not hold what the WriteAt calls wrote", h), gDigest(want), gDigest(got))
		}
	}
	return
}

func (cs *c14fCase) failText() string {
	var t []string
	for _, o := range cs.Ops {
		if o.Out != "" {
			t = append(t, o.text())
		}
	}
	if len(t) == 0 {
		return "none"
	}
	if len(t) > 8 {
		t = append(t[:8], fmt.Sprintf("… (%d more)", len(t)-8))
	}
	return strings.Join(t, " ")
}

func c14fSummarise(cs c14fCase) gSummary {
	var s gSummary
	input := map[string]any{"fail": cs}
	s.Text = cs.text()
	if err := cs.valid(); err != nil {
		return gSummary{Text: s.Text, Fails: []lib.Failure{{Kind: "tie", Key: "harness/job", What: err.Error()}}}
	}
	run := c14fExec(&cs)
	hist := func(k string) { s.Hist = append(s.Hist, k) }
	nrw, nfail, nrefused := 0, 0, 0
	for i, o := range cs.Ops {
		if o.K == "close" {
			continue
		}
		nrw++
		m := map[string]string{"get": "Get", "put": "Put", "rw": "Open"}[cs.effKind(o.H)]
		if cs.Server == "os" {
			m = cs.Handles[o.H].Kind + "-descriptor"
		}
		switch {
		case i < len(run.Routes) && run.Routes[i].Refused:
			nrefused++
			hist("fail/request-refused-by-the-server/" + o.K + "-on-" + m)
		case o.fails():
			nfail++
			hist(fmt.Sprintf("fail/outcome/%s/%s=%s", cs.Server, o.K, o.Out))
			hist(fmt.Sprintf("fail/call-told-to-fail-on/%s/%s-on-%s", cs.Server, o.K, m))
		case o.Out != "":
			hist(fmt.Sprintf("fail/outcome/%s/%s=%s", cs.Server, o.K, o.Out))
		}
	}
	s.Nontrivial = nrw > 0
	hist("fail/server=" + cs.Server)
	hist("fail/options=" + cs.Server + "/" + cs.Opt.text())
	hist("fail/mode=" + cs.Mode + "/" + cs.Tag)
	if nrw <= 24 {
		hist(fmt.Sprintf("fail/rw-depth=%02d", nrw))
	} else {
		hist("fail/rw-depth=25…49")
	}
	switch {
	case nfail <= 3:
		hist(fmt.Sprintf("fail/calls-told-to-fail=%d", nfail))
	case nfail <= 8:
		hist("fail/calls-told-to-fail=4…8")
	default:
		hist("fail/calls-told-to-fail=9…")
	}
	if nfail == nrw-nrefused && nrw > 0 {
		hist("fail/every-call-fails")
	}
	hist(fmt.Sprintf("fail/handles=%d", len(cs.Handles)))
	for h, hd := range cs.Handles {
		sh := hd.Kind
		if cs.Server == "rs" {
			sh = "rs/" + map[string]string{"get": "Get", "put": "Put", "rw": "Open"}[cs.effKind(h)]
			if cs.NoOpenFile && hd.Kind == "rw" {
				sh += "(read-write-open-without-OpenFile)"
			}
			if hd.Closer {
				sh += "+Closer"
			}
			if hd.TErr {
				sh += "+TransferError"
			}
		} else {
			sh = "os/" + sh
		}
		closed := false
		for _, o := range cs.Ops {
			if o.K == "close" && o.H == h {
				closed = true
			}
		}
		if !closed {
			sh += "/closed-by-the-sweep"
		}
		hist("fail/object=" + sh)
	}
	if cs.EndInput > 0 {
		hist("fail/end-of-stream/" + cs.Server + "/" + cs.Mode)
	}
	if run.HeldAtFirstFailure >= 0 {
		hist(fmt.Sprintf("fail/gated/calls-held-when-the-first-failing-call-returned=%d", run.HeldAtFirstFailure))
	}
	if run.Unforced != "" {
		hist("fail/gated/schedule-given-up(judged-on-the-log)")
	}
	for _, c := range run.Calls {
		if !c.ErrNil && (c.Op == "ReadAt" || c.Op == "WriteAt") {
			e := c.Err
			if i := strings.LastIndex(e, ": "); i >= 0 {
				e = e[i+2:]
			}
			hist("fail/error-returned-by-a-call/" + c.Op + "=" + e)
		}
		if c.Op == "TransferError" {
			hist("fail/TransferError-called")
		}
	}
	var inflight int
	s.Fails, inflight = c14fCheck(run, input)
	if run.Fault == nil {
		hist(fmt.Sprintf("fail/max-earlier-calls-in-flight-at-close-entry=%d", inflight))
	}
	return s
}

// ---- generation ----

// c14fGen makes one case: d READ/WRITE requests on 1…3 handles; a chosen subset of the handler calls fails.
func c14fGen(rng *rand.Rand, server string, opt c14Opt, d int, mode string) c14fCase {
	opt.ReadOnly = false
	cs := c14fCase{Server: server, Opt: opt, Mode: mode}
	nh := []int{1, 1, 1, 2, 2, 3}[rng.Intn(6)]
	if d < nh {
		nh = max(d, 1)
	}
	if server == "rs" {
		cs.NoOpenFile = rng.Intn(4) == 0
	}
	for i := 0; i < nh; i++ {
		h := c14fHandle{Kind: []string{"put", "put", "get", "rw"}[rng.Intn(4)]}
		if server == "rs" {
			h.Closer = rng.Intn(4) != 0
			h.TErr = rng.Intn(2) == 0
		}
		cs.Handles = append(cs.Handles, h)
	}
	owner := make([]int, d)
	for j := range owner {
		owner[j] = rng.Intn(nh)
		if j < nh {
			owner[j] = j
		}
	}
	rng.Shuffle(d, func(a, b int) { owner[a], owner[b] = owner[b], owner[a] })
	// which calls fail: none (rarely), one, a few, about half, all
	pFail := []float64{0, 0, 0.08, 0.25, 0.5, 1}[rng.Intn(6)]
	one := -1
	if pFail == 0 && d > 0 && rng.Intn(8) != 0 {
		one = rng.Intn(d)
	}
	cnt := make([]int, nh)
	lens := []uint32{1, 8, 64, 1000, 4096}
	var ops []c14fOp
	for j, h := range owner {
		kind := cs.Handles[h].Kind
		read := kind == "get" || (kind == "rw" && rng.Intn(2) == 0)
		if rng.Intn(12) == 0 { // a request that the handle's method (the descriptor's mode) does not allow
			read = !read
		}
		o := c14fOp{K: "write", H: h, Off: int64(cnt[h]) * 4096, Len: lens[rng.Intn(len(lens))]}
		cnt[h]++
		if read {
			o.K = "read"
			if rng.Intn(10) == 0 { // behind the end of the object: the object itself answers EOF
				o.Off += 1 << 20
			}
		}
		if j == one || rng.Float64() < pFail {
			o.Out = c14fFailNames[rng.Intn(len(c14fFailNames))]
		} else if rng.Intn(10) == 0 {
			o.Out = "short"
		}
		ops = append(ops, o)
	}
	// the CLOSEs: at the end, or each right behind the last request of its handle; one handle in six is left to the sweep
	last := map[int]int{}
	for j, h := range owner {
		last[h] = j
	}
	swept := map[int]bool{}
	for h := 0; h < nh; h++ {
		swept[h] = rng.Intn(6) == 0
	}
	tail := rng.Intn(2) == 0
	for j, o := range ops {
		cs.Ops = append(cs.Ops, o)
		if !tail && last[o.H] == j && !swept[o.H] {
			cs.Ops = append(cs.Ops, c14fOp{K: "close", H: o.H})
		}
	}
	if tail {
		for _, h := range rng.Perm(nh) {
			if !swept[h] {
				cs.Ops = append(cs.Ops, c14fOp{K: "close", H: h})
			}
		}
	}
	for i := range cs.Ops {
		cs.Ops[i].ID = uint32(100 + i)
	}
	return cs
}

// c14fSimReqs is the pipeline of the case as the simulator sees it.
func c14fSimReqs(cs *c14fCase) []simReq {
	objs := make([]string, len(cs.Handles))
	for i := range objs {
		objs[i] = fmt.Sprint("o", i)
	}
	rts := cs.routes(objs)
	reqs := make([]simReq, len(cs.Ops))
	for i, o := range cs.Ops {
		reqs[i] = simReq{Kind: 'w', ID: o.ID, Gate: rts[i].Gate}
		if o.K == "close" {
			reqs[i].Kind = 'c'
		}
	}
	return reqs
}

// c14fOrder walks the choice tree of the held calls once. Styles beyond those of randomOrder:
// fail-first (of the calls that are running, one that is told to fail returns first: the others are then still held)
// and fail-last.
func c14fOrder(cs *c14fCase, rng *rand.Rand, style string) []int {
	reqs := c14fSimReqs(cs)
	if style != "fail-first" && style != "fail-last" {
		return randomOrder(reqs, rng, style)
	}
	s := newSim(reqs)
	out := []int{}
	for {
		st := s.started()
		if len(st) == 0 {
			return out
		}
		var pref, rest []int
		for _, i := range st {
			if cs.Ops[i].fails() == (style == "fail-first") {
				pref = append(pref, i)
			} else {
				rest = append(rest, i)
			}
		}
		if len(pref) == 0 {
			pref = rest
		}
		i := pref[rng.Intn(len(pref))]
		out = append(out, i)
		s.finish(i)
	}
}

// c14fJobs generates the cases of a run.
func c14fJobs(rng *rand.Rand, thorough bool, grace int) []c14fCase {
	var out []c14fCase
	styles := []string{"fail-first", "uniform", "fail-first", "fifo", "lifo", "fail-last", "first-last"}
	reps, nFree := 5, 110
	if thorough {
		reps, nFree = 120, 4000
	}
	for _, server := range []string{"rs", "os"} {
		deck := newC14Deck(rng)
		next := func() c14Opt {
			for {
				if o := deck.next(server); !o.ReadOnly {
					return o
				}
			}
		}
		depths := []int{}
		for d := 1; d <= 24; d++ {
			depths = append(depths, d)
		}
		depths = append(depths, 30, 37, 49) // more than the pipeline takes in at once
		for _, d := range depths {
			for k := 0; k < reps; k++ {
				cs := c14fGen(rng, server, next(), d, "gated")
				cs.Grace = grace
				cs.Order = c14fOrder(&cs, rng, styles[(k+d)%len(styles)])
				cs.Tag = "failing-calls"
				if k%4 == 3 {
					cs.EndInput = 1
					if len(cs.Order) > 0 && rng.Intn(2) == 0 {
						cs.EndInput = 1 + rng.Intn(len(cs.Order)+1)
					}
					cs.Tag = "failing-calls/end-of-stream"
				}
				out = append(out, cs)
			}
		}
		for k := 0; k < nFree; k++ {
			mode := "sleep"
			if k%5 == 4 {
				mode = "free"
			}
			cs := c14fGen(rng, server, next(), 1+rng.Intn(40), mode)
			cs.Seed = rng.Int63()
			cs.Tag = "failing-calls/unforced"
			if k%4 == 3 {
				cs.EndInput = 1
				cs.Tag = "failing-calls/unforced/end-of-stream"
			}
			out = append(out, cs)
		}
	}
	return out
}
