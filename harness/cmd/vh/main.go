// Command vh is the correspondence harness: one sub-command per property.
// It runs the real pkg/sftp code (built from /repo's working tree with -tags verif)
// and the executable Lean models on the same inputs and reports every difference
// and every direct-oracle failure as JSON for bin/check.
package main

import (
	"flag"
	"fmt"
	"math/rand"
	"os"
	"os/signal"
	"path/filepath"
	"runtime"
	"sort"
	"strings"
	"sync"
	"syscall"
	"time"

	"verifharness/lib"
)

type checkFn func(c *lib.Ctx)

var checks = map[string]checkFn{}

func register(id string, f checkFn) { checks[strings.ToLower(id)] = f }

func main() {
	if len(os.Args) < 2 {
		var ids []string
		for k := range checks {
			ids = append(ids, k)
		}
		sort.Strings(ids)
		fmt.Fprintln(os.Stderr, "usage: vh <property> [--tier quick|thorough] [--seed N] [--model path] [--out file] [--replay file] [--budget seconds] [--hang-budget seconds]\nproperties:", strings.Join(ids, " "))
		os.Exit(2)
	}
	id := strings.ToLower(os.Args[1])
	if id == "child" { // sub-process entry used by checks that must survive panics / OOM
		childMain(os.Args[2:])
		return
	}
	if _, ok := checks[id]; ok {
		vhSandbox() // cmd/vh/sandbox.go: in the wrapper process this does not return
	}
	fs := flag.NewFlagSet("vh", flag.ExitOnError)
	tier := fs.String("tier", "quick", "quick or thorough")
	seed := fs.Int64("seed", 1, "PRNG seed")
	model := fs.String("model", "", "path of the sftpmodel driver")
	out := fs.String("out", "-", "result file")
	replay := fs.String("replay", "", "replay file")
	budget := fs.Float64("budget", 0, "soft deadline of the whole run in seconds: afterwards no new cases are generated and the result is returned normally (default 600 quick, 5400 thorough)")
	hangBudget := fs.Float64("hang-budget", 0, "total seconds the run may spend waiting on hang deadlines before they are shortened and hanging classes are skipped (default 120 quick, 900 thorough)")
	fs.Parse(os.Args[2:])
	f, ok := checks[id]
	if !ok {
		fmt.Fprintln(os.Stderr, "vh: unknown property", id)
		os.Exit(2)
	}
	t0 := time.Now()
	r := lib.NewResult(strings.ToUpper(id), *tier, *seed)
	// Containment (lib/contain.go, lib/hostguard.go): file arguments are made absolute, the process moves into
	// a scratch directory of its own, and the host outside the scratch area is watched while the check runs.
	startDir, _ := os.Getwd()
	for _, p := range []*string{model, out, replay} {
		if *p != "" && *p != "-" {
			if a, err := filepath.Abs(*p); err == nil {
				*p = a
			}
		}
	}
	vhAbsArg0()
	if err := lib.InitContainment(false); err != nil {
		fmt.Fprintln(os.Stderr, "vh: cannot set up the scratch area:", err)
		os.Exit(2)
	}
	watch := lib.NewHostWatch(startDir)
	if vhSandboxNote != "" {
		r.Note("%s", vhSandboxNote)
	}
	var hostMu sync.Mutex
	hostCheck := func() {
		hostMu.Lock()
		defer hostMu.Unlock()
		for _, ch := range watch.Verify() {
			r.Fail(lib.Failure{Kind: "oracle", Key: "host/outside-scratch-modified",
				What:     "something outside the scratch directories of the check changed while it ran: " + ch,
				Input:    map[string]any{"property": r.Property, "tier": r.Tier, "seed": r.Seed, "note": "not a single replayable case: re-run the check; requests are contained before they are sent, so a server that resolves paths wrongly or a hole in the harness's containment did this"},
				Expected: "nothing outside the check's own scratch directories is created, removed or modified", Actual: ch})
		}
		for _, n := range watch.Notes() {
			r.Note("%s", n)
		}
		for _, e := range lib.Escapes() {
			if !vhEscapeSeen[e] {
				vhEscapeSeen[e] = true
				r.Fail(lib.Failure{Kind: "tie", Key: "harness/uncontained-request-stopped-at-transport",
					What: "a request with a path outside the scratch directories reached the transport of an os-backed server and was not delivered (the check's own containment filter has a hole): " + e, Actual: e})
			}
		}
	}
	hostStop := make(chan struct{})
	go func() { // damage is reported and put back while the check still runs
		for {
			select {
			case <-hostStop:
				return
			case <-time.After(200 * time.Millisecond):
				hostCheck()
			}
		}
	}()
	finishContainment := func() {
		close(hostStop)
		hostCheck()
		watch.Close()
		lib.CleanupScratch()
	}
	c := &lib.Ctx{Tier: *tier, Seed: *seed, ModelPath: *model, Replay: *replay, Rand: rand.New(rand.NewSource(*seed)), R: r}
	vhResult = r
	lib.ConfigureBudget(*tier, time.Duration(*budget*float64(time.Second)), time.Duration(*hangBudget*float64(time.Second)))

	// The result must survive the death of this process: SIGTERM/SIGINT write what is recorded so far (exit status 4),
	// and every 10 s a checkpoint goes to <out>.partial, which is all that is left after a SIGKILL.
	var finish sync.Mutex // held while the final (or the interrupted) result is written
	partial := ""
	if *out != "" && *out != "-" {
		partial = *out + ".partial"
	}
	sigs := make(chan os.Signal, 2)
	signal.Notify(sigs, syscall.SIGTERM, syscall.SIGINT)
	go func() {
		sig := <-sigs
		finish.Lock() // never released: the process exits below
		lib.RunInterruptHooks()
		r.Note("interrupted by %v after %.0f s: partial result, only what had been recorded by then", sig, time.Since(t0).Seconds())
		r.MarkIncomplete("interrupted by %v", sig)
		finishContainment()
		lib.BudgetReport(r)
		err := r.Write(*out)
		if partial != "" {
			os.Remove(partial)
		}
		lib.CloseBudget()
		if err != nil {
			fmt.Fprintln(os.Stderr, "vh:", err)
			os.Exit(2)
		}
		fmt.Fprintf(os.Stderr, "vh: interrupted by %v; partial result written\n", sig)
		os.Exit(4)
	}()
	if partial != "" {
		lib.CheckpointNow = func() {
			finish.Lock()
			r.Write(partial)
			finish.Unlock()
		}
		go func() {
			for {
				time.Sleep(10 * time.Second)
				finish.Lock()
				r.Write(partial)
				finish.Unlock()
			}
		}()
	}
	returned := make(chan struct{})
	go func() {
		defer close(returned)
		// a panic of the code under test inside the harness process is an observation, not a harness failure
		defer func() {
			if p := recover(); p != nil {
				buf := make([]byte, 8192)
				buf = buf[:runtime.Stack(buf, false)]
				r.Fail(lib.Failure{Kind: "oracle", Key: "panic/in-process", What: fmt.Sprintf("the code under test panicked inside the harness process: %v", p), Actual: string(buf)})
			}
		}()
		f(c)
	}()
	// Watchdog.  A check that calls into the package without a deadline of its own can be blocked for ever by a defect
	// that makes calls hang; whatever it has recorded must still be reported.  The check is abandoned (its result
	// written as it stands, with a failure that names the package call its goroutines are blocked in) when
	//   - it has shown no activity — no Result method, no budget query, no ledger line of a child — for a quarter of
	//     the run's budget (quick: 150 s, more than three times what a whole healthy quick run takes), or
	//   - it has not returned by the soft deadline plus a quarter (it ignores lib.Expired / lib.Stop somewhere).
	soft := lib.SoftTotal()
	stallLimit := max(60*time.Second, soft/4)
	hardLimit := soft + max(30*time.Second, soft/4)
	lib.Touch()
watch:
	for {
		select {
		case <-returned:
			break watch
		case <-time.After(time.Second):
		}
		lib.PollLedger()
		why := ""
		switch {
		case soft > 0 && time.Since(t0) > hardLimit:
			why = fmt.Sprintf("the check had not returned %.0f s after its soft deadline of %.0f s", (hardLimit - soft).Seconds(), soft.Seconds())
		case soft > 0 && lib.SinceActivity() > stallLimit:
			why = fmt.Sprintf("the check showed no activity for %.0f s", stallLimit.Seconds())
		}
		if why == "" {
			continue
		}
		finish.Lock() // never released: the process exits below
		lib.RunInterruptHooks()
		started, callers := cliPkgGoroutines()
		frame := "no-package-frame"
		if len(callers) > 0 {
			frame = cliShortFn(callers[0].PkgFrame())
		} else if len(started) > 0 {
			frame = "started/" + cliShortFn(started[0].PkgFrame())
		}
		kind := "oracle"
		if len(callers) == 0 {
			kind = "tie" // nothing of the harness is inside the package: the harness itself is stuck or too slow
		}
		r.Fail(lib.Failure{Kind: kind, Key: "hang/check-blocked-in/" + frame,
			What:     why + " and was abandoned; goroutines of the harness blocked inside calls of pkg/sftp (and goroutines the package started) are listed in `actual`. The result holds what had been recorded by then",
			Input:    map[string]any{"property": r.Property, "tier": r.Tier, "seed": r.Seed, "note": "not a single replayable case: re-run the check; the blocked call is the finding"},
			Expected: "every call into the package returns", Actual: map[string]any{"callers_blocked_in_package": cliDescribe(callers), "package_goroutines": cliDescribe(started)}})
		r.Note("abandoned after %.0f s: %s", time.Since(t0).Seconds(), why)
		r.MarkIncomplete("abandoned: %s", why)
		finishContainment()
		lib.BudgetReport(r)
		err := r.Write(*out)
		if partial != "" {
			os.Remove(partial)
		}
		lib.CloseBudget()
		if err != nil {
			fmt.Fprintln(os.Stderr, "vh:", err)
			os.Exit(2)
		}
		fmt.Fprintln(os.Stderr, "vh: abandoned:", why)
		os.Exit(0)
	}
	finish.Lock()
	finishContainment()
	lib.BudgetReport(r)
	err := r.Write(*out)
	if partial != "" {
		os.Remove(partial)
	}
	lib.CloseBudget()
	if err != nil {
		fmt.Fprintln(os.Stderr, "vh:", err)
		os.Exit(2)
	}
}

var vhEscapeSeen = map[string]bool{}

// vhAbsArg0 makes os.Args[0] absolute: children are started as os.Args[0] after the process has moved.
func vhAbsArg0() {
	if exe, err := os.Executable(); err == nil {
		os.Args[0] = exe
	} else if a, err := filepath.Abs(os.Args[0]); err == nil {
		os.Args[0] = a
	}
}

// vhResult is the result of the run in progress (for helpers that salvage findings when the run is interrupted).
var vhResult *lib.Result

// childMain dispatches sub-process work: vh child <name> args…
var children = map[string]func(args []string){}

func childMain(args []string) {
	if len(args) == 0 {
		os.Exit(2)
	}
	f, ok := children[args[0]]
	if !ok {
		fmt.Fprintln(os.Stderr, "vh: unknown child", args[0])
		os.Exit(2)
	}
	// a child must not outlive the run it belongs to (the parent may be killed while the child waits on a hang deadline)
	if ppid := os.Getppid(); ppid > 1 {
		go func() {
			for {
				time.Sleep(500 * time.Millisecond)
				if os.Getppid() != ppid {
					os.Exit(5)
				}
			}
		}()
	}
	defer lib.FlushBudget()
	vhAbsArg0()
	if err := lib.InitContainment(true); err != nil {
		fmt.Fprintln(os.Stderr, "vh child: cannot set up the scratch area:", err)
		os.Exit(2)
	}
	defer lib.CleanupScratch()
	f(args[1:])
}
