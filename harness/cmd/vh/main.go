// Command vh is the correspondence harness: one sub-command per property.
// It runs the real pkg/sftp code (built from /repo's working tree with -tags verif)
// and the executable Lean models on the same inputs and reports every difference
// and every direct-oracle failure as JSON for bin/check.
package main

import (
	"flag"
	"fmt"
	"math/rand"
	"os"
	"runtime"
	"sort"
	"strings"

	"verifharness/lib"
)

type checkFn func(c *lib.Ctx)

var checks = map[string]checkFn{}

func register(id string, f checkFn) { checks[strings.ToLower(id)] = f }

func main() {
	if len(os.Args) < 2 {
		var ids []string
		for k := range checks {
			ids = append(ids, k)
		}
		sort.Strings(ids)
		fmt.Fprintln(os.Stderr, "usage: vh <property> [--tier quick|thorough] [--seed N] [--model path] [--out file] [--replay file]\nproperties:", strings.Join(ids, " "))
		os.Exit(2)
	}
	id := strings.ToLower(os.Args[1])
	if id == "child" { // sub-process entry used by checks that must survive panics / OOM
		childMain(os.Args[2:])
		return
	}
	fs := flag.NewFlagSet("vh", flag.ExitOnError)
	tier := fs.String("tier", "quick", "quick or thorough")
	seed := fs.Int64("seed", 1, "PRNG seed")
	model := fs.String("model", "", "path of the sftpmodel driver")
	out := fs.String("out", "-", "result file")
	replay := fs.String("replay", "", "replay file")
	fs.Parse(os.Args[2:])
	f, ok := checks[id]
	if !ok {
		fmt.Fprintln(os.Stderr, "vh: unknown property", id)
		os.Exit(2)
	}
	r := lib.NewResult(strings.ToUpper(id), *tier, *seed)
	c := &lib.Ctx{Tier: *tier, Seed: *seed, ModelPath: *model, Replay: *replay, Rand: rand.New(rand.NewSource(*seed)), R: r}
	func() {
		// a panic of the code under test inside the harness process is an observation, not a harness failure
		defer func() {
			if p := recover(); p != nil {
				buf := make([]byte, 8192)
				buf = buf[:runtime.Stack(buf, false)]
				r.Fail(lib.Failure{Kind: "oracle", Key: "panic/in-process", What: fmt.Sprintf("the code under test panicked inside the harness process: %v", p), Actual: string(buf)})
			}
		}()
		f(c)
	}()
	if err := r.Write(*out); err != nil {
		fmt.Fprintln(os.Stderr, "vh:", err)
		os.Exit(2)
	}
}

// childMain dispatches sub-process work: vh child <name> args…
var children = map[string]func(args []string){}

func childMain(args []string) {
	if len(args) == 0 {
		os.Exit(2)
	}
	f, ok := children[args[0]]
	if !ok {
		fmt.Fprintln(os.Stderr, "vh: unknown child", args[0])
		os.Exit(2)
	}
	f(args[1:])
}
