package main

// Shared by C07 and C11: well-FRAMED packets whose BODY does not decode.
//
// A session can end in more ways than EOF and a broken transport: the peer can send a packet whose length
// word is fine (the whole frame arrives) but whose body stops inside a field, announces a string longer than
// the frame, carries an attribute block shorter than its flags, or has a type byte no request has.  A server
// must stop (or refuse the request) without acting on it — and, the C11 side of it, must still release
// everything that is open at that moment.  The packets are derived from a valid frame of every request
// kind and the field list the judge reads off it (ssParseReq), so every field of every request kind gets its
// "cut inside this field" and every string its "length beyond the frame"; nothing is hand-written per kind.

import (
	"encoding/binary"
	"fmt"
	"strconv"
	"strings"

	"verifharness/wire"
)

// ssBadReqs are the request kinds an undecodable packet is derived from.
var ssBadReqs = []string{"init", "open", "close", "read", "write", "lstat", "fstat", "setstat", "fsetstat", "opendir", "readdir",
	"remove", "mkdir", "rmdir", "realpath", "stat", "rename", "readlink", "symlink",
	"ext:statvfs@openssh.com", "ext:posix-rename@openssh.com", "ext:hardlink@openssh.com", "ext:unknown@example.com"}

// type bytes that are no request: 0, VERSION, 21, 99, the reply types, 199, EXTENDED_REPLY, 255
var ssBadTypes = []int{0, 2, 21, 99, 101, 102, 103, 104, 105, 199, 201, 255}

// the values a string-length word is replaced by, as excess over what the frame still holds
var ssBadOver = map[string]uint32{"+1": 1, "+4": 4, "+1000": 1000}

// ssBadStep is the valid request the packet is derived from; h is the handle it names.
func ssBadStep(req, h string) ssStep {
	all := uint32(wire.ASize | wire.AUIDGID | wire.APerm | wire.ATime | wire.AExt)
	switch req {
	case "init":
		return ssStep{Op: "init"}
	case "open":
		return ssStep{Op: "open", P1: "nbad1", Pf: wire.FWrite | wire.FCreat | wire.FTrunc, AF: all, Len: 7}
	case "close", "fstat", "readdir":
		return ssStep{Op: req, HL: h}
	case "read":
		return ssStep{Op: "read", HL: h, Off: 1, Len: 16}
	case "write":
		return ssStep{Op: "write", HL: h, Off: 2, Len: 12}
	case "fsetstat":
		return ssStep{Op: "fsetstat", HL: h, AF: all, Len: 5}
	case "setstat":
		return ssStep{Op: "setstat", P1: "a.txt", AF: all, Len: 5}
	case "opendir":
		return ssStep{Op: "opendir", P1: "d"}
	case "remove":
		return ssStep{Op: "remove", P1: "d/y"}
	case "mkdir":
		return ssStep{Op: "mkdir", P1: "nbad2"}
	case "rmdir":
		return ssStep{Op: "rmdir", P1: "e"}
	case "realpath":
		return ssStep{Op: "realpath", P1: "d"}
	case "stat", "lstat":
		return ssStep{Op: req, P1: "a.txt"}
	case "readlink":
		return ssStep{Op: "readlink", P1: "ln"}
	case "rename":
		return ssStep{Op: "rename", P1: "d/x", P2: "nbad3"}
	case "symlink":
		return ssStep{Op: "symlink", P1: "a.txt", P2: "nbad4"}
	}
	if strings.HasPrefix(req, "ext:") {
		return ssStep{Op: "ext", Ext: req[4:], P1: "b.bin", P2: "nbad5"}
	}
	return ssStep{}
}

const ssBadStepIdx = 8900 // the request id of the undecodable packet is ssID(ssBadStepIdx)

// ssBadBase is the valid frame of kind req (INIT with one extension pair, so that it has strings too).
func ssBadBase(req, h string, cfg ssCfg, tree string) []byte {
	if req == "init" {
		return wire.Frame(wire.Init, wire.B{}.U32(3).Str("ext@example.com").Str("1"))
	}
	st := ssBadStep(req, h)
	if st.Op == "" {
		return nil
	}
	return st.frame(ssBadStepIdx, cfg, tree, nil)
}

// ssBadDefects lists the ways a packet of kind req can be made undecodable.  The list depends on the
// kind only (not on paths or handles): field names come from the judge's reading of a valid frame.
//
//	type-only          nothing after the type byte
//	cut:<field>        the frame ends in the middle of this field (id, a length word, offset, pflags, attribute word …)
//	in:<string>        the frame ends inside the bytes of this string (its length word is intact)
//	over:<string><+n>  the length word of this string announces n bytes more than the frame still holds
//	huge:<string>      … announces 2^32-1 bytes
//	attrs-short        OPEN / SETSTAT / FSETSTAT: the by-flag fields stop short of what the flags word promises
//	                   (the strings are intact: the request is to be REFUSED, the session goes on)
func ssBadDefects(req string) []string {
	f := ssBadBase(req, "1", ssCfg{Kind: "rs"}, "/t")
	if f == nil {
		return nil
	}
	q, why := ssParseReq(f[4], f[5:])
	if why != "" {
		return nil
	}
	out := []string{"type-only"}
	seen := map[string]bool{}
	for _, fl := range q.Fields {
		if seen[fl.Name] || strings.HasPrefix(fl.Name, "attr-") {
			continue // attribute words are the subject of attrs-short (a block that is short is refused, not fatal)
		}
		seen[fl.Name] = true
		out = append(out, "cut:"+fl.Name)
		if fl.Str {
			s := strings.TrimSuffix(fl.Name, "-len")
			out = append(out, "in:"+s)
			for _, k := range []string{"+1", "+4", "+1000"} {
				out = append(out, "over:"+s+k)
			}
			out = append(out, "huge:"+s)
		}
	}
	if req == "open" || req == "setstat" || req == "fsetstat" {
		out = append(out, "attrs-short", "cut:attr-flags")
	}
	return out
}

type ssBadCombo struct{ Req, Defect string }

// ssBadCombos is the whole space: every request kind x every defect, and the unknown type bytes.
func ssBadCombos() []ssBadCombo {
	var out []ssBadCombo
	for _, r := range ssBadReqs {
		for _, d := range ssBadDefects(r) {
			out = append(out, ssBadCombo{r, d})
		}
	}
	for _, t := range ssBadTypes {
		out = append(out, ssBadCombo{fmt.Sprintf("type-%d", t), "id-only"}, ssBadCombo{fmt.Sprintf("type-%d", t), "id-and-string"})
	}
	return out
}

func ssSetLen(f []byte) []byte {
	binary.BigEndian.PutUint32(f, uint32(len(f)-4))
	return f
}

// ssBadFrame renders the undecodable packet.  h is the handle a handle request names.  soft: the packet
// is one the judge reads as a complete request that must be refused (short attribute block); otherwise
// the judge must reject it ("short-body" / "unknown-type") — err says when the rendering is not what was asked for.
func ssBadFrame(req, defect, h string, cfg ssCfg, tree string) (f []byte, soft bool, err error) {
	if strings.HasPrefix(req, "type-") {
		t, e := strconv.Atoi(req[5:])
		if e != nil || t < 0 || t > 255 {
			return nil, false, fmt.Errorf("bad type %q", req)
		}
		body := wire.B{}.U32(ssID(ssBadStepIdx))
		if defect == "id-and-string" {
			body = body.Str(h)
		}
		f = wire.Frame(byte(t), body)
		if _, why := ssParseReq(f[4], f[5:]); why != "unknown-type" {
			return nil, false, fmt.Errorf("type byte %d is a request type", t)
		}
		return f, false, nil
	}
	base := ssBadBase(req, h, cfg, tree)
	if base == nil {
		return nil, false, fmt.Errorf("unknown request kind %q", req)
	}
	q, why := ssParseReq(base[4], base[5:])
	if why != "" {
		return nil, false, fmt.Errorf("base frame of %s is %s", req, why)
	}
	field := func(name string) (ssField, bool) {
		for _, fl := range q.Fields {
			if fl.Name == name {
				return fl, true
			}
		}
		return ssField{}, false
	}
	kind, arg, _ := strings.Cut(defect, ":")
	switch kind {
	case "type-only":
		f = ssSetLen(append([]byte(nil), base[:5]...))
	case "cut":
		fl, ok := field(arg)
		if !ok {
			return nil, false, fmt.Errorf("%s has no field %q", req, arg)
		}
		f = ssSetLen(append([]byte(nil), base[:fl.Off+fl.W/2]...))
	case "in":
		fl, ok := field(arg + "-len")
		if !ok || fl.Val < 1 {
			return nil, false, fmt.Errorf("%s has no non-empty string %q", req, arg)
		}
		f = ssSetLen(append([]byte(nil), base[:fl.Off+4+int(fl.Val)/2]...))
	case "over", "huge":
		name, v := arg, uint32(0xFFFFFFFF)
		if kind == "over" {
			found := false
			for suf, n := range ssBadOver {
				if strings.HasSuffix(arg, suf) {
					name, found = strings.TrimSuffix(arg, suf), true
					v = n
				}
			}
			if !found {
				return nil, false, fmt.Errorf("bad excess in %q", defect)
			}
		}
		fl, ok := field(name + "-len")
		if !ok {
			return nil, false, fmt.Errorf("%s has no string %q", req, name)
		}
		f = append([]byte(nil), base...)
		if kind == "over" {
			v += uint32(len(f) - fl.Off - 4)
		}
		binary.BigEndian.PutUint32(f[fl.Off:], v)
	case "attrs-short":
		fl, ok := field("attr-flags")
		if !ok {
			return nil, false, fmt.Errorf("%s has no attribute block", req)
		}
		f = ssSetLen(append([]byte(nil), base[:fl.Off+4+6]...)) // the size field stops after 6 of its 8 bytes
		soft = true
	default:
		return nil, false, fmt.Errorf("unknown defect %q", defect)
	}
	got, why := ssParseReq(f[4], f[5:])
	switch {
	case soft && (why != "" || !got.Soft):
		return nil, false, fmt.Errorf("%s/%s: the judge does not read a refusable short attribute block (%q)", req, defect, why)
	case !soft && why != "short-body":
		return nil, false, fmt.Errorf("%s/%s: the judge does not reject the packet (%q)", req, defect, why)
	}
	return f, soft, nil
}

// ssBadHandle picks the handle an undecodable handle request names: the most recently issued live handle
// the request kind fits (READ: read / read-write …), else the most recent live one, else a handle of the
// usual form that was never issued.
func ssBadHandle(req string, trk *ssTrack) string {
	best := ""
	for i := len(trk.order) - 1; i >= 0; i-- {
		h := trk.order[i]
		k, live := trk.live[h]
		if !live {
			continue
		}
		if !ssMismatch(req, k) && !(k == "dir" && (req == "fsetstat" || req == "write" || req == "read")) {
			return h
		}
		if best == "" {
			best = h
		}
	}
	if best != "" {
		return best
	}
	return "1"
}

// ssLiveEstimate[i]: a static estimate of the number of handles open after step i (opens minus closes of
// issued handles; failing opens are counted as successes, which only makes the estimate generous).
func ssLiveEstimate(prog []ssStep) []int {
	out := make([]int, len(prog))
	open := map[int]bool{}
	for i, st := range prog {
		switch {
		case st.Op == "open" || st.Op == "opendir":
			open[i] = true
		case st.Op == "close" && st.H > 0 && st.Sp == "":
			delete(open, st.H)
		}
		out[i] = len(open)
	}
	return out
}
