package main

// C05: the SYNTAX of Glob patterns as a generator dimension (see c05.go, c05_gen.go).
//
// Client.Glob is a port of path/filepath.Glob that matches the client's listings with path.Match; the property says it
// returns what filepath.Glob returns on an identical tree. The pattern decides which branch of Glob runs (no magic at
// all: one Lstat; magic in the last component only: one listing; magic in the directory part: recursion), and
// "magic" is a matter of syntax: an escape (`\x`) makes the string a pattern although it can only name one entry, a
// class can hold the other magic characters, a pattern can be malformed. The generator below builds patterns
// component by component out of atoms of every syntactic kind; the directed sequences add a tree whose NAMES hold
// the magic characters themselves.
//
// Malformed patterns: filepath.Glob checks the whole pattern before it looks at the tree (since Go 1.16). The pinned
// Client.Glob reports ErrBadPattern only when path.Match is actually called, i.e. when the malformed component meets
// at least one directory entry (Glob("[") in an empty directory: nil, nil). That difference is a recorded finding
// (known_findings.json, key glob/malformed-pattern-not-refused-when-nothing-is-matched, classified by mechanism in
// c05Signature); malformed components are generated ANYWHERE in a pattern where both sides are handed the same string.
// VERIF_C05_GLOB_BADANY=0 restricts them to places where they meet a non-empty listing.

import (
	"math/rand"
	"os"
	"path"
	"strings"
)

var c05GlobGoodAtoms = []struct {
	s string
	w int
}{
	{"a", 8}, {"b", 8}, {"c", 6}, {"d", 6},
	{"*", 8}, {"?", 6},
	{"[ab]", 3}, {"[a-c]", 3}, {"[^a]", 3}, {"[^a-b]", 2}, {"[b-d]", 2}, {"[d-d]", 1}, {`[\a]`, 1}, {`[a\-c]`, 1}, {`[\]a]`, 1}, {"[*]", 1}, {"[?a]", 1}, {"[[a]", 1}, {`[\\a]`, 1}, {"[^^]", 1},
	{`\a`, 4}, {`\b`, 4}, {`\c`, 3}, {`\d`, 3}, {`\*`, 2}, {`\?`, 2}, {`\[`, 2}, {`\\`, 2}, {`\]`, 1}, {`\-`, 1},
}

// every one of them makes path.Match return ErrBadPattern wherever it stands in a component (the last one: only at
// the end of a component)
var c05GlobBadAtoms = []string{"[", "[]", "[a", "[a-", "[a-]", "[]a]", "[^]", "[^", "[-a]", `[a\`, `\`}

func c05GlobAtom(rng *rand.Rand) string {
	total := 0
	for _, a := range c05GlobGoodAtoms {
		total += a.w
	}
	x := rng.Intn(total)
	for _, a := range c05GlobGoodAtoms {
		if x < a.w {
			return a.s
		}
		x -= a.w
	}
	return "*"
}

// c05GlobComponent: one path component of a pattern. kind: "any" (1..3 atoms of any sort), "escaped" (a name in which
// at least one character is escaped and nothing else is magic: the pattern can only name ONE entry).
func c05GlobComponent(rng *rand.Rand, kind string) string {
	if kind == "escaped" {
		name := c05Names[rng.Intn(len(c05Names))]
		if rng.Intn(4) == 0 {
			name += c05Names[rng.Intn(len(c05Names))]
		}
		var b strings.Builder
		esc := rng.Intn(len(name))
		for i := 0; i < len(name); i++ {
			if i == esc || rng.Intn(3) == 0 {
				b.WriteByte('\\')
			}
			b.WriteByte(name[i])
		}
		return b.String()
	}
	n := 1
	switch x := rng.Intn(10); {
	case x < 5:
	case x < 9:
		n = 2
	default:
		n = 3
	}
	var b strings.Builder
	for i := 0; i < n; i++ {
		b.WriteString(c05GlobAtom(rng))
	}
	return b.String()
}

// c05GenGlobPattern draws a pattern of one to three components over the name universe of the random sequences. ents
// is the tree as it is now (for the placement of malformed components, and for a bias towards directories that exist).
func c05GenGlobPattern(rng *rand.Rand, ents []c05Entry, sameString bool) string {
	nonEmpty := map[string]bool{} // directories (not links) with at least one entry; "" is the root
	for _, e := range ents {
		dir := ""
		if i := strings.LastIndex(e.rel, "/"); i >= 0 {
			dir = e.rel[:i]
		}
		nonEmpty[dir] = true
	}
	var nonEmptyDirs []string
	for _, e := range ents {
		if e.mode.IsDir() && nonEmpty[e.rel] && !c05GlobHasMagic(e.rel) {
			nonEmptyDirs = append(nonEmptyDirs, e.rel)
		}
	}

	if rng.Intn(100) < 12 { // malformed
		bad := c05GlobBadAtoms[rng.Intn(len(c05GlobBadAtoms))]
		comp := bad
		if rng.Intn(2) == 0 { // something well-formed in front of it (never behind: `\` must end the component, `[a` would swallow it)
			comp = c05GlobAtom(rng) + bad
		}
		// sameString: both sides are handed the very same pattern string (path modes abs and cwd). In mode rel package os
		// gets <root>/<pattern>, and the standard library's up-front validation (Match(pattern, "")) depends on what stands
		// in front of a `*`: Match("*b/[a-]", "") is ErrBadPattern, Match("/r/*b/[a-]", "") is not. There a malformed
		// component is placed only where it meets a listing.
		if sameString && os.Getenv("VERIF_C05_GLOB_BADANY") != "0" {
			switch rng.Intn(3) {
			case 0:
				return comp
			case 1:
				return c05GlobComponent(rng, "any") + "/" + comp
			}
			return comp + "/" + c05GlobComponent(rng, "any")
		}
		// only where the component meets a listing that is not empty
		switch x := rng.Intn(3); {
		case x == 0 && len(nonEmptyDirs) > 0:
			return nonEmptyDirs[rng.Intn(len(nonEmptyDirs))] + "/" + comp
		case nonEmpty[""] && x == 1:
			return comp + "/" + c05GlobComponent(rng, "any")
		case nonEmpty[""]:
			return comp
		}
		return "*"
	}

	n := 1 + rng.Intn(3)
	if rng.Intn(3) == 0 {
		n = 1 + rng.Intn(2)
	}
	comps := make([]string, n)
	allEscaped := rng.Intn(100) < 25 // every component a plain or an escaped name: no unescaped magic anywhere
	for i := range comps {
		switch x := rng.Intn(100); {
		case allEscaped && x < 60:
			comps[i] = c05GlobComponent(rng, "escaped")
		case allEscaped:
			comps[i] = c05Names[rng.Intn(len(c05Names))]
		case x < 20:
			comps[i] = c05GlobComponent(rng, "escaped")
		case x < 40:
			comps[i] = c05Names[rng.Intn(len(c05Names))]
		default:
			comps[i] = c05GlobComponent(rng, "any")
		}
	}
	// a literal prefix that exists, so that deeper components meet something
	if len(nonEmptyDirs) > 0 && rng.Intn(100) < 30 {
		d := strings.Split(nonEmptyDirs[rng.Intn(len(nonEmptyDirs))], "/")
		if len(d) < len(comps) {
			copy(comps, d)
		}
	}
	p := strings.Join(comps, "/")
	if !c05GlobHasMagic(p) {
		return p // verbatim look-up; the two sides spell the result of a non-canonical one differently (see c05Known)
	}
	if c05GlobUnescapedMagic(comps[len(comps)-1]) || len(comps) > 1 && c05GlobUnescapedMagic(strings.Join(comps[:len(comps)-1], "/")) {
		switch rng.Intn(40) { // redundant separators around components that are matched, not looked up
		case 0:
			p += "/"
		case 1:
			if len(comps) > 1 {
				p = comps[0] + "//" + strings.Join(comps[1:], "/")
			}
		}
	}
	return p
}

func c05GlobHasMagic(p string) bool { return strings.ContainsAny(p, `*?[\`) }

// c05GlobUnescapedMagic: is there a `*`, `?` or `[` that is not escaped?
func c05GlobUnescapedMagic(p string) bool {
	for i := 0; i < len(p); i++ {
		switch p[i] {
		case '\\':
			i++
		case '*', '?', '[':
			return true
		}
	}
	return false
}

// c05GlobSyntax names the syntactic features of a pattern for the histogram.
func c05GlobSyntax(p string) []string {
	var out []string
	if !c05GlobHasMagic(p) {
		return []string{"no-magic"}
	}
	if _, err := path.Match(p, ""); err != nil {
		out = append(out, "malformed")
	}
	comps := strings.Split(p, "/")
	for i, c := range comps {
		part := "file-part"
		if i < len(comps)-1 {
			part = "directory-part"
		}
		if strings.Contains(c, `\`) && !c05GlobUnescapedMagic(c) {
			out = append(out, "escape-only-component/"+part)
		}
		if strings.Contains(c, "*") {
			out = append(out, "star/"+part)
		}
	}
	for _, f := range []struct{ sub, name string }{{`\`, "escape"}, {"?", "question-mark"}, {"[^", "negated-class"}, {"[", "class"}, {`\*`, "escaped-star"}, {`\?`, "escaped-question-mark"}, {`\[`, "escaped-bracket"}, {`\\`, "escaped-backslash"}} {
		if strings.Contains(p, f.sub) {
			out = append(out, f.name)
		}
	}
	if strings.HasSuffix(p, `\`) && !strings.HasSuffix(p, `\\`) {
		out = append(out, "trailing-backslash")
	}
	return out
}

// c05GlobSeqs: a tree whose names hold the magic characters themselves, under patterns of every syntactic kind
// (Glob does not change the tree: one sequence per path mode).
func c05GlobSeqs() []c05Directed {
	f := func(p string) c05Ent { return c05Ent{P: p, K: "file", Data: "x", Mode: 0o644} }
	d := func(p string) c05Ent { return c05Ent{P: p, K: "dir", Mode: 0o755} }
	tree := []c05Ent{
		f("foo"), f("fo"), f("f?"), f("a*b"), f("axb"), f("ab"), f("[x]"), f("x"), f(`b\c`), f("bc"), f("-"), f("]"), f("^"), f(`\`),
		d("dir"), f("dir/x"), f("dir/y"), f("dir/*"), f("dir/[a]"), f("dir/a"),
		d("d*r"), f("d*r/x"), f("d*r/z"),
		d("d?"), f("d?/q"),
		d(`e\f`), f(`e\f/x`), d("ef"), f("ef/w"),
		d("empty"),
		{P: "l[", K: "sym", T: "dir"}, {P: "dangling*", K: "sym", T: "nowhere"},
		d("dir/sub"), f("dir/sub/a*b"), f("dir/sub/a"),
	}
	pats := []string{
		// no magic
		"foo", "dir/x", "dir", "missing", "dir/missing", "empty", "foo/x",
		// every magic character escaped: the pattern names one entry
		`f\oo`, `\f\o\o`, `fo\o`, `a\*b`, `f\?`, `\[x]`, `\[x\]`, `b\\c`, `\-`, `\]`, `\^`, `\\`, `dangling\*`, `l\[`, `missi\ng`,
		`d\ir/x`, `d\ir/*`, `d\ir/\x`, `d\*r/*`, `d\*r/x`, `d\?/q`, `d\?/*`, `e\\f/*`, `e\\f/x`, `l\[/*`, `l\[/x`, `dir/\*`, `dir/\[a]`, `dir/\a`, `dir/s\ub/a\*b`, `d\ir/s\ub/*`,
		`\e\m\p\t\y`, `\e\m\p\t\y/*`, `fo\o/*`, `\dir/sub`,
		// escapes next to unescaped magic
		`a\**`, `*\*b`, `a\*?`, `?\*?`, `\f*`, `[f]\?`, `d\*r/?`, `d*r/\x`, `d?r/*`, `*/\x`, `*/\*`, `d\ir/[xy]`,
		// wildcards in either part
		"*", "?", "??", "a*b", "a?b", "f?", "f*", "d*r", "d*r/*", "d?/*", "d?", "*/x", "*/*", "*/*/*", "dir/*", "dir/?", "dir/s*/a*", "l[[]/*", "*[[]", "e*/*",
		// classes
		"[a-c]x[a-c]", "[^a]", "[^a-z]", "[]-]", `[\]]`, `[\-]`, "[*]", "a[*]b", "a[?*]b", "f[?]", "[[]x]", `b[\\]c`, `[\\]`, `[\^]`, "[^^]", "[a-a]b", "dir/[*]", "dir/[[]a]", "dir/[^*]", "[d]ir/x", "d[*]r/x", "d[?]/q",
		// redundant separators where components are matched
		"*/", "dir//*", "d*r//x",
		// malformed, met by a non-empty listing
		"[", "[]", "[a", "[a-", "[a-]", "[]a]", "[^]", "[-a]", `\`, `fo\`, `[a\`, "a[", "*[", "dir/[", `dir/\`, "dir/x[", "[/x", "*/[", `d\ir/[`,
	}
	ops := make([]c05Op, 0, len(pats))
	for _, p := range pats {
		ops = append(ops, c05Op{K: "glob", P: p})
	}
	var out []c05Directed
	for _, mode := range []string{"abs", "rel"} {
		out = append(out, c05Directed{"glob-syntax", c05Input{Mode: mode, Tree: tree, Ops: ops}})
	}
	return out
}
