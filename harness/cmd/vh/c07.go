package main

// C07 — No byte stream can crash, wedge or trick a server.
//
// Valid sessions (srvsession_gen.go) are recorded by an interactive reference run inside a
// child process; every mutation of the recorded stream is then replayed against a fresh
// server on an identical fresh tree / handler set (frame by frame, waiting for each reply,
// except in the dedicated pipelining cases).  Besides the byte-wise mutations there are whole-FIELD
// mutations: every integer field the judge finds in a recorded request (length prefix, id, string
// lengths, offsets, lengths, pflags, attribute flags / words / counts) is replaced by boundary
// values, the rest of the frame kept well-formed where that is possible, so that the request is
// dispatched with the extreme value.  Oracles (srvsession_exec.go, ssRunC07):
//   1. the process survives and Serve returns (20 s deadline; 3 s, with the stream still
//      open, after a packet that is malformed beyond doubt);
//   2. the responses are those of the reference run for the unmutated requests, legal reply
//      types with the right id for well-formed-but-different requests, nothing else;
//   3. the served tree / handler call log equal the reference run cut before the malformed packet;
//   4. no descriptor into the tree, every handler object closed exactly once, no package goroutine left;
//   5. EFFECTS of dispatched requests (srvsession_effect.go): WRITE writes exactly `length` bytes at `offset`,
//      SETSTAT / FSETSTAT apply exactly the flagged attributes (files before/after on the os-backed server,
//      recorded handler arguments on the request server), and bytes that follow the last field of a request
//      inside its frame mean nothing (the stream re-encoded without them gets the same replies and leaves
//      the same files / handler log).
// Transport dimension (ssMut.Tr, ssStartTr): every mutated stream meets the server either through one connection
// object whose Close ends both directions (net.Pipe-like: a server that hangs up cannot read on) or through two
// independent pipes — struct{io.Reader; io.WriteCloser}, the stdin / stdout of an sftp subsystem — where the
// server's Close ends its OUTPUT only and everything the peer sent behind a malformed packet stays readable;
// pipelined cases also with a bytes.Reader over the whole stream as input and a separate sink as output.  Oracle 3
// is the same on all of them and does not rely on the connection dying: the served tree / handler call log after
// Serve returned is the reference run's just before the malformed packet.  When it is not, the stream cut right
// behind the malformed packet is run as well, which tells "the malformed packet was acted upon"
// (<kind>/state-changed-by-malformed/…) from "the server kept executing what followed it"
// (<kind>/requests-behind-malformed-executed/…).
// Option dimensions (c07OptionConfigs): ReadOnly() on the os-backed server — the reference run and every
// mutation of it go through the denial path: a modifying request (also one a mutation produced) is
// answered PERMISSION_DENIED and the tree ends exactly as it began (os/readonly-not-denied/<kind>,
// os/readonly-tree-changed); non-default start / working directories with relative session paths;
// handlers and handler objects without their optional interfaces.
// STAGED PIPELINES (c07PipeSessions, ssMut.Stage / Hold / Stall): sessions whose middle is a deep pipeline of
// READs and WRITEs on LIVE handles (deeper than the servers have workers).  The opens are sent one at a time,
// everything behind them — the pipeline, the malformed packet, the rest of the session — in one write, so that
// the malformed packet arrives while the requests in front of it are still queued or running; also with the
// handler objects held and / or the server's output left unread until the server has hung up.  Same oracles:
// the process survives, Serve returns, the replies that were sent are a prefix of the reference run's, and the
// files / handler calls are those of ALL the requests in front of the malformed packet and of nothing else.

import (
	"encoding/hex"
	"encoding/json"
	"fmt"
	"math/rand"
	"os"
	"runtime"
	"strings"
	"time"

	"github.com/pkg/sftp"

	"verifharness/lib"
	"verifharness/wire"
)

func init() { register("c07", checkC07) }

type c07Session struct {
	name string
	prog []ssStep
	pipe bool // path-only: also mutated in pipelined mode
	idx  int
	// staged pipeline (c07PipeSessions): steps [stage, stage+burst) are the pipelined READs / WRITEs on the handles
	// the steps before stage opened; the closes follow
	stage, burst int
}

// c07PipeSessions: sessions whose middle is a pipeline of n requests on live handles.  Within a pipeline no two
// requests touch the same bytes unless both only read them (what a READ returns and what the files hold at the
// end must not depend on the schedule): READs go to files / regions the pipeline does not write, WRITEs to
// disjoint slots.
//
//	pipe-reads      READs of one read handle: PRNG offsets up to beyond the end of the file, lengths 1 … 65536
//	pipe-writes     WRITEs through one write handle
//	pipe-mixed      read, write and read-write handle (the latter written before the pipeline): READs, WRITEs,
//	                and the path / handle requests that run on the servers' one sequential worker (STAT, FSTAT,
//	                REALPATH) in PRNG order
//	pipe-big-reads  a 128 KiB file made by one WRITE far behind offset 0; READs of 32768 bytes at PRNG multiples of 4096
func c07PipeSessions(rnd *rand.Rand, n int) []c07Session {
	rdLens := []uint32{1, 17, 512, 4096, 5000, 32768, 65536}
	var out []c07Session
	closeAll := func(p []ssStep, hs ...int) []ssStep {
		for _, h := range hs {
			p = append(p, ssStep{Op: "close", H: h})
		}
		return p
	}
	{
		p := []ssStep{{Op: "init"}, {Op: "open", P1: "b.bin", Pf: wire.FRead}}
		for i := 0; i < n; i++ {
			p = append(p, ssStep{Op: "read", H: 1, Off: uint64(rnd.Intn(4300)), Len: rdLens[rnd.Intn(len(rdLens))]})
		}
		out = append(out, c07Session{name: "pipe-reads", prog: closeAll(p, 1), stage: 2, burst: n})
	}
	{
		p := []ssStep{{Op: "init"}, {Op: "open", P1: "n1", Pf: wire.FWrite | wire.FCreat | wire.FTrunc}}
		for i := 0; i < n; i++ {
			p = append(p, ssStep{Op: "write", H: 1, Off: uint64(i * 64), Len: uint32(1 + rnd.Intn(64))})
		}
		out = append(out, c07Session{name: "pipe-writes", prog: closeAll(p, 1), stage: 2, burst: n})
	}
	{
		p := []ssStep{{Op: "init"}, {Op: "open", P1: "b.bin", Pf: wire.FRead}, {Op: "open", P1: "n1", Pf: wire.FWrite | wire.FCreat | wire.FTrunc},
			{Op: "open", P1: "n2", Pf: wire.FRead | wire.FWrite | wire.FCreat}, {Op: "write", H: 3, Off: 0, Len: 300}}
		for i := 0; i < n; i++ {
			var st ssStep
			switch x := rnd.Intn(16); {
			case x < 5:
				st = ssStep{Op: "read", H: 1, Off: uint64(rnd.Intn(4300)), Len: rdLens[rnd.Intn(len(rdLens))]}
			case x < 8:
				st = ssStep{Op: "write", H: 2, Off: uint64(i * 64), Len: uint32(1 + rnd.Intn(64))}
			case x < 10:
				st = ssStep{Op: "read", H: 3, Off: uint64(rnd.Intn(200)), Len: uint32(1 + rnd.Intn(100))} // inside the part written before the pipeline
			case x < 13:
				st = ssStep{Op: "write", H: 3, Off: uint64(1000 + i*64), Len: uint32(1 + rnd.Intn(64))} // behind what the READs look at
			case x < 14:
				st = ssStep{Op: "stat", P1: "a.txt"}
			case x < 15:
				st = ssStep{Op: "fstat", H: 1}
			default:
				st = ssStep{Op: "realpath", P1: "d/../e"}
			}
			p = append(p, st)
		}
		out = append(out, c07Session{name: "pipe-mixed", prog: closeAll(p, 3, 2, 1), stage: 5, burst: n})
	}
	{
		p := []ssStep{{Op: "init"}, {Op: "open", P1: "n1", Pf: wire.FRead | wire.FWrite | wire.FCreat}, {Op: "write", H: 1, Off: 1 << 17, Len: 64}}
		for i := 0; i < n; i++ {
			p = append(p, ssStep{Op: "read", H: 1, Off: uint64(rnd.Intn(1<<17/4096+1)) * 4096, Len: 32768})
		}
		out = append(out, c07Session{name: "pipe-big-reads", prog: closeAll(p, 1), stage: 3, burst: n})
	}
	return out
}

// c07PipeModes: how the pipelined part meets the server — as fast as the server takes it; with the peer not
// reading replies meanwhile; request server: with the handler objects held; thorough: both.
func c07PipeModes(kind string, thorough bool) []ssMut {
	m := []ssMut{{}, {Stall: true}}
	if kind == "rs" {
		m = append(m, ssMut{Hold: true})
		if thorough {
			m = append(m, ssMut{Hold: true, Stall: true})
		}
	}
	return m
}

func ssBaseRnd() func() uint32 {
	r := rand.New(rand.NewSource(time.Now().UnixNano() ^ int64(os.Getpid())<<20))
	return r.Uint32
}

// c07FieldVals are the boundary values for a w-byte field: 0, 1, 2^31-1, 2^31, 2^32-1-k (k < 16), and
// for 64-bit fields also 2^32, 2^63-1, 2^63, 2^64-1-k (k < 16).
func c07FieldVals(w int) []uint64 {
	v := []uint64{0, 1, 0x7FFFFFFF, 0x80000000}
	for k := uint64(0); k < 16; k++ {
		v = append(v, 0xFFFFFFF0+k)
	}
	if w == 8 {
		v = append(v, 1<<32, 1<<63-1, 1<<63)
		for k := uint64(0); k < 16; k++ {
			v = append(v, ^uint64(0)-15+k)
		}
	}
	return v
}

// c07FieldSession uses every request kind that carries integer fields on LIVE handles of every
// kind (read, write, read-write, directory), with attribute blocks that carry every by-flag field
// and an extended pair (so that the count word exists): the target of the field mutations.
func c07FieldSession() []ssStep {
	all := uint32(wire.ASize | wire.AUIDGID | wire.APerm | wire.ATime | wire.AExt)
	return []ssStep{{Op: "init"},
		{Op: "open", P1: "b.bin", Pf: wire.FRead}, // step 1: read handle
		{Op: "read", H: 1, Off: 3, Len: 40},
		{Op: "open", P1: "n1", Pf: wire.FWrite | wire.FCreat | wire.FTrunc, AF: wire.APerm}, // step 3: write handle
		{Op: "write", H: 3, Off: 5, Len: 24},
		{Op: "open", P1: "n2", Pf: wire.FRead | wire.FWrite | wire.FCreat, AF: all}, // step 5: read-write handle
		{Op: "write", H: 5, Off: 0, Len: 32},
		{Op: "read", H: 5, Off: 4, Len: 8},
		{Op: "fstat", H: 5},
		{Op: "fsetstat", H: 5, AF: all, Len: 9},
		{Op: "opendir", P1: "d"}, // step 10: directory handle
		{Op: "readdir", H: 10},
		{Op: "setstat", P1: "a.txt", AF: all, Len: 11},
		{Op: "setstat", P1: "d/x", AF: wire.ASize, Len: 3},
		{Op: "mkdir", P1: "n3"},
		{Op: "rename", P1: "d/y", P2: "n4"},
		{Op: "ext", Ext: "statvfs@openssh.com", P1: "d"},
		{Op: "ext", Ext: "posix-rename@openssh.com", P1: "n4", P2: "n5"},
		{Op: "read", H: 1, Off: 4000, Len: 200}, // crosses the end of the file
		{Op: "close", H: 5}, {Op: "close", H: 3}, {Op: "close", H: 10}, {Op: "close", H: 1},
	}
}

var c07ValidTypes = []uint32{1, 3, 4, 5, 6, 7, 8, 9, 10, 11, 12, 13, 14, 15, 16, 17, 18, 19, 20, 200}

// c07OptionConfigs: the option dimensions beyond {server kind, allocator, working directory}.
//
// os-backed server: ReadOnly() (every modifying request — also one a mutation made out of another — must be
// refused with PERMISSION_DENIED and the tree stay as it was) x WithDebug x {absolute paths, working
// directory + relative paths, working directory <tree>/home/u + relative paths} x allocator.
// Request server: {default start directory, WithStartDirectory("/") + relative paths,
// WithStartDirectory("/home/u") + absolute, + relative paths} x allocator x handlers/objects {all optional
// interfaces, objects without Close and TransferError, handlers without OpenFileWriter / LstatFileLister /
// PosixRenameFileCmder / StatVFSFileCmder, neither}.
//
// quick: four members (ReadOnly twice, start directory twice; allocator, path style and the interface
// variant rotate with the seed), each on the field session and every third generated session; thorough:
// the whole product, each member on a rotating share of the sessions with the sampled mutation density.
func c07OptionConfigs(c *lib.Ctx, thorough bool, base []ssCfg) (out []ssCfg, share int) {
	seen := map[string]bool{}
	for _, b := range base {
		seen[b.String()] = true
	}
	add := func(cfg ssCfg) {
		if k := cfg.String(); !seen[k] {
			seen[k] = true
			out = append(out, cfg)
		}
	}
	objs, hdls := "closer,terr", "openfile,lstat,posixrename,statvfs"
	variants := []string{"", objs, hdls, objs + "," + hdls}
	if !thorough {
		b := func(n uint) bool { return c.Seed>>n&1 == 1 }
		add(ssCfg{Kind: "os", RO: true, Alloc: b(0)})
		add(ssCfg{Kind: "os", RO: true, WorkDir: true, Alloc: !b(0), Start: []string{"", c11Start}[c.Seed>>1&1], Debug: b(2)})
		// (the first of the two keeps every optional interface: its reference runs have partners among the
		// base configurations for the path-style comparison)
		add(ssCfg{Kind: "rs", Start: c11Start, WorkDir: true, Alloc: b(1)})
		add(ssCfg{Kind: "rs", Start: c11Start, Alloc: !b(1), Without: variants[int(c.Seed&0xffff)%4]})
		return out, 3
	}
	for _, alloc := range []bool{false, true} {
		for _, loc := range []ssCfg{{}, {WorkDir: true}, {WorkDir: true, Start: c11Start}} {
			for _, ro := range []bool{false, true} {
				for _, dbg := range []bool{false, true} {
					add(ssCfg{Kind: "os", Alloc: alloc, RO: ro, Debug: dbg, WorkDir: loc.WorkDir, Start: loc.Start})
				}
			}
		}
		for _, loc := range []ssCfg{{}, {WorkDir: true}, {Start: c11Start}, {WorkDir: true, Start: c11Start}} {
			for _, w := range variants {
				add(ssCfg{Kind: "rs", Alloc: alloc, WorkDir: loc.WorkDir, Start: loc.Start, Without: w})
			}
		}
	}
	return out, c07ThoroughShare
}

// thorough: every member of the option product meets 1/c07ThoroughShare of the generated sessions (2 of 12),
// every c07ThoroughFieldShare-th member the field session and every ReadOnly() member the read-only
// session — all mutated with the sampled density of the quick tier (the exhaustive per-byte / per-value
// density stays with the eight base configurations: the tier is at its ten minutes)
const (
	c07ThoroughShare      = 6
	c07ThoroughFieldShare = 2
)

// c07StyleFree strips from a configuration what must not influence the replies to a valid session.
func c07StyleFree(cfg ssCfg) ssCfg {
	cfg.Alloc, cfg.WorkDir, cfg.Start, cfg.Debug = false, false, "", false
	return cfg
}

// c07ReplyClass: type and, for STATUS, the code of a reply rendered by ssReplyText.
func c07ReplyClass(text string) string {
	f := strings.Fields(text)
	if len(f) >= 3 && f[0] == "STATUS" {
		return f[0] + " " + f[2]
	}
	if len(f) > 0 {
		return f[0]
	}
	return ""
}

// c07CmpRefs compares the reference runs of one session on two configurations that differ only in path
// style / start directory / allocator / debug writer.
func c07CmpRefs(r *lib.Result, a *ssPJob, ra *ssResult, b *ssPJob, rb *ssResult) {
	n := min(len(ra.Replies), len(rb.Replies), len(a.Prog))
	for i := 0; i < n; i++ {
		ca, cb := c07ReplyClass(ra.Replies[i]), c07ReplyClass(rb.Replies[i])
		if ca == cb {
			continue
		}
		op := a.Prog[i].Op
		if op == "ext" {
			op += ":" + a.Prog[i].Ext
		}
		in := a.input()
		in.Cmp = &b.Cfg
		r.Fail(lib.Failure{Kind: "oracle", Key: fmt.Sprintf("%s/reply-depends-on-path-style/%s", a.Cfg.Kind, op),
			What:     fmt.Sprintf("the same valid session gets a different reply to step %d (%+v) on %s than on %s, which differ only in path style / start directory / allocator / debug writer", i, a.Prog[i], b.Cfg.String(), a.Cfg.String()),
			Input:    in,
			Expected: a.Cfg.String() + ": " + ra.Replies[i], Actual: b.Cfg.String() + ": " + rb.Replies[i]})
		return // later steps may differ as a consequence
	}
}

func checkC07(c *lib.Ctx) {
	r := c.R
	thorough := c.Tier == "thorough"
	ssThoroughRun = thorough || c.Replay != ""
	r.Rule = "sessions: INIT + PRNG mix of 24 request kinds (OPEN r/w/rw, READ, WRITE, FSTAT, FSETSTAT, CLOSE, OPENDIR, READDIR, STAT, LSTAT, MKDIR, RMDIR, REMOVE, RENAME, SYMLINK, READLINK, REALPATH, SETSTAT, statvfs/posix-rename/hardlink/unknown extended), incl. failing opens, never-issued handles and (one flavour) handles of the wrong kind; recorded interactively against os-backed Server (absolute paths / working directory + relative paths) and RequestServer with counting in-memory handlers, allocator on and off; option dimensions — os-backed: ReadOnly() (every modifying request, also one made by a mutation, must be refused with PERMISSION_DENIED and the tree stay as it was) x WithDebug x {absolute, working directory, working directory <tree>/home/u + relative paths} x allocator; request server: {default, WithStartDirectory(\"/\") + relative, WithStartDirectory(\"/home/u\") + absolute, + relative paths} x allocator x {all optional interfaces, handler objects without Close / TransferError, handlers without OpenFileWriter / LstatFileLister / PosixRenameFileCmder / StatVFSFileCmder, neither}; quick: four members of that product (rotating with the seed) on the field session and every third generated session, thorough: the whole product (24 os + 32 rs members) on rotating shares of the sessions, mutated with the sampled density; ReadOnly() configurations also record a \"read-only\" session (every modifying request kind, OPEN with the combinations of write / create / truncate / append / excl / read) and get ALL boundary values for every OPEN's pflags; reference runs of one session on configurations that differ only in path style / start directory / allocator / debug writer are compared reply by reply (type and status code). Mutations of the recorded stream, one per case: cut at byte k then EOF (quick: every frame boundary, boundary+-1 and PRNG offsets; thorough: every k), every frame's length field := 0,1,n-1,n+1,2^31-1,2^32-1, every frame's type byte := sample incl. 0,2,21,99,101-105,199,201,255 and other valid types (thorough: all 0..255), every string-length field (the data length of a WRITE included) := 0,n-1,n+1,n+1000,2^32-1 and, for the last string of a frame (thorough: every string), n/2 — the bytes left where they are —, every frame's length field also := n+(length of the next packet) so that the frame swallows the whole next packet (thorough: also n+4 and the next two packets), 1 and 5 (thorough: 1,3,4,5,8,64,4096) bytes appended INSIDE every frame, whole-field mutations (every integer field the judge finds in a request: frame length, id, version, string lengths, READ/WRITE offset and length, pflags, attribute flags, size, uid, gid, permissions, times, extended count := 0,1,2^31-1,2^31,2^32-16..2^32-1 and for 64-bit fields also 2^32,2^63-1,2^63,2^64-16..2^64-1; string lengths 0/1 also with the string cut to fit and attribute flags also with the block zero-padded to fit, so that the request is dispatched with the extreme value; quick: PRNG choice of 1 value per field (3 in the dedicated session that exercises read/write/read-write/directory handles and full attribute blocks), but ALL values for the offsets and lengths of that session's READs and WRITEs; thorough: all values), garbage appended, the same garbage packets (zero / huge / cut length words, unknown type, RMDIR and EXTENDED with only an id, STAT whose string outruns its frame, PRNG bytes) inserted INSIDE the session in front of a PRNG-chosen frame (quick: 1 position per packet, thorough: 3) so that the rest of the valid session follows the malformed packet, crafted raw frames (F3/short-attribute witnesses), and the same for path-only sessions sent pipelined. TRANSPORT dimension, for both servers: every case runs either on one connection object whose Close ends both directions (net.Pipe-like) or on two independent pipes (struct{io.Reader; io.WriteCloser}, stdin/stdout-like: the server's Close ends its output only, its input stays readable) — PRNG, one half each; every pipelined case additionally with a bytes.Reader over the WHOLE mutated stream as input and a separate sink as output. On every transport the state oracle is the same: the served tree / handler call log after Serve returned equal the reference run cut just before the malformed packet, whatever well-formed requests the stream still holds behind it (histogram behind-the-malformed-packet/<transport>/<end class>/…); when they differ, the stream cut right behind the malformed packet is run too, to tell a malformed packet that was acted upon from a server that kept executing what followed it (<kind>/requests-behind-malformed-executed/<end class>). STAGED PIPELINES on live handles, both servers, allocator on and off (thorough: also with a working / start directory and handler objects without Close / TransferError): four sessions whose middle is a pipeline of 3W+2 (thorough 6W; W = sftp.SftpServerWorkerCount) requests — READs of one read handle with PRNG offsets up to beyond the end of the file and lengths 1 … 65536; WRITEs to disjoint slots through one write handle; a PRNG mix of READs, WRITEs (read, write and read-write handle) and STAT / FSTAT / REALPATH; READs of 32768 bytes out of a 128 KiB file the session made itself. The opens (and the WRITE that fills what is read later) are sent one at a time, everything from the first pipelined request on goes out in ONE write: the unmutated session, a malformed packet (PRNG choice of the garbage packets above) inserted behind k pipelined requests — k = 1, W-1, W, W+1, 2W, 2W+1, 3W+1, the whole pipeline, the whole session; thorough: every k — with the rest of the session behind it, and pipelined requests themselves mutated (length word 0 / 2^32-1 / n-1, type 99, the stream cut at 0, 1, all-but-one bytes of the frame); each of them as fast as the server reads, with the peer not reading the server's output from the write on until the server has read the malformed packet (resp. taken the whole write; k <= 2W+2), and — request server — with ReadAt / WriteAt of the handler objects held until the server has hung up (k <= 3W+1; thorough: also both); transport one connection object / two independent pipes (held cases: both; else PRNG, thorough both). Oracles as everywhere: the process survives (a dead child is a failure with the panic text), Serve returns, the replies that were sent are, in order, those of the reference run to the requests in front of the malformed packet (any prefix), and the served files / the handler calls (READ / WRITE handler calls compared as a multiset: their order in a pipeline is the schedule's) are those of ALL the requests in front of the malformed packet and of nothing behind it (histograms pipeline/…: mode, how many requests the malformed packet was behind, how many pipelined requests were still unanswered when the output ended). EFFECT oracles besides the reply oracles: around every WRITE, SETSTAT and FSETSTAT of every run (reference runs too) the file behind the handle / at the path is looked at before and after (os-backed: an OK'd WRITE leaves the old content with exactly `length` bytes — the bytes of the data string — at `offset`; an OK'd SETSTAT / FSETSTAT changed exactly the attributes its flags select, to the block's values) resp. the arguments the handler object / the Setstat handler recorded are compared with the request's fields (request server); and whenever a dispatched frame carries bytes after the last field of its request, the whole stream is run a second time with every request re-encoded without such bytes: same replies, same final tree / handler log. Each case runs on a fresh server in a child process; a case is non-trivial when the stream differs from the reference stream; distinct by (server config, session, mutation)"
	base, err := ssMkBase(ssBaseRnd())
	if err != nil {
		r.Fail(lib.Failure{Kind: "tie", Key: "tmpdir", What: err.Error()})
		return
	}
	defer os.RemoveAll(base)
	workers := runtime.NumCPU()
	if workers > 16 {
		workers = 16
	}

	if c.Replay != "" {
		var in ssInput
		if err := lib.ReadReplay(c.Replay, &in); err != nil {
			r.Fail(lib.Failure{Kind: "tie", Key: "replay", What: err.Error()})
			return
		}
		j := &ssPJob{Kind: "c07", Cfg: in.Cfg, Prog: in.Prog, PID: ssProgID(in.Cfg, in.Prog), Mut: in.Mut}
		if in.Mut == nil {
			j.Kind = "ref"
		}
		if in.Cmp != nil { // a path-style comparison: the two reference runs, then their replies
			j2 := &ssPJob{Kind: "ref", Cfg: *in.Cmp, Prog: in.Prog, PID: ssProgID(*in.Cmp, in.Prog)}
			col := &ssCollector{r: r, base: base, jobs: []*ssPJob{j, j2}}
			res, res2 := ssRunAlone(base, j), ssRunAlone(base, j2)
			res.Prev, res2.Prev = -1, -1
			r.Case(fmt.Sprint(j.input(), *in.Cmp), true)
			col.done(0, j, &res)
			col.done(1, j2, &res2)
			col.confirm(1)
			if !res.Crash && !res2.Crash {
				c07CmpRefs(r, j, &res, j2, &res2)
			}
			return
		}
		col := &ssCollector{r: r, base: base, jobs: []*ssPJob{j}}
		res := ssRunAlone(base, j)
		// a staged pipeline meets the server's workers as the scheduler lets it (unless the handlers are held): a
		// replay that shows nothing is repeated a few times
		for x := 0; x < 7 && j.Mut != nil && j.Mut.Stage > 0 && !res.Crash && !res.Timeout && len(res.Findings) == 0 && !c.Expired(); x++ {
			r.Hist("replay/staged-pipeline-repeated")
			res = ssRunAlone(base, j)
		}
		res.Prev = -1
		r.Case(fmt.Sprint(j.input()), true)
		col.done(0, j, &res)
		col.confirm(1)
		return
	}

	// ---- sessions ----
	nNormal, nWrong, nPath, steps := 3, 1, 1, 12
	if thorough {
		nNormal, nWrong, nPath, steps = 8, 2, 2, 14
	}
	var sessions []c07Session
	for i := 0; i < nNormal; i++ {
		sessions = append(sessions, c07Session{name: fmt.Sprintf("mix%d", i), prog: ssGen(c.Rand, ssGenOpts{N: steps, CloseAll: i%2 == 0})})
	}
	for i := 0; i < nWrong; i++ {
		sessions = append(sessions, c07Session{name: fmt.Sprintf("wrongkind%d", i), prog: ssGen(c.Rand, ssGenOpts{N: steps + 4, WrongKind: true, Many: 4})})
	}
	for i := 0; i < nPath; i++ {
		sessions = append(sessions, c07Session{name: fmt.Sprintf("pathonly%d", i), prog: ssGen(c.Rand, ssGenOpts{N: steps, PathOnly: true}), pipe: true})
	}
	cfgs := []ssCfg{{Kind: "os"}, {Kind: "os", Alloc: true}, {Kind: "os", WorkDir: true}, {Kind: "rs"}, {Kind: "rs", Alloc: true}, {Kind: "rs", WorkDir: true, Alloc: true}}
	if thorough {
		cfgs = append(cfgs, ssCfg{Kind: "os", WorkDir: true, Alloc: true}, ssCfg{Kind: "rs", WorkDir: true})
	}
	// option dimensions (see c07OptionConfigs): these configurations meet the field session and a rotating
	// share of the generated sessions
	optCfgs, optShare := c07OptionConfigs(c, thorough, cfgs)
	if bad, n := cntVariantsSelfTest(optCfgs); len(bad) > 0 {
		for _, b := range bad {
			r.Fail(lib.Failure{Kind: "tie", Key: "tie/interface-variant-selftest", What: b})
		}
		return
	} else {
		r.HistAdd("selftest/interface-variants-verified-by-type-assertion", n)
	}
	for i := range sessions {
		sessions[i].idx = i
	}
	for _, s := range sessions {
		for _, st := range s.prog {
			r.Hist("op/" + st.Op)
		}
	}

	// ---- phase 1: reference runs ----
	type refInfo struct {
		job  *ssPJob
		sess c07Session
		res  ssResult
		opt  bool // a member of the option product: mutated with the sampled (quick) density in both tiers
	}
	var refs []*refInfo
	var jobs []*ssPJob
	sessOf := map[string]string{}
	optRefs := false
	addRef := func(cfg ssCfg, s c07Session) {
		j := &ssPJob{Kind: "ref", Cfg: cfg, Prog: s.prog, PID: ssProgID(cfg, s.prog)}
		sessOf[j.PID] = s.name
		refs = append(refs, &refInfo{job: j, sess: s, opt: optRefs})
		jobs = append(jobs, j)
	}
	for _, cfg := range cfgs {
		for _, s := range sessions {
			addRef(cfg, s)
		}
	}
	optRefs = true
	for ci, cfg := range optCfgs {
		for si, s := range sessions {
			if (si+ci+int(c.Seed&0xffff))%optShare == 0 {
				addRef(cfg, s)
			}
		}
	}
	optRefs = false
	// the "read-only" flavour (every modifying request kind, OPEN with every kind of modifying pflags), on
	// every ReadOnly() configuration
	nROOps, nROCmds := 6, 6
	if thorough {
		nROOps, nROCmds = 0, 0
	}
	roSess := c07Session{name: "readonly", prog: ssGenReadOnly(c.Rand, true, nROOps, nROCmds), idx: len(sessions)}
	for _, st := range roSess.prog {
		r.Hist("op/" + st.Op)
	}
	optRefs = true
	for _, cfg := range optCfgs {
		if cfg.RO {
			addRef(cfg, roSess)
		}
	}
	optRefs = false
	// the field-mutation session, on every configuration
	fieldSess := c07Session{name: "fields", prog: c07FieldSession()}
	for _, cfg := range cfgs {
		addRef(cfg, fieldSess)
	}
	optRefs = true
	for ci, cfg := range optCfgs {
		if !thorough || (ci+int(c.Seed&0xffff))%c07ThoroughFieldShare == 0 {
			addRef(cfg, fieldSess)
		}
	}
	optRefs = false
	// staged pipelines: both servers, allocator on and off
	W := sftp.SftpServerWorkerCount
	nPipe := 3*W + 2
	if thorough {
		nPipe = 6 * W
	}
	pipeCfgs := []ssCfg{{Kind: "os"}, {Kind: "os", Alloc: true}, {Kind: "rs"}, {Kind: "rs", Alloc: true}}
	if thorough {
		pipeCfgs = append(pipeCfgs, ssCfg{Kind: "os", Alloc: true, WorkDir: true}, ssCfg{Kind: "rs", Alloc: true, WorkDir: true},
			ssCfg{Kind: "rs", Alloc: true, Without: "closer,terr"})
	}
	for _, ps := range c07PipeSessions(c.Rand, nPipe) {
		for _, st := range ps.prog {
			r.Hist("op/" + st.Op)
		}
		for _, cfg := range pipeCfgs {
			addRef(cfg, ps)
		}
	}
	// special sessions
	bigRead := c07Session{name: "read-300000", prog: []ssStep{{Op: "init"}, {Op: "open", P1: "b.bin", Pf: wire.FRead}, {Op: "read", H: 1, Len: 300000}, {Op: "close", H: 1}}}
	for _, cfg := range []ssCfg{{Kind: "os", MaxTx: 1 << 19}, {Kind: "rs", MaxTx: 1 << 19}, {Kind: "os", Alloc: true, MaxTx: 1 << 19}, {Kind: "rs", Alloc: true, MaxTx: 1 << 19}} {
		addRef(cfg, bigRead) // F10 when the allocator is on
	}
	nSpecialFrom := len(refs)
	witnessRmdir := c07Session{name: "witness-rmdir-id-only", prog: []ssStep{{Op: "init"}, {Op: "realpath", P1: ""}}}
	witnessAttrs := c07Session{name: "witness-short-attrs", prog: []ssStep{{Op: "init"}, {Op: "open", P1: "n1", Pf: wire.FWrite | wire.FCreat}, {Op: "close", H: 1}}}
	addRef(ssCfg{Kind: "os", WorkDir: true, Tree: "empty"}, witnessRmdir)
	addRef(ssCfg{Kind: "rs", WorkDir: true, Tree: "empty"}, witnessRmdir)
	addRef(ssCfg{Kind: "os", WorkDir: true}, witnessAttrs)
	addRef(ssCfg{Kind: "rs", WorkDir: true}, witnessAttrs)
	addRef(ssCfg{Kind: "rs", WorkDir: true, InMem: true}, witnessAttrs)

	col := &ssCollector{r: r, base: base, jobs: jobs}
	ssRunPool(base, workers, jobs, func(i int, j *ssPJob, res *ssResult) {
		refs[i].res = *res
		r.Case(j.Cfg.String()+" "+j.PID+" ref", false)
		r.Hist("mut/none")
		r.Hist("cfg/" + j.Cfg.String())
		col.done(i, j, res)
	})
	col.confirm(3)

	// ---- phase 1b: the replies to a valid session do not depend on where the tree lives or how its paths
	// are spelled (absolute / relative to the working or start directory, default or other start directory),
	// nor on the allocator or the debug writer: reference runs of one session on configurations that differ
	// only in that are compared reply by reply (type and status code)
	groups := map[string][]*refInfo{}
	var gkeys []string
	for _, ri := range refs {
		if ri.res.Crash || ri.res.Timeout || len(ri.res.Replies) != len(ri.job.Prog) {
			continue
		}
		k := c07StyleFree(ri.job.Cfg).String() + " " + ri.sess.name
		if groups[k] == nil {
			gkeys = append(gkeys, k)
		}
		groups[k] = append(groups[k], ri)
	}
	for _, k := range gkeys {
		g := groups[k]
		for _, ri := range g[1:] {
			r.Hist("path-style-comparison/" + g[0].job.Cfg.Kind)
			c07CmpRefs(r, g[0].job, &g[0].res, ri.job, &ri.res)
		}
	}

	// ---- phase 2: mutations ----
	jobs = nil
	// the transport dimension (ssMut.Tr): every case is run either on one connection object whose Close ends
	// both directions or on two independent pipes whose read side survives the server's Close (PRNG, one half
	// each, so that every mutation kind meets every frame on both); every pipelined case is run a second time
	// with a bytes.Reader over the whole stream as the server's input and a separate sink as its output
	addMut := func(ri *refInfo, m ssMut) {
		mm := m
		if mm.Tr == "" && c.Rand.Intn(2) == 1 {
			mm.Tr = "split"
		}
		jobs = append(jobs, &ssPJob{Kind: "c07", Cfg: ri.job.Cfg, Prog: ri.job.Prog, PID: ri.job.PID, Mut: &mm})
		if m.Pipe && m.Tr == "" {
			mb := m
			mb.Tr = "buf"
			jobs = append(jobs, &ssPJob{Kind: "c07", Cfg: ri.job.Cfg, Prog: ri.job.Prog, PID: ri.job.PID, Mut: &mb})
		}
	}
	// packets no server may act upon, as raw bytes: appended to every session, and inserted INSIDE it
	garbage := func() []string {
		g := []string{"00000000", "ffffffff", "00", "000000", "7fffffff", "0000000563000000", "0000000163", "000000050f00000007", "00000005c800000007",
			hex.EncodeToString(wire.Req(wire.Stat, 9, wire.B{}.U32(1000).Raw([]byte("abc"))))}
		rb := make([]byte, 16)
		c.Rand.Read(rb)
		return append(g, hex.EncodeToString(rb))
	}
	// … inside the session: in front of PRNG-chosen frames behind INIT (quick: one position per packet,
	// thorough: three), so that the well-formed requests of the rest of the session FOLLOW the malformed packet
	addInside := func(ri *refInfo, nFrames int, g []string, thorough bool) {
		if nFrames < 2 {
			return
		}
		n := 1
		if thorough {
			n = 3
		}
		for _, h := range g {
			for x := 0; x < n; x++ {
				addMut(ri, ssMut{Kind: "raw", Frame: 1 + c.Rand.Intn(nFrames-1), Hex: h})
			}
		}
	}
	typeSample := []uint32{0, 2, 21, 99, 101, 102, 103, 104, 105, 199, 201, 255}
	for idx, ri := range refs {
		L := ri.res.FrameLens
		if ri.res.Crash || ri.res.Timeout || len(L) != len(ri.job.Prog) {
			continue // the reference itself failed (reported above)
		}
		if idx >= nSpecialFrom {
			switch ri.sess.name {
			case "witness-rmdir-id-only":
				addMut(ri, ssMut{Kind: "raw", Frame: len(L), Hex: hex.EncodeToString(wire.Frame(wire.Rmdir, wire.B{}.U32(7)))})
			case "witness-short-attrs":
				f := wire.Req(wire.Setstat, 77, wire.B{}.Str("n1").U32(wire.ASize).U32(0)) // SIZE promised, 4 of 8 bytes present
				addMut(ri, ssMut{Kind: "raw", Frame: len(L), Hex: hex.EncodeToString(f)})
			}
			continue
		}
		if ri.sess.name == "read-300000" {
			continue
		}
		if ri.sess.stage > 0 {
			// a staged pipeline: the malformed packet arrives behind k pipelined requests that are still queued or
			// running — k around the multiples of the worker count, the whole pipeline, the whole session —, the
			// rest of the session behind it; every way of meeting the server (c07PipeModes); transport and packet PRNG
			st, nb := ri.sess.stage, ri.sess.burst
			// the packet: one time in four a bad length word, else one the receiver has to read as a whole first
			// (unknown type, a body that does not decode) or a fragment that swallows what follows it
			var gLen, gOther []string
			for _, h := range garbage() {
				// (judged with a request behind it, as in the stream)
				if b, _ := hex.DecodeString(h); ssJudge(append(b, wire.Req(wire.Read, 1, wire.B{}.Str("1").U64(0).U32(1))...)).End == "badlen" {
					gLen = append(gLen, h)
				} else {
					gOther = append(gOther, h)
				}
			}
			pick := func() string {
				if c.Rand.Intn(4) == 0 {
					return gLen[c.Rand.Intn(len(gLen))]
				}
				return gOther[c.Rand.Intn(len(gOther))]
			}
			var ks []int
			if thorough {
				for k := 1; k <= nb; k++ {
					ks = append(ks, k)
				}
			} else {
				for _, k := range []int{1, W - 1, W, W + 1, 2 * W, 2*W + 1, 3*W + 1, nb} {
					if k >= 1 && k <= nb && (len(ks) == 0 || ks[len(ks)-1] < k) {
						ks = append(ks, k)
					}
				}
			}
			frames := make([]int, 0, len(ks)+1)
			for _, k := range ks {
				frames = append(frames, st+k)
			}
			frames = append(frames, len(L)) // behind the closes
			modes := c07PipeModes(ri.job.Cfg.Kind, thorough)
			trs := []string{"conn", "split"}
			pm := func(m ssMut, mode ssMut, tr string) {
				m.Pipe, m.Stage, m.Hold, m.Stall = true, st, mode.Hold, mode.Stall
				if m.Tr = tr; tr == "conn" {
					m.Tr = ""
				}
				jobs = append(jobs, &ssPJob{Kind: "c07", Cfg: ri.job.Cfg, Prog: ri.job.Prog, PID: ri.job.PID, Mut: &m})
			}
			// held handlers / unread replies only as deep as a server takes requests in while nothing gets done
			// (a deeper pipeline waits for the release bound and is then served like an unheld one)
			reach := func(mode ssMut, k int) bool {
				switch {
				case mode.Stall:
					return k <= 2*W+2
				case mode.Hold:
					return k <= 3*W+1
				}
				return true
			}
			for _, mode := range modes {
				held := mode.Hold || mode.Stall
				for _, tr := range trs {
					if !held && (thorough || c.Rand.Intn(2) == 0) {
						pm(ssMut{Kind: "none"}, mode, tr)
					}
				}
				for _, f := range frames {
					if !reach(mode, f-st) {
						continue
					}
					nHex := 1
					if thorough {
						nHex = 2
					}
					for x := 0; x < nHex; x++ {
						for _, tr := range trs {
							if held || thorough || c.Rand.Intn(2) == 0 {
								pm(ssMut{Kind: "raw", Frame: f, Hex: pick()}, mode, tr)
							}
						}
					}
				}
			}
			// … and a pipelined request itself made malformed / the stream ended inside it
			nIn := 3
			if thorough {
				nIn = nb
			}
			for x := 0; x < nIn; x++ {
				f := st + c.Rand.Intn(nb)
				if thorough {
					f = st + x
				}
				body := uint32(L[f] - 4)
				in := []ssMut{{Kind: "len", Frame: f, Val: 0}, {Kind: "len", Frame: f, Val: 1<<32 - 1}, {Kind: "len", Frame: f, Val: body - 1},
					{Kind: "type", Frame: f, Val: 99}, {Kind: "cut", Frame: f, Off: 0}, {Kind: "cut", Frame: f, Off: 1}, {Kind: "cut", Frame: f, Off: L[f] - 1}}
				if !thorough {
					c.Rand.Shuffle(len(in), func(a, b int) { in[a], in[b] = in[b], in[a] })
					in = in[:2]
				}
				for _, m := range in {
					mode := modes[c.Rand.Intn(len(modes))]
					if !reach(mode, f-st) {
						mode = ssMut{}
					}
					pm(m, mode, trs[c.Rand.Intn(2)])
				}
			}
			continue
		}
		thorough := thorough && !ri.opt // option-product members: sampled density in both tiers
		// whole-field mutations: every integer field of every request := boundary values
		if len(ri.res.Fields) == len(L) {
			for i := range L {
				op := ri.job.Prog[i].Op
				flds := append([]ssField{{Off: 0, W: 4, Name: "frame-len", Val: uint64(L[i] - 4)}}, ri.res.Fields[i]...)
				for _, f := range flds {
					vals := c07FieldVals(f.W)
					// quick: PRNG choice of values per field — except the offsets and lengths of the READs and
					// WRITEs of the field session (live handles of every kind), which always get all of them
					// and the pflags of every OPEN sent to a ReadOnly() server (every combination of the low flag bits)
					if !thorough && !(ri.sess.name == "fields" && (op == "read" || op == "write") && (f.Name == "offset" || f.Name == "len" || f.Name == "data-len")) &&
						!(ri.job.Cfg.RO && f.Name == "pflags") {
						n := 1
						if ri.sess.name == "fields" {
							n = 3
						}
						c.Rand.Shuffle(len(vals), func(a, b int) { vals[a], vals[b] = vals[b], vals[a] })
						vals = vals[:n]
					}
					for _, v := range vals {
						if v == f.Val {
							continue
						}
						m := ssMut{Kind: "field", Frame: i, Off: f.Off, W: f.W, V64: v, Name: op + "." + f.Name}
						addMut(ri, m)
						if f.Str && v <= 1 { // the string follows its new length: still well-formed
							m.Fit = true
							addMut(ri, m)
						}
						if f.Flags && op != "mkdir" { // the attribute block follows its new flags: still well-formed
							m.Pad = true
							addMut(ri, m)
						}
					}
				}
			}
		}
		if ri.sess.name == "fields" {
			// the field session also gets the mutations that leave bytes after the last field of a dispatched
			// request (its WRITEs, SETSTATs and FSETSTATs act on live handles of every kind): every length
			// field downwards without moving the bytes, the frame length upwards over the next packet, bytes
			// appended inside the frame
			for i, n := range L {
				if i == 0 {
					continue
				}
				body := uint32(n - 4)
				if i+1 < len(L) {
					addMut(ri, ssMut{Kind: "len", Frame: i, Val: body + uint32(L[i+1])})
					if thorough {
						addMut(ri, ssMut{Kind: "len", Frame: i, Val: body + 4})
					}
				}
				for _, v := range []uint32{1, 64} {
					addMut(ri, ssMut{Kind: "tail", Frame: i, Val: v})
				}
				if i < len(ri.res.StrOffs) {
					for fi, o := range ri.res.StrOffs[i] {
						if fi != len(ri.res.StrOffs[i])-1 && !thorough {
							continue // (the last string of the frame: what is cut off it becomes trailing bytes)
						}
						sl := uint32(ri.res.StrLens[i][fi])
						seen := map[uint32]bool{sl: true}
						for _, v := range []uint32{0, 1, sl / 2, sl - 1} {
							if !seen[v] && v < sl {
								seen[v] = true
								addMut(ri, ssMut{Kind: "strlen", Frame: i, Off: o, Val: v})
							}
						}
					}
				}
			}
			addInside(ri, len(L), garbage(), thorough)
			continue
		}
		modes := []bool{false}
		if ri.sess.pipe {
			modes = append(modes, true)
		}
		for _, pipe := range modes {
			if pipe {
				addMut(ri, ssMut{Kind: "none", Pipe: true})
			}
			// cuts
			for i, n := range L {
				if thorough && !pipe {
					for k := 0; k < n; k++ {
						addMut(ri, ssMut{Kind: "cut", Frame: i, Off: k})
					}
					continue
				}
				for _, k := range []int{0, 1, n - 1} {
					addMut(ri, ssMut{Kind: "cut", Frame: i, Off: k, Pipe: pipe})
				}
			}
			if !thorough || pipe {
				for x := 0; x < 12; x++ {
					i := c.Rand.Intn(len(L))
					addMut(ri, ssMut{Kind: "cut", Frame: i, Off: 2 + c.Rand.Intn(L[i]-2), Pipe: pipe})
				}
			}
			for i, n := range L {
				// length field
				body := uint32(n - 4)
				lenVals := []uint32{0, 1, body - 1, body + 1, 1<<31 - 1, 1<<32 - 1}
				if i+1 < len(L) && i > 0 {
					// upwards, so that the frame swallows the whole of the next packet (thorough: also just its length
					// word, and the next two packets): the request is dispatched with what followed it as bytes
					// after its last field
					lenVals = append(lenVals, body+uint32(L[i+1]))
					if thorough {
						lenVals = append(lenVals, body+4)
						if i+2 < len(L) {
							lenVals = append(lenVals, body+uint32(L[i+1]+L[i+2]))
						}
					}
				}
				for _, v := range lenVals {
					if v != body {
						addMut(ri, ssMut{Kind: "len", Frame: i, Val: v, Pipe: pipe})
					}
				}
				// bytes appended inside the frame, after the last field of the request
				if i > 0 && !pipe {
					tails := []uint32{1, 5}
					if thorough {
						tails = []uint32{1, 3, 4, 5, 8, 64, 4096}
					}
					for _, v := range tails {
						addMut(ri, ssMut{Kind: "tail", Frame: i, Val: v})
					}
				}
				// type byte
				orig := uint32(ssOpType[ri.job.Prog[i].Op])
				// every unknown type byte kills an os-backed server process (F4): a third of the os
				// sessions use the sample instead of all 256 values to keep the tier near 10 minutes
				if thorough && !pipe && (ri.job.Cfg.Kind == "rs" || ri.sess.idx%3 != 2) {
					for v := uint32(0); v < 256; v++ {
						if v != orig {
							addMut(ri, ssMut{Kind: "type", Frame: i, Val: v})
						}
					}
				} else {
					ts := append([]uint32(nil), typeSample...)
					if ri.job.Cfg.Kind == "os" {
						// each unknown type byte costs a process (F4): three of the sample per frame, rotating,
						// so that every named value still meets every os configuration and request kind
						ts = nil
						for x := 0; x < 3; x++ {
							ts = append(ts, typeSample[(i*3+x+ri.sess.idx)%len(typeSample)])
						}
					}
					if pipe {
						ts = []uint32{0, 99, 104, 255}[i%4 : i%4+1]
					}
					for x := 0; x < 5; x++ {
						ts = append(ts, c07ValidTypes[c.Rand.Intn(len(c07ValidTypes))])
					}
					seen := map[uint32]bool{orig: true}
					for _, v := range ts {
						if !seen[v] {
							seen[v] = true
							addMut(ri, ssMut{Kind: "type", Frame: i, Val: v, Pipe: pipe})
						}
					}
				}
				// string-length fields
				if i < len(ri.res.StrOffs) && !pipe {
					for fi, o := range ri.res.StrOffs[i] {
						n := uint32(ri.res.StrLens[i][fi])
						seen := map[uint32]bool{n: true}
						vals := []uint32{0, n - 1, n + 1, n + 1000, 1<<32 - 1}
						if fi == len(ri.res.StrOffs[i])-1 || thorough {
							vals = append(vals, n/2) // downwards, not a boundary (the last string of a frame: the rest of it becomes trailing bytes)
						}
						for _, v := range vals {
							if !seen[v] { // (n-1 wraps to 2^32-1 for an empty string: de-duplicated here)
								seen[v] = true
								addMut(ri, ssMut{Kind: "strlen", Frame: i, Off: o, Val: v})
							}
						}
					}
				}
			}
			// garbage after the session
			if !pipe {
				g := garbage()
				for _, h := range g {
					addMut(ri, ssMut{Kind: "garbage", Hex: h})
				}
				addInside(ri, len(L), g, thorough)
			}
		}
	}
	nSample := 0
	col2 := &ssCollector{r: r, base: base, jobs: jobs}
	ssRunPool(base, workers, jobs, func(i int, j *ssPJob, res *ssResult) {
		mb, _ := json.Marshal(j.Mut)
		r.Case(j.Cfg.String()+" "+j.PID+" "+string(mb), j.Mut.Kind != "none")
		mk := j.Mut.Kind
		if j.Mut.Pipe {
			mk += "+pipelined"
		}
		if mk == "raw" && j.Mut.Frame < len(j.Prog) {
			mk += "+inside-session"
		}
		if j.Mut.Stage > 0 {
			mk += "+staged-pipeline"
			mode := "as-fast-as-the-server-reads"
			switch {
			case j.Mut.Hold && j.Mut.Stall:
				mode = "handlers-held+replies-unread"
			case j.Mut.Hold:
				mode = "handlers-held"
			case j.Mut.Stall:
				mode = "replies-unread"
			}
			r.Hist("pipeline/mode/" + mode)
			if j.Mut.Kind != "none" {
				if k := j.Mut.Frame - j.Mut.Stage; j.Mut.Frame >= len(j.Prog) {
					r.Hist("pipeline/malformed-behind/the-whole-session")
				} else {
					r.Hist(fmt.Sprintf("pipeline/malformed-behind/%d-pipelined-requests(bucket)", ssBucket(k)))
				}
			}
		}
		if mk == "field" {
			r.Hist("field/" + j.Mut.Name)
			switch {
			case j.Mut.Fit:
				mk += "+string-fitted"
			case j.Mut.Pad:
				mk += "+attrs-padded"
			}
		}
		r.Hist("mut/" + mk)
		r.Hist("cfg/" + j.Cfg.String())
		r.Hist("session/" + sessOf[j.PID])
		for _, d := range c11Dims(j.Cfg) {
			r.Hist("option/" + d)
		}
		if res.EndClass != "" {
			r.Hist("stream-end/" + res.EndClass)
			if res.NB > 0 {
				r.Hist("well-formed-but-different-requests")
			}
		}
		if nSample < 6 && i%(len(jobs)/6+1) == 0 {
			nSample++
			r.Sample(map[string]any{"cfg": j.Cfg.String(), "session_steps": len(j.Prog), "first_steps": j.Prog[:min(5, len(j.Prog))], "mutation": j.Mut, "judge_end": res.EndClass, "frames_identical": res.NA, "frames_different_wellformed": res.NB})
		}
		col2.done(i, j, res)
	})
	col2.confirm(3)
	r.Note("option configurations: %d (each on 1/%d of the generated sessions)", len(optCfgs), optShare)
	r.Note("sessions=%d configs=%d reference-runs=%d mutation-cases=%d children=%d; every case ran on a fresh server in a child process; child deaths: %d in reference runs, %d in mutation runs", len(sessions), len(cfgs), len(refs), len(jobs), workers, len(col.crashed), len(col2.crashed))
	r.Skip("model comparison: no Lean driver op for C07 yet. Trace that can be handed to a model: `c07.run <kind os|rs> <alloc 0|1> <reqs: kind[:handle-ref][:pflags],…> <cut: frame index, end class clean|trunc|badlen|unknown-type|short-body>` with the observed reply types/status codes as oracle answers; expected output: number of responses, final open-handle count, store = store after the longest well-formed prefix")
}
