package main

// C09, the HOST IDENTITY dimension.
//
// The harness runs as root, where no permission check of the kernel ever bites: a read-only server that asks the
// kernel for more than a writable one does (an open flag reserved to the owner of a file, a capability, an access
// check of its own) answers exactly like the unchanged one.  This family runs the comparison
//
//	read-only server  vs  writable server (same options, same tree, same process, same identity)
//
// in a CHILD process (`vh child c09ident <job>`) that has given up root: the parent prepares, as root, a registered
// scratch tree with entries of the child's uid, of root, of a third uid and of the child's (supplementary) groups in
// every permission class (world-readable, group-readable, owner-only, search-only, read-without-search, sticky,
// world-writable), takes a full snapshot, starts the child, and takes the snapshot again when the child is gone.
// The child inherits the mount-namespace sandbox of the run (a mount namespace is not touched by set*id), registers
// the parent's scratch directories (lib.InitContainment(true)), opens the budget ledger, and then drops its identity
// (setgroups, setresgid, setresuid: all threads) for good.  It verifies on several OS threads that a root-only file
// is refused now (otherwise nothing of this family means anything, and it says so), starts both servers through
// peers.StartOS (transport guard), and for every target
//
//   - sends every purely reading request (OPEN with each of the 4 reading pflags + READ x3 + FSTAT + CLOSE, OPENDIR +
//     READDIR to the end + CLOSE, STAT, LSTAT, READLINK, REALPATH, statvfs@openssh.com) to the read-only server and
//     then to the writable server: reply types, status codes and messages, data, names, attributes (atime masked)
//     and the stable statvfs numbers must be equal ("purely reading requests keep working");  for OPEN(READ) and
//     OPENDIR the read-only server's decision is also compared with package os under the same identity;
//   - sends every modifying request (OPEN with writing/creating/truncating pflags, SETSTAT per attribute, REMOVE,
//     RMDIR, MKDIR, RENAME, SYMLINK, hardlink, posix-rename, WRITE and FSETSTAT through a handle opened read-only)
//     to the read-only server only: PERMISSION_DENIED, and the tree as the child sees it (lstat walk with ctime:
//     every change of an inode moves it) is as before; the parent's root snapshot is the backstop.
//
// Permission outcomes are never compared with constants, only between the two servers / package os of one identity.

import (
	"bufio"
	"crypto/sha256"
	"encoding/json"
	"fmt"
	"os"
	"os/exec"
	"path/filepath"
	"runtime"
	"sort"
	"strings"
	"sync"
	"syscall"
	"time"

	"github.com/pkg/sftp"

	"verifharness/lib"
	"verifharness/peers"
	"verifharness/wire"
)

func init() { children["c09ident"] = c09IdentChild }

// owners of the prepared tree
const (
	c09IdU   = 65534 // "the server's user" of the owner identities
	c09IdG   = 65534
	c09IdG2  = 65533 // a group reached only as a supplementary group
	c09IdOth = 1     // a third party
)

// c09Ident is who the child's servers run as.
type c09Ident struct {
	Name   string `json:"name"`
	Drop   string `json:"drop"` // full (setgroups+setresgid+setresuid) | effective (setgroups+setegid+seteuid) | none
	UID    int    `json:"uid"`
	GID    int    `json:"gid"`
	Groups []int  `json:"groups"`
}

func c09Idents(thorough bool) []c09Ident {
	ids := []c09Ident{
		{Name: "owner", Drop: "full", UID: c09IdU, GID: c09IdG, Groups: []int{}},
		{Name: "owner+group", Drop: "full", UID: c09IdU, GID: c09IdG, Groups: []int{c09IdG2}},
		{Name: "stranger", Drop: "full", UID: 65532, GID: 65532, Groups: []int{}},
		{Name: "stranger+groups", Drop: "full", UID: 65532, GID: 65532, Groups: []int{c09IdG, c09IdG2}},
	}
	if thorough {
		ids = append(ids,
			c09Ident{Name: "owner-effective", Drop: "effective", UID: c09IdU, GID: c09IdG, Groups: []int{}},
			c09Ident{Name: "root", Drop: "none", UID: 0, GID: 0, Groups: []int{0}})
	}
	return ids
}

type c09IdReq struct {
	Op     string `json:"op"`
	Target string `json:"target"` // tree-relative
	Pflags uint32 `json:"pflags,omitempty"`
	AFlags uint32 `json:"attr_flags,omitempty"`
}

// c09IdInput is the replayable input of one case.
type c09IdInput struct {
	Family string   `json:"family"` // "identity"
	Ident  c09Ident `json:"ident"`
	Cfg    c09Cfg   `json:"cfg"`
	Form   string   `json:"path_form"`
	Req    c09IdReq `json:"req"`
}

type c09IdJob struct {
	Ident c09Ident   `json:"ident"`
	Cfg   c09Cfg     `json:"cfg"`
	Form  string     `json:"path_form"`
	Tree  string     `json:"tree"`
	MntNS string     `json:"mntns"`
	Reqs  []c09IdReq `json:"reqs"`
}

// ---------- the tree (built by root) ----------

type c09IdEnt struct {
	Name string
	Kind byte // f d l
	UID  int
	GID  int
	Mode os.FileMode
	Link string
}

var c09IdDirKids = []string{"u", "r", "r600", "sub", "ln"}

func c09IdSpec(tree string) []c09IdEnt {
	var e []c09IdEnt
	f := func(n string, u, g int, m os.FileMode) {
		e = append(e, c09IdEnt{Name: n, Kind: 'f', UID: u, GID: g, Mode: m})
	}
	f("f_own644", c09IdU, c09IdG, 0o644)
	f("f_own600", c09IdU, c09IdG, 0o600)
	f("f_own400", c09IdU, c09IdG, 0o400)
	f("f_own200", c09IdU, c09IdG, 0o200)
	f("f_own000", c09IdU, c09IdG, 0)
	f("f_root644", 0, 0, 0o644)
	f("f_rootbig", 0, 0, 0o644)
	f("f_root640g", 0, c09IdG, 0o640)
	f("f_root640s", 0, c09IdG2, 0o640)
	f("f_root640", 0, 0, 0o640)
	f("f_root600", 0, 0, 0o600)
	f("f_root604g", 0, c09IdG, 0o604)
	f("f_root666", 0, 0, 0o666)
	f("f_oth644", c09IdOth, c09IdOth, 0o644)
	f("f_oth600", c09IdOth, c09IdOth, 0o600)
	d := func(n string, u, g int, m os.FileMode) {
		e = append(e, c09IdEnt{Name: n, Kind: 'd', UID: u, GID: g, Mode: m})
		e = append(e, c09IdEnt{Name: n + "/u", Kind: 'f', UID: c09IdU, GID: c09IdG, Mode: 0o644})
		e = append(e, c09IdEnt{Name: n + "/r", Kind: 'f', UID: 0, GID: 0, Mode: 0o644})
		e = append(e, c09IdEnt{Name: n + "/r600", Kind: 'f', UID: 0, GID: 0, Mode: 0o600})
		e = append(e, c09IdEnt{Name: n + "/sub", Kind: 'd', UID: 0, GID: 0, Mode: 0o755})
		e = append(e, c09IdEnt{Name: n + "/ln", Kind: 'l', UID: 0, GID: 0, Link: "r"})
	}
	d("d_own755", c09IdU, c09IdG, 0o755)
	d("d_own700", c09IdU, c09IdG, 0o700)
	d("d_own500", c09IdU, c09IdG, 0o500)
	d("d_own000", c09IdU, c09IdG, 0)
	d("d_root755", 0, 0, 0o755)
	d("d_root750g", 0, c09IdG, 0o750)
	d("d_root750s", 0, c09IdG2, 0o750)
	d("d_root750", 0, 0, 0o750)
	d("d_root700", 0, 0, 0o700)
	d("d_root711", 0, 0, 0o711)
	d("d_root744", 0, 0, 0o744)
	d("d_root1777", 0, 0, 0o777|os.ModeSticky)
	d("d_root777", 0, 0, 0o777)
	d("d_oth755", c09IdOth, c09IdOth, 0o755)
	l := func(n string, u int, to string) {
		e = append(e, c09IdEnt{Name: n, Kind: 'l', UID: u, GID: u, Link: to})
	}
	l("l_own", 0, "f_own644")
	l("l_root", c09IdU, "f_root644")
	l("l_unread", c09IdU, "f_root600")
	l("l_dir", 0, "d_root755")
	l("l_dirown", 0, "d_own755")
	l("l_dangling", c09IdU, "nowhere")
	l("l_through", 0, "d_root700/r")
	l("l_abs", 0, filepath.Join(tree, "f_root644"))
	return e
}

// c09IdBuild creates the tree (the caller is root).  dir is the snapshot root and contains only the tree t/.
func c09IdBuild(dir string) (tree string, err error) {
	tree = filepath.Join(dir, "t")
	if ok, why := lib.InScratch("", tree); !ok {
		return "", fmt.Errorf("tree outside the scratch directories: %s", why)
	}
	os.RemoveAll(dir)
	if err = os.MkdirAll(tree, 0o755); err != nil {
		return
	}
	spec := c09IdSpec(tree)
	big := c09Big()
	for _, e := range spec {
		p := filepath.Join(tree, e.Name)
		switch e.Kind {
		case 'd':
			err = os.Mkdir(p, 0o755)
		case 'f':
			b := []byte(strings.Repeat("content of "+e.Name+"\n", 7))
			if e.Name == "f_rootbig" {
				b = big
			}
			err = os.WriteFile(p, b, 0o600)
		case 'l':
			err = os.Symlink(e.Link, p)
		}
		if err != nil {
			return
		}
	}
	old := time.Unix(1_000_000_000, 0)
	// owners, modes and times from the leaves up (root may do all of it in any order; the times last)
	for i := len(spec) - 1; i >= 0; i-- {
		e := spec[i]
		p := filepath.Join(tree, e.Name)
		if err = os.Lchown(p, e.UID, e.GID); err != nil {
			return
		}
		if e.Kind != 'l' {
			if err = os.Chmod(p, e.Mode); err != nil {
				return
			}
			os.Chtimes(p, old, old)
		}
	}
	os.Chtimes(tree, old, old)
	os.Chtimes(dir, old, old)
	return tree, nil
}

// c09IdTargets: every entry, a missing name in every directory, a child of a regular file.
func c09IdTargets() []string {
	var t []string
	for _, e := range c09IdSpec("/x") {
		t = append(t, e.Name)
		if e.Kind == 'd' && !strings.Contains(e.Name, "/") {
			t = append(t, e.Name+"/missing")
		}
	}
	return append(t, "missing", "f_own644/child", "l_dir/r", "l_dirown/u", "d_root711/sub/missing")
}

var c09IdReadOps = []string{"stat", "lstat", "readlink", "realpath", "statvfs", "opendir"}
var c09IdReadPflags = []uint32{wire.FRead, wire.FRead | wire.FAppend, wire.FRead | wire.FExcl, wire.FRead | wire.FAppend | wire.FExcl}
var c09IdModPflags = []uint32{wire.FWrite, wire.FRead | wire.FWrite, wire.FWrite | wire.FCreat, wire.FWrite | wire.FCreat | wire.FTrunc,
	wire.FWrite | wire.FCreat | wire.FExcl, wire.FRead | wire.FCreat, wire.FRead | wire.FTrunc, wire.FWrite | wire.FAppend, wire.FCreat, wire.FTrunc}
var c09IdModOps = []string{"remove", "rmdir", "mkdir", "rename", "symlink", "hardlink", "posix-rename", "write"}
var c09IdAttrOne = []uint32{wire.ASize, wire.APerm, wire.ATime, wire.AUIDGID}

func c09IdMutating(q c09IdReq) bool {
	switch q.Op {
	case "open":
		return q.Pflags&(wire.FWrite|wire.FCreat|wire.FTrunc) != 0
	case "stat", "lstat", "readlink", "realpath", "statvfs", "opendir":
		return false
	}
	return true
}

// c09IdReqs is the request list of one child: per target every reading request, then every modifying one.
// sel(i) selects the modifying requests that are run (quick runs a rotating part of them per target).
func c09IdReqs(sel func(target, k int) bool) []c09IdReq {
	var out []c09IdReq
	for ti, t := range c09IdTargets() {
		for _, pf := range c09IdReadPflags {
			out = append(out, c09IdReq{Op: "open", Target: t, Pflags: pf})
		}
		for _, op := range c09IdReadOps {
			out = append(out, c09IdReq{Op: op, Target: t})
		}
		var mods []c09IdReq
		for _, pf := range c09IdModPflags {
			mods = append(mods, c09IdReq{Op: "open", Target: t, Pflags: pf, AFlags: wire.APerm})
		}
		for _, af := range c09IdAttrOne {
			mods = append(mods, c09IdReq{Op: "setstat", Target: t, AFlags: af}, c09IdReq{Op: "fsetstat", Target: t, AFlags: af})
		}
		for _, op := range c09IdModOps {
			mods = append(mods, c09IdReq{Op: op, Target: t})
		}
		for k, m := range mods {
			if sel(ti, k) {
				out = append(out, m)
			}
		}
	}
	return out
}

func c09IdKey(q c09IdReq) string {
	switch q.Op {
	case "open":
		return strings.TrimSuffix(c09Key(c09Req{Typ: wire.Open, Pflags: q.Pflags}), "/")
	case "hardlink", "posix-rename", "statvfs":
		return "extended/" + q.Op + "@openssh.com"
	}
	return q.Op
}

// c09IdPath writes the tree-relative name rel in the given form (relative forms need a working directory).
func c09IdPath(tree, form, rel string) string {
	if form == "relup" {
		return "d_root755/../" + rel
	}
	return c09Path(tree, form, rel)
}

func c09IdFrame(q c09IdReq, id uint32, tree, form, h string) []byte {
	p := c09IdPath(tree, form, q.Target)
	p2 := p + ".new"
	switch q.Op {
	case "open":
		return wire.Req(wire.Open, id, wire.B{}.Str(p).U32(q.Pflags).Raw(c09Attrs(q.AFlags, 0).Block()))
	case "opendir":
		return wire.Req(wire.Opendir, id, wire.B{}.Str(p))
	case "stat":
		return wire.Req(wire.Stat, id, wire.B{}.Str(p))
	case "lstat":
		return wire.Req(wire.Lstat, id, wire.B{}.Str(p))
	case "readlink":
		return wire.Req(wire.Readlink, id, wire.B{}.Str(p))
	case "realpath":
		return wire.Req(wire.Realpath, id, wire.B{}.Str(p))
	case "statvfs":
		return wire.Req(wire.Extended, id, wire.B{}.Str("statvfs@openssh.com").Str(p))
	case "setstat":
		return wire.Req(wire.Setstat, id, wire.B{}.Str(p).Raw(c09Attrs(q.AFlags, 0).Block()))
	case "fsetstat":
		return wire.Req(wire.Fsetstat, id, wire.B{}.Str(h).Raw(c09Attrs(q.AFlags, 0).Block()))
	case "remove":
		return wire.Req(wire.Remove, id, wire.B{}.Str(p))
	case "rmdir":
		return wire.Req(wire.Rmdir, id, wire.B{}.Str(p))
	case "mkdir":
		return wire.Req(wire.Mkdir, id, wire.B{}.Str(p2).U32(0))
	case "rename":
		return wire.Req(wire.Rename, id, wire.B{}.Str(p).Str(p2))
	case "symlink":
		return wire.Req(wire.Symlink, id, wire.B{}.Str(p).Str(p2))
	case "hardlink", "posix-rename":
		return wire.Req(wire.Extended, id, wire.B{}.Str(q.Op+"@openssh.com").Str(p).Str(p2))
	case "write":
		return wire.Req(wire.Write, id, wire.B{}.Str(h).U64(0).Bytes([]byte("ZZZZ")))
	}
	return wire.Req(wire.Stat, id, wire.B{}.Str(p))
}

// ---------- normal forms of replies ----------

func c09IdNormSt(st wire.St) string {
	st.Atime = 0
	return fmt.Sprintf("flags=%x size=%d uid=%d gid=%d perm=%o mtime=%d ext=%v", st.Flags, st.Size, st.UID, st.GID, st.Perm, st.Mtime, st.Ext)
}

// c09IdNorm: what of a reply must be the same on both servers.
func c09IdNorm(p wire.Pkt) string {
	if len(p.Body) < 4 {
		return fmt.Sprintf("type %d short", p.Typ)
	}
	d := wire.D{B: p.Body[4:]}
	switch p.Typ {
	case wire.Status:
		code := d.U32()
		return fmt.Sprintf("STATUS %d %q", code, d.Str())
	case wire.Handle:
		return "HANDLE"
	case wire.Data:
		b := d.Bytes()
		h := sha256.Sum256(b)
		return fmt.Sprintf("DATA len=%d sha=%x", len(b), h[:8])
	case wire.Attrs:
		return "ATTRS " + c09IdNormSt(d.St())
	case wire.Name:
		return "NAME " + strings.Join(c09IdNames(p), " | ")
	case wire.ExtendedReply:
		if len(d.B) == 88 {
			var v [11]uint64
			for i := range v {
				v[i] = d.U64()
			}
			// free counts move with the host
			return fmt.Sprintf("STATVFS bsize=%d frsize=%d blocks=%d files=%d fsid=%x flag=%x namemax=%d", v[0], v[1], v[2], v[5], v[8], v[9], v[10])
		}
	}
	return fmt.Sprintf("type %d %x", p.Typ, p.Body[4:])
}

func c09IdNames(p wire.Pkt) []string {
	d := wire.D{B: p.Body[4:]}
	n := d.U32()
	var out []string
	for i := uint32(0); i < n && d.Err == nil && i < 10000; i++ {
		name, long := d.Str(), d.Str()
		st := d.St()
		out = append(out, fmt.Sprintf("%q %q %s", name, long, c09IdNormSt(st)))
	}
	if d.Err != nil {
		out = append(out, "undecodable: "+d.Err.Error())
	}
	return out
}

// ---------- the child ----------

type c09IdLine struct {
	Fail *lib.Failure `json:"fail,omitempty"`
	Note string       `json:"note,omitempty"`
	Done *c09IdDone   `json:"done,omitempty"`
}

type c09IdDone struct {
	UID      int            `json:"uid"`
	EUID     int            `json:"euid"`
	GID      int            `json:"gid"`
	EGID     int            `json:"egid"`
	Groups   []int          `json:"groups"`
	Bites    bool           `json:"bites"` // the root-only canary is refused on every thread asked
	DropErr  string         `json:"drop_err,omitempty"`
	NotRun   []int          `json:"not_run,omitempty"`
	Hist     map[string]int `json:"hist"`
	Escapes  []string       `json:"escapes,omitempty"`
	TreeFail bool           `json:"tree_fail,omitempty"` // a change of the tree was reported with its request
}

type c09IdSide struct {
	name string
	opts []sftp.ServerOption
	srv  *peers.Srv
	id   uint32
	rx   int
}

type c09IdChild struct {
	job  c09IdJob
	out  *bufio.Writer
	mu   sync.Mutex
	ro   *c09IdSide
	rw   *c09IdSide
	hist map[string]int
	base []string // the tree as this identity sees it
	done c09IdDone
	dead bool
}

func (ch *c09IdChild) emit(l c09IdLine) {
	b, _ := json.Marshal(l)
	ch.mu.Lock()
	ch.out.Write(append(b, '\n'))
	ch.out.Flush()
	ch.mu.Unlock()
}

func (ch *c09IdChild) input(q c09IdReq) c09IdInput {
	return c09IdInput{Family: "identity", Ident: ch.job.Ident, Cfg: ch.job.Cfg, Form: ch.job.Form, Req: q}
}

func (ch *c09IdChild) fail(f lib.Failure) { ch.emit(c09IdLine{Fail: &f}) }

// c09IdDrop gives up the identity of the harness for this whole process (Go applies set*id to every thread).
func c09IdDrop(id c09Ident) error {
	if id.Drop == "none" {
		return nil
	}
	if err := syscall.Setgroups(id.Groups); err != nil {
		return fmt.Errorf("setgroups %v: %v", id.Groups, err)
	}
	switch id.Drop {
	case "full":
		if err := syscall.Setresgid(id.GID, id.GID, id.GID); err != nil {
			return fmt.Errorf("setresgid %d: %v", id.GID, err)
		}
		if err := syscall.Setresuid(id.UID, id.UID, id.UID); err != nil {
			return fmt.Errorf("setresuid %d: %v", id.UID, err)
		}
	case "effective":
		if err := syscall.Setegid(id.GID); err != nil {
			return fmt.Errorf("setegid %d: %v", id.GID, err)
		}
		if err := syscall.Seteuid(id.UID); err != nil {
			return fmt.Errorf("seteuid %d: %v", id.UID, err)
		}
	default:
		return fmt.Errorf("unknown way of dropping %q", id.Drop)
	}
	return nil
}

// c09IdBites: a file only root may read is refused, on several OS threads at once.
func c09IdBites(tree string) bool {
	p := filepath.Join(tree, "f_root600")
	const n = 8
	res := make(chan bool, n)
	var gate sync.WaitGroup
	gate.Add(n)
	for i := 0; i < n; i++ {
		go func() {
			runtime.LockOSThread()
			defer runtime.UnlockOSThread()
			gate.Done()
			gate.Wait() // all n goroutines hold a thread of their own now
			f, err := os.Open(p)
			if err == nil {
				f.Close()
			}
			res <- os.IsPermission(err)
		}()
	}
	ok := true
	for i := 0; i < n; i++ {
		ok = <-res && ok
	}
	return ok
}

// c09IdLight: the tree as the current identity can see it, without reading any content: every change of an inode
// (data, mode, owner, link count, name) moves its ctime or that of its directory.
func c09IdLight(root string) []string {
	var out []string
	filepath.Walk(root, func(p string, fi os.FileInfo, err error) error {
		rel, _ := filepath.Rel(root, p)
		if err != nil {
			out = append(out, rel+" ERR "+err.Error())
			return nil
		}
		line := fmt.Sprintf("%s %s size=%d mtime=%d", rel, fi.Mode().String(), fi.Size(), fi.ModTime().UnixNano())
		if st, ok := fi.Sys().(*syscall.Stat_t); ok {
			line += fmt.Sprintf(" nlink=%d uid=%d gid=%d ino=%d ctime=%d.%09d", st.Nlink, st.Uid, st.Gid, st.Ino, st.Ctim.Sec, st.Ctim.Nsec)
		}
		if fi.Mode()&os.ModeSymlink != 0 {
			t, _ := os.Readlink(p)
			line += " -> " + t
		}
		out = append(out, line)
		return nil
	})
	sort.Strings(out)
	return out
}

func (cfg c09Cfg) optsRW(tree string) []sftp.ServerOption {
	var o []sftp.ServerOption
	if cfg.Alloc {
		o = append(o, sftp.WithAllocator())
	}
	switch cfg.WorkDir {
	case "tree":
		o = append(o, sftp.WithServerWorkingDirectory(tree))
	case "unclean":
		o = append(o, sftp.WithServerWorkingDirectory(tree+"/./d_root755/..//"))
	}
	if cfg.MaxTx != 0 {
		o = append(o, sftp.WithMaxTxPacket(cfg.MaxTx))
	}
	return o
}

func (s *c09IdSide) start(k *lib.Case) error {
	srv, err := peers.StartOS(s.opts...)
	if err != nil {
		return err
	}
	s.srv, s.rx = srv, 0
	_, err = hHandshake(srv, k)
	return err
}

func (s *c09IdSide) stop() {
	if s.srv != nil {
		s.srv.CloseInput()
		hCleanupSrv(s.srv, "c09/ident/server-exit", 5*time.Second)
		s.srv = nil
	}
}

func (s *c09IdSide) call(k *lib.Case, frame func(id uint32) []byte) (wire.Pkt, error) {
	if s.srv == nil {
		return wire.Pkt{}, fmt.Errorf("server not running")
	}
	s.id++
	f := frame(s.id)
	if ok, why := s.srv.Contained(f); !ok {
		return wire.Pkt{}, errNotContained{why}
	}
	p, err := hCall(s.srv, k, f)
	s.rx += len(p.Body) + 5
	if err == nil && p.ID() != s.id {
		err = fmt.Errorf("reply carries id %d, request had %d", p.ID(), s.id)
	}
	return p, err
}

type errNotContained struct{ why string }

func (e errNotContained) Error() string { return "not sent: " + e.why }

type c09IdStep struct {
	what string
	norm string
}

// readSeq runs one purely reading request and, when it yields a handle, the reads through it.
func (ch *c09IdChild) readSeq(s *c09IdSide, k *lib.Case, q c09IdReq) (steps []c09IdStep, err error) {
	tree, form := ch.job.Tree, ch.job.Form
	p, err := s.call(k, func(id uint32) []byte { return c09IdFrame(q, id, tree, form, "") })
	if err != nil {
		return nil, err
	}
	steps = append(steps, c09IdStep{"reply", c09IdNorm(p)})
	if p.Typ != wire.Handle {
		return steps, nil
	}
	h := c09HandleOf(p)
	step := func(what string, typ byte, body func() wire.B) (wire.Pkt, error) {
		p, err := s.call(k, func(id uint32) []byte { return wire.Req(typ, id, body()) })
		if err == nil {
			steps = append(steps, c09IdStep{what, c09IdNorm(p)})
		}
		return p, err
	}
	switch q.Op {
	case "open":
		for _, rd := range [][2]uint64{{0, 64}, {10, 40000}, {1 << 20, 16}} {
			if _, err = step("read", wire.Read, func() wire.B { return wire.B{}.Str(h).U64(rd[0]).U32(uint32(rd[1])) }); err != nil {
				return steps, err
			}
		}
		if _, err = step("fstat", wire.Fstat, func() wire.B { return wire.B{}.Str(h) }); err != nil {
			return steps, err
		}
	case "opendir":
		var names []string
		last := "no end within 16 READDIRs"
		for i := 0; i < 16; i++ {
			p, err := s.call(k, func(id uint32) []byte { return wire.Req(wire.Readdir, id, wire.B{}.Str(h)) })
			if err != nil {
				return steps, err
			}
			if p.Typ != wire.Name {
				last = c09IdNorm(p)
				break
			}
			names = append(names, c09IdNames(p)...)
		}
		sort.Strings(names)
		steps = append(steps, c09IdStep{"readdir", strings.Join(names, " | ") + " ; then " + last})
	}
	_, err = step("close", wire.Close, func() wire.B { return wire.B{}.Str(h) })
	return steps, err
}

func (ch *c09IdChild) restart(s *c09IdSide, k *lib.Case) {
	s.stop()
	if err := s.start(k); err != nil {
		ch.fail(lib.Failure{Kind: "tie", Key: "identity/server-start", What: s.name + " server does not start under this identity: " + err.Error(), Input: ch.input(c09IdReq{})})
		ch.dead = true
	}
}

func (ch *c09IdChild) noReply(s *c09IdSide, k *lib.Case, q c09IdReq, err error) {
	if _, nc := err.(errNotContained); nc {
		ch.hist[lib.NotRunBucket]++
		return
	}
	if s == ch.ro {
		ch.fail(lib.Failure{Kind: "oracle", Key: "identity/no-reply/" + c09IdKey(q), What: "no proper reply from the read-only server running without privileges: " + err.Error(), Input: ch.input(q)})
	} else {
		ch.hist["writable-server-no-reply/"+q.Op]++
		ch.emit(c09IdLine{Note: fmt.Sprintf("writable twin gave no reply to %s %s (%v): case not judged", q.Op, q.Target, err)})
	}
	ch.restart(s, k)
}

// treeCheck compares the tree with the base; a change is reported with the request and becomes the new base.
func (ch *c09IdChild) treeCheck(q c09IdReq, report bool) bool {
	now := c09IdLight(ch.job.Tree)
	diff := lib.DiffSnap(ch.base, now)
	if len(diff) == 0 {
		return true
	}
	ch.base = now
	if report {
		ch.done.TreeFail = true
		ch.fail(lib.Failure{Kind: "oracle", Key: "identity/tree-changed/" + c09IdKey(q), What: "read-only server running without privileges changed the file system", Input: ch.input(q), Expected: "tree unchanged", Actual: diff})
	} else {
		ch.emit(c09IdLine{Note: fmt.Sprintf("the WRITABLE twin changed the tree on the reading request %s %s (not C09's business): %v", q.Op, q.Target, diff)})
	}
	return false
}

func (ch *c09IdChild) runRead(k *lib.Case, q c09IdReq) {
	a, err := ch.readSeq(ch.ro, k, q)
	if err != nil {
		ch.noReply(ch.ro, k, q, err)
		return
	}
	ch.treeCheck(q, true)
	// package os under the same identity: is the object there to be read?
	if q.Op == "opendir" || (q.Op == "open" && q.Pflags == wire.FRead) {
		p := filepath.Join(ch.job.Tree, q.Target)
		if ok, _ := lib.InScratch("", p); ok {
			allow := true
			if q.Op == "opendir" {
				fi, err := os.Stat(p)
				allow = err == nil && fi.IsDir()
			}
			if allow {
				f, err := os.Open(p)
				if allow = err == nil; allow {
					f.Close()
				}
			}
			got := a[0].norm == "HANDLE"
			ch.hist[fmt.Sprintf("os-twin/%s/allowed=%v", q.Op, allow)]++
			if allow && !got {
				ch.fail(lib.Failure{Kind: "oracle", Key: "identity/read-refused-though-os-allows/" + q.Op, What: "the read-only server refuses a purely reading request on an object that package os opens for reading under the same identity", Input: ch.input(q), Expected: "HANDLE", Actual: a[0].norm})
			} else if !allow && got {
				ch.fail(lib.Failure{Kind: "oracle", Key: "identity/read-granted-though-os-refuses/" + q.Op, What: "the read-only server hands out a handle for an object that package os does not open for reading under the same identity", Input: ch.input(q), Expected: "a STATUS", Actual: a[0].norm})
			}
		}
	}
	b, err := ch.readSeq(ch.rw, k, q)
	if err != nil {
		ch.noReply(ch.rw, k, q, err)
		return
	}
	ch.treeCheck(q, false)
	ch.hist["read/"+q.Op+"/"+strings.Fields(a[0].norm + " -")[0]]++
	for i := 0; i < len(a) || i < len(b); i++ {
		var x, y c09IdStep
		if i < len(a) {
			x = a[i]
		}
		if i < len(b) {
			y = b[i]
		}
		if x != y {
			what := x.what
			if what == "" {
				what = y.what
			}
			ch.fail(lib.Failure{Kind: "oracle", Key: "identity/read-differs/" + q.Op + "/" + what,
				What:     fmt.Sprintf("a purely reading request (step %d: %s) is answered differently by the read-only server than by a writable server with the same options, tree and identity", i, what),
				Input:    ch.input(q),
				Expected: c09IdClip(y.norm), Actual: c09IdClip(x.norm)})
			return
		}
	}
}

func c09IdClip(s string) string {
	if len(s) > 600 {
		return s[:600] + fmt.Sprintf("…(%d bytes)", len(s))
	}
	return s
}

func (ch *c09IdChild) runMod(k *lib.Case, q c09IdReq) {
	tree, form := ch.job.Tree, ch.job.Form
	s := ch.ro
	h := ""
	if q.Op == "write" || q.Op == "fsetstat" {
		p, err := s.call(k, func(id uint32) []byte {
			return c09IdFrame(c09IdReq{Op: "open", Target: q.Target, Pflags: wire.FRead}, id, tree, form, "")
		})
		if err != nil {
			ch.noReply(s, k, q, err)
			return
		}
		if p.Typ != wire.Handle {
			ch.hist["handle-unavailable/"+q.Op]++
			return
		}
		h = c09HandleOf(p)
	}
	p, err := s.call(k, func(id uint32) []byte { return c09IdFrame(q, id, tree, form, h) })
	if err != nil {
		ch.noReply(s, k, q, err)
		return
	}
	for _, x := range []string{c09HandleOf(p), h} {
		if x != "" {
			if _, err := s.call(k, func(id uint32) []byte { return wire.Req(wire.Close, id, wire.B{}.Str(x)) }); err != nil {
				ch.noReply(s, k, q, err)
				return
			}
		}
	}
	code, msg := c09Status(p)
	ch.hist["mod/"+c09IdKey(q)]++
	if ch.treeCheck(q, true) && !(p.Typ == wire.Status && code == wire.PermissionDenied) {
		ch.fail(lib.Failure{Kind: "oracle", Key: "identity/" + c09IdKey(q), What: "modifying request not answered with PERMISSION_DENIED by the read-only server running without privileges", Input: ch.input(q),
			Expected: "STATUS 3", Actual: fmt.Sprintf("type %d code %d %q", p.Typ, code, msg)})
	}
}

func c09IdentChild(args []string) {
	out := bufio.NewWriter(os.Stdout)
	ch := &c09IdChild{out: out, hist: map[string]int{}}
	die := func(format string, a ...any) {
		ch.fail(lib.Failure{Kind: "tie", Key: "identity/child-setup", What: fmt.Sprintf(format, a...), Input: ch.input(c09IdReq{})})
		os.Exit(0)
	}
	if len(args) != 1 {
		die("usage: vh child c09ident <job file>")
	}
	b, err := os.ReadFile(args[0])
	if err != nil {
		die("job file: %v", err)
	}
	if err := json.Unmarshal(b, &ch.job); err != nil {
		die("job file: %v", err)
	}
	job := ch.job
	if ok, why := lib.InScratch("", job.Tree); !ok {
		die("the tree is not inside a registered scratch directory: %s", why)
	}
	// still root: the budget ledger is opened now (it is written through the open descriptor afterwards), and
	// the mount namespace must be the parent's (the sandbox is inherited)
	lib.PollLedger()
	if ns, err := os.Readlink("/proc/self/ns/mnt"); err == nil && job.MntNS != "" && ns != job.MntNS {
		die("the child is in mount namespace %s, its parent in %s: the sandbox was not inherited", ns, job.MntNS)
	}
	if err := c09IdDrop(job.Ident); err != nil {
		// (a user namespace without these ids, no CAP_SETUID: the host does not let us; the parent says so)
		ch.done.DropErr = err.Error()
		ch.emit(c09IdLine{Done: &ch.done})
		return
	}
	ch.done.UID, ch.done.EUID, ch.done.GID, ch.done.EGID = os.Getuid(), os.Geteuid(), os.Getgid(), os.Getegid()
	ch.done.Groups, _ = os.Getgroups()
	ch.done.Bites = c09IdBites(job.Tree)
	ch.done.Hist = ch.hist
	finish := func() {
		ch.done.Escapes = lib.Escapes()
		ch.emit(c09IdLine{Done: &ch.done})
	}
	if job.Ident.Drop != "none" && !ch.done.Bites {
		finish() // the parent reports it
		return
	}
	k0 := lib.NewCase("c09/ident/start")
	ch.ro = &c09IdSide{name: "read-only", opts: job.Cfg.optsRW(job.Tree)}
	ch.ro.opts = append([]sftp.ServerOption{sftp.ReadOnly()}, ch.ro.opts...)
	ch.rw = &c09IdSide{name: "writable", opts: job.Cfg.optsRW(job.Tree), id: 1 << 20}
	for _, s := range []*c09IdSide{ch.ro, ch.rw} {
		if err := s.start(k0); err != nil {
			ch.fail(lib.Failure{Kind: "tie", Key: "identity/server-start", What: s.name + " server does not start under this identity: " + err.Error(), Input: ch.input(c09IdReq{})})
			finish()
			return
		}
	}
	ch.base = c09IdLight(job.Tree)
	for i, q := range job.Reqs {
		class := "c09/ident/" + q.Op
		if ch.dead || lib.Stop(class) {
			ch.done.NotRun = append(ch.done.NotRun, i)
			continue
		}
		k := lib.NewCase(class)
		if ch.ro.rx > 4<<20 {
			ch.restart(ch.ro, k)
		}
		if ch.rw.rx > 4<<20 && !ch.dead {
			ch.restart(ch.rw, k)
		}
		if ch.dead {
			ch.done.NotRun = append(ch.done.NotRun, i)
			continue
		}
		if c09IdMutating(q) {
			ch.runMod(k, q)
		} else {
			ch.runRead(k, q)
		}
	}
	ch.ro.stop()
	ch.rw.stop()
	finish()
}

// ---------- the parent ----------

type c09IdPlan struct {
	ident c09Ident
	cfg   c09Cfg
	form  string
	reqs  []c09IdReq
}

var c09IdCombos = []struct {
	cfg  c09Cfg
	form string
}{
	{c09Cfg{}, "abs"},
	{c09Cfg{Alloc: true, WorkDir: "tree"}, "rel"},
	{c09Cfg{Alloc: true}, "abs"},
	{c09Cfg{WorkDir: "unclean"}, "reldot"},
	{c09Cfg{WorkDir: "tree"}, "abs"},
	{c09Cfg{Alloc: true, WorkDir: "tree", MaxTx: 1 << 20}, "relup"},
}

const c09IdRule = " HOST IDENTITY family: the read-only server and a writable twin (same options) run in a child process that has dropped root (setgroups/setresgid/setresuid; identities: owner of part of the tree, the same with a supplementary group, a stranger, a stranger reaching entries only through groups; thorough also effective-ids-only and root as control) on a tree prepared by root: files and directories (each with children) of the identity's uid, of root and of a third uid in the permission classes world-/group-/supplementary-group-/owner-only readable, 0604 with the identity's group, write-only, mode 0, search-only, read-without-search, sticky and world-writable directories, symbolic links of either owner to each class, dangling, absolute and through an unsearchable directory, missing names in every directory; per target the 4 reading OPENs (+3 READs, FSTAT, CLOSE), OPENDIR (+READDIR to the end, CLOSE), STAT, LSTAT, READLINK, REALPATH, statvfs on both servers: normalised replies equal (atime and free counts masked), OPEN(READ)/OPENDIR also against package os under the same identity; 10 writing OPENs, SETSTAT/FSETSTAT per attribute, REMOVE, RMDIR, MKDIR, RENAME, SYMLINK, hardlink, posix-rename, WRITE on the read-only server: PERMISSION_DENIED and the tree (lstat walk with ctime by the child after every request; full snapshot by root before and after the child) unchanged; quick: every reading request, a rotating third of the modifying ones per target, one (options, path form) pair per identity rotated with the seed; thorough: everything under 6 pairs; non-trivial = run under an identity other than root"

// c09Identity runs the family (replay: one case).
func c09Identity(c *lib.Ctx, root string, replay *c09IdInput) {
	r := c.R
	if os.Geteuid() != 0 {
		r.Skip("C09 host-identity family: the harness does not run as root (euid %d), so it can neither prepare entries of foreign owners inside its scratch directory nor change identity; not run", os.Geteuid())
		return
	}
	thorough := c.Tier == "thorough"
	seed := int(c.Seed % 1000)
	if seed < 0 {
		seed = -seed
	}
	var plans []c09IdPlan
	switch {
	case replay != nil:
		if replay.Form == "" {
			replay.Form = "abs"
		}
		plans = []c09IdPlan{{replay.Ident, replay.Cfg, replay.Form, []c09IdReq{replay.Req}}}
	case thorough:
		all := c09IdReqs(func(int, int) bool { return true })
		for _, id := range c09Idents(true) {
			for _, cb := range c09IdCombos {
				plans = append(plans, c09IdPlan{id, cb.cfg, cb.form, all})
			}
		}
	default:
		for i, id := range c09Idents(false) {
			cb := c09IdCombos[(i+seed)%4]
			i := i
			plans = append(plans, c09IdPlan{id, cb.cfg, cb.form, c09IdReqs(func(t, k int) bool { return (t+k+i+seed)%3 == 0 })})
		}
	}
	mntns, _ := os.Readlink("/proc/self/ns/mnt")
	os.Chmod(root, 0o755) // os.MkdirTemp made it 0700: the child must be able to walk into its tree
	sem := make(chan struct{}, 6)
	var wg sync.WaitGroup
	for i, pl := range plans {
		if lib.Stop("c09/ident") {
			r.Hist("identity/not-run/soft-deadline")
			continue
		}
		wg.Add(1)
		sem <- struct{}{}
		go func(i int, pl c09IdPlan) {
			defer wg.Done()
			defer func() { <-sem }()
			c09IdRun(r, filepath.Join(root, fmt.Sprintf("id%02d", i)), pl, mntns)
		}(i, pl)
	}
	wg.Wait()
}

func c09IdRun(r *lib.Result, dir string, pl c09IdPlan, mntns string) {
	in0 := c09IdInput{Family: "identity", Ident: pl.ident, Cfg: pl.cfg, Form: pl.form}
	tie := func(key, format string, a ...any) {
		r.Fail(lib.Failure{Kind: "tie", Key: key, What: fmt.Sprintf(format, a...), Input: in0})
	}
	tree, err := c09IdBuild(dir)
	if err != nil {
		tie("identity/tree", "cannot prepare the tree: %v", err)
		return
	}
	defer os.RemoveAll(dir)
	before := lib.Snapshot(dir, true)
	job := c09IdJob{Ident: pl.ident, Cfg: pl.cfg, Form: pl.form, Tree: tree, MntNS: mntns, Reqs: pl.reqs}
	jb, _ := json.Marshal(job)
	jobFile := dir + ".job"
	if err := os.WriteFile(jobFile, jb, 0o644); err != nil {
		tie("identity/tree", "cannot write the job file: %v", err)
		return
	}
	defer os.Remove(jobFile)

	cmd := exec.Command(os.Args[0], "child", "c09ident", jobFile)
	cmd.Env = append(os.Environ(), "GOTRACEBACK=all", "GOMAXPROCS=4", "GOMEMLIMIT=768MiB")
	stdout, err := cmd.StdoutPipe()
	if err != nil {
		tie("identity/child", "%v", err)
		return
	}
	tail := &cliTail{}
	cmd.Stderr = tail
	if err := cmd.Start(); err != nil {
		tie("identity/child", "cannot start the child process: %v", err)
		return
	}
	var done *c09IdDone
	nfail, treeFail := 0, false
	read := make(chan struct{})
	go func() {
		defer close(read)
		sc := bufio.NewScanner(stdout)
		sc.Buffer(make([]byte, 1<<20), 64<<20)
		for sc.Scan() {
			var l c09IdLine
			if json.Unmarshal(sc.Bytes(), &l) != nil {
				continue
			}
			lib.Touch()
			switch {
			case l.Fail != nil:
				nfail++
				treeFail = treeFail || strings.HasPrefix(l.Fail.Key, "identity/tree-changed/")
				r.Fail(*l.Fail)
			case l.Note != "":
				r.Note("identity %s: %s", pl.ident.Name, l.Note)
			case l.Done != nil:
				done = l.Done
			}
		}
	}()
	// every wait of the child on the code under test comes from the shared hang budget; the child as a whole is
	// bounded here
	limit := 4 * time.Minute
	if rem := lib.Remaining() + 30*time.Second; rem < limit {
		limit = max(rem, 30*time.Second)
	}
	stopKA := lib.KeepAlive()
	timedOut := false
	select {
	case <-read:
	case <-time.After(limit):
		timedOut = true
		cmd.Process.Kill()
		<-read
	}
	cmd.Wait()
	stopKA()

	// root looks at the whole tree again
	after := lib.Snapshot(dir, true)
	if diff := lib.DiffSnap(before, after); len(diff) > 0 && !treeFail {
		r.Fail(lib.Failure{Kind: "oracle", Key: "identity/tree-changed/unattributed", What: "after the child with the read-only server (and its writable twin, which got purely reading requests only) the tree differs from root's snapshot taken before, and the child saw no change after any single request", Input: in0, Expected: "tree unchanged", Actual: diff})
	}
	if done == nil {
		t := tail.String()
		if len(t) > 3000 {
			t = t[:3000] + "…"
		}
		switch {
		case timedOut:
			tie("identity/child-timeout", "the child did not finish within %v and was killed; %d failures of it are recorded; stderr: %s", limit, nfail, t)
		case strings.Contains(t, "panic:") || strings.Contains(t, "fatal error:"):
			r.Fail(lib.Failure{Kind: "oracle", Key: "identity/panic/process-died", What: "the process running the read-only server and its writable twin without privileges died", Input: in0, Actual: t})
		case nfail == 0:
			tie("identity/child", "the child ended without a result; stderr: %s", t)
		}
		r.MarkIncomplete("C09 identity %s: the child did not deliver its summary", pl.ident.Name)
		return
	}
	for _, e := range done.Escapes {
		lib.ReportEscape("%s", e)
	}
	if done.DropErr != "" {
		r.Skip("C09 host-identity family, identity %s: the host does not let the child change identity (%s); nothing run", pl.ident.Name, done.DropErr)
		r.Hist("identity/not-run/privileges-not-dropped")
		return
	}
	if pl.ident.Drop != "none" {
		wg, gg := append([]int{}, pl.ident.Groups...), append([]int{}, done.Groups...)
		sort.Ints(wg)
		sort.Ints(gg)
		want := fmt.Sprintf("euid=%d egid=%d groups=%v", pl.ident.UID, pl.ident.GID, wg)
		got := fmt.Sprintf("euid=%d egid=%d groups=%v", done.EUID, done.EGID, gg)
		if want != got || !done.Bites || (pl.ident.Drop == "full" && (done.UID != pl.ident.UID || done.GID != pl.ident.GID)) {
			r.Skip("C09 host-identity family, identity %s: after dropping privileges the child is uid=%d %s (wanted %s) and a root-only file is refused: %v — permission checks do not bite here, nothing run", pl.ident.Name, done.UID, got, want, done.Bites)
			r.Hist("identity/not-run/privileges-not-dropped")
			return
		}
	}
	skipped := map[int]bool{}
	for _, i := range done.NotRun {
		skipped[i] = true
	}
	for i, q := range pl.reqs {
		if skipped[i] {
			continue
		}
		r.Case(fmt.Sprintf("identity/%s/%s/%s/%s/%s/pf%d/af%x", pl.ident.Name, pl.cfg, pl.form, q.Op, q.Target, q.Pflags, q.AFlags), pl.ident.Drop != "none")
	}
	r.HistAdd("identity/children", 1)
	r.HistAdd("identity/who="+pl.ident.Name, len(pl.reqs)-len(skipped))
	r.HistAdd(fmt.Sprintf("identity/cfg=%s,form=%s", pl.cfg, pl.form), len(pl.reqs)-len(skipped))
	for k, v := range done.Hist {
		if k == lib.NotRunBucket {
			r.HistAdd(k, v)
		} else {
			r.HistAdd("identity/"+k, v)
		}
	}
	if r.NumSamples() < 12 && len(pl.reqs) > 1 {
		in := in0
		in.Req = pl.reqs[len(pl.reqs)/2]
		r.Sample(in)
	}
}
