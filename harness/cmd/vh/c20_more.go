package main

// C20, further case families (generators only; the mutations themselves are applied by c20ApplyReq in c20.go):
//
//   value   WELL-FORMED replies whose VALUE words (ATTRS size/uid/gid/perm/atime/mtime — also inside NAME entries —,
//           the eleven statvfs numbers, the status code) are set to boundary values: 0, 1, 2^31±, 2^32±, 2^63±,
//           2^64-2^15, 2^64-1 and the values at which arithmetic with the packet size in play (16 here, 32768 by
//           default) or the worker limit (64) wraps or changes sign. Every operation that receives such a reply is
//           run on it; the values it returns are looked at through every accessor (cli_ops.go: cliFiAll, cliVfsAll).
//   cuterr  the reply STREAM is cut after N bytes of a reply — N = 0 … len, in particular inside and exactly after
//           the length word, after the type byte, after the id — and the transport then fails with a chosen ERROR
//           VALUE (cli_faultpeer.go: cliErrKinds — io.EOF and its wrappers, io.ErrUnexpectedEOF, io.ErrClosedPipe,
//           os/net closed, deadlines, EPIPE/ECONNRESET, opaque values).
//   over    a well-formed DATA reply that carries more bytes than the READ asked for (1, 9, one chunk, 200000 …).
//   trail   replies LONGER than their content: a complete well-formed reply of every kind (the valid one and every
//           substituted kind: STATUS x3, HANDLE, DATA, NAME x1/x2, ATTRS, EXTENDED_REPLY, VERSION, type 99) followed
//           by trailing bytes INSIDE the same frame (the length word covers them): 1, 7, 8, 13, 800 bytes of zeros /
//           0xff / PRNG, or a whole second reply (length word, type, id, body) / the body once more.

import (
	"fmt"
	"math/rand"
	"strings"

	"verifharness/lib"
	"verifharness/wire"
)

type c20Val struct {
	Name string
	V    uint64
}

// c20Vals64 lists the boundary values of a 64-bit value word. rel: also the values relative to the packet sizes.
func c20Vals64(rel bool) []c20Val {
	out := []c20Val{
		{"2^63", 1 << 63}, {"2^64-2^15", 1<<64 - 1<<15}, {"2^64-1", 1<<64 - 1}, // the three that are never rotated away
		{"0", 0}, {"1", 1}, {"2^31-1", 1<<31 - 1}, {"2^31", 1 << 31}, {"2^32-1", 1<<32 - 1}, {"2^32", 1 << 32},
		{"2^63-1", 1<<63 - 1}, {"2^63+1", 1<<63 + 1}, {"2^64-2", 1<<64 - 2}, {"2^62", 1 << 62}, {"2^53+1", 1<<53 + 1},
	}
	if rel {
		for _, mp := range []uint64{cliMaxPacket, 32768} {
			n := fmt.Sprint(mp)
			out = append(out,
				c20Val{"2^64-" + n + "-1", -mp - 1}, c20Val{"2^64-" + n, -mp}, c20Val{"2^64-" + n + "+1", -mp + 1},
				c20Val{"2^64-2*" + n, 0 - 2*mp}, c20Val{"2^64-2*" + n + "+1", 0 - 2*mp + 1}, c20Val{"2^64-2*" + n + "-1", 0 - 2*mp - 1},
				c20Val{"2^63-" + n, 1<<63 - mp}, c20Val{"2^63+" + n, 1<<63 + mp},
				c20Val{"64*" + n + "-1", 64*mp - 1}, c20Val{"64*" + n, 64 * mp}, c20Val{"64*" + n + "+1", 64*mp + 1},
				c20Val{n, mp}, c20Val{n + "+1", mp + 1}, c20Val{"2*" + n, 2 * mp})
		}
	}
	return out
}

// c20Vals32 lists the boundary values of a 32-bit value word by the kind of field.
func c20Vals32(field string) []c20Val {
	switch {
	case field == "status-code":
		out := []c20Val{{"2^31", 1 << 31}, {"2^32-1", 1<<32 - 1}, {"255", 255}, {"2^31-1", 1<<31 - 1}}
		for i := uint64(0); i <= 9; i++ {
			out = append(out, c20Val{fmt.Sprint(i), i})
		}
		return out
	case strings.HasSuffix(field, "perm"):
		return []c20Val{{"0", 0}, {"2^32-1", 1<<32 - 1}, {"2^31", 1 << 31}, {"dir", 0o40755}, {"regular", 0o100644}, {"symlink", 0o120777},
			{"all-type-bits", 0o170000}, {"perm-only", 0o7777}, {"blockdev", 0o60600}, {"chardev", 0o20600}, {"fifo", 0o10600}, {"socket", 0o140600},
			{"2^31-1", 1<<31 - 1}, {"regular|high", 0xffff0000 | 0o100644}}
	}
	return []c20Val{{"0", 0}, {"2^32-1", 1<<32 - 1}, {"2^31", 1 << 31}, {"2^31-1", 1<<31 - 1}, {"1", 1}, {"2^16", 1 << 16}}
}

// c20Nrep is the number of replies of an operation's valid run that are mutated: all of them, except for the
// schedule-dependent speculative tail of a concurrent WriteTo (the deterministic prefix + 2).
func c20Nrep(opName string, d c20Res) int {
	nrep := len(d.Replies)
	eofs := 0
	for j := 0; j < len(d.Replies); j++ {
		fr := lib.UnHex(d.Replies[j])
		if (strings.HasPrefix(opName, "File.WriteTo-concurrent") || opName == "File.Seek-end+WriteTo") && fr[4] == wire.Status {
			eofs++
			if eofs == 2 {
				return j + 1
			}
		}
	}
	return nrep
}

// c20ValueClass is the hang class of a value case: one class per (operation, field, boundary), so that a boundary at
// which an operation hangs stops only the further variants of that very combination once the hang budget is used up.
func c20ValueClass(cs c20Case) string {
	f := cs.Mut.Field
	if strings.HasPrefix(f, "name") && strings.Contains(f, "-") && f != "name-count" {
		f = f[strings.Index(f, "-")+1:]
	}
	return "c20/" + cs.Op + "/value/" + f + "/" + cs.Mut.VName
}

// c20GenValue: value words of every reply of every (operation, variant) pair.
func c20GenValue(c *lib.Ctx, pairs []c20Pair, dry map[string]c20Res) []c20Case {
	var out []c20Case
	for pi, p := range pairs {
		d, ok := dry[cliOpKey(p.op.Name, p.variant)]
		if !ok {
			continue
		}
		nrep := c20Nrep(p.op.Name, d)
		for j := 0; j < nrep; j++ {
			valid := lib.UnHex(d.Replies[j])
			for fi, f := range cliReplyValueFields(valid) {
				var vals []c20Val
				keep := 0 // the first `keep` values are never rotated away
				isSize := f.Name == "size" || strings.HasSuffix(f.Name, "-size")
				switch {
				case f.W == 8 && isSize:
					vals, keep = c20Vals64(true), 3
				case f.W == 8:
					vals, keep = c20Vals64(p.level == 3), 1
				default:
					vals, keep = c20Vals32(f.Name), 2
				}
				if p.level >= 2 {
					// PRNG values: top bit set, top bit clear
					n := map[int]int{2: 2, 3: 12}[p.level]
					for k := 0; k < n; k++ {
						v := c.Rand.Uint64()
						if k%2 == 0 {
							v |= 1 << 63
						} else {
							v &^= 1 << 63
						}
						if f.W == 4 {
							v &= 1<<32 - 1
						}
						vals = append(vals, c20Val{"prng", v})
					}
				}
				if p.level == 0 {
					// light: the fixed ones and three rotating ones
					rot := vals[keep:]
					vals = vals[:keep:keep]
					for k := 0; k < 3 && len(rot) > 0; k++ {
						vals = append(vals, rot[(pi+j+fi+5*k)%len(rot)])
					}
				}
				seen := map[uint64]bool{f.Val: true}
				for _, v := range vals {
					if f.W == 4 {
						v.V &= 1<<32 - 1
					}
					if seen[v.V] {
						continue
					}
					seen[v.V] = true
					out = append(out, c20Case{Op: p.op.Name, Opt: p.variant, Idx: j,
						Mut: c20Mut{Base: "valid", Kind: "value", Off: f.Off, W: f.W, Field: f.Name, V64: fmt.Sprintf("0x%x", v.V), VName: v.Name}})
				}
			}
		}
		// a substituted ATTRS reply with a boundary size in place of whatever the first reply was (value or not)
		if p.level >= 2 && nrep > 0 && lib.UnHex(d.Replies[0])[4] != wire.Attrs {
			fr := c20Base("attrs", 1)
			for _, f := range cliReplyValueFields(fr) {
				if f.Name != "size" {
					continue
				}
				for _, v := range c20Vals64(false)[:3] {
					out = append(out, c20Case{Op: p.op.Name, Opt: p.variant, Idx: 0,
						Mut: c20Mut{Base: "attrs", Kind: "value", Off: f.Off, W: 8, Field: f.Name, V64: fmt.Sprintf("0x%x", v.V), VName: v.Name}})
				}
			}
		}
	}
	return out
}

// c20CutPoints: the byte positions of a reply frame of length L at which the stream is cut, by density.
func c20CutPoints(L, level, rot int) []int {
	if level == 3 || (level == 2 && L <= 64) {
		out := make([]int, 0, L+1)
		for n := 0; n <= L; n++ {
			out = append(out, n)
		}
		return out
	}
	set := map[int]bool{}
	var out []int
	add := func(n int) {
		if n >= 0 && n <= L && !set[n] {
			set[n] = true
			out = append(out, n)
		}
	}
	// exactly after the length word, after the type byte, after the id: always
	add(4)
	add(5)
	add(9)
	if level == 2 {
		for n := 0; n <= 13; n++ {
			add(n)
		}
		add(L / 2)
		add(L - 1)
		add(L)
		for n := 14 + rot%7; n < L; n += 7 {
			add(n)
		}
		return out
	}
	switch rot % 4 { // one more, rotating: before / inside the length word, inside the id, the body, the complete frame
	case 0:
		add(rot / 4 % 4)
	case 1:
		add(6 + rot/4%3)
	case 2:
		add(10 + rot/4%max(L-10, 1))
	default:
		add(L)
	}
	return out
}

// c20GenCut: the reply stream cut at a byte position, then failing with an error value.
func c20GenCut(c *lib.Ctx, pairs []c20Pair, dry map[string]c20Res) []c20Case {
	kinds := cliErrKinds("read")
	var nonEOF []string
	for _, k := range kinds {
		if k.Family != "eof" {
			nonEOF = append(nonEOF, k.Name)
		}
	}
	var out []c20Case
	for pi, p := range pairs {
		if p.valueOnly {
			continue
		}
		d, ok := dry[cliOpKey(p.op.Name, p.variant)]
		if !ok {
			continue
		}
		nrep := c20Nrep(p.op.Name, d)
		for j := 0; j < nrep; j++ {
			valid := lib.UnHex(d.Replies[j])
			rot := pi + 3*j
			lvl := p.level
			if lvl == 2 && (p.variant != "" || j > 0) {
				lvl = 0 // quick: the framing does not depend on the options or on the request: full density for the first reply of the default variant only
			}
			add := func(n int, kind string) {
				out = append(out, c20Case{Op: p.op.Name, Opt: p.variant, Idx: j, Mut: c20Mut{Base: "valid", Kind: "cuterr", N: n, Err: kind}})
			}
			for pn, n := range c20CutPoints(len(valid), lvl, rot) {
				var ks []string
				switch {
				case lvl == 3:
					for _, k := range kinds {
						ks = append(ks, k.Name)
					}
				case n == 4 || (lvl == 2 && (n == 5 || n == 9 || n == 0)):
					// exactly after the length word: a value that is NOT io.EOF and one more rotating value (full density:
					// every value); at full density also before the frame, after the type byte and after the id: three values
					if lvl == 2 && n == 4 {
						for _, k := range kinds {
							ks = append(ks, k.Name)
						}
					} else {
						ks = []string{nonEOF[(rot+pn)%len(nonEOF)], kinds[(rot+pn+1)%len(kinds)].Name}
						if lvl == 2 {
							ks = append(ks, "eof")
						}
					}
				default:
					ks = []string{kinds[(rot+pn)%len(kinds)].Name}
				}
				seen := map[string]bool{}
				for _, k := range ks {
					if !seen[k] {
						seen[k] = true
						add(n, k)
					}
				}
			}
			// a substituted reply kind cut after its length word / type byte / id
			if lvl >= 2 {
				base := c20Bases[(pi+j)%len(c20Bases)]
				for _, n := range []int{4, 5, 9} {
					out = append(out, c20Case{Op: p.op.Name, Opt: p.variant, Idx: j, Mut: c20Mut{Base: base, Kind: "cuterr", N: n, Err: nonEOF[(rot+n)%len(nonEOF)]}})
				}
			}
		}
	}
	return out
}

// c20OverBy: how many bytes more than requested an over-delivering DATA reply carries (the chunk size is 16 here;
// 262135-16 fills the largest frame the client accepts, one more is refused by the framing).
var c20OverBy = []int{1, 9, cliMaxPacket, 200000}
var c20OverByThorough = []int{2, cliMaxPacket - 1, cliMaxPacket + 1, 255, 4096, 32768, 65536, 262135 - cliMaxPacket - 1, 262135 - cliMaxPacket, 262135 - cliMaxPacket + 1}

// c20GenOver: every READ of every (operation, variant) pair answered with more DATA than asked for.
func c20GenOver(c *lib.Ctx, pairs []c20Pair, dry map[string]c20Res) []c20Case {
	var out []c20Case
	for pi, p := range pairs {
		if p.valueOnly {
			continue
		}
		d, ok := dry[cliOpKey(p.op.Name, p.variant)]
		if !ok {
			continue
		}
		nrep := c20Nrep(p.op.Name, d)
		for j := 0; j < nrep && j < len(d.ReqTyps); j++ {
			if d.ReqTyps[j] != int(wire.Read) {
				continue
			}
			by := c20OverBy
			if p.level == 3 {
				by = append(append([]int(nil), by...), c20OverByThorough...)
			}
			if p.level == 0 {
				by = []int{c20OverBy[(pi+j)%len(c20OverBy)], c20OverBy[(pi+j+1)%len(c20OverBy)]}
			}
			for _, n := range by {
				out = append(out, c20Case{Op: p.op.Name, Opt: p.variant, Idx: j, Mut: c20Mut{Base: "valid", Kind: "over", N: n}})
			}
		}
	}
	return out
}

// c20ExtraPairs: the (operation, variant) pairs that only C20 runs — the multi-step value operations of
// cliValueOps, and the transfers without any MaxPacket option (the default packet size of 32768; value cases only,
// since every other family is about the framing, which does not depend on it).
func c20ExtraPairs(thorough bool) []c20Pair {
	var out []c20Pair
	lvl := 0
	if thorough {
		lvl = 2
	}
	for _, op := range cliValueOps() {
		for _, v := range append([]string{""}, op.Vars...) {
			out = append(out, c20Pair{op: op, variant: v, level: lvl})
		}
	}
	vlvl := 2
	if thorough {
		vlvl = 3
	}
	for _, op := range append(cliOps(), cliValueOps()...) {
		var vs []string
		switch {
		case strings.HasPrefix(op.Name, "File.WriteTo"):
			vs = []string{"mp-default", "mp-default+fstat", "mp-default+req1", "mp-default+fstat+req2"}
		case strings.HasPrefix(op.Name, "File.Seek"), op.Name == "File.Stat", op.Name == "File.Stat+Truncate":
			vs = []string{"mp-default", "mp-default+fstat"}
		}
		for _, v := range vs {
			out = append(out, c20Pair{op: op, variant: v, level: vlvl, valueOnly: true})
		}
	}
	return out
}

// c20Class is the hang class of a case.
func c20Class(cs c20Case) string {
	if cs.Mut.Kind == "value" {
		return c20ValueClass(cs)
	}
	return "c20/" + cs.Op
}

// ---------- trail: a complete reply followed by trailing bytes inside the frame ----------

// c20TrailBytes builds the trailing bytes of a "trail" mutation; b is the complete frame they are appended to.
func c20TrailBytes(m c20Mut, b []byte) []byte {
	switch m.How {
	case "reply": // a whole second reply, framing included
		return append([]byte(nil), b...)
	case "body": // the fields after the id once more
		if len(b) > 9 {
			return append([]byte(nil), b[9:]...)
		}
		return nil
	}
	t := make([]byte, max(m.N, 0))
	switch m.How {
	case "ff":
		for i := range t {
			t[i] = 0xff
		}
	case "prng":
		rand.New(rand.NewSource(m.Seed ^ int64(m.N)*7919)).Read(t)
	}
	return t
}

func c20TrailBucket(m c20Mut) string {
	switch {
	case m.How == "reply":
		return "a-whole-second-reply"
	case m.How == "body":
		return "the-body-again"
	case m.N < 8:
		return fmt.Sprint(m.N)
	case m.N == 8:
		return "8(one-more-word)"
	case m.N < 100:
		return "9..99"
	case m.N <= 1000:
		return "100..1000"
	}
	return ">1000"
}

var c20TrailN = []int{1, 7, 8, 13, 800}
var c20TrailNThorough = []int{2, 3, 4, 5, 9, 12, 16, 24, 92, 255, 256, 4096, 32768, 200000}
var c20TrailFill = []string{"ff", "zero", "prng"}

// c20GenTrail: every reply of every (operation, variant) pair, and every substituted reply kind, complete and
// followed by trailing bytes that the frame length covers.
func c20GenTrail(c *lib.Ctx, pairs []c20Pair, dry map[string]c20Res) []c20Case {
	var out []c20Case
	for pi, p := range pairs {
		if p.valueOnly {
			continue
		}
		d, ok := dry[cliOpKey(p.op.Name, p.variant)]
		if !ok {
			continue
		}
		nrep := c20Nrep(p.op.Name, d)
		for j := 0; j < nrep; j++ {
			bases := append([]string{"valid"}, c20Bases...)
			if p.level == 0 {
				// light: the valid reply and three of the substituted kinds, rotating
				bases = []string{"valid"}
				for k := 0; k < 3; k++ {
					bases = append(bases, c20Bases[(pi+j+4*k+1)%len(c20Bases)])
				}
			}
			for bi, base := range bases {
				add := func(n int, how string) {
					out = append(out, c20Case{Op: p.op.Name, Opt: p.variant, Idx: j, Mut: c20Mut{Base: base, Kind: "trail", N: n, How: how, Seed: int64(1 + pi + 31*j + 977*bi)}})
				}
				rot := pi + j + bi
				switch {
				case p.level == 3:
					for _, n := range c20TrailN {
						for _, f := range c20TrailFill {
							add(n, f)
						}
					}
					for k, n := range c20TrailNThorough {
						add(n, c20TrailFill[(rot+k)%len(c20TrailFill)])
					}
					add(0, "reply")
					add(0, "body")
				case p.level == 2 || base == "valid":
					for k, n := range c20TrailN {
						add(n, c20TrailFill[(rot+k)%len(c20TrailFill)])
					}
					add(0, "reply")
					if base == "valid" {
						add(0, "body")
						add(8, c20TrailFill[(rot+1)%len(c20TrailFill)]) // one more word, a second content
					}
				default:
					// light, substituted kind: one more word, one rotating size, a second reply
					add(8, c20TrailFill[rot%len(c20TrailFill)])
					add(c20TrailN[rot%len(c20TrailN)], c20TrailFill[(rot+1)%len(c20TrailFill)])
					add(0, "reply")
				}
			}
		}
	}
	// distinct only (the rotation can name the same mutation twice)
	seen := map[string]bool{}
	uniq := out[:0]
	for _, cs := range out {
		k := fmt.Sprintf("%s|%s|%d|%s", cs.Op, cs.Opt, cs.Idx, cs.Mut)
		if !seen[k] {
			seen[k] = true
			uniq = append(uniq, cs)
		}
	}
	return uniq
}
