package main

import (
	"fmt"
	"net"
	"os"
	"path/filepath"
	"sort"
	"strings"
	"syscall"
	"time"

	"github.com/pkg/sftp"

	"verifharness/lib"
	"verifharness/peers"
	"verifharness/wire"
)

// Second half of C17: attributes reported for served files of every kind the host can create,
// SETSTAT / FSETSTAT applying exactly the flagged attributes, long names agreeing with attributes.

type c17Set struct {
	Which string `json:"request"` // setstat | fsetstat
	Flags uint32 `json:"flags"`
}

// lsMode is the harness's own `ls -l` mode string for a POSIX mode word (independent of the package).
func c17LsMode(m uint32) string {
	t := map[uint32]byte{0x8000: '-', 0x4000: 'd', 0xA000: 'l', 0x6000: 'b', 0x2000: 'c', 0x1000: 'p', 0xC000: 's'}
	b := []byte("?---------")
	if c, ok := t[m&0xF000]; ok {
		b[0] = c
	}
	for i, c := range "rwxrwxrwx" {
		if m&(1<<uint(8-i)) != 0 {
			b[i+1] = byte(c)
		}
	}
	sp := func(bit uint32, pos int, lo, up byte) {
		if m&bit != 0 {
			if b[pos] == 'x' {
				b[pos] = lo
			} else {
				b[pos] = up
			}
		}
	}
	sp(0o4000, 3, 's', 'S')
	sp(0o2000, 6, 's', 'S')
	sp(0o1000, 9, 't', 'T')
	return string(b)
}

func c17PosixMode(st *syscall.Stat_t) uint32 { return st.Mode & 0xFFFF }

func checkC17Files(c *lib.Ctx) {
	r := c.R
	root, err := lib.MkScratch("vh-c17-")
	if err != nil {
		r.Fail(lib.Failure{Kind: "tie", Key: "tmpdir", What: err.Error()})
		return
	}
	defer os.RemoveAll(root)
	d := filepath.Join(root, "d")
	os.Mkdir(d, 0o755)
	// file kinds
	mk := map[string]func(p string) error{
		"regular":  func(p string) error { return os.WriteFile(p, []byte("hello"), 0o640) },
		"empty":    func(p string) error { return os.WriteFile(p, nil, 0o600) },
		"dir":      func(p string) error { return os.Mkdir(p, 0o750) },
		"symlink":  func(p string) error { return os.Symlink("regular", p) },
		"dangling": func(p string) error { return os.Symlink("nowhere", p) },
		"fifo":     func(p string) error { return syscall.Mkfifo(p, 0o644) },
		"socket": func(p string) error {
			l, err := net.Listen("unix", p)
			if err == nil {
				l.(*net.UnixListener).SetUnlinkOnClose(false)
				l.Close()
			}
			return err
		},
		"chardev":  func(p string) error { return syscall.Mknod(p, syscall.S_IFCHR|0o620, 1<<8|3) },
		"blockdev": func(p string) error { return syscall.Mknod(p, syscall.S_IFBLK|0o660, 7<<8|0) },
		"setuid":   func(p string) error { os.WriteFile(p, []byte("x"), 0o755); return os.Chmod(p, 0o755|os.ModeSetuid) },
		"setgid":   func(p string) error { os.WriteFile(p, []byte("x"), 0o750); return os.Chmod(p, 0o750|os.ModeSetgid) },
		"sticky":   func(p string) error { os.Mkdir(p, 0o777); return os.Chmod(p, 0o777|os.ModeSticky) },
		"stickyNX": func(p string) error { os.WriteFile(p, []byte("x"), 0o644); return os.Chmod(p, 0o644|os.ModeSticky|os.ModeSetuid) },
	}
	var kinds []string
	for k := range mk {
		kinds = append(kinds, k)
	}
	sort.Strings(kinds)
	var made []string
	for _, k := range kinds {
		p := filepath.Join(d, k)
		if err := mk[k](p); err != nil {
			r.Skip("file kind %s cannot be created on this host: %v", k, err)
			continue
		}
		old := time.Unix(1_200_000_000+int64(len(k)), 0)
		if k != "symlink" && k != "dangling" {
			os.Chtimes(p, old, old)
		}
		made = append(made, k)
	}
	pair, err := vhStartOS(nil)
	if err != nil {
		r.Fail(lib.Failure{Kind: "tie", Key: "os-start", What: err.Error()})
		return
	}
	cl := pair.Client
	cmp := func(api, k string, got os.FileInfo, want os.FileInfo) {
		r.Case("attrs "+api+" "+k, true)
		r.Hist("filekind-" + k)
		wst := want.Sys().(*syscall.Stat_t)
		gst, _ := got.Sys().(*sftp.FileStat)
		bad := []string{}
		if got.Mode() != want.Mode() {
			bad = append(bad, fmt.Sprintf("mode %v != %v", got.Mode(), want.Mode()))
		}
		if got.Size() != want.Size() {
			bad = append(bad, fmt.Sprintf("size %d != %d", got.Size(), want.Size()))
		}
		if got.ModTime().Unix() != want.ModTime().Unix() {
			bad = append(bad, fmt.Sprintf("mtime %d != %d", got.ModTime().Unix(), want.ModTime().Unix()))
		}
		if gst == nil || gst.UID != wst.Uid || gst.GID != wst.Gid {
			bad = append(bad, "owner differs")
		}
		if gst != nil && gst.Mode != c17PosixMode(wst) {
			bad = append(bad, fmt.Sprintf("wire mode %#o != st_mode %#o", gst.Mode, c17PosixMode(wst)))
		}
		if got.IsDir() != want.IsDir() {
			bad = append(bad, "IsDir differs")
		}
		if len(bad) > 0 {
			r.Fail(lib.Failure{Kind: "oracle", Key: "attrs/" + api + "/" + k, What: "attributes reported for a served file differ from what the file system reports", Input: map[string]string{"api": api, "kind": k}, Actual: bad})
		}
	}
	// every client call has the hang deadline; an API that did not return once is not called again
	hungAPI := map[string]bool{}
	guarded := func(api, k string, f func()) bool {
		if hungAPI[api] || c.Stop("c17/attrs/"+api) {
			return false
		}
		if lib.Within("c17/attrs/"+api, 20*time.Second, f) {
			return true
		}
		hungAPI[api] = true
		r.Fail(lib.Failure{Kind: "oracle", Key: "attrs/hang/" + api, What: api + " of a served file did not return within 20 s", Input: map[string]string{"api": api, "kind": k}})
		return false
	}
	for _, k := range made {
		p := filepath.Join(d, k)
		want, _ := os.Lstat(p)
		var got os.FileInfo
		var err error
		if guarded("Lstat", k, func() { got, err = cl.Lstat(p) }) {
			if err != nil {
				r.Fail(lib.Failure{Kind: "oracle", Key: "attrs/Lstat/" + k, What: "Lstat failed: " + err.Error(), Input: k})
			} else {
				cmp("Lstat", k, got, want)
			}
		}
		if k != "dangling" {
			wantS, _ := os.Stat(p)
			if guarded("Stat", k, func() { got, err = cl.Stat(p) }) {
				if err != nil {
					r.Fail(lib.Failure{Kind: "oracle", Key: "attrs/Stat/" + k, What: "Stat failed: " + err.Error(), Input: k})
				} else {
					cmp("Stat", k, got, wantS)
				}
			}
		}
	}
	var fis []os.FileInfo
	if !guarded("ReadDir", "directory", func() { fis, err = cl.ReadDir(d) }) {
		fis, err = nil, nil
	} else if err != nil || len(fis) != len(made) {
		r.Fail(lib.Failure{Kind: "oracle", Key: "attrs/ReadDir", What: "ReadDir failed or lost entries", Actual: fmt.Sprint(len(fis), err)})
	}
	for _, fi := range fis {
		want, _ := os.Lstat(filepath.Join(d, fi.Name()))
		cmp("ReadDir", fi.Name(), fi, want)
	}
	pair.Close()

	// long names: raw READDIR against a fresh server
	srv, err := peers.StartOS()
	if err == nil {
		hHandshake(srv, nil)
		p, _ := hCall(srv, nil, wire.Req(wire.Opendir, 1, wire.B{}.Str(d)))
		if p.Typ == wire.Handle {
			dd := wire.D{B: p.Body[4:]}
			h := dd.Str()
			for id := uint32(2); ; id++ {
				p, err := hCall(srv, nil, wire.Req(wire.Readdir, id, wire.B{}.Str(h)))
				if err != nil || p.Typ != wire.Name {
					break
				}
				nd := wire.D{B: p.Body[4:]}
				n := nd.U32()
				for i := uint32(0); i < n && nd.Err == nil; i++ {
					name := nd.Str()
					long := nd.Str()
					st := nd.St()
					r.Case("longname "+name, true)
					r.Hist("longname")
					f := strings.Fields(long)
					ok := len(f) >= 8 && f[0] == c17LsMode(st.Perm) && f[len(f)-1] == name &&
						f[4] == fmt.Sprint(st.Size) && strings.HasSuffix(long, " "+name)
					var lst syscall.Stat_t
					if syscall.Lstat(filepath.Join(d, name), &lst) == nil && ok {
						ok = f[1] == fmt.Sprint(lst.Nlink)
					}
					if ok {
						// date column: one of the two formats the code may choose, for the entry's mtime
						mt := time.Unix(int64(st.Mtime), 0)
						date := mt.Format("Jan 2")
						df := strings.Fields(date)
						ok = f[5] == df[0] && f[6] == df[1] && (f[7] == mt.Format("2006") || f[7] == mt.Format("15:04"))
					}
					if !ok {
						r.Fail(lib.Failure{Kind: "oracle", Key: "longname/disagrees", What: "long name does not agree with the structured attributes", Input: name, Expected: c17LsMode(st.Perm) + fmt.Sprintf(" … %d … %s", st.Size, name), Actual: long})
					}
					if len(r.Samples) < 8 && (name == "chardev" || name == "stickyNX") {
						r.Sample(map[string]any{"name": name, "longname": long, "wire_mode": fmt.Sprintf("%#o", st.Perm)})
					}
				}
			}
		}
		srv.CloseInput()
		hCleanupSrv(srv, "c17/server-exit", 5*time.Second)
	}

	// SETSTAT / FSETSTAT per flag subset
	var lines, impl []string
	for _, which := range []string{"setstat", "fsetstat"} {
		for flags := uint32(0); flags < 16; flags++ {
			f := filepath.Join(root, fmt.Sprintf("t-%s-%d", which, flags))
			os.WriteFile(f, []byte("0123456789"), 0o644)
			old := time.Unix(1_100_000_000, 0)
			os.Chtimes(f, old, old)
			before, _ := os.Lstat(f)
			srv, err := peers.StartOS()
			if err != nil {
				continue
			}
			hHandshake(srv, nil)
			attrs := wire.St{Flags: flags, Size: 3, UID: 12, GID: 34, Perm: 0o100600, Atime: 1_300_000_000, Mtime: 1_300_000_001}
			var rep wire.Pkt
			if which == "setstat" {
				rep, err = hCall(srv, nil, wire.Req(wire.Setstat, 5, wire.B{}.Str(f).Raw(attrs.Block())))
			} else {
				op, _ := hCall(srv, nil, wire.Req(wire.Open, 4, wire.B{}.Str(f).U32(wire.FRead|wire.FWrite).U32(0)))
				if op.Typ != wire.Handle {
					srv.CloseInput()
					continue
				}
				hd := wire.D{B: op.Body[4:]}
				rep, err = hCall(srv, nil, wire.Req(wire.Fsetstat, 5, wire.B{}.Str(hd.Str()).Raw(attrs.Block())))
			}
			srv.CloseInput()
			hCleanupSrv(srv, "c17/server-exit", 5*time.Second)
			after, _ := os.Lstat(f)
			code := uint32(99)
			if err == nil && rep.Typ == wire.Status {
				dd := wire.D{B: rep.Body[4:]}
				code = dd.U32()
			}
			var changed []string
			bs, as := before.Sys().(*syscall.Stat_t), after.Sys().(*syscall.Stat_t)
			if before.Size() != after.Size() {
				changed = append(changed, "size")
			}
			if before.Mode() != after.Mode() {
				changed = append(changed, "perm")
			}
			if bs.Uid != as.Uid || bs.Gid != as.Gid {
				changed = append(changed, "owner")
			}
			if before.ModTime().Unix() != after.ModTime().Unix() && !(flags&1 != 0 && flags&8 == 0) {
				changed = append(changed, "times")
			}
			// (a truncate legitimately moves mtime to "now"; that is not a times application)
			var want []string
			if flags&1 != 0 {
				want = append(want, "size")
			}
			if flags&4 != 0 {
				want = append(want, "perm")
			}
			if flags&2 != 0 {
				want = append(want, "owner")
			}
			if flags&8 != 0 {
				want = append(want, "times")
			}
			cs := c17Set{which, flags}
			r.Case(fmt.Sprintf("%s %d", which, flags), flags != 0)
			r.Hist(which)
			valuesOK := true
			if flags&1 != 0 && after.Size() != 3 {
				valuesOK = false
			}
			if flags&4 != 0 && after.Mode().Perm() != 0o600 {
				valuesOK = false
			}
			if flags&2 != 0 && (as.Uid != 12 || as.Gid != 34) {
				valuesOK = false
			}
			if flags&8 != 0 && after.ModTime().Unix() != 1_300_000_001 {
				valuesOK = false
			}
			if code != 0 || strings.Join(changed, ",") != strings.Join(want, ",") || !valuesOK {
				r.Fail(lib.Failure{Kind: "oracle", Key: fmt.Sprintf("%s/not-exactly-flagged", which), What: "set-attributes request did not change exactly the attributes whose flags it carries (to the values sent)", Input: cs,
					Expected: want, Actual: map[string]any{"changed": changed, "status": code, "values_ok": valuesOK}})
			}
			w := "s"
			if which == "fsetstat" {
				w = "f"
			}
			lines = append(lines, fmt.Sprintf("c17.changed %s %d", w, flags))
			if len(changed) == 0 {
				impl = append(impl, "-")
			} else {
				impl = append(impl, strings.Join(changed, ","))
			}
		}
	}
	c.Compare("c17", lines, impl)
}
