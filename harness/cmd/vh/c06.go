package main

import (
	"bytes"
	"encoding/binary"
	"fmt"
	"reflect"
	"strings"

	"github.com/pkg/sftp"

	"verifharness/lib"
	"verifharness/wire"
)

func init() { register("c06", checkC06) }

// c06Field is one field of a packet in the DRAFT's order (independent of both codecs' tables).
type c06Field struct{ kind, name string }

type c06Kind struct {
	Name    string
	Typ     byte
	Fields  []c06Field // after the type byte
	Request bool       // decodable by the server-side decoder of the main codec
	MainEnc bool       // the main codec has an encoder for it
	FxOnly  bool
}

var c06Kinds = []c06Kind{
	{"Init", 1, []c06Field{{"u32", "Version"}, {"pairs", "Ext"}}, true, true, false},
	{"Version", 2, []c06Field{{"u32", "Version"}, {"pairs", "Ext"}}, false, true, false},
	{"Open", 3, []c06Field{{"u32", "ID"}, {"str", "Path"}, {"u32", "Pflags"}, {"attrs", "Stat"}}, true, true, false},
	{"Close", 4, []c06Field{{"u32", "ID"}, {"str", "Handle"}}, true, true, false},
	{"Read", 5, []c06Field{{"u32", "ID"}, {"str", "Handle"}, {"u64", "Offset"}, {"u32", "Len"}}, true, true, false},
	{"Write", 6, []c06Field{{"u32", "ID"}, {"str", "Handle"}, {"u64", "Offset"}, {"data", "Data"}}, true, true, false},
	{"Lstat", 7, []c06Field{{"u32", "ID"}, {"str", "Path"}}, true, true, false},
	{"Fstat", 8, []c06Field{{"u32", "ID"}, {"str", "Handle"}}, true, true, false},
	{"Setstat", 9, []c06Field{{"u32", "ID"}, {"str", "Path"}, {"attrs", "Stat"}}, true, true, false},
	{"Fsetstat", 10, []c06Field{{"u32", "ID"}, {"str", "Handle"}, {"attrs", "Stat"}}, true, true, false},
	{"Opendir", 11, []c06Field{{"u32", "ID"}, {"str", "Path"}}, true, true, false},
	{"Readdir", 12, []c06Field{{"u32", "ID"}, {"str", "Handle"}}, true, true, false},
	{"Remove", 13, []c06Field{{"u32", "ID"}, {"str", "Path"}}, true, true, false},
	{"Mkdir", 14, []c06Field{{"u32", "ID"}, {"str", "Path"}, {"attrs", "Stat"}}, true, true, false},
	{"Rmdir", 15, []c06Field{{"u32", "ID"}, {"str", "Path"}}, true, true, false},
	{"Realpath", 16, []c06Field{{"u32", "ID"}, {"str", "Path"}}, true, true, false},
	{"Stat", 17, []c06Field{{"u32", "ID"}, {"str", "Path"}}, true, true, false},
	{"Rename", 18, []c06Field{{"u32", "ID"}, {"str", "Path"}, {"str", "Path2"}}, true, true, false},
	{"Readlink", 19, []c06Field{{"u32", "ID"}, {"str", "Path"}}, true, true, false},
	{"Symlink", 20, []c06Field{{"u32", "ID"}, {"str", "Path"}, {"str", "Path2"}}, true, true, false}, // target first (OpenSSH)
	{"Status", 101, []c06Field{{"u32", "ID"}, {"u32", "Code"}, {"str", "Msg"}, {"str", "Lang"}}, false, true, false},
	{"Handle", 102, []c06Field{{"u32", "ID"}, {"str", "Handle"}}, false, true, false},
	{"Data", 103, []c06Field{{"u32", "ID"}, {"data", "Data"}}, false, true, false},
	{"Name", 104, []c06Field{{"u32", "ID"}, {"names", "Names"}}, false, true, false},
	{"Attrs", 105, []c06Field{{"u32", "ID"}, {"attrs", "Stat"}}, false, true, false},
	{"ExtStatVFS", 200, []c06Field{{"u32", "ID"}, {"cstr", "statvfs@openssh.com"}, {"str", "Path"}}, true, true, false},
	{"ExtPosixRename", 200, []c06Field{{"u32", "ID"}, {"cstr", "posix-rename@openssh.com"}, {"str", "Path"}, {"str", "Path2"}}, true, true, false},
	{"ExtHardlink", 200, []c06Field{{"u32", "ID"}, {"cstr", "hardlink@openssh.com"}, {"str", "Path"}, {"str", "Path2"}}, true, true, false},
	{"ExtFsync", 200, []c06Field{{"u32", "ID"}, {"cstr", "fsync@openssh.com"}, {"str", "Handle"}}, false, true, false},
	{"VFS", 201, []c06Field{{"u32", "ID"}, {"vfs", "VFS"}}, false, true, false},
}

func c06AttrVal(flags uint32, st sftp.FileStat) string {
	var ext []string
	for _, e := range st.Extended {
		ext = append(ext, lib.Hex([]byte(e.ExtType))+"="+lib.Hex([]byte(e.ExtData)))
	}
	return fmt.Sprintf("a(%d;%d;%d;%d;%d;%d;%d;%s)", flags, st.Size, st.UID, st.GID, st.Mode, st.Atime, st.Mtime, strings.Join(ext, "|"))
}

func c06WireSt(flags uint32, st sftp.FileStat) wire.St {
	w := wire.St{Flags: flags, Size: st.Size, UID: st.UID, GID: st.GID, Perm: st.Mode, Atime: st.Atime, Mtime: st.Mtime}
	for _, e := range st.Extended {
		w.Ext = append(w.Ext, [2]string{e.ExtType, e.ExtData})
	}
	return w
}

// c06Build: the frame per the independent wire codec, and the model values for each codec.
func c06Build(k c06Kind, v sftp.VerifPkt) (frame []byte, mainVals, fxVals []string) {
	var b wire.B
	add := func(both string) { mainVals = append(mainVals, both); fxVals = append(fxVals, both) }
	for _, f := range k.Fields {
		switch f.kind {
		case "u32":
			x := uint32(reflect.ValueOf(v).FieldByName(f.name).Uint())
			b = b.U32(x)
			add(fmt.Sprintf("n%d", x))
		case "u64":
			x := reflect.ValueOf(v).FieldByName(f.name).Uint()
			b = b.U64(x)
			add(fmt.Sprintf("n%d", x))
		case "str":
			s := reflect.ValueOf(v).FieldByName(f.name).String()
			b = b.Str(s)
			add("b" + lib.Hex([]byte(s)))
		case "cstr":
			b = b.Str(f.name)
			add("b" + lib.Hex([]byte(f.name)))
		case "data":
			b = b.Bytes(v.Data)
			add("b" + lib.Hex(v.Data))
		case "pairs":
			var ps []string
			for _, e := range v.Ext {
				b = b.Str(e[0]).Str(e[1])
				ps = append(ps, lib.Hex([]byte(e[0]))+"="+lib.Hex([]byte(e[1])))
			}
			add("p(" + strings.Join(ps, "|") + ")")
		case "attrs":
			ws := c06WireSt(v.Flags, v.Stat)
			b = b.Raw(ws.Block())
			fxVals = append(fxVals, c06AttrVal(v.Flags, v.Stat))
			switch k.Name {
			case "Mkdir": // the main codec carries only the flags word
				mainVals = append(mainVals, fmt.Sprintf("n%d", v.Flags))
			case "Attrs":
				mainVals = append(mainVals, c06AttrVal(v.Flags, v.Stat))
			default: // flags word + raw by-flag bytes
				mainVals = append(mainVals, fmt.Sprintf("n%d", v.Flags), "b"+lib.Hex(ws.AttrBytes()))
			}
		case "names":
			b = b.U32(uint32(len(v.Names)))
			var es []string
			for _, n := range v.Names {
				b = b.Str(n.Name).Str(n.LongName).Raw(c06WireSt(n.Flags, n.Stat).Block())
				es = append(es, lib.Hex([]byte(n.Name))+"/"+lib.Hex([]byte(n.LongName))+"/"+c06AttrVal(n.Flags, n.Stat))
			}
			add("m(" + strings.Join(es, "|") + ")")
		case "vfs":
			for _, x := range v.VFS {
				b = b.U64(x)
				add(fmt.Sprintf("n%d", x))
			}
		}
	}
	return wire.Frame(k.Typ, b), mainVals, fxVals
}

type c06Gen struct{ c *lib.Ctx }

func (g c06Gen) str() string {
	switch g.c.Rand.Intn(7) {
	case 0:
		return ""
	case 1:
		return "a"
	case 2:
		return "/tmp/\xff\xfe\x00x"
	case 3:
		return strings.Repeat("long/", 60)
	case 4:
		return "ünï/cødé"
	}
	b := make([]byte, g.c.Rand.Intn(12))
	g.c.Rand.Read(b)
	return string(b)
}
func (g c06Gen) u32() uint32 {
	switch g.c.Rand.Intn(6) {
	case 0:
		return 0
	case 1:
		return 1
	case 2:
		return 0xffffffff
	case 3:
		return 0x80000000
	}
	return g.c.Rand.Uint32()
}
func (g c06Gen) u64() uint64 {
	switch g.c.Rand.Intn(7) {
	case 0:
		return 0
	case 1:
		return 1 << 32
	case 2:
		return 1<<63 - 1
	case 3:
		return 1 << 63
	case 4:
		return 0xffffffffffffffff
	}
	return g.c.Rand.Uint64()
}
func (g c06Gen) stat(flags uint32) sftp.FileStat {
	var st sftp.FileStat
	if flags&1 != 0 {
		st.Size = g.u64()
	}
	if flags&2 != 0 {
		st.UID, st.GID = g.u32(), g.u32()
	}
	if flags&4 != 0 {
		st.Mode = g.u32()
	}
	if flags&8 != 0 {
		st.Atime, st.Mtime = g.u32(), g.u32()
	}
	if flags&0x80000000 != 0 {
		for i := 0; i < g.c.Rand.Intn(4); i++ {
			st.Extended = append(st.Extended, sftp.StatExtended{ExtType: g.str(), ExtData: g.str()})
		}
	}
	return st
}
func (g c06Gen) flags(i int) uint32 {
	f := uint32(i & 15)
	if i&16 != 0 {
		f |= 0x80000000
	}
	return f
}

func (g c06Gen) pkt(k c06Kind, i int) sftp.VerifPkt {
	v := sftp.VerifPkt{Kind: k.Name, ID: g.u32(), Version: g.u32(), Path: g.str(), Path2: g.str(), Handle: g.str(),
		Pflags: g.u32(), Offset: g.u64(), Len: g.u32(), Code: g.u32(), Msg: g.str(), Lang: g.str()}
	v.Flags = g.flags(i)
	v.Stat = g.stat(v.Flags)
	n := []int{0, 1, 255, 1000, 3}[i%5]
	v.Data = make([]byte, n)
	g.c.Rand.Read(v.Data)
	if k.Name == "Write" || k.Name == "Data" {
		v.Len = uint32(n)
	}
	for j := 0; j < i%4; j++ {
		v.Ext = append(v.Ext, [2]string{g.str(), g.str()})
	}
	for j := 0; j < i%4; j++ {
		fl := g.flags(g.c.Rand.Intn(32))
		v.Names = append(v.Names, sftp.VerifName{Name: g.str(), LongName: g.str(), Flags: fl, Stat: g.stat(fl)})
	}
	for j := range v.VFS {
		v.VFS[j] = g.u64()
	}
	if k.Name == "Mkdir" {
		v.Flags, v.Stat = 0, sftp.FileStat{} // the main codec's MKDIR carries only the flags word: faithful for Flags = 0
	}
	return v
}

// c06Norm blanks the fields a kind does not carry, so that decoded and original records compare.
func c06Norm(k c06Kind, v sftp.VerifPkt, mainRequest bool) sftp.VerifPkt {
	out := sftp.VerifPkt{Kind: k.Name}
	rv, ro := reflect.ValueOf(v), reflect.ValueOf(&out).Elem()
	for _, f := range k.Fields {
		switch f.kind {
		case "u32", "u64", "str":
			ro.FieldByName(f.name).Set(rv.FieldByName(f.name))
		case "data":
			out.Data = append([]byte{}, v.Data...)
			out.Len = uint32(len(v.Data))
		case "pairs":
			out.Ext = v.Ext
		case "attrs":
			out.Flags = v.Flags
			if mainRequest && k.Name != "Mkdir" {
				out.Attrs = c06WireSt(v.Flags, v.Stat).AttrBytes()
				if out.Attrs == nil {
					out.Attrs = []byte{}
				}
			} else if !mainRequest {
				out.Stat = v.Stat
			}
		case "names":
			out.Names = v.Names
		case "vfs":
			out.VFS = v.VFS
		case "cstr":
			out.ExtName = f.name
		}
	}
	if out.Data == nil && (k.Name == "Write" || k.Name == "Data") {
		out.Data = []byte{}
	}
	return out
}

func c06Same(a, b sftp.VerifPkt) bool {
	fix := func(v *sftp.VerifPkt) {
		if len(v.Data) == 0 {
			v.Data = nil
		}
		if len(v.Attrs) == 0 {
			v.Attrs = nil
		}
		if len(v.Ext) == 0 {
			v.Ext = nil
		}
		if len(v.Names) == 0 {
			v.Names = nil
		}
		if len(v.Stat.Extended) == 0 {
			v.Stat.Extended = nil
		}
		for i := range v.Names {
			if len(v.Names[i].Stat.Extended) == 0 {
				v.Names[i].Stat.Extended = nil
			}
		}
	}
	fix(&a)
	fix(&b)
	return reflect.DeepEqual(a, b)
}

func checkC06(c *lib.Ctx) {
	r := c.R
	r.Rule = "every packet kind of both codecs (requests, responses, init/version, the four OpenSSH extensions, statvfs reply) x generated field values (ids and offsets at 0, 2^32, 2^63, 2^64-1; empty, long and non-UTF-8 strings; payloads of 0..1000 bytes; all 32 attribute-flag subsets; 0..3 extended pairs and name entries): the frame from packet.go, from the filexfer codec, from the independent harness codec and from the Lean interpreter of the regenerated layout tables must be byte-identical, the length prefix must equal the bytes that follow, and each decoder must give back the packet, both decoders must report the same fields for the same bytes; DESTINATIONS THAT ARE NOT ZERO (c06_reuse.go): one filexfer / packet.go value decodes sequences of frames (long, short, medium payloads and lists in all six orders), byte-slice fields pre-populated as make([]byte, l, c) for l, c in {0, 1, n-1, n, n+1, 2n, 2n+7} around the payload length n, Buffer.ConsumeByteSliceCopy / Buffer.UnmarshalBinary on such hints directly, RequestPacket/RawPacket.ReadFrom with one backing slice around the frame lengths, recvPacket + makePacket through one allocator with pages released and reused: every decode must equal the decode of the same bytes into a fresh zero value and re-encode to the frame; THE filexfer BUFFER AS A STATE MACHINE (c06_buffer.go): sequences of 1..30 operations on ONE Buffer (NewBuffer/NewMarshalBuffer/new(Buffer), every Append* and Consume*, the MarshalInto/UnmarshalFrom/UnmarshalPacketBody entry points of the codec, StartPacket, PutLength, Packet, Bytes, Len, Cap, Reset, MarshalBinary, UnmarshalBinary, short consumes) against a reference model (byte slice + read offset + sticky error; Reset and StartPacket clear all three): after every operation its result and Len()/Err/Bytes()/Cap() must agree; PRNG sequences, all sequences up to a small depth over an 11-operation alphabet, hand-written ones, and for every packet kind: encode A field by field, read it back, Reset, encode B => the frame of B by the independent codec; decode a cut body, Reset, decode a complete body => success and equal to a fresh Buffer's decode; non-trivial = packet with a boundary value, non-empty attribute block, payload or list"
	sftp.VerifFxRegisterExtensions()
	if c.Replay != "" {
		var in c06ReuseIn
		if err := lib.ReadReplay(c.Replay, &in); err != nil || in.Mode == "" {
			r.Fail(lib.Failure{Kind: "tie", Key: "replay", What: fmt.Sprint("only inputs with a mode (decode-into-used-value and cross-codec cases) can be replayed: ", err)})
			return
		}
		r.Case(fmt.Sprintf("%+v", in), true)
		c06RunReuse(c, in)
		return
	}
	g := c06Gen{c}
	per := 64
	if c.Tier == "thorough" {
		per = 3000
	}
	var lines, impl []string
	for _, k := range c06Kinds {
		for i := 0; i < per; i++ {
			v := g.pkt(k, i)
			want, mainVals, fxVals := c06Build(k, v)
			key := fmt.Sprintf("%s %x", k.Name, want)
			r.Case(key, len(want) > 13)
			r.Hist("kind-" + k.Name)
			if i == 7 && len(r.Samples) < 6 && (k.Name == "Open" || k.Name == "Name" || k.Name == "Write") {
				r.Sample(map[string]any{"kind": k.Name, "frame": lib.Hex(want), "model_values_main": mainVals})
			}
			in := map[string]any{"kind": k.Name, "packet": fmt.Sprintf("%+v", v), "frame": lib.Hex(want)}
			// length prefix (independent codec; checked for the others through byte equality)
			if binary.BigEndian.Uint32(want) != uint32(len(want)-4) {
				r.Fail(lib.Failure{Kind: "tie", Key: "harness/wire-length", What: "harness codec length prefix wrong", Input: in})
			}
			if k.MainEnc {
				mv := v
				if k.Name == "Open" || k.Name == "Setstat" || k.Name == "Fsetstat" {
					mv.Attrs = c06WireSt(v.Flags, v.Stat).AttrBytes()
				}
				got, err := sftp.VerifEncode(mv)
				if err != nil || !bytes.Equal(got, want) {
					r.Fail(lib.Failure{Kind: "oracle", Key: "encode/main/" + k.Name, What: "packet.go encoding differs from the draft layout (independent codec)", Input: in, Expected: lib.Hex(want), Actual: lib.Hex(got) + fmt.Sprint(" ", err)})
				}
				if len(got) >= 4 && binary.BigEndian.Uint32(got) != uint32(len(got)-4) {
					r.Fail(lib.Failure{Kind: "oracle", Key: "length-prefix/main/" + k.Name, What: "length prefix does not equal the number of bytes that follow", Input: in, Actual: lib.Hex(got)})
				}
				lines = append(lines, "c06.frame main "+k.Name+" "+strings.Join(mainVals, " "))
				impl = append(impl, lib.Hex(got))
				if k.Name == "Open" || k.Name == "Setstat" || k.Name == "Fsetstat" {
					// the by-flags encoder path (attrs given as *FileStat)
					fs := mv
					fs.Attrs = nil
					if k.Name != "Open" {
						fs.Kind = k.Name + "FS"
						got2, err := sftp.VerifEncode(fs)
						if err != nil || !bytes.Equal(got2, want) {
							r.Fail(lib.Failure{Kind: "oracle", Key: "encode/main-byflags/" + k.Name, What: "packet.go by-flags attribute encoding differs from the draft layout", Input: in, Expected: lib.Hex(want), Actual: lib.Hex(got2) + fmt.Sprint(" ", err)})
						}
					}
				}
			}
			{
				got, err := sftp.VerifFxEncode(v)
				if err != nil || !bytes.Equal(got, want) {
					r.Fail(lib.Failure{Kind: "oracle", Key: "encode/fx/" + k.Name, What: "filexfer encoding differs from the draft layout (independent codec) / from packet.go", Input: in, Expected: lib.Hex(want), Actual: lib.Hex(got) + fmt.Sprint(" ", err)})
				}
				lines = append(lines, "c06.frame fx "+k.Name+" "+strings.Join(fxVals, " "))
				impl = append(impl, lib.Hex(got))
			}
			body := want[5:]
			if k.Request || k.Name == "Status" || k.Name == "Attrs" || k.Name == "Data" {
				// the same bytes through both decoders, compared with each other
				c06RunReuse(c, c06ReuseIn{Mode: "cross", Kind: k.Name, Frames: []string{lib.Hex(want)}, C: -1})
			}
			// decoders
			if k.Request {
				dv, err := sftp.VerifDecodeRequest(k.Typ, append([]byte(nil), body...))
				exp := c06Norm(k, v, true)
				if k.Name == "Mkdir" {
					exp.Flags = v.Flags
				}
				if err != nil || !c06Same(dv, exp) {
					r.Fail(lib.Failure{Kind: "oracle", Key: "roundtrip/main/" + k.Name, What: "decoding the encoding with packet.go does not give back the packet", Input: in, Expected: fmt.Sprintf("%+v", exp), Actual: fmt.Sprintf("%+v %v", dv, err)})
				}
				lines = append(lines, "c06.parse main "+k.Name+" "+lib.Hex(body))
				impl = append(impl, "ok "+strings.Join(mainVals, " ")+" rest=-")
			}
			if k.Name != "ExtFsync" || true {
				dv, err := sftp.VerifFxDecode(k.Typ, append([]byte(nil), body...))
				exp := c06Norm(k, v, false)
				if k.Typ == 200 {
					exp.ExtName = dv.ExtName // reported by the decoder; the name constant is checked through the bytes
					for _, f := range k.Fields {
						if f.kind == "cstr" && dv.ExtName != f.name {
							exp.ExtName = f.name
						}
					}
				}
				if err != nil || !c06Same(dv, exp) {
					r.Fail(lib.Failure{Kind: "oracle", Key: "roundtrip/fx/" + k.Name, What: "decoding the encoding with the filexfer codec does not give back the packet", Input: in, Expected: fmt.Sprintf("%+v", exp), Actual: fmt.Sprintf("%+v %v", dv, err)})
				}
				lines = append(lines, "c06.parse fx "+k.Name+" "+lib.Hex(body))
				impl = append(impl, "ok "+strings.Join(fxVals, " ")+" rest=-")
			}
		}
	}
	c06ReuseAll(c)
	c06BufferAll(c)
	c.Compare("c06", lines, impl)
}
