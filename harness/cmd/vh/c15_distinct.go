package main

// C15, the "distinct handles" hammer (a sibling of c15_hammer.go, same child process, same folding): one session holds
// 2…4 handles that DIFFER observably — two files of different content, each opened read-only, write-only or read-write —
// and 16…32 goroutines, every one bound to one handle, issue single-packet ReadAt/WriteAt back to back for a time slice.
// Requests for different handles are inside the server's workers at the same moment thousands of times; whatever pairs a
// request with another handle's open file (handle table, per-handle caches, per-request state) shows as: an in-extent
// operation that fails (a read on a write-only descriptor), a read that returns bytes of the other file, or — checked at
// the end — a write that landed in a file or region its handle and offset do not name.
//
// Region g (of BOTH files) belongs to goroutine g: only it may write there, and only through its own handle, so the
// expected bytes of every read and of the final state of both files are known whatever the interleaving.

import (
	"bytes"
	"fmt"
	"io"
	"math/rand"
	"os"
	"path/filepath"
	"sort"
	"strings"
	"sync"
	"sync/atomic"
	"time"

	"github.com/pkg/sftp"

	"verifharness/lib"
)

// c15DLayouts: the handle layouts ("file:kind"); the generator picks one.
var c15DLayouts = [][]string{
	{"A:r", "A:w"},
	{"A:r", "B:r"},
	{"A:w", "B:w"},
	{"A:r", "A:w", "B:rw"},
	{"A:rw", "B:rw", "A:r"},
	{"A:r", "A:w", "B:r", "B:w"},
	{"A:r", "B:w", "B:r", "A:rw"},
}

func c15DValid(cfg c15HammerCfg) error {
	if len(cfg.Spec) < 2 || len(cfg.Spec) > 8 || cfg.Goroutines < len(cfg.Spec) {
		return fmt.Errorf("distinct hammer: %d handles for %d goroutines", len(cfg.Spec), cfg.Goroutines)
	}
	for _, s := range cfg.Spec {
		p := strings.Split(s, ":")
		if len(p) != 2 || (p[0] != "A" && p[0] != "B") || (p[1] != "r" && p[1] != "w" && p[1] != "rw") {
			return fmt.Errorf("distinct hammer: handle %q", s)
		}
	}
	return nil
}

type c15DHandlers struct{ m map[string]*c15HStore }

func (h c15DHandlers) get(r *sftp.Request) (*c15HStore, error) {
	if s := h.m[r.Filepath]; s != nil {
		return s, nil
	}
	return nil, os.ErrNotExist
}
func (h c15DHandlers) Fileread(r *sftp.Request) (io.ReaderAt, error)  { return h.get(r) }
func (h c15DHandlers) Filewrite(r *sftp.Request) (io.WriterAt, error) { return h.get(r) }
func (h c15DHandlers) OpenFile(r *sftp.Request) (sftp.WriterAtReaderAt, error) {
	return h.get(r)
}
func (h c15DHandlers) Filecmd(*sftp.Request) error { return nil }
func (h c15DHandlers) Filelist(r *sftp.Request) (sftp.ListerAt, error) {
	s, err := h.get(r)
	if err != nil {
		return nil, err
	}
	s.mu.Lock()
	n := len(s.b)
	s.mu.Unlock()
	return c15One{c16Info{name: "f", idx: n}}, nil
}

func c15DInit(file, n int) []byte {
	b := make([]byte, n)
	for i := range b {
		if file == 0 {
			b[i] = byte(0xA0 + i%16)
		} else {
			b[i] = byte(0x40 + i%13)
		}
	}
	return b
}

// c15DExplain says where bytes come from, if they come from anywhere.
func c15DExplain(cfg c15HammerCfg, inits [2][]byte, b []byte) string {
	R := cfg.Region
	if len(b) != R {
		return gDigest(b)
	}
	for f := 0; f < 2; f++ {
		for g := 0; g < cfg.Goroutines; g++ {
			if bytes.Equal(b, inits[f][g*R:(g+1)*R]) {
				return fmt.Sprintf("the initial content of region %d of file %c", g, 'A'+f)
			}
		}
	}
	if g := int(b[0]); g < cfg.Goroutines {
		for _, bit := range []int{0, 1} {
			if k := int(uint32(b[1])<<24 | uint32(b[2])<<16 | uint32(b[3])<<8 | uint32(b[4])); bytes.Equal(b, c15Pattern(cfg.Seed+int64(bit), g, k, R)) {
				return fmt.Sprintf("exactly the bytes goroutine %d wrote in its operation %d", g, k)
			}
		}
	}
	return "bytes that nobody wrote as a whole: " + gDigest(b)
}

func c15DistinctRun(cfg c15HammerCfg) (out c15HammerOut) {
	if err := cfg.valid(); err != nil {
		out.Harness = err.Error()
		return
	}
	if err := c15DValid(cfg); err != nil {
		out.Harness = err.Error()
		return
	}
	class := "c15/hammer/" + cfg.Server
	kase := lib.NewCase(class)
	G, R, H := cfg.Goroutines, cfg.Region, len(cfg.Spec)
	inits := [2][]byte{c15DInit(0, G*R), c15DInit(1, G*R)}
	var paths [2]string
	var stores [2]*c15HStore
	var pair *vhPair
	var err error
	if cfg.Server == "rs" {
		paths = [2]string{"/a", "/b"}
		m := map[string]*c15HStore{}
		for f := range stores {
			stores[f] = &c15HStore{b: append([]byte(nil), inits[f]...), clk: &c15Clock{}}
			m[paths[f]] = stores[f]
		}
		var so []sftp.RequestServerOption
		if cfg.Alloc {
			so = append(so, sftp.WithRSAllocator())
		}
		h := c15DHandlers{m}
		pair, err = vhStartRS(sftp.Handlers{FileGet: h, FilePut: h, FileCmd: h, FileList: h}, nil, so...)
	} else {
		dir, e := lib.MkScratch("vh-c15d-")
		if e != nil {
			out.Harness = e.Error()
			return
		}
		defer os.RemoveAll(dir)
		for f, name := range []string{"a", "b"} {
			paths[f] = filepath.Join(dir, name)
			if e := os.WriteFile(paths[f], inits[f], 0o600); e != nil {
				out.Harness = e.Error()
				return
			}
		}
		var so []sftp.ServerOption
		if cfg.Alloc {
			so = append(so, sftp.WithAllocator())
		}
		pair, err = vhStartOS(nil, so...)
	}
	if err != nil {
		out.Harness = "start: " + err.Error()
		return
	}
	defer func() {
		if out.Key == "" {
			pair.Close()
		}
	}()
	type hnd struct {
		f    *sftp.File
		file int
		kind string
	}
	var hs []hnd
	for _, s := range cfg.Spec {
		p := strings.Split(s, ":")
		file := int(p[0][0] - 'A')
		flags := map[string]int{"r": os.O_RDONLY, "w": os.O_WRONLY, "rw": os.O_RDWR}[p[1]]
		var f *sftp.File
		var err error
		if !kase.Within(20*time.Second, func() { f, err = pair.Client.OpenFile(paths[file], flags) }) {
			out.Key, out.What = "hammer/call-did-not-return", "OpenFile did not return within 20 s"
			return
		}
		if err != nil {
			out.Harness = "open: " + err.Error()
			return
		}
		hs = append(hs, hnd{f, file, p[1]})
	}

	type finding struct {
		key, what, exp string
		act            any
		at             int64
	}
	var fmu sync.Mutex
	var finds []finding
	var stop, found atomic.Bool
	var nops atomic.Int64
	state := make([]atomic.Int64, G) // operation number; -1 = returned
	lastW := make([]int, G)          // last pattern number written successfully; -1 none
	t0 := time.Now()
	deadline := t0.Add(time.Duration(cfg.MaxMs) * time.Millisecond)
	report := func(key, what, exp string, act any) {
		fmu.Lock()
		finds = append(finds, finding{key, what, exp, act, nops.Load()})
		fmu.Unlock()
		found.Store(true)
		stop.Store(true)
	}
	var wg sync.WaitGroup
	for g := 0; g < G; g++ {
		lastW[g] = -1
		wg.Add(1)
		go func(g int) {
			defer wg.Done()
			defer state[g].Store(-1)
			h := hs[g%H]
			who := fmt.Sprintf("goroutine %d on handle %d (file %c opened %s)", g, g%H, 'A'+h.file, h.kind)
			off := int64(g * R)
			rb := make([]byte, R)
			want := inits[h.file][g*R : (g+1)*R]
			for k := 0; k < cfg.PairsEach; k++ {
				if stop.Load() || (cfg.MaxMs > 0 && k%64 == 0 && time.Now().After(deadline)) {
					break
				}
				state[g].Store(int64(k))
				if h.kind != "r" {
					pat := c15Pattern(cfg.Seed+int64(h.file), g, k, R)
					n, err := h.f.WriteAt(pat, off)
					nops.Add(1)
					if err != nil || n != R {
						report("hammer/distinct/write-failed", fmt.Sprintf("%s, operation %d: WriteAt of %d bytes at %d (one packet, inside the file) returned (%d, %v)", who, k, R, off, n, err), fmt.Sprintf("(%d, nil)", R), fmt.Sprintf("(%d, %v)", n, err))
						return
					}
					lastW[g] = k
					want = pat
				}
				if h.kind != "w" {
					for i := range rb {
						rb[i] = 0xEE
					}
					n, err := h.f.ReadAt(rb, off)
					nops.Add(1)
					if err != nil || n != R {
						report("hammer/distinct/read-failed", fmt.Sprintf("%s, operation %d: ReadAt of %d bytes at %d (one packet, inside the file, whose size never changes) returned (%d, %v)", who, k, R, off, n, err), fmt.Sprintf("(%d, nil)", R), fmt.Sprintf("(%d, %v)", n, err))
						return
					}
					if !bytes.Equal(rb, want) {
						report("hammer/distinct/read-other-bytes", fmt.Sprintf("%s, operation %d: ReadAt at %d returned other bytes than the file this handle names holds there (only this goroutine writes to region %d, and only through this handle): it got %s", who, k, off, g, c15DExplain(cfg, inits, rb)), gDigest(want), gDigest(rb))
						return
					}
				}
			}
		}(g)
	}
	done := make(chan struct{})
	go func() { wg.Wait(); close(done) }()
	hung := false
	tick := time.NewTicker(20 * time.Millisecond)
	defer tick.Stop()
wait:
	for {
		select {
		case <-done:
			break wait
		case <-tick.C:
			lib.Touch()
			if found.Load() {
				if _, ok := lib.WaitCase(kase, 3*time.Second, done); !ok {
					hung = true
				}
				break wait
			}
			if cfg.MaxMs > 0 && time.Now().After(deadline) || time.Since(t0) > 10*time.Minute {
				if _, ok := lib.WaitCase(kase, 20*time.Second, done); !ok {
					hung = true
				}
				break wait
			}
		}
	}
	out.Ops, out.Ms = nops.Load(), time.Since(t0).Milliseconds()
	fmu.Lock()
	sort.SliceStable(finds, func(i, j int) bool { return finds[i].at < finds[j].at })
	fs := append([]finding(nil), finds...)
	fmu.Unlock()
	if len(fs) > 0 {
		first := 0
		for i, f := range fs { // a lost connection is what the others see after the first wrong reply
			if strings.Contains(fmt.Sprint(fs[first].act), "connection lost") && !strings.Contains(fmt.Sprint(f.act), "connection lost") {
				first = i
			}
		}
		f := fs[first]
		out.Key, out.What, out.Exp, out.Act = f.key, f.what+fmt.Sprintf(" (after %d completed operations of all goroutines)", f.at), f.exp, f.act
		for i, o := range fs {
			if i != first && len(out.More) < 8 {
				out.More = append(out.More, o.what)
			}
		}
		return
	}
	if hung {
		var stuck []string
		for g := range state {
			if v := state[g].Load(); v >= 0 {
				stuck = append(stuck, fmt.Sprintf("goroutine %d in operation %d", g, v))
			}
		}
		out.Key, out.What, out.Exp, out.Act = "hammer/call-did-not-return", "operations of a distinct-handles hammer did not return within 20 s", "every call returns", stuck
		return
	}
	// the end state: every write landed in the file and region its handle and offset name, and nowhere else
	for f := 0; f < 2; f++ {
		var now []byte
		if cfg.Server == "rs" {
			stores[f].mu.Lock()
			now = append([]byte(nil), stores[f].b...)
			stores[f].mu.Unlock()
		} else {
			b, err := os.ReadFile(paths[f])
			if err != nil {
				out.Harness = "reading the file back: " + err.Error()
				return
			}
			now = b
		}
		if len(now) != G*R {
			out.Key, out.What, out.Exp, out.Act = "hammer/distinct/size-changed", fmt.Sprintf("file %c has %d bytes after a run of in-extent single-packet operations", 'A'+f, len(now)), fmt.Sprint(G*R, " bytes"), fmt.Sprint(len(now), " bytes")
			return
		}
		for g := 0; g < G; g++ {
			h := hs[g%H]
			want, why := inits[f][g*R:(g+1)*R], "its initial content (nobody wrote there through a handle of this file)"
			if h.file == f && lastW[g] >= 0 {
				want, why = c15Pattern(cfg.Seed+int64(f), g, lastW[g], R), fmt.Sprintf("what goroutine %d wrote last (operation %d) through handle %d", g, lastW[g], g%H)
			}
			if got := now[g*R : (g+1)*R]; !bytes.Equal(got, want) {
				out.Key = "hammer/distinct/write-landed-elsewhere"
				out.What = fmt.Sprintf("after all %d operations had returned successfully, region %d of file %c does not hold %s: it holds %s", out.Ops, g, 'A'+f, why, c15DExplain(cfg, inits, got))
				out.Exp, out.Act = gDigest(want), gDigest(got)
				return
			}
		}
	}
	return
}

// c15DistinctCfgs: quick: one run against the os-backed server and one against the request server, 1.5 s each, side by
// side; thorough: six of 5 s (all layouts occur over the seeds).
func c15DistinctCfgs(c *lib.Ctx) []c15HammerCfg {
	var out []c15HammerCfg
	rnd := rand.New(rand.NewSource(c.Seed*1000003 + 15)) // a stream of its own: the other generators keep their cases
	n, ms := 1, 1500
	if c.Tier == "thorough" {
		n, ms = 3, 5000
	}
	for i := 0; i < n; i++ {
		for _, server := range []string{"os", "rs"} {
			spec := c15DLayouts[rnd.Intn(len(c15DLayouts))]
			if server == "os" && i == 0 { // the os-backed server: a read-only and a write-only handle at least
				spec = c15DLayouts[[]int{0, 3, 5, 6}[rnd.Intn(4)]]
			}
			out = append(out, c15HammerCfg{Hammer: true, Mode: "distinct", Server: server, Alloc: rnd.Intn(2) == 1, Goroutines: 16 + rnd.Intn(17), // (measured: 4…8 goroutines leave the 8 workers of the server idle most of the time; 16 and more keep several inside the handle lookup at once)
				PairsEach: 1 << 30, MaxMs: ms, Region: []int{64, 256, 1024}[rnd.Intn(3)], Handles: len(spec), Spec: append([]string(nil), spec...), Seed: rnd.Int63()})
		}
	}
	return out
}
