package main

// The table of client operations exercised by C04 (connection loss) and C20 (malformed replies), and the
// option variants (which MaxPacket constructor, UseFstat, UseConcurrentReads/Writes,
// MaxConcurrentRequestsPerFile) each of them is run under.
// Every operation runs against the fake server of cli_fake.go: a 40-byte file, MaxPacket 16, so that the
// multi-chunk paths (3 chunks + EOF probe) are taken with tiny frames.

import (
	"bytes"
	"context"
	"fmt"
	"io"
	"os"
	"strings"
	"sync/atomic"
	"time"

	"github.com/pkg/sftp"

	"verifharness/wire"
)

const (
	cliFileSize  = 40
	cliMaxPacket = 16
)

type cliOpEnv struct {
	c *sftp.Client
	f *sftp.File
}

type cliOp struct {
	Name     string
	Opts     []sftp.ClientOption
	NeedFile bool           // setup opens "file" read-write first (its replies are never tampered with)
	Fake     func(*fakeSrv) // configure the fake server
	Run      func(e *cliOpEnv) (string, error)
	Conc     bool // starts background goroutines inside the package
	ErrOK    bool // the operation legitimately returns an error against valid replies
	// Vars lists the option variants (cliOptAtoms, "+"-joined) that select another code path of THIS operation,
	// on top of the variants every operation is run with (cliUniversalVars).
	Vars []string
}

func cliErrStr(err error) string {
	if err == nil {
		return "nil"
	}
	return err.Error()
}

func cliFi(fi os.FileInfo, err error) (string, error) {
	if err != nil || fi == nil {
		return "", err
	}
	return cliFiAll(fi)
}

// cliAccPanic holds the first panic raised by an accessor of a value the package handed to the caller (FileInfo,
// *FileStat, *StatVFS): the call "returned a value" only if the value can be looked at.
var cliAccPanic atomic.Pointer[string]

// cliFiAll calls EVERY accessor of a FileInfo returned by the package (Name, Size, Mode, ModTime, IsDir, Sys and the
// methods of the *FileStat behind Sys) under recover and renders them; the text starts as it always did
// ("<name> size=<n> mode=<m> mtime=<t>").
func cliFiAll(fi os.FileInfo) (s string, err error) {
	at := "Name"
	defer func() {
		if r := recover(); r != nil {
			msg := fmt.Sprintf("FileInfo.%s panicked: %v", at, r)
			cliAccPanic.CompareAndSwap(nil, &msg)
			s, err = "", fmt.Errorf("PANIC: %s", msg)
		}
	}()
	name := fi.Name()
	at = "Size"
	size := fi.Size()
	at = "Mode"
	mode := fi.Mode()
	_ = mode.String()
	at = "ModTime"
	mt := fi.ModTime()
	_ = mt.String()
	at = "IsDir"
	dir := fi.IsDir()
	at = "Sys"
	sys := ""
	switch st := fi.Sys().(type) {
	case *sftp.FileStat:
		if st != nil {
			at = "Sys.(*FileStat)"
			sys = fmt.Sprintf("size=%d mode=%o/%v mtime=%d/%d atime=%d/%d uid=%d gid=%d ext=%d", st.Size, st.Mode, st.FileMode(), st.Mtime, st.ModTime().Unix(), st.Atime, st.AccessTime().Unix(), st.UID, st.GID, len(st.Extended))
		}
	case nil:
		sys = "nil"
	default:
		sys = fmt.Sprintf("%T", st)
	}
	return fmt.Sprintf("%s size=%d mode=%v mtime=%d dir=%v sys{%s}", name, size, mode, mt.Unix(), dir, sys), nil
}

// cliFiList renders a listing through cliFiAll (first accessor panic becomes the error).
func cliFiList(fis []os.FileInfo, err error) (string, error) {
	var s []string
	for _, fi := range fis {
		if fi == nil {
			s = append(s, "<nil>")
			continue
		}
		t, perr := cliFiAll(fi)
		if perr != nil && err == nil {
			err = perr
		}
		s = append(s, t)
	}
	return strings.Join(s, ","), err
}

// cliSink is an io.Writer without ReaderFrom/WriterTo shortcuts.
type cliSink struct{ b []byte }

func (s *cliSink) Write(p []byte) (int, error) { s.b = append(s.b, p...); return len(p), nil }

// cliSrc is an io.Reader that hides Len/Size (sequential ReadFrom path).
type cliSrc struct{ r io.Reader }

func (s cliSrc) Read(p []byte) (int, error) { return s.r.Read(p) }

func cliOps() []cliOp {
	concW := sftp.UseConcurrentWrites(true)
	seqR := sftp.UseConcurrentReads(false)
	data40 := cliPatternBytes("w", 0, 40)
	two := sftp.MaxConcurrentRequestsPerFile(2)
	tree := func(f *fakeSrv) { f.tree = cliTree() }
	list := func(fis []os.FileInfo, err error) (string, error) { return cliFiList(fis, err) }
	ops := []cliOp{
		{Name: "Stat", Run: func(e *cliOpEnv) (string, error) { return cliFi(e.c.Stat("file")) }},
		{Name: "Lstat", Run: func(e *cliOpEnv) (string, error) { return cliFi(e.c.Lstat("file")) }},
		{Name: "ReadDir", Run: func(e *cliOpEnv) (string, error) { return cliFiList(e.c.ReadDir("dir")) }},
		{Name: "Open", Run: func(e *cliOpEnv) (string, error) {
			f, err := e.c.Open("file")
			if err != nil {
				return "", err
			}
			if f == nil {
				return "nil-file", nil // (nil, nil): a value, if a surprising one; not dereferenced here
			}
			e.f = f
			return f.Name(), nil
		}},
		{Name: "Create", Run: func(e *cliOpEnv) (string, error) {
			f, err := e.c.Create("new")
			if err != nil {
				return "", err
			}
			if f == nil {
				return "nil-file", nil
			}
			e.f = f
			return f.Name(), nil
		}},
		{Name: "File.Close", NeedFile: true, Run: func(e *cliOpEnv) (string, error) { return "", e.f.Close() }},
		{Name: "ReadLink", Run: func(e *cliOpEnv) (string, error) { return e.c.ReadLink("link") }},
		{Name: "RealPath", Run: func(e *cliOpEnv) (string, error) { return e.c.RealPath("rel/../x") }},
		{Name: "Getwd", Run: func(e *cliOpEnv) (string, error) { return e.c.Getwd() }},
		{Name: "Mkdir", Run: func(e *cliOpEnv) (string, error) { return "", e.c.Mkdir("newdir") }},
		{Name: "MkdirAll", Fake: func(f *fakeSrv) { f.statMissing = true }, Run: func(e *cliOpEnv) (string, error) { return "", e.c.MkdirAll("a/b") }},
		{Name: "MkdirAll-exists", Fake: func(f *fakeSrv) { f.mkdirFails = true; f.statMissing = true; f.lstatDir = true }, Run: func(e *cliOpEnv) (string, error) { return "", e.c.MkdirAll("a") }},
		{Name: "Remove", Run: func(e *cliOpEnv) (string, error) { return "", e.c.Remove("file") }},
		{Name: "Remove-dir", Fake: func(f *fakeSrv) { f.removeFails = true }, Run: func(e *cliOpEnv) (string, error) { return "", e.c.Remove("dir") }},
		{Name: "Remove-refused", ErrOK: true, Fake: func(f *fakeSrv) { f.removeFails = true; f.rmdirFails = true }, Run: func(e *cliOpEnv) (string, error) { return "", e.c.Remove("dir") }},
		{Name: "RemoveDirectory", Run: func(e *cliOpEnv) (string, error) { return "", e.c.RemoveDirectory("dir") }},
		{Name: "RemoveAll", Run: func(e *cliOpEnv) (string, error) { return "", e.c.RemoveAll("dir") }},
		{Name: "Rename", Run: func(e *cliOpEnv) (string, error) { return "", e.c.Rename("a", "b") }},
		{Name: "PosixRename", Run: func(e *cliOpEnv) (string, error) { return "", e.c.PosixRename("a", "b") }},
		{Name: "Link", Run: func(e *cliOpEnv) (string, error) { return "", e.c.Link("a", "b") }},
		{Name: "Symlink", Run: func(e *cliOpEnv) (string, error) { return "", e.c.Symlink("a", "b") }},
		{Name: "Chmod", Run: func(e *cliOpEnv) (string, error) { return "", e.c.Chmod("file", 0o600) }},
		{Name: "Chown", Run: func(e *cliOpEnv) (string, error) { return "", e.c.Chown("file", 1, 2) }},
		{Name: "Chtimes", Run: func(e *cliOpEnv) (string, error) {
			return "", e.c.Chtimes("file", time.Unix(1, 0), time.Unix(2, 0))
		}},
		{Name: "Truncate", Run: func(e *cliOpEnv) (string, error) { return "", e.c.Truncate("file", 3) }},
		{Name: "SetExtendedData", Run: func(e *cliOpEnv) (string, error) {
			return "", e.c.SetExtendedData("file", []sftp.StatExtended{{ExtType: "a@b", ExtData: "c"}})
		}},
		{Name: "StatVFS", Run: func(e *cliOpEnv) (string, error) {
			v, err := e.c.StatVFS("/")
			if err != nil || v == nil {
				return "", err
			}
			return cliVfsAll(v)
		}},
		{Name: "File.Stat", NeedFile: true, Vars: []string{"fstat-off"}, Run: func(e *cliOpEnv) (string, error) { return cliFi(e.f.Stat()) }},
		{Name: "File.Chmod", NeedFile: true, Run: func(e *cliOpEnv) (string, error) { return "", e.f.Chmod(0o600) }},
		{Name: "File.Chown", NeedFile: true, Run: func(e *cliOpEnv) (string, error) { return "", e.f.Chown(1, 2) }},
		{Name: "File.Truncate", NeedFile: true, Run: func(e *cliOpEnv) (string, error) { return "", e.f.Truncate(3) }},
		{Name: "File.Sync", NeedFile: true, Run: func(e *cliOpEnv) (string, error) { return "", e.f.Sync() }},
		{Name: "File.Seek-end", NeedFile: true, Vars: []string{"fstat-off"}, Run: func(e *cliOpEnv) (string, error) {
			n, err := e.f.Seek(-1, io.SeekEnd)
			return fmt.Sprint(n), err
		}},
		{Name: "File.Read", NeedFile: true, Vars: []string{"seq-reads", "req1"}, Run: func(e *cliOpEnv) (string, error) {
			b := make([]byte, 10)
			n, err := e.f.Read(b)
			return fmt.Sprintf("%d %x", n, b[:max(n, 0)]), err
		}},
		{Name: "File.ReadAt-single", NeedFile: true, Vars: []string{"seq-reads"}, Run: func(e *cliOpEnv) (string, error) {
			b := make([]byte, 10)
			n, err := e.f.ReadAt(b, 5)
			return fmt.Sprintf("%d %x", n, b[:max(n, 0)]), err
		}},
		{Name: "File.ReadAt-single-short", NeedFile: true, Vars: []string{"seq-reads", "req1"}, Run: func(e *cliOpEnv) (string, error) {
			b := make([]byte, 16) // 8 bytes remain: DATA(8) then EOF status
			n, err := e.f.ReadAt(b, 32)
			if err == io.EOF {
				err = nil
			}
			return fmt.Sprintf("%d %x", n, b[:max(n, 0)]), err
		}},
		{Name: "File.ReadAt-concurrent", NeedFile: true, Conc: true, Vars: []string{"req1", "conc-reads", "fstat+req1"}, Run: func(e *cliOpEnv) (string, error) {
			b := make([]byte, 40)
			n, err := e.f.ReadAt(b, 0)
			return fmt.Sprintf("%d %x", n, b[:max(n, 0)]), err
		}},
		{Name: "File.ReadAt-concurrent-eof", NeedFile: true, Conc: true, Vars: []string{"req1"}, Run: func(e *cliOpEnv) (string, error) {
			b := make([]byte, 64)
			n, err := e.f.ReadAt(b, 0)
			if err == io.EOF {
				err = nil
			}
			return fmt.Sprintf("%d %x", n, b[:max(min(n, 64), 0)]), err
		}},
		{Name: "File.ReadAt-sequential", NeedFile: true, Opts: []sftp.ClientOption{seqR}, Vars: []string{"req1"}, Run: func(e *cliOpEnv) (string, error) {
			b := make([]byte, 40)
			n, err := e.f.ReadAt(b, 0)
			return fmt.Sprintf("%d %x", n, b[:max(n, 0)]), err
		}},
		{Name: "File.WriteTo-sequential", NeedFile: true, Opts: []sftp.ClientOption{seqR}, Vars: []string{"req1", "fstat+req2"}, Run: func(e *cliOpEnv) (string, error) {
			var s cliSink
			n, err := e.f.WriteTo(&s)
			return fmt.Sprintf("%d %x", n, s.b), err
		}},
		{Name: "File.WriteTo-concurrent", NeedFile: true, Conc: true, Vars: []string{"fstat-off", "conc-reads", "req1", "fstat+req1", "fstat+req2", "fstat+seq-reads", "mp-checked+fstat", "mp-alias+fstat+req1"}, Run: func(e *cliOpEnv) (string, error) {
			var s cliSink
			n, err := e.f.WriteTo(&s)
			return fmt.Sprintf("%d %x", n, s.b), err
		}},
		{Name: "File.WriteTo-concurrent-fstat", NeedFile: true, Conc: true, Opts: []sftp.ClientOption{sftp.UseFstat(true)}, Run: func(e *cliOpEnv) (string, error) {
			var s cliSink
			n, err := e.f.WriteTo(&s)
			return fmt.Sprintf("%d %x", n, s.b), err
		}},
		{Name: "File.Write", NeedFile: true, Vars: []string{"conc-writes"}, Run: func(e *cliOpEnv) (string, error) {
			n, err := e.f.Write(data40[:10])
			return fmt.Sprint(n), err
		}},
		{Name: "File.WriteAt-single", NeedFile: true, Vars: []string{"conc-writes", "conc-writes+req1"}, Run: func(e *cliOpEnv) (string, error) {
			n, err := e.f.WriteAt(data40[:10], 7)
			return fmt.Sprint(n), err
		}},
		{Name: "File.WriteAt-sequential", NeedFile: true, Vars: []string{"seq-writes", "req1"}, Run: func(e *cliOpEnv) (string, error) {
			n, err := e.f.WriteAt(data40, 0)
			return fmt.Sprint(n), err
		}},
		{Name: "File.WriteAt-concurrent", NeedFile: true, Conc: true, Opts: []sftp.ClientOption{concW}, Vars: []string{"req1", "mp-checked+req1"}, Run: func(e *cliOpEnv) (string, error) {
			n, err := e.f.WriteAt(data40, 0)
			return fmt.Sprint(n), err
		}},
		{Name: "File.Write-concurrent", NeedFile: true, Conc: true, Opts: []sftp.ClientOption{concW}, Vars: []string{"req1", "req2"}, Run: func(e *cliOpEnv) (string, error) {
			n, err := e.f.Write(data40)
			return fmt.Sprint(n), err
		}},
		{Name: "File.ReadFrom-sequential", NeedFile: true, Vars: []string{"conc-writes", "conc-writes+req1"}, Run: func(e *cliOpEnv) (string, error) {
			n, err := e.f.ReadFrom(cliSrc{bytes.NewReader(data40)})
			return fmt.Sprint(n), err
		}},
		{Name: "File.ReadFrom-concurrent", NeedFile: true, Conc: true, Opts: []sftp.ClientOption{concW}, Vars: []string{"req1", "mp-alias+req1"}, Run: func(e *cliOpEnv) (string, error) {
			n, err := e.f.ReadFrom(bytes.NewReader(data40))
			return fmt.Sprint(n), err
		}},
		{Name: "File.ReadFromWithConcurrency", NeedFile: true, Conc: true, Vars: []string{"req1", "conc-writes"}, Run: func(e *cliOpEnv) (string, error) {
			n, err := e.f.ReadFromWithConcurrency(cliSrc{bytes.NewReader(data40)}, 2)
			return fmt.Sprint(n), err
		}},
		// ReadFromWithConcurrency: concurrency < 1 means the Client's maximum, larger values are capped by it
		{Name: "File.ReadFromWithConcurrency-default", NeedFile: true, Conc: true, Vars: []string{"req1", "req2"}, Run: func(e *cliOpEnv) (string, error) {
			n, err := e.f.ReadFromWithConcurrency(cliSrc{bytes.NewReader(data40)}, 0)
			return fmt.Sprint(n), err
		}},
		{Name: "File.ReadFromWithConcurrency-capped", NeedFile: true, Conc: true, Opts: []sftp.ClientOption{two}, Run: func(e *cliOpEnv) (string, error) {
			n, err := e.f.ReadFromWithConcurrency(bytes.NewReader(data40), 1000)
			return fmt.Sprint(n), err
		}},
		// ReadFrom with concurrent writes sizes its worker pool from the reader's optional interfaces:
		// Len() (bytes.Reader above), Size(), *io.LimitedReader, Stat()
		{Name: "File.ReadFrom-sized", NeedFile: true, Conc: true, Opts: []sftp.ClientOption{concW}, Vars: []string{"req1"}, Run: func(e *cliOpEnv) (string, error) {
			n, err := e.f.ReadFrom(cliSized{cliSrc{bytes.NewReader(data40)}, 40})
			return fmt.Sprint(n), err
		}},
		{Name: "File.ReadFrom-limited", NeedFile: true, Conc: true, Opts: []sftp.ClientOption{concW}, Vars: []string{"req1"}, Run: func(e *cliOpEnv) (string, error) {
			n, err := e.f.ReadFrom(&io.LimitedReader{R: cliSrc{bytes.NewReader(cliPatternBytes("w", 0, 60))}, N: 40})
			return fmt.Sprint(n), err
		}},
		{Name: "File.ReadFrom-statted", NeedFile: true, Conc: true, Opts: []sftp.ClientOption{concW}, Vars: []string{"req1"}, Run: func(e *cliOpEnv) (string, error) {
			n, err := e.f.ReadFrom(cliStatted{cliSrc{bytes.NewReader(data40)}, 40})
			return fmt.Sprint(n), err
		}},
		// the size hint is only a hint: a reader that announces less than one packet but delivers three (sequential
		// path although concurrent writes are on), and one that announces much more than it delivers
		{Name: "File.ReadFrom-sized-underreports", NeedFile: true, Opts: []sftp.ClientOption{concW}, Run: func(e *cliOpEnv) (string, error) {
			n, err := e.f.ReadFrom(cliSized{cliSrc{bytes.NewReader(data40)}, 5})
			return fmt.Sprint(n), err
		}},
		{Name: "File.ReadFrom-sized-overreports", NeedFile: true, Conc: true, Opts: []sftp.ClientOption{concW}, Vars: []string{"req2"}, Run: func(e *cliOpEnv) (string, error) {
			n, err := e.f.ReadFrom(cliSized{cliSrc{bytes.NewReader(data40)}, 1 << 40})
			return fmt.Sprint(n), err
		}},
		{Name: "File.SetExtendedData", NeedFile: true, Run: func(e *cliOpEnv) (string, error) {
			return "", e.f.SetExtendedData("file", []sftp.StatExtended{{ExtType: "a@b", ExtData: "c"}})
		}},
		{Name: "OpenFile-flags", Run: func(e *cliOpEnv) (string, error) {
			f, err := e.c.OpenFile("new", os.O_WRONLY|os.O_APPEND|os.O_CREATE|os.O_EXCL)
			if err != nil {
				return "", err
			}
			if f == nil {
				return "nil-file", nil
			}
			e.f = f
			return f.Name(), nil
		}},
		// multi-batch listings and the composites built on them (a two-level tree, cliTree)
		{Name: "ReadDir-batches", Fake: tree, Run: func(e *cliOpEnv) (string, error) {
			return list(e.c.ReadDir("dir"))
		}},
		{Name: "ReadDirContext-batches", Fake: tree, Run: func(e *cliOpEnv) (string, error) {
			ctx, cancel := context.WithCancel(context.Background())
			defer cancel()
			return list(e.c.ReadDirContext(ctx, "dir/sub"))
		}},
		{Name: "Walk-tree", Fake: tree, Run: func(e *cliOpEnv) (string, error) {
			// the walker hands out errors step by step: the operation's result is every path visited and the first error
			w := e.c.Walk("dir")
			var seen []string
			var first error
			for n := 0; n < 1000 && w.Step(); n++ {
				if err := w.Err(); err != nil {
					if first == nil {
						first = err
					}
					continue
				}
				t := w.Path()
				if fi := w.Stat(); fi != nil {
					d, perr := cliFiAll(fi)
					if perr != nil && first == nil {
						first = perr
					}
					t += "{" + d + "}"
				}
				seen = append(seen, t)
			}
			return strings.Join(seen, ","), first
		}},
		{Name: "Glob-tree", Fake: tree, Run: func(e *cliOpEnv) (string, error) {
			m, err := e.c.Glob("dir/*/*")
			return strings.Join(m, ","), err
		}},
		{Name: "RemoveAll-tree", Fake: tree, Run: func(e *cliOpEnv) (string, error) { return "", e.c.RemoveAll("dir") }},
		{Name: "MkdirAll-deep", Fake: func(f *fakeSrv) { f.statMissing = true }, Run: func(e *cliOpEnv) (string, error) { return "", e.c.MkdirAll("a/b/c/") }},
	}
	// the same concurrent transfers with fewer workers than chunks (MaxConcurrentRequestsPerFile 2): the work
	// channel is then still being fed when the first results (or the broadcast error) arrive
	for _, o := range ops {
		switch o.Name {
		case "File.ReadAt-concurrent", "File.ReadAt-concurrent-eof", "File.WriteTo-concurrent", "File.WriteAt-concurrent", "File.ReadFrom-concurrent":
			o2 := o
			o2.Name += "-2workers"
			o2.Opts = append(append([]sftp.ClientOption(nil), o.Opts...), two)
			o2.Vars = nil
			ops = append(ops, o2)
		}
	}
	return ops
}

func cliOpByName(name string) *cliOp {
	for _, o := range append(cliOps(), cliValueOps()...) {
		if o.Name == name {
			o := o
			return &o
		}
	}
	return nil
}

// cliVfsAll looks at every field and calls every method of a *StatVFS under recover.
func cliVfsAll(v *sftp.StatVFS) (s string, err error) {
	defer func() {
		if r := recover(); r != nil {
			msg := fmt.Sprintf("StatVFS accessor panicked: %v", r)
			cliAccPanic.CompareAndSwap(nil, &msg)
			s, err = "", fmt.Errorf("PANIC: %s", msg)
		}
	}()
	return fmt.Sprintf("bsize=%d namemax=%d frsize=%d blocks=%d bfree=%d bavail=%d files=%d ffree=%d favail=%d fsid=%d flag=%d total=%d free=%d",
		v.Bsize, v.Namemax, v.Frsize, v.Blocks, v.Bfree, v.Bavail, v.Files, v.Ffree, v.Favail, v.Fsid, v.Flag, v.TotalSpace(), v.FreeSpace()), nil
}

// cliValueOps are operations run by C20 only (not part of cliOps, whose consumers C04 and C08 keep their case
// sets): multi-step uses of a value the server reported — the offset Seek(End) derives from the ATTRS size is then
// read from, written at and copied from — and ReadFrom fed by readers that announce boundary sizes.
func cliValueOps() []cliOp {
	concW := sftp.UseConcurrentWrites(true)
	data40 := cliPatternBytes("w", 0, 40)
	seek := func(e *cliOpEnv, off int64) (string, error) {
		n, err := e.f.Seek(off, io.SeekEnd)
		return fmt.Sprint("seek=", n), err
	}
	sized := func(name string, n int64) cliOp {
		return cliOp{Name: "File.ReadFrom-sized-" + name, NeedFile: true, Conc: true, Opts: []sftp.ClientOption{concW}, Run: func(e *cliOpEnv) (string, error) {
			m, err := e.f.ReadFrom(cliSized{cliSrc{bytes.NewReader(data40)}, n})
			return fmt.Sprint(m), err
		}}
	}
	return []cliOp{
		{Name: "File.Seek-end+Read", NeedFile: true, Vars: []string{"fstat", "seq-reads"}, Run: func(e *cliOpEnv) (string, error) {
			s, err := seek(e, -8)
			if err != nil {
				return s, err
			}
			b := make([]byte, 24)
			n, err := e.f.Read(b)
			if err == io.EOF {
				err = nil
			}
			return fmt.Sprintf("%s %d %x", s, n, b[:max(min(n, 24), 0)]), err
		}},
		{Name: "File.Seek-end+Write", NeedFile: true, Vars: []string{"fstat", "conc-writes"}, Run: func(e *cliOpEnv) (string, error) {
			s, err := seek(e, 0)
			if err != nil {
				return s, err
			}
			n, err := e.f.Write(data40[:24])
			return fmt.Sprintf("%s %d", s, n), err
		}},
		{Name: "File.Seek-end+WriteTo", NeedFile: true, Conc: true, Vars: []string{"fstat", "seq-reads"}, Run: func(e *cliOpEnv) (string, error) {
			s, err := seek(e, -30)
			if err != nil {
				return s, err
			}
			var k cliSink
			n, err := e.f.WriteTo(&k)
			return fmt.Sprintf("%s %d %x", s, n, k.b), err
		}},
		{Name: "File.Seek-end+ReadFrom", NeedFile: true, Conc: true, Vars: []string{"fstat", "conc-writes"}, Run: func(e *cliOpEnv) (string, error) {
			s, err := seek(e, 0)
			if err != nil {
				return s, err
			}
			n, err := e.f.ReadFrom(bytes.NewReader(data40))
			return fmt.Sprintf("%s %d", s, n), err
		}},
		{Name: "File.Stat+Truncate", NeedFile: true, Vars: []string{"fstat"}, Run: func(e *cliOpEnv) (string, error) {
			// the size a Stat reported is handed back to the package
			fi, err := e.f.Stat()
			if err != nil || fi == nil {
				return "", err
			}
			s, err := cliFiAll(fi)
			if err != nil {
				return s, err
			}
			return s, e.f.Truncate(fi.Size())
		}},
		sized("maxint64", 1<<63-1),
		sized("minint64", -1<<63),
		sized("minus1", -1),
		sized("wraps-chunk", 1<<63-cliMaxPacket),
	}
}

func cliClientOpts(o *cliOp) []sftp.ClientOption {
	opts, _ := cliClientOptsVar(o, "")
	return opts
}

// ---------- option variants ----------
//
// A case of C04 / C20 carries an option variant: "+"-joined atoms applied on top of the operation's own
// options. The packet size is 16 in every variant; what varies is WHICH of the three constructors sets it
// (MaxPacketUnchecked — the default of these harnesses —, MaxPacketChecked, the MaxPacket alias) and the
// transfer options. Atoms that restate a default (conc-reads, seq-writes, fstat-off) pass the option
// explicitly instead of leaving it out.

func cliOptAtom(a string) (sftp.ClientOption, bool) {
	switch a {
	case "fstat":
		return sftp.UseFstat(true), true
	case "fstat-off":
		return sftp.UseFstat(false), true
	case "seq-reads":
		return sftp.UseConcurrentReads(false), true
	case "conc-reads":
		return sftp.UseConcurrentReads(true), true
	case "conc-writes":
		return sftp.UseConcurrentWrites(true), true
	case "seq-writes":
		return sftp.UseConcurrentWrites(false), true
	case "req1":
		return sftp.MaxConcurrentRequestsPerFile(1), true
	case "req2":
		return sftp.MaxConcurrentRequestsPerFile(2), true
	case "req64":
		return sftp.MaxConcurrentRequestsPerFile(64), true
	case "copy-stderr":
		// live only with sftp.NewClient (the SSH session's stderr); inert with NewClientPipe
		return sftp.CopyStderrTo(&cliSink{}), true
	}
	return nil, false
}

// cliClientOptsVar builds the options of an operation under a variant.
func cliClientOptsVar(o *cliOp, variant string) ([]sftp.ClientOption, error) {
	mp := sftp.MaxPacketUnchecked(cliMaxPacket)
	var atoms []sftp.ClientOption
	if variant != "" {
		for _, a := range strings.Split(variant, "+") {
			switch a {
			case "mp-checked":
				mp = sftp.MaxPacketChecked(cliMaxPacket)
			case "mp-alias":
				mp = sftp.MaxPacket(cliMaxPacket)
			case "mp-unchecked":
				mp = sftp.MaxPacketUnchecked(cliMaxPacket)
			case "mp-default":
				mp = nil // no MaxPacket option at all: the package's default of 32768 (C20's value cases only)
			default:
				opt, ok := cliOptAtom(a)
				if !ok {
					return nil, fmt.Errorf("unknown option atom %q in variant %q", a, variant)
				}
				atoms = append(atoms, opt)
			}
		}
	}
	if mp == nil {
		return append(append([]sftp.ClientOption{}, o.Opts...), atoms...), nil
	}
	return append(append([]sftp.ClientOption{mp}, o.Opts...), atoms...), nil
}

// cliUniversalVars: every operation is run with these (no operation should care, which is the point).
var cliUniversalVars = []string{"mp-checked", "mp-alias", "fstat"}

// cliOpVariants lists the variants of an operation: "" first, then the universal ones, then its own.
func cliOpVariants(o cliOp) []string {
	out := []string{""}
	seen := map[string]bool{"": true}
	for _, v := range append(append([]string(nil), cliUniversalVars...), o.Vars...) {
		if !seen[v] {
			seen[v] = true
			out = append(out, v)
		}
	}
	return out
}

// cliOpKey is the name of an (operation, variant) pair in caches, histograms and canonical case texts.
func cliOpKey(op, variant string) string {
	if variant == "" {
		return op
	}
	return op + "|" + variant
}

// cliSized / cliStatted: readers that announce their size through the optional interfaces ReadFrom looks for.
type cliSized struct {
	cliSrc
	n int64
}

func (s cliSized) Size() int64 { return s.n }

type cliStatted struct {
	cliSrc
	n int64
}

func (s cliStatted) Stat() (os.FileInfo, error) { return cliFileInfo{s.n}, nil }

type cliFileInfo struct{ n int64 }

func (fi cliFileInfo) Name() string       { return "src" }
func (fi cliFileInfo) Size() int64        { return fi.n }
func (fi cliFileInfo) Mode() os.FileMode  { return 0o644 }
func (fi cliFileInfo) ModTime() time.Time { return time.Unix(0, 0) }
func (fi cliFileInfo) IsDir() bool        { return false }
func (fi cliFileInfo) Sys() any           { return nil }

// cliTree: "dir" is listed in three batches (".", ".." and a file; a sub-directory and a file; a file), then EOF;
// "dir/sub" in two.
func cliTree() map[string][][]wire.NameEnt {
	d := func(name string) wire.NameEnt {
		return wire.NameEnt{Name: name, Long: "drwxr-xr-x 1 u g 0 Jan 1 00:00 " + name, A: wire.St{Flags: wire.ASize | wire.APerm, Perm: 0o40755}}
	}
	f := func(name string, size uint64) wire.NameEnt {
		return wire.NameEnt{Name: name, Long: "-rw-r--r-- 1 u g 0 Jan 1 00:00 " + name, A: wire.St{Flags: wire.ASize | wire.APerm, Size: size, Perm: 0o100644}}
	}
	return map[string][][]wire.NameEnt{
		"dir":     {{d("."), d(".."), f("alpha", 40)}, {d("sub"), f("beta", 7)}, {f("gamma", 1)}},
		"dir/sub": {{f("delta", 2)}, {f("epsilon", 3)}},
	}
}
