package main

// The table of client operations exercised by C04 (connection loss) and C20 (malformed replies).
// Every operation runs against the fake server of cli_fake.go: a 40-byte file, MaxPacket 16, so that the
// multi-chunk paths (3 chunks + EOF probe) are taken with tiny frames.

import (
	"bytes"
	"fmt"
	"io"
	"os"
	"strings"
	"time"

	"github.com/pkg/sftp"
)

const (
	cliFileSize  = 40
	cliMaxPacket = 16
)

type cliOpEnv struct {
	c *sftp.Client
	f *sftp.File
}

type cliOp struct {
	Name     string
	Opts     []sftp.ClientOption
	NeedFile bool           // setup opens "file" read-write first (its replies are never tampered with)
	Fake     func(*fakeSrv) // configure the fake server
	Run      func(e *cliOpEnv) (string, error)
	Conc     bool // starts background goroutines inside the package
	ErrOK    bool // the operation legitimately returns an error against valid replies
}

func cliErrStr(err error) string {
	if err == nil {
		return "nil"
	}
	return err.Error()
}

func cliFi(fi os.FileInfo, err error) (string, error) {
	if err != nil || fi == nil {
		return "", err
	}
	return fmt.Sprintf("%s size=%d mode=%v mtime=%d", fi.Name(), fi.Size(), fi.Mode(), fi.ModTime().Unix()), nil
}

// cliSink is an io.Writer without ReaderFrom/WriterTo shortcuts.
type cliSink struct{ b []byte }

func (s *cliSink) Write(p []byte) (int, error) { s.b = append(s.b, p...); return len(p), nil }

// cliSrc is an io.Reader that hides Len/Size (sequential ReadFrom path).
type cliSrc struct{ r io.Reader }

func (s cliSrc) Read(p []byte) (int, error) { return s.r.Read(p) }

func cliOps() []cliOp {
	concW := sftp.UseConcurrentWrites(true)
	seqR := sftp.UseConcurrentReads(false)
	data40 := cliPatternBytes("w", 0, 40)
	ops := []cliOp{
		{Name: "Stat", Run: func(e *cliOpEnv) (string, error) { return cliFi(e.c.Stat("file")) }},
		{Name: "Lstat", Run: func(e *cliOpEnv) (string, error) { return cliFi(e.c.Lstat("file")) }},
		{Name: "ReadDir", Run: func(e *cliOpEnv) (string, error) {
			fis, err := e.c.ReadDir("dir")
			var s []string
			for _, fi := range fis {
				s = append(s, fmt.Sprintf("%s:%d", fi.Name(), fi.Size()))
			}
			return strings.Join(s, ","), err
		}},
		{Name: "Open", Run: func(e *cliOpEnv) (string, error) {
			f, err := e.c.Open("file")
			if err != nil {
				return "", err
			}
			if f == nil {
				return "nil-file", nil // (nil, nil): a value, if a surprising one; not dereferenced here
			}
			e.f = f
			return f.Name(), nil
		}},
		{Name: "Create", Run: func(e *cliOpEnv) (string, error) {
			f, err := e.c.Create("new")
			if err != nil {
				return "", err
			}
			if f == nil {
				return "nil-file", nil
			}
			e.f = f
			return f.Name(), nil
		}},
		{Name: "File.Close", NeedFile: true, Run: func(e *cliOpEnv) (string, error) { return "", e.f.Close() }},
		{Name: "ReadLink", Run: func(e *cliOpEnv) (string, error) { return e.c.ReadLink("link") }},
		{Name: "RealPath", Run: func(e *cliOpEnv) (string, error) { return e.c.RealPath("rel/../x") }},
		{Name: "Getwd", Run: func(e *cliOpEnv) (string, error) { return e.c.Getwd() }},
		{Name: "Mkdir", Run: func(e *cliOpEnv) (string, error) { return "", e.c.Mkdir("newdir") }},
		{Name: "MkdirAll", Fake: func(f *fakeSrv) { f.statMissing = true }, Run: func(e *cliOpEnv) (string, error) { return "", e.c.MkdirAll("a/b") }},
		{Name: "MkdirAll-exists", Fake: func(f *fakeSrv) { f.mkdirFails = true; f.statMissing = true; f.lstatDir = true }, Run: func(e *cliOpEnv) (string, error) { return "", e.c.MkdirAll("a") }},
		{Name: "Remove", Run: func(e *cliOpEnv) (string, error) { return "", e.c.Remove("file") }},
		{Name: "Remove-dir", Fake: func(f *fakeSrv) { f.removeFails = true }, Run: func(e *cliOpEnv) (string, error) { return "", e.c.Remove("dir") }},
		{Name: "Remove-refused", ErrOK: true, Fake: func(f *fakeSrv) { f.removeFails = true; f.rmdirFails = true }, Run: func(e *cliOpEnv) (string, error) { return "", e.c.Remove("dir") }},
		{Name: "RemoveDirectory", Run: func(e *cliOpEnv) (string, error) { return "", e.c.RemoveDirectory("dir") }},
		{Name: "RemoveAll", Run: func(e *cliOpEnv) (string, error) { return "", e.c.RemoveAll("dir") }},
		{Name: "Rename", Run: func(e *cliOpEnv) (string, error) { return "", e.c.Rename("a", "b") }},
		{Name: "PosixRename", Run: func(e *cliOpEnv) (string, error) { return "", e.c.PosixRename("a", "b") }},
		{Name: "Link", Run: func(e *cliOpEnv) (string, error) { return "", e.c.Link("a", "b") }},
		{Name: "Symlink", Run: func(e *cliOpEnv) (string, error) { return "", e.c.Symlink("a", "b") }},
		{Name: "Chmod", Run: func(e *cliOpEnv) (string, error) { return "", e.c.Chmod("file", 0o600) }},
		{Name: "Chown", Run: func(e *cliOpEnv) (string, error) { return "", e.c.Chown("file", 1, 2) }},
		{Name: "Chtimes", Run: func(e *cliOpEnv) (string, error) {
			return "", e.c.Chtimes("file", time.Unix(1, 0), time.Unix(2, 0))
		}},
		{Name: "Truncate", Run: func(e *cliOpEnv) (string, error) { return "", e.c.Truncate("file", 3) }},
		{Name: "SetExtendedData", Run: func(e *cliOpEnv) (string, error) {
			return "", e.c.SetExtendedData("file", []sftp.StatExtended{{ExtType: "a@b", ExtData: "c"}})
		}},
		{Name: "StatVFS", Run: func(e *cliOpEnv) (string, error) {
			v, err := e.c.StatVFS("/")
			if err != nil || v == nil {
				return "", err
			}
			return fmt.Sprintf("bsize=%d namemax=%d", v.Bsize, v.Namemax), nil
		}},
		{Name: "File.Stat", NeedFile: true, Run: func(e *cliOpEnv) (string, error) { return cliFi(e.f.Stat()) }},
		{Name: "File.Chmod", NeedFile: true, Run: func(e *cliOpEnv) (string, error) { return "", e.f.Chmod(0o600) }},
		{Name: "File.Chown", NeedFile: true, Run: func(e *cliOpEnv) (string, error) { return "", e.f.Chown(1, 2) }},
		{Name: "File.Truncate", NeedFile: true, Run: func(e *cliOpEnv) (string, error) { return "", e.f.Truncate(3) }},
		{Name: "File.Sync", NeedFile: true, Run: func(e *cliOpEnv) (string, error) { return "", e.f.Sync() }},
		{Name: "File.Seek-end", NeedFile: true, Run: func(e *cliOpEnv) (string, error) {
			n, err := e.f.Seek(-1, io.SeekEnd)
			return fmt.Sprint(n), err
		}},
		{Name: "File.Read", NeedFile: true, Run: func(e *cliOpEnv) (string, error) {
			b := make([]byte, 10)
			n, err := e.f.Read(b)
			return fmt.Sprintf("%d %x", n, b[:max(n, 0)]), err
		}},
		{Name: "File.ReadAt-single", NeedFile: true, Run: func(e *cliOpEnv) (string, error) {
			b := make([]byte, 10)
			n, err := e.f.ReadAt(b, 5)
			return fmt.Sprintf("%d %x", n, b[:max(n, 0)]), err
		}},
		{Name: "File.ReadAt-single-short", NeedFile: true, Run: func(e *cliOpEnv) (string, error) {
			b := make([]byte, 16) // 8 bytes remain: DATA(8) then EOF status
			n, err := e.f.ReadAt(b, 32)
			if err == io.EOF {
				err = nil
			}
			return fmt.Sprintf("%d %x", n, b[:max(n, 0)]), err
		}},
		{Name: "File.ReadAt-concurrent", NeedFile: true, Conc: true, Run: func(e *cliOpEnv) (string, error) {
			b := make([]byte, 40)
			n, err := e.f.ReadAt(b, 0)
			return fmt.Sprintf("%d %x", n, b[:max(n, 0)]), err
		}},
		{Name: "File.ReadAt-concurrent-eof", NeedFile: true, Conc: true, Run: func(e *cliOpEnv) (string, error) {
			b := make([]byte, 64)
			n, err := e.f.ReadAt(b, 0)
			if err == io.EOF {
				err = nil
			}
			return fmt.Sprintf("%d %x", n, b[:max(min(n, 64), 0)]), err
		}},
		{Name: "File.ReadAt-sequential", NeedFile: true, Opts: []sftp.ClientOption{seqR}, Run: func(e *cliOpEnv) (string, error) {
			b := make([]byte, 40)
			n, err := e.f.ReadAt(b, 0)
			return fmt.Sprintf("%d %x", n, b[:max(n, 0)]), err
		}},
		{Name: "File.WriteTo-sequential", NeedFile: true, Opts: []sftp.ClientOption{seqR}, Run: func(e *cliOpEnv) (string, error) {
			var s cliSink
			n, err := e.f.WriteTo(&s)
			return fmt.Sprintf("%d %x", n, s.b), err
		}},
		{Name: "File.WriteTo-concurrent", NeedFile: true, Conc: true, Run: func(e *cliOpEnv) (string, error) {
			var s cliSink
			n, err := e.f.WriteTo(&s)
			return fmt.Sprintf("%d %x", n, s.b), err
		}},
		{Name: "File.WriteTo-concurrent-fstat", NeedFile: true, Conc: true, Opts: []sftp.ClientOption{sftp.UseFstat(true)}, Run: func(e *cliOpEnv) (string, error) {
			var s cliSink
			n, err := e.f.WriteTo(&s)
			return fmt.Sprintf("%d %x", n, s.b), err
		}},
		{Name: "File.Write", NeedFile: true, Run: func(e *cliOpEnv) (string, error) {
			n, err := e.f.Write(data40[:10])
			return fmt.Sprint(n), err
		}},
		{Name: "File.WriteAt-single", NeedFile: true, Run: func(e *cliOpEnv) (string, error) {
			n, err := e.f.WriteAt(data40[:10], 7)
			return fmt.Sprint(n), err
		}},
		{Name: "File.WriteAt-sequential", NeedFile: true, Run: func(e *cliOpEnv) (string, error) {
			n, err := e.f.WriteAt(data40, 0)
			return fmt.Sprint(n), err
		}},
		{Name: "File.WriteAt-concurrent", NeedFile: true, Conc: true, Opts: []sftp.ClientOption{concW}, Run: func(e *cliOpEnv) (string, error) {
			n, err := e.f.WriteAt(data40, 0)
			return fmt.Sprint(n), err
		}},
		{Name: "File.Write-concurrent", NeedFile: true, Conc: true, Opts: []sftp.ClientOption{concW}, Run: func(e *cliOpEnv) (string, error) {
			n, err := e.f.Write(data40)
			return fmt.Sprint(n), err
		}},
		{Name: "File.ReadFrom-sequential", NeedFile: true, Run: func(e *cliOpEnv) (string, error) {
			n, err := e.f.ReadFrom(cliSrc{bytes.NewReader(data40)})
			return fmt.Sprint(n), err
		}},
		{Name: "File.ReadFrom-concurrent", NeedFile: true, Conc: true, Opts: []sftp.ClientOption{concW}, Run: func(e *cliOpEnv) (string, error) {
			n, err := e.f.ReadFrom(bytes.NewReader(data40))
			return fmt.Sprint(n), err
		}},
		{Name: "File.ReadFromWithConcurrency", NeedFile: true, Conc: true, Run: func(e *cliOpEnv) (string, error) {
			n, err := e.f.ReadFromWithConcurrency(cliSrc{bytes.NewReader(data40)}, 2)
			return fmt.Sprint(n), err
		}},
	}
	// the same concurrent transfers with fewer workers than chunks (MaxConcurrentRequestsPerFile 2): the work
	// channel is then still being fed when the first results (or the broadcast error) arrive
	two := sftp.MaxConcurrentRequestsPerFile(2)
	for _, o := range ops {
		switch o.Name {
		case "File.ReadAt-concurrent", "File.ReadAt-concurrent-eof", "File.WriteTo-concurrent", "File.WriteAt-concurrent", "File.ReadFrom-concurrent":
			o2 := o
			o2.Name += "-2workers"
			o2.Opts = append(append([]sftp.ClientOption(nil), o.Opts...), two)
			ops = append(ops, o2)
		}
	}
	return ops
}

func cliOpByName(name string) *cliOp {
	for _, o := range cliOps() {
		if o.Name == name {
			o := o
			return &o
		}
	}
	return nil
}

func cliClientOpts(o *cliOp) []sftp.ClientOption {
	return append([]sftp.ClientOption{sftp.MaxPacketUnchecked(cliMaxPacket)}, o.Opts...)
}
