package main

// C07 EFFECT oracles: what a dispatched request DID, against what its frame means.
//
// The reply oracles cannot see a server that acknowledges one thing and does another.  Two kinds of
// effect oracle look at the served files / at what the handlers were shown:
//
//  1. direct (ssEffect), around every WRITE, SETSTAT and FSETSTAT of a run (reference runs included):
//     WRITE writes exactly `length` bytes — the bytes of the data string, not what else the frame holds —
//     at `offset` and nothing else (os-backed: the file behind the handle is read before and after;
//     request server: the arguments of the WriteAt call the handler object recorded);
//     SETSTAT / FSETSTAT apply exactly the attributes their flags word selects, with the values of the
//     block (os-backed: size, permission bits, owner, modification time before and after; request server:
//     the flags and attributes the Setstat handler was shown);
//  2. metamorphic (ssCanonical / ssRunCanon): bytes of a frame after the last field of its request are
//     tolerated by the decoders and mean NOTHING.  Whenever the judge finds such bytes in a stream (a length
//     field mutated downwards, a frame length mutated upwards so that the frame swallows what follows, bytes
//     appended inside the frame), the stream is run a second time with every request re-encoded WITHOUT them:
//     same replies, same final tree / handler log.

import (
	"bytes"
	"crypto/sha256"
	"encoding/binary"
	"fmt"
	"os"
	"path/filepath"
	"regexp"
	"sort"
	"strings"
	"syscall"

	"github.com/pkg/sftp"

	"verifharness/lib"
	"verifharness/peers"
	"verifharness/wire"
)

const ssEffectMax = 1 << 20 // files and offsets beyond this are not read back

type ssEffect struct {
	s    *ssSess
	hist []string
	// captured by before()
	armed   bool
	path    string      // os: the file to look at
	fi      os.FileInfo // os: what it was
	old     []byte      // os WRITE: its content
	ncalls  int         // rs: length of the handler log
	skipWhy string
}

func newSSEffect(s *ssSess) *ssEffect { return &ssEffect{s: s} }

func (e *ssEffect) skip(why string) { e.skipWhy = why }

// osFileOf returns the path of the file behind handle h of the os-backed server, when the name the
// server opened still names that very file (not renamed or removed since).
func (e *ssEffect) osFileOf(h string) (string, os.FileInfo, bool) {
	var f sftp.VerifFile
	if !sftp.VerifSwapFile(e.s.srv.OS, h, func(g sftp.VerifFile) sftp.VerifFile { f = g; return g }) || f == nil {
		return "", nil, false
	}
	fi, err := f.Stat()
	if err != nil {
		return "", nil, false
	}
	pfi, err := os.Stat(f.Name())
	if err != nil || !os.SameFile(fi, pfi) {
		return "", nil, false
	}
	return f.Name(), pfi, true
}

// osPathOf resolves a request path the way the draft and the server's options say: absolute as it is,
// relative against the working directory (the process directory without one).
func (e *ssEffect) osPathOf(p string) string {
	if filepath.IsAbs(p) || !e.s.cfg.WorkDir {
		return p
	}
	return filepath.Join(e.s.tree, e.s.cfg.Start, p)
}

// before is called with the judged request right before its frame is sent.
func (e *ssEffect) before(q ssReq) {
	e.armed, e.skipWhy, e.old, e.fi, e.path = false, "", nil, nil, ""
	if q.Kind != "write" && q.Kind != "setstat" && q.Kind != "fsetstat" {
		return
	}
	if q.Soft || e.s.cfg.InMem {
		return
	}
	e.armed = true
	if e.s.cfg.Kind == "rs" {
		e.ncalls = e.s.fs.ncalls()
		return
	}
	switch q.Kind {
	case "write", "fsetstat":
		p, fi, ok := e.osFileOf(q.Handle)
		if !ok {
			e.skip("no-file-behind-handle-or-renamed")
			return
		}
		e.path, e.fi = p, fi
	case "setstat":
		e.path = e.osPathOf(q.Path)
		fi, err := os.Stat(e.path)
		if err != nil {
			e.skip("path-does-not-exist")
			return
		}
		e.fi = fi
	}
	if q.Kind == "write" {
		if !e.fi.Mode().IsRegular() || e.fi.Size() > ssEffectMax || q.WrOff > ssEffectMax {
			e.skip("not-a-small-regular-file")
			return
		}
		b, err := os.ReadFile(e.path)
		if err != nil {
			e.skip("unreadable")
			return
		}
		e.old = b
	}
}

var ssWriteAtLine = regexp.MustCompile(`^WriteAt #\d+ \S+ off=(-?\d+) len=(\d+) sha=([0-9a-f]+) `)
var ssSetstatLine = regexp.MustCompile(`(?s)^Filecmd Setstat .* fl=(\d+) attrs=(\{.*\})$`)

// ssReqAttrText is the attribute selection of a judged SETSTAT / FSETSTAT in the handler log's notation.
func ssReqAttrText(a wire.St) string {
	return ssAttrText(a.Flags&wire.ASize != 0, a.Flags&wire.AUIDGID != 0, a.Flags&wire.APerm != 0, a.Flags&wire.ATime != 0, a.Flags&wire.AExt != 0,
		a.Size, a.UID, a.GID, a.Perm, a.Atime, a.Mtime, a.Ext)
}

// after is called with the reply; it returns what the request did wrong.
func (e *ssEffect) after(q ssReq, rep wire.Pkt) (out []ssFinding) {
	if !e.armed {
		return nil
	}
	e.armed = false
	k := e.s.cfg.Kind
	code, isStatus := ssStatusCode(rep)
	ok := isStatus && code == wire.OK
	bucket := func(what string) { e.hist = append(e.hist, fmt.Sprintf("effect/%s/%s/%s", k, q.Kind, what)) }
	if k == "rs" {
		var lines []string
		if c := e.s.fs.callsCopy(); len(c) >= e.ncalls {
			lines = c[e.ncalls:]
		}
		switch q.Kind {
		case "write":
			sum := sha256.Sum256(q.Data)
			want := fmt.Sprintf("off=%d len=%d sha=%x", int64(q.WrOff), len(q.Data), sum[:4])
			n := 0
			for _, l := range lines {
				m := ssWriteAtLine.FindStringSubmatch(l)
				if m == nil {
					continue
				}
				n++
				if got := fmt.Sprintf("off=%s len=%s sha=%s", m[1], m[2], m[3]); got != want {
					out = append(out, ssFinding{Key: "rs/write-handler-arguments", What: fmt.Sprintf("WRITE of %d bytes at offset %d (frame carries %d more bytes after the data): the handler's WriterAt was called with other arguments than the request's data and offset", len(q.Data), q.WrOff, q.Slack), Expected: "WriteAt " + want, Actual: l})
				}
			}
			switch {
			case ok && n != 1:
				out = append(out, ssFinding{Key: "rs/write-handler-calls", What: fmt.Sprintf("WRITE answered OK made %d WriteAt calls on the handler object", n), Expected: "1", Actual: strings.Join(lines, "\n")})
			case n > 0:
				bucket("handler-arguments-checked")
			default:
				bucket("no-handler-call")
			}
		default:
			want := fmt.Sprintf("fl=%d attrs=%s", q.At.Flags, ssReqAttrText(q.At))
			n := 0
			for _, l := range lines {
				m := ssSetstatLine.FindStringSubmatch(l)
				if m == nil {
					continue
				}
				n++
				if got := fmt.Sprintf("fl=%s attrs=%s", m[1], m[2]); got != want {
					out = append(out, ssFinding{Key: "rs/setstat-handler-arguments/" + q.Kind, What: q.Kind + ": the Setstat handler was shown other flags / attributes than the request's flags word selects from its block", Expected: want, Actual: l})
				}
			}
			if n > 0 {
				bucket("handler-arguments-checked")
			} else {
				bucket("no-handler-call")
			}
		}
		return out
	}
	// os-backed
	if e.skipWhy != "" {
		bucket("unchecked/" + e.skipWhy)
		return nil
	}
	if !ok {
		bucket("unchecked/refused")
		return nil
	}
	fi, err := os.Stat(e.path)
	if err != nil || !os.SameFile(fi, e.fi) {
		bucket("unchecked/file-gone")
		return nil
	}
	if q.Kind == "write" {
		if fi.Size() > 2*ssEffectMax {
			out = append(out, ssFinding{Key: "os/write-effect", What: fmt.Sprintf("WRITE of %d bytes at offset %d answered OK left a file of %d bytes", len(q.Data), q.WrOff, fi.Size()), Expected: fmt.Sprintf("at most %d bytes", max(len(e.old), int(q.WrOff)+len(q.Data)))})
			return out
		}
		got, err := os.ReadFile(e.path)
		if err != nil {
			bucket("unchecked/unreadable")
			return nil
		}
		want := e.old
		if len(q.Data) > 0 {
			want = make([]byte, max(len(e.old), int(q.WrOff)+len(q.Data)))
			copy(want, e.old)
			copy(want[q.WrOff:], q.Data)
		}
		if !bytes.Equal(got, want) {
			out = append(out, ssFinding{Key: "os/write-effect", What: fmt.Sprintf("WRITE of %d bytes at offset %d answered OK (frame carries %d more bytes after the data; the file had %d bytes): the file is not its old content with exactly those bytes at that offset", len(q.Data), q.WrOff, q.Slack, len(e.old)),
				Expected: fmt.Sprintf("%d bytes, sha %x", len(want), ssSha4(want)), Actual: fmt.Sprintf("%d bytes, sha %x; first difference at byte %d", len(got), ssSha4(got), ssFirstDiff(got, want))})
		} else {
			bucket("content-checked")
		}
		return out
	}
	// SETSTAT / FSETSTAT answered OK: exactly the selected attributes changed, to the values of the block
	a := q.At
	bad := func(what, exp, act string) {
		out = append(out, ssFinding{Key: fmt.Sprintf("os/setstat-effect/%s/%s", q.Kind, what), What: fmt.Sprintf("%s with flags %#x answered OK: %s of %s is not what the request says", q.Kind, a.Flags, what, strings.TrimPrefix(e.path, e.s.root)), Expected: exp, Actual: act})
	}
	if fi.Mode().IsRegular() {
		switch {
		case a.Flags&wire.ASize != 0 && uint64(fi.Size()) != a.Size:
			bad("size", fmt.Sprint(a.Size), fmt.Sprint(fi.Size()))
		case a.Flags&wire.ASize == 0 && fi.Size() != e.fi.Size():
			bad("size-not-selected", fmt.Sprint(e.fi.Size()), fmt.Sprint(fi.Size()))
		}
	}
	switch {
	case a.Flags&wire.APerm != 0 && uint32(fi.Mode().Perm()) != a.Perm&0o777:
		bad("permissions", fmt.Sprintf("%o", a.Perm&0o777), fmt.Sprintf("%o", fi.Mode().Perm()))
	case a.Flags&wire.APerm == 0 && fi.Mode().Perm() != e.fi.Mode().Perm():
		bad("permissions-not-selected", fmt.Sprintf("%o", e.fi.Mode().Perm()), fmt.Sprintf("%o", fi.Mode().Perm()))
	}
	switch {
	case a.Flags&wire.ATime != 0 && a.Mtime <= 0x7FFFFFFF && fi.ModTime().Unix() != int64(a.Mtime): // (later times: the file system may not hold them)
		bad("mtime", fmt.Sprint(a.Mtime), fmt.Sprint(fi.ModTime().Unix()))
	case a.Flags&(wire.ATime|wire.ASize) == 0 && !fi.ModTime().Equal(e.fi.ModTime()):
		bad("mtime-not-selected", fmt.Sprint(e.fi.ModTime()), fmt.Sprint(fi.ModTime()))
	}
	if s0, ok0 := e.fi.Sys().(*syscall.Stat_t); ok0 {
		if s1, ok1 := fi.Sys().(*syscall.Stat_t); ok1 {
			switch {
			case a.Flags&wire.AUIDGID != 0 && ((a.UID != 0xFFFFFFFF && s1.Uid != a.UID) || (a.GID != 0xFFFFFFFF && s1.Gid != a.GID)):
				bad("owner", fmt.Sprintf("%d:%d", a.UID, a.GID), fmt.Sprintf("%d:%d", s1.Uid, s1.Gid))
			case a.Flags&wire.AUIDGID == 0 && (s1.Uid != s0.Uid || s1.Gid != s0.Gid):
				bad("owner-not-selected", fmt.Sprintf("%d:%d", s0.Uid, s0.Gid), fmt.Sprintf("%d:%d", s1.Uid, s1.Gid))
			}
		}
	}
	if len(out) == 0 {
		bucket("attributes-checked")
	}
	return out
}

func ssSha4(b []byte) []byte { h := sha256.Sum256(b); return h[:4] }

func ssFirstDiff(a, b []byte) int {
	n := min(len(a), len(b))
	for i := 0; i < n; i++ {
		if a[i] != b[i] {
			return i
		}
	}
	return n
}

// ---------- the metamorphic oracle: bytes after the last field mean nothing ----------

// ssCanonical re-encodes the judged requests of stream without the bytes that follow their last field;
// changed says whether any frame lost bytes, first is the kind of the first request that did.
func ssCanonical(stream []byte, reqs []ssReq) (frames [][]byte, changed bool, first string) {
	for _, q := range reqs {
		f := append([]byte(nil), stream[q.Off:q.Off+q.Len]...)
		if q.Slack > 0 && q.Slack < len(f)-5 {
			f = f[:len(f)-q.Slack]
			binary.BigEndian.PutUint32(f, uint32(len(f)-4))
			if !changed {
				first = q.Kind
			}
			changed = true
		}
		frames = append(frames, f)
	}
	return frames, changed, first
}

var ssOpenAttrs = regexp.MustCompile(`(?m)^((?:Filewrite|OpenFile) .*) attrs=[0-9a-f]*$`)

// ssEffectState is the state of a session for the comparison of two runs: the raw attribute bytes an OPEN
// hands to Filewrite / OpenFile are the rest of the frame (the handler has no flags word to read them by)
// and are left out.
func ssEffectState(st string) string { return ssOpenAttrs.ReplaceAllString(st, "$1") }

// ssRunCanon runs the canonical frames (one at a time, each reply read), then rest and EOF, on a fresh
// server of the same configuration and transport (tr: "" or "split"); it returns the replies and the final state.
func ssRunCanon(cfg ssCfg, root, tr string, frames [][]byte, rest []byte, res *ssResult) (reps []wire.Pkt, state string, ok bool) {
	s, err := ssOpenTr(cfg, root, tr, nil)
	if err != nil {
		res.Findings = append(res.Findings, ssFinding{Key: "tie/server-start", What: err.Error()})
		return nil, "", false
	}
	for _, f := range frames {
		s.srv.Send(f)
		rep, err := s.srv.Recv(ssDlHang())
		if err != nil {
			res.Exit, res.Slow = err == errSSTimeout, err == errSSTimeout
			break
		}
		reps = append(reps, rep)
	}
	s.srv.Send(rest)
	s.srv.CloseInput()
	var tmp ssResult
	s.finish(&tmp) // the release oracles of this second run are those of the canonical stream's own case
	if tmp.Exit {
		res.Exit, res.Slow = true, true
		return reps, "", false
	}
	return reps, s.effState(), len(reps) == len(frames)
}

// effState is state() for the comparison of two runs of one process: a request may have made a file
// huge (SETSTAT size 2^31-1: sparse), such a file is described by its size alone.
func (s *ssSess) effState() string {
	if s.cfg.Kind != "os" {
		return s.state()
	}
	var out []string
	filepath.Walk(s.tree, func(p string, fi os.FileInfo, err error) error {
		rel, _ := filepath.Rel(s.tree, p)
		if err != nil {
			out = append(out, rel+" ERR "+err.Error())
			return nil
		}
		line := fmt.Sprintf("%s %s", rel, fi.Mode().String())
		if st, ok := fi.Sys().(*syscall.Stat_t); ok {
			line += fmt.Sprintf(" nlink=%d uid=%d gid=%d", st.Nlink, st.Uid, st.Gid)
		}
		switch {
		case fi.Mode().IsRegular() && fi.Size() > 8*ssEffectMax:
			line += fmt.Sprintf(" size=%d (not read)", fi.Size())
		case fi.Mode().IsRegular():
			b, _ := os.ReadFile(p)
			line += fmt.Sprintf(" size=%d sha=%x", fi.Size(), ssSha4(b))
		case fi.Mode()&os.ModeSymlink != 0:
			t, _ := os.Readlink(p)
			line += " -> " + t
		}
		out = append(out, line)
		return nil
	})
	sort.Strings(out)
	return strings.Join(out, "\n")
}

// ---------- containment ----------

// ssEscapes: a mutation can turn a path of the session into a prefix of itself ("/", "/tmp", a sibling of
// the scratch directory) or into anything else; the os-backed server would act on it for real — as the
// user running the check.  A stream in which a request names a path outside the scratch directories is
// therefore NOT RUN against the os-backed server.  Two independent readings of the stream are judged with the
// shared helpers (lib/contain.go, peers/guard.go): the frames as the independent wire codec decodes them —
// field by field as far as a frame decodes, so that a request whose LATER field is short (refused by a correct
// server, dispatched by one with defect F3) counts with the paths it does carry — and the paths of the
// session's own judge.  It returns what is wrong.
func ssEscapes(cfg ssCfg, root, tree string, stream []byte, reqs []ssReq) (string, bool) {
	if cfg.Kind != "os" {
		return "", false
	}
	wd := "" // relative paths: the working directory, else the process directory (<root>/cwd in a child)
	if cfg.WorkDir {
		wd = filepath.Join(tree, cfg.Start)
	}
	if ok, why := peers.StreamContained(wd, stream); !ok {
		return why, true
	}
	for _, q := range reqs {
		if q.Kind == "realpath" {
			continue // answered lexically
		}
		for _, p := range q.Paths {
			if ok, why := lib.InScratch(wd, p); !ok {
				return why, true
			}
		}
	}
	return "", false
}
